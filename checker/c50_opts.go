package main

// C50-O1..O5: option plumbing agreement between the OUTFILE writer and the LOAD DATA reader.
//
// The rules compare *predicates*, not text: every condition is read off the control-flow graph (which branch
// edges dominate a statement), put into negation normal form, and each literal is canonicalised (x != nil -> set(x),
// len(x) != 0 / x != "" / len(x) > 0 -> len(x)>=1, single-assignment locals replaced by their definition, the
// statement variable printed as "$", the plan node as "%", an iterator field that carries an option as "@.field").

import (
	"fmt"
	"go/ast"
	"go/constant"
	"go/token"
	"go/types"
	"regexp"
	"sort"
	"strconv"
	"strings"

	"golang.org/x/tools/go/cfg"
	"golang.org/x/tools/go/packages"
)

// ---- model ---------------------------------------------------------------------------------------------------

type c50o struct {
	c            *Ctx
	nm           c50Names
	pp, bp, ep   *packages.Package
	intoT, loadT *types.Named
	opts         []string
	isOpt        map[string]bool
	defaults     map[string]constant.Value // option -> default (taken from the Into constructor; D1 decides equality)
	carriers     map[string]string         // "Owner.field" -> option it is initialised from
	carrierPos   map[string]token.Pos
	carrierOwner map[*types.Named]bool
	fns          map[*ast.BlockStmt]*c50fn
}

func c50namedOf(t types.Type) *types.Named {
	if t == nil {
		return nil
	}
	if p, ok := types.Unalias(t).(*types.Pointer); ok {
		t = p.Elem()
	}
	nt, _ := types.Unalias(t).(*types.Named)
	return nt
}

func c50newModel(c *Ctx, nm c50Names) *c50o {
	m := &c50o{c: c, nm: nm, isOpt: map[string]bool{}, defaults: map[string]constant.Value{}, carriers: map[string]string{},
		carrierPos: map[string]token.Pos{}, carrierOwner: map[*types.Named]bool{}, fns: map[*ast.BlockStmt]*c50fn{}}
	m.pp, m.bp, m.ep = c.P.Pkg(nm.planRel), c.P.Pkg(nm.builderRel), c.P.Pkg(nm.execRel)
	if m.pp == nil || m.bp == nil || m.ep == nil {
		return nil
	}
	lookup := func(name string) *types.Named {
		tn, _ := m.pp.Types.Scope().Lookup(name).(*types.TypeName)
		if tn == nil {
			return nil
		}
		nt, _ := tn.Type().(*types.Named)
		return nt
	}
	m.intoT, m.loadT = lookup(nm.intoType), lookup(nm.loadType)
	if m.intoT == nil || m.loadT == nil {
		return nil
	}
	ctor := func(name string, want *types.Named) map[string]ast.Expr {
		_, fd := c.P.FuncDecl(nm.planRel, name)
		if fd == nil {
			return nil
		}
		var out map[string]ast.Expr
		ast.Inspect(fd.Body, func(n ast.Node) bool {
			lit, ok := n.(*ast.CompositeLit)
			if !ok || c50namedOf(m.pp.TypesInfo.TypeOf(lit)) != want {
				return true
			}
			out = map[string]ast.Expr{}
			for _, el := range lit.Elts {
				if kv, ok := el.(*ast.KeyValueExpr); ok {
					if id, ok := kv.Key.(*ast.Ident); ok {
						out[id.Name] = kv.Value
					}
				}
			}
			return false
		})
		return out
	}
	il, ll := ctor(nm.intoCtor, m.intoT), ctor(nm.loadCtor, m.loadT)
	if il == nil || ll == nil {
		return nil
	}
	ist, lst := m.intoT.Underlying().(*types.Struct), m.loadT.Underlying().(*types.Struct)
	for i := 0; i < ist.NumFields(); i++ {
		f := ist.Field(i)
		for j := 0; j < lst.NumFields(); j++ {
			g := lst.Field(j)
			if g.Name() != f.Name() || !types.Identical(g.Type(), f.Type()) {
				continue
			}
			a, b := il[f.Name()], ll[f.Name()]
			if a == nil && b == nil {
				continue
			}
			m.opts = append(m.opts, f.Name())
			m.isOpt[f.Name()] = true
			if a != nil {
				m.defaults[f.Name()] = m.pp.TypesInfo.Types[a].Value
			} else {
				m.defaults[f.Name()] = m.pp.TypesInfo.Types[b].Value
			}
		}
	}
	sort.Strings(m.opts)
	// carriers: fields of other structs initialised from an option of a plan node in a composite literal
	for _, pk := range []*packages.Package{m.ep, m.pp} {
		info := pk.TypesInfo
		for _, file := range pk.Syntax {
			ast.Inspect(file, func(n ast.Node) bool {
				lit, ok := n.(*ast.CompositeLit)
				if !ok {
					return true
				}
				owner := c50namedOf(info.TypeOf(lit))
				if owner == nil || owner == m.intoT || owner == m.loadT {
					return true
				}
				for _, el := range lit.Elts {
					kv, ok := el.(*ast.KeyValueExpr)
					if !ok {
						continue
					}
					k, ok := kv.Key.(*ast.Ident)
					if !ok {
						continue
					}
					if opt := m.optionSel(info, kv.Value); opt != "" {
						key := owner.Obj().Name() + "." + k.Name
						if _, seen := m.carriers[key]; !seen {
							m.carriers[key] = opt
							m.carrierPos[key] = kv.Pos()
							m.carrierOwner[owner] = true
						} else if m.carriers[key] != opt {
							m.carriers[key] += "|" + opt
						}
					}
				}
				return true
			})
		}
	}
	return m
}

// optionSel: e is n.Opt with n a plan node of one of the two types and Opt a shared option -> Opt.
func (m *c50o) optionSel(info *types.Info, e ast.Expr) string {
	sel, ok := ast.Unparen(e).(*ast.SelectorExpr)
	if !ok || !m.isOpt[sel.Sel.Name] {
		return ""
	}
	if s := info.Selections[sel]; s == nil || s.Kind() != types.FieldVal {
		return ""
	}
	if nt := c50namedOf(info.TypeOf(sel.X)); nt == m.intoT || nt == m.loadT {
		return sel.Sel.Name
	}
	return ""
}

// carrierSel: e is x.f with f a carrier field -> ("Owner.f", option).
func (m *c50o) carrierSel(info *types.Info, e ast.Expr) (string, string) {
	sel, ok := ast.Unparen(e).(*ast.SelectorExpr)
	if !ok {
		return "", ""
	}
	if s := info.Selections[sel]; s == nil || s.Kind() != types.FieldVal {
		return "", ""
	}
	nt := c50namedOf(info.TypeOf(sel.X))
	if nt == nil || !m.carrierOwner[nt] {
		return "", ""
	}
	key := nt.Obj().Name() + "." + sel.Sel.Name
	if opt, ok := m.carriers[key]; ok {
		return key, opt
	}
	return "", ""
}

// ---- canonical expressions and literals -------------------------------------------------------------------------

type c50Atom struct {
	Kind   string // set | len | bool | eq | cmp | or
	T      string // subject term
	Op     string
	K      int64
	U      string
	Consts []constant.Value // eq against constants (one, or several for a case clause)
	Neg    bool
	Alts   []string
}

func (a c50Atom) String() string {
	switch a.Kind {
	case "set":
		if a.Neg {
			return "!set(" + a.T + ")"
		}
		return "set(" + a.T + ")"
	case "len":
		return "len(" + a.T + ")" + a.Op + strconv.FormatInt(a.K, 10)
	case "bool":
		if a.Neg {
			return "!" + a.T
		}
		return a.T
	case "eq", "cmp":
		return a.T + a.Op + a.U
	case "or":
		return "(" + strings.Join(a.Alts, " | ") + ")"
	}
	return "?"
}

func c50conj(as []c50Atom) string {
	var ss []string
	for _, a := range as {
		ss = append(ss, a.String())
	}
	sort.Strings(ss)
	return strings.Join(compactStrings(ss), " & ")
}

type c50cx struct {
	m     *c50o
	info  *types.Info
	subst map[types.Object]ast.Expr
	depth int
}

func (x *c50cx) def(id *ast.Ident) ast.Expr {
	if x.depth > 12 {
		return nil
	}
	if o := x.info.Uses[id]; o != nil {
		return x.subst[o]
	}
	return nil
}

func (x *c50cx) constOf(e ast.Expr) constant.Value {
	if tv, ok := x.info.Types[e]; ok {
		return tv.Value
	}
	return nil
}

func (x *c50cx) isNil(e ast.Expr) bool {
	id, ok := ast.Unparen(e).(*ast.Ident)
	if !ok {
		return false
	}
	_, isNil := x.info.Uses[id].(*types.Nil)
	return isNil
}

func (x *c50cx) isASTType(t types.Type) bool {
	nt := c50namedOf(t)
	return nt != nil && nt.Obj().Pkg() != nil && strings.HasSuffix(nt.Obj().Pkg().Path(), x.m.nm.astPkgSuffix)
}

// term prints an expression canonically.
func (x *c50cx) term(e ast.Expr) string {
	e = ast.Unparen(e)
	if v := x.constOf(e); v != nil {
		return v.ExactString()
	}
	switch v := e.(type) {
	case *ast.Ident:
		if x.isNil(v) {
			return "nil"
		}
		o, _ := x.info.Uses[v].(*types.Var)
		if o != nil {
			if nt := c50namedOf(o.Type()); nt != nil && (nt == x.m.intoT || nt == x.m.loadT) {
				return "%"
			}
		}
		if d := x.def(v); d != nil {
			x.depth++
			s := x.term(d)
			x.depth--
			return s
		}
		if o != nil && x.isASTType(o.Type()) {
			return "$" // the statement (or a part of it that is not a plain alias of a path)
		}
		return v.Name
	case *ast.SelectorExpr:
		if key, _ := x.m.carrierSel(x.info, v); key != "" {
			return "@." + v.Sel.Name
		}
		if id, ok := v.X.(*ast.Ident); ok {
			if _, isPkg := x.info.Uses[id].(*types.PkgName); isPkg {
				return id.Name + "." + v.Sel.Name
			}
		}
		return x.term(v.X) + "." + v.Sel.Name
	case *ast.CallExpr:
		if tv, ok := x.info.Types[v.Fun]; ok && tv.IsType() && len(v.Args) == 1 {
			// conversions between string and []byte do not change the option text
			if c50isStringy(tv.Type) && c50isStringy(x.info.TypeOf(v.Args[0])) {
				return x.term(v.Args[0])
			}
			// a conversion between types with the same basic underlying type (e.g. a named bool) keeps the value
			if at := x.info.TypeOf(v.Args[0]); at != nil {
				if a, ok := at.Underlying().(*types.Basic); ok {
					if b, ok := tv.Type.Underlying().(*types.Basic); ok && a.Kind() == b.Kind() {
						return x.term(v.Args[0])
					}
				}
			}
			return types.TypeString(tv.Type, func(p *types.Package) string { return p.Name() }) + "(" + x.term(v.Args[0]) + ")"
		}
		var as []string
		for _, a := range v.Args {
			as = append(as, x.term(a))
		}
		return x.term(v.Fun) + "(" + strings.Join(as, ",") + ")"
	case *ast.BinaryExpr:
		return x.term(v.X) + v.Op.String() + x.term(v.Y)
	case *ast.UnaryExpr:
		return v.Op.String() + x.term(v.X)
	case *ast.StarExpr:
		return "*" + x.term(v.X)
	case *ast.IndexExpr:
		return x.term(v.X) + "[" + x.term(v.Index) + "]"
	case *ast.SliceExpr:
		p := func(e ast.Expr) string {
			if e == nil {
				return ""
			}
			return x.term(e)
		}
		return x.term(v.X) + "[" + p(v.Low) + ":" + p(v.High) + "]"
	}
	return types.ExprString(e)
}

func c50isStringy(t types.Type) bool {
	if t == nil {
		return false
	}
	switch u := t.Underlying().(type) {
	case *types.Basic:
		return u.Info()&types.IsString != 0
	case *types.Slice:
		b, ok := u.Elem().Underlying().(*types.Basic)
		return ok && (b.Kind() == types.Byte || b.Kind() == types.Uint8)
	}
	return false
}

func c50negate(op token.Token) token.Token {
	switch op {
	case token.EQL:
		return token.NEQ
	case token.NEQ:
		return token.EQL
	case token.LSS:
		return token.GEQ
	case token.GEQ:
		return token.LSS
	case token.GTR:
		return token.LEQ
	case token.LEQ:
		return token.GTR
	}
	return op
}

func c50flip(op token.Token) token.Token {
	switch op {
	case token.LSS:
		return token.GTR
	case token.GTR:
		return token.LSS
	case token.LEQ:
		return token.GEQ
	case token.GEQ:
		return token.LEQ
	}
	return op
}

// lits: the conjunction of canonical literals equivalent to (e == pol).
func (x *c50cx) lits(e ast.Expr, pol bool) []c50Atom {
	e = ast.Unparen(e)
	switch v := e.(type) {
	case *ast.UnaryExpr:
		if v.Op == token.NOT {
			return x.lits(v.X, !pol)
		}
	case *ast.BinaryExpr:
		switch v.Op {
		case token.LAND, token.LOR:
			a, b := x.lits(v.X, pol), x.lits(v.Y, pol)
			if (v.Op == token.LAND) == pol {
				return append(a, b...)
			}
			var alts []string
			for _, side := range [][]c50Atom{a, b} {
				if len(side) == 1 && side[0].Kind == "or" {
					alts = append(alts, side[0].Alts...)
				} else {
					alts = append(alts, c50conj(side))
				}
			}
			sort.Strings(alts)
			return []c50Atom{{Kind: "or", Alts: compactStrings(alts)}}
		case token.EQL, token.NEQ, token.LSS, token.LEQ, token.GTR, token.GEQ:
			return []c50Atom{x.cmp(v, pol)}
		}
	case *ast.Ident:
		if d := x.def(v); d != nil {
			x.depth++
			r := x.lits(d, pol)
			x.depth--
			return r
		}
	case *ast.CallExpr:
		if tv, ok := x.info.Types[v.Fun]; ok && tv.IsType() && len(v.Args) == 1 {
			if a, ok := x.info.TypeOf(v.Args[0]).Underlying().(*types.Basic); ok && a.Info()&types.IsBoolean != 0 {
				return x.lits(v.Args[0], pol) // bool(x)
			}
		}
	}
	if v := x.constOf(e); v != nil && v.Kind() == constant.Bool {
		if constant.BoolVal(v) == pol {
			return nil // true
		}
	}
	return []c50Atom{{Kind: "bool", T: x.term(e), Neg: !pol}}
}

func (x *c50cx) lenArg(e ast.Expr) ast.Expr {
	e = ast.Unparen(e)
	if id, ok := e.(*ast.Ident); ok {
		if d := x.def(id); d != nil {
			e = ast.Unparen(d)
		}
	}
	call, ok := e.(*ast.CallExpr)
	if ok && len(call.Args) == 1 && IsBuiltinCall(x.info, call, "len") {
		return call.Args[0]
	}
	return nil
}

func (x *c50cx) cmp(v *ast.BinaryExpr, pol bool) c50Atom {
	op := v.Op
	if !pol {
		op = c50negate(op)
	}
	l, r := ast.Unparen(v.X), ast.Unparen(v.Y)
	isK := func(e ast.Expr) bool { return x.isNil(e) || x.constOf(e) != nil }
	if isK(l) && !isK(r) {
		l, r = r, l
		op = c50flip(op)
	}
	eq := op == token.EQL || op == token.NEQ
	if x.isNil(r) && eq {
		return c50Atom{Kind: "set", T: x.term(l), Neg: op == token.EQL}
	}
	if cv := x.constOf(r); cv != nil {
		if cv.Kind() == constant.String && constant.StringVal(cv) == "" && eq {
			if op == token.EQL {
				return c50Atom{Kind: "len", T: x.term(l), Op: "<=", K: 0}
			}
			return c50Atom{Kind: "len", T: x.term(l), Op: ">=", K: 1}
		}
		if la := x.lenArg(l); la != nil && cv.Kind() == constant.Int {
			if k, exact := constant.Int64Val(cv); exact {
				t := x.term(la)
				switch op {
				case token.GTR:
					return c50Atom{Kind: "len", T: t, Op: ">=", K: k + 1}
				case token.GEQ:
					return c50Atom{Kind: "len", T: t, Op: ">=", K: k}
				case token.LSS:
					return c50Atom{Kind: "len", T: t, Op: "<=", K: k - 1}
				case token.LEQ:
					return c50Atom{Kind: "len", T: t, Op: "<=", K: k}
				case token.EQL:
					if k == 0 {
						return c50Atom{Kind: "len", T: t, Op: "<=", K: 0}
					}
					return c50Atom{Kind: "len", T: t, Op: "==", K: k}
				case token.NEQ:
					if k == 0 {
						return c50Atom{Kind: "len", T: t, Op: ">=", K: 1}
					}
					return c50Atom{Kind: "len", T: t, Op: "!=", K: k}
				}
			}
		}
		if eq {
			return c50Atom{Kind: "eq", T: x.term(l), Op: op.String(), U: cv.ExactString(), Consts: []constant.Value{cv}}
		}
	}
	a, b := x.term(l), x.term(r)
	if eq {
		if b < a {
			a, b = b, a
		}
		return c50Atom{Kind: "eq", T: a, Op: op.String(), U: b}
	}
	if op == token.GTR || op == token.GEQ {
		a, b, op = b, a, c50flip(op)
	}
	return c50Atom{Kind: "cmp", T: a, Op: op.String(), U: b}
}

// ---- per-function control-flow facts ---------------------------------------------------------------------------

type c50fn struct {
	m          *c50o
	pk         *packages.Package
	name       string
	body       *ast.BlockStmt
	g          *cfg.CFG
	preds      map[*cfg.Block][]*cfg.Block
	caseSwitch map[*ast.CaseClause]*ast.SwitchStmt
	caseLabel  map[ast.Expr]*ast.CaseClause
	defStmt    map[types.Object]ast.Node
	cx         *c50cx
}

func (m *c50o) fn(pk *packages.Package, name string, body *ast.BlockStmt) *c50fn {
	if f, ok := m.fns[body]; ok {
		return f
	}
	info := pk.TypesInfo
	f := &c50fn{m: m, pk: pk, name: name, body: body, g: m.c.P.CFG(info, body), preds: map[*cfg.Block][]*cfg.Block{},
		caseSwitch: map[*ast.CaseClause]*ast.SwitchStmt{}, caseLabel: map[ast.Expr]*ast.CaseClause{}, defStmt: map[types.Object]ast.Node{}}
	for _, b := range f.g.Blocks {
		for _, s := range b.Succs {
			f.preds[s] = append(f.preds[s], b)
		}
	}
	// single-assignment locals
	writes := map[types.Object]int{}
	defs := map[types.Object]ast.Expr{}
	lhsObj := func(e ast.Expr) types.Object {
		id, ok := ast.Unparen(e).(*ast.Ident)
		if !ok {
			return nil
		}
		if o := info.Defs[id]; o != nil {
			return o
		}
		return info.Uses[id]
	}
	ast.Inspect(body, func(n ast.Node) bool {
		switch v := n.(type) {
		case *ast.SwitchStmt:
			for _, cl := range v.Body.List {
				cc := cl.(*ast.CaseClause)
				f.caseSwitch[cc] = v
				for _, e := range cc.List {
					f.caseLabel[e] = cc
				}
			}
		case *ast.AssignStmt:
			for i, l := range v.Lhs {
				if o := lhsObj(l); o != nil {
					writes[o]++
					if len(v.Lhs) == len(v.Rhs) {
						defs[o] = v.Rhs[i]
					} else {
						defs[o] = nil
					}
					if _, seen := f.defStmt[o]; !seen {
						f.defStmt[o] = v
					}
				}
			}
		case *ast.ValueSpec:
			for i, id := range v.Names {
				if o := info.Defs[id]; o != nil {
					writes[o]++
					if len(v.Values) == len(v.Names) {
						defs[o] = v.Values[i]
					} else {
						defs[o] = nil
						if len(v.Values) == 0 {
							writes[o]++ // zero value: a later assignment makes it multi-valued
						}
					}
					if _, seen := f.defStmt[o]; !seen {
						f.defStmt[o] = v
					}
				}
			}
		case *ast.IncDecStmt:
			if o := lhsObj(v.X); o != nil {
				writes[o] += 2
			}
		case *ast.RangeStmt:
			for _, e := range []ast.Expr{v.Key, v.Value} {
				if e != nil {
					if o := lhsObj(e); o != nil {
						writes[o] += 2
					}
				}
			}
		case *ast.UnaryExpr:
			if v.Op == token.AND {
				if o := lhsObj(v.X); o != nil {
					writes[o] += 2
				}
			}
		}
		return true
	})
	subst := map[types.Object]ast.Expr{}
	for o, n := range writes {
		if _, isVar := o.(*types.Var); !isVar || n != 1 || defs[o] == nil {
			continue
		}
		// only value-like definitions are substituted: the result of a function call names a fresh object (e.g. the plan
		// node), conversions and len() are values
		if call, isCall := ast.Unparen(defs[o]).(*ast.CallExpr); isCall {
			tv, ok := info.Types[call.Fun]
			if !(ok && tv.IsType()) && !IsBuiltinCall(info, call, "len") {
				continue
			}
		}
		subst[o] = defs[o]
	}
	f.cx = &c50cx{m: m, info: info, subst: subst}
	m.fns[body] = f
	return f
}

func (f *c50fn) blockOf(target ast.Node) *cfg.Block {
	for _, b := range f.g.Blocks {
		if !b.Live {
			continue
		}
		for _, n := range b.Nodes {
			if n.Pos() <= target.Pos() && target.End() <= n.End() {
				return b
			}
		}
	}
	return nil
}

func (f *c50fn) reach(skipFrom *cfg.Block, skipIdx int, skipBlock *cfg.Block) map[*cfg.Block]bool {
	seen := map[*cfg.Block]bool{}
	if len(f.g.Blocks) == 0 || f.g.Blocks[0] == skipBlock {
		return seen
	}
	work := []*cfg.Block{f.g.Blocks[0]}
	seen[f.g.Blocks[0]] = true
	for len(work) > 0 {
		b := work[len(work)-1]
		work = work[:len(work)-1]
		for i, s := range b.Succs {
			if (b == skipFrom && i == skipIdx) || s == skipBlock || seen[s] {
				continue
			}
			seen[s] = true
			work = append(work, s)
		}
	}
	return seen
}

// guards: canonical literals that hold whenever control reaches target (branch edges and case clauses that dominate it).
func (f *c50fn) guards(target ast.Node) ([]c50Atom, bool) {
	B := f.blockOf(target)
	if B == nil {
		return nil, false
	}
	var out []c50Atom
	info := f.pk.TypesInfo
	for _, b := range f.g.Blocks {
		if !b.Live {
			continue
		}
		// (a) two-way branches on a boolean condition
		if len(b.Succs) == 2 && len(b.Nodes) > 0 && b.Succs[0] != b.Succs[1] {
			cond, ok := b.Nodes[len(b.Nodes)-1].(ast.Expr)
			if ok {
				if cc := f.caseLabel[cond]; cc != nil && f.caseSwitch[cc] != nil && f.caseSwitch[cc].Tag != nil {
					ok = false
				}
			}
			if ok {
				if bt, isB := info.TypeOf(cond).Underlying().(*types.Basic); !isB || bt.Info()&types.IsBoolean == 0 {
					ok = false
				}
			}
			if ok && !(b == B && target.Pos() <= cond.End()) {
				for k := 0; k < 2; k++ {
					if !f.reach(b, k, nil)[B] {
						// without edge k the target is unreachable: every path to it takes edge k (k == 0: condition true)
						out = append(out, f.cx.lits(cond, k == 0)...)
					}
				}
			}
		}
		// (b) the body of a case clause of a tagged switch
		if b.Kind == cfg.KindSwitchCaseBody {
			cc, _ := b.Stmt.(*ast.CaseClause)
			sw := f.caseSwitch[cc]
			if cc == nil || sw == nil || sw.Tag == nil || cc.List == nil {
				continue
			}
			onlyLabels := true
			for _, p := range f.preds[b] {
				if !p.Live {
					continue
				}
				if len(p.Nodes) == 0 || len(p.Succs) == 0 || p.Succs[0] != b {
					onlyLabels = false
					continue
				}
				if last, _ := p.Nodes[len(p.Nodes)-1].(ast.Expr); last == nil || f.caseLabel[last] != cc {
					onlyLabels = false
				}
			}
			if !onlyLabels || (b != B && f.reach(nil, 0, b)[B]) {
				continue
			}
			a := c50Atom{Kind: "eq", T: f.cx.term(sw.Tag), Op: "=="}
			var us []string
			for _, e := range cc.List {
				if v := f.cx.constOf(e); v != nil {
					a.Consts = append(a.Consts, v)
				} else {
					a.Consts = nil
					us = append(us, f.cx.term(e))
					continue
				}
				us = append(us, f.cx.term(e))
			}
			sort.Strings(us)
			a.U = strings.Join(us, "|")
			out = append(out, a)
		}
	}
	return out, true
}

// neverReturns: every live exit of the function body is a call to panic (one level deep).
func (m *c50o) neverReturns(fn *types.Func) bool {
	fd := m.c.P.Decl(fn)
	if fd == nil || fd.Body == nil {
		return false
	}
	pk := m.c.P.PkgOf(fn)
	if pk == nil {
		return false
	}
	g := m.c.P.CFG(pk.TypesInfo, fd.Body)
	exits := 0
	for _, b := range g.Blocks {
		if !b.Live || len(b.Succs) != 0 {
			continue
		}
		exits++
		if len(b.Nodes) == 0 {
			return false
		}
		es, ok := b.Nodes[len(b.Nodes)-1].(*ast.ExprStmt)
		if !ok {
			return false
		}
		call, ok := es.X.(*ast.CallExpr)
		if !ok || !IsBuiltinCall(pk.TypesInfo, call, "panic") {
			return false
		}
	}
	return exits > 0
}

// isWriteCall: the call emits text: a Write* method of a type that implements io.Writer, or fmt.Fprint*/io.WriteString.
func c50isWriteCall(info *types.Info, call *ast.CallExpr) bool {
	fn := Callee(info, call)
	if fn == nil {
		return false
	}
	if fn.Pkg() != nil {
		full := fn.Pkg().Path() + "." + fn.Name()
		switch full {
		case "fmt.Fprint", "fmt.Fprintf", "fmt.Fprintln", "io.WriteString":
			return true
		}
	}
	sig, _ := fn.Type().(*types.Signature)
	if sig == nil || sig.Recv() == nil || !strings.HasPrefix(fn.Name(), "Write") {
		return false
	}
	rt := sig.Recv().Type()
	if _, isPtr := rt.(*types.Pointer); !isPtr {
		if _, isIface := rt.Underlying().(*types.Interface); !isIface {
			rt = types.NewPointer(rt)
		}
	}
	w := types.NewMethodSet(rt).Lookup(nil, "Write")
	if w == nil {
		return false
	}
	ws, _ := w.Type().(*types.Signature)
	return ws != nil && ws.Params().Len() == 1 && c50isStringy(ws.Params().At(0).Type())
}

// ---- templates: what text an expression denotes, as constant pieces and option references ----------------------------

type c50Part struct {
	Const string
	Opt   string // option name (writer side) — set when the piece is the option's text
	Unk   string // unreadable piece
}

func (f *c50fn) template(e ast.Expr) []c50Part {
	info := f.pk.TypesInfo
	e = ast.Unparen(e)
	if v := f.cx.constOf(e); v != nil {
		switch v.Kind() {
		case constant.String:
			return []c50Part{{Const: constant.StringVal(v)}}
		case constant.Int:
			if k, ok := constant.Int64Val(v); ok && k >= 0 && k < 0x110000 {
				if bt, isB := info.TypeOf(e).Underlying().(*types.Basic); isB && (bt.Kind() == types.Uint8 || bt.Kind() == types.Int32 || bt.Kind() == types.UntypedRune) {
					if bt.Kind() == types.Uint8 {
						return []c50Part{{Const: string([]byte{byte(k)})}}
					}
					return []c50Part{{Const: string(rune(k))}}
				}
			}
		}
	}
	if opt := f.m.optionSel(info, e); opt != "" {
		return []c50Part{{Opt: opt}}
	}
	if _, opt := f.m.carrierSel(info, e); opt != "" {
		return []c50Part{{Opt: opt}}
	}
	switch v := e.(type) {
	case *ast.Ident:
		if d := f.cx.def(v); d != nil {
			return f.template(d)
		}
	case *ast.BinaryExpr:
		if v.Op == token.ADD {
			return c50join(f.template(v.X), f.template(v.Y))
		}
	case *ast.CallExpr:
		if tv, ok := info.Types[v.Fun]; ok && tv.IsType() && len(v.Args) == 1 && c50isStringy(tv.Type) && c50isStringy(info.TypeOf(v.Args[0])) {
			return f.template(v.Args[0])
		}
		if fn := Callee(info, v); fn != nil && fn.Pkg() != nil && fn.Pkg().Path() == "fmt" && (fn.Name() == "Sprintf" || fn.Name() == "Sprint") && len(v.Args) > 0 {
			if fn.Name() == "Sprint" {
				var out []c50Part
				for _, a := range v.Args {
					if !c50isStringy(info.TypeOf(a)) {
						return []c50Part{{Unk: types.ExprString(e)}}
					}
					out = c50join(out, f.template(a))
				}
				return out
			}
			fv := f.cx.constOf(v.Args[0])
			if fv == nil || fv.Kind() != constant.String {
				return []c50Part{{Unk: types.ExprString(e)}}
			}
			format := constant.StringVal(fv)
			var out []c50Part
			arg := 1
			for i := 0; i < len(format); i++ {
				if format[i] != '%' {
					out = c50join(out, []c50Part{{Const: string(format[i])}})
					continue
				}
				i++
				if i >= len(format) {
					return []c50Part{{Unk: types.ExprString(e)}}
				}
				switch format[i] {
				case '%':
					out = c50join(out, []c50Part{{Const: "%"}})
				case 's', 'v':
					if arg >= len(v.Args) || !c50isStringy(info.TypeOf(v.Args[arg])) {
						out = c50join(out, []c50Part{{Unk: "%" + string(format[i])}})
					} else {
						out = c50join(out, f.template(v.Args[arg]))
					}
					arg++
				default:
					return []c50Part{{Unk: types.ExprString(e)}}
				}
			}
			return out
		}
	}
	return []c50Part{{Unk: types.ExprString(e)}}
}

func c50join(a, b []c50Part) []c50Part {
	out := append([]c50Part{}, a...)
	for _, p := range b {
		if n := len(out); n > 0 && out[n-1].Opt == "" && out[n-1].Unk == "" && p.Opt == "" && p.Unk == "" {
			out[n-1].Const += p.Const
			continue
		}
		out = append(out, p)
	}
	return out
}

func c50showParts(ps []c50Part) string {
	var ss []string
	for _, p := range ps {
		switch {
		case p.Opt != "":
			ss = append(ss, "<"+p.Opt+">")
		case p.Unk != "":
			ss = append(ss, "?"+p.Unk+"?")
		default:
			ss = append(ss, strconv.Quote(p.Const))
		}
	}
	return strings.Join(ss, "+")
}

// ---- the rules ------------------------------------------------------------------------------------------------

type c50Floors struct{ o1, o2, o3, o4, o5, o6 int }

func runC50Opts(c *Ctx, nm c50Names, fl c50Floors) {
	if c.fixtureMode {
		fl = c50Floors{}
	}
	c.Rule("C50-O1", "per option: the planbuilder replaces the default by the user's value under the same canonical predicate (branch conditions that dominate the assignment, minus those that dominate the creation of the node) and with the same value expression for "+nm.intoType+" and for "+nm.loadType, fl.o1)
	c.Rule("C50-O2", "per iterator field that carries an option of "+nm.loadType+"/"+nm.intoType+": it is initialised from one option only and, if it is named after an option, from that option", fl.o2)
	c.Rule("C50-O3", "NULL representation: what the writer emits for a nil value with escaping disabled / enabled is what the reader maps to NULL (word compared against the field; escape letter whose arm produces such a word)", fl.o3)
	c.Rule("C50-O4", "per option value that the planbuilder rejects for "+nm.loadType+": the same canonical condition is rejected for "+nm.intoType+" (a file cannot be written with options that the reader refuses)", fl.o4)
	c.Rule("C50-O5", "per executor function and option with a non-empty default: the default delimiter is not hard-coded: the writer emits no text containing the literal default, and neither executor uses a constant equal to it anywhere else (except, in the reader, as the text an escape letter stands for, and in a comparison with the option itself)", fl.o5)
	c.Rule("C50-O6", "every "+nm.intoCtor+" call that names an output file and every "+nm.loadCtor+" call is followed, in the same planbuilder function, by the statement overrides of every option on the new node; literals of the two node types occur only in their constructors (copies keep the options)", fl.o6)
	m := c50newModel(c, nm)
	if m == nil || len(m.opts) == 0 {
		c.Undecided("C50-O1", "model", 0, "plan node types, constructors or shared options not found")
		return
	}
	m.ruleO1O4()
	m.ruleO2()
	m.ruleO6()
	w, readers := m.execFuncs()
	if w == nil || len(readers) == 0 {
		c.Undecided("C50-O3", "executors", 0, "writer function or reader functions not found in "+nm.execRel)
		return
	}
	m.ruleO3(w, readers)
	m.ruleO5(w, readers)
}

// enclosing function body (FuncDecl or FuncLit) of every option assignment in the planbuilder
type c50Override struct {
	side  string // intoType | loadType
	opt   string
	as    *ast.AssignStmt
	idx   int
	fn    *c50fn
	nodeX ast.Expr
}

func (m *c50o) overrides() ([]c50Override, []*c50fn) {
	var out []c50Override
	var fns []*c50fn
	seenFn := map[*c50fn]bool{}
	info := m.bp.TypesInfo
	for _, file := range m.bp.Syntax {
		for _, d := range file.Decls {
			fd, ok := d.(*ast.FuncDecl)
			if !ok || fd.Body == nil {
				continue
			}
			type frame struct {
				body *ast.BlockStmt
				name string
			}
			stack := []frame{{fd.Body, DeclName(fd)}}
			var nodes []ast.Node
			ast.Inspect(fd.Body, func(n ast.Node) bool {
				if n == nil {
					last := nodes[len(nodes)-1]
					nodes = nodes[:len(nodes)-1]
					if _, ok := last.(*ast.FuncLit); ok {
						stack = stack[:len(stack)-1]
					}
					return true
				}
				nodes = append(nodes, n)
				if fl, ok := n.(*ast.FuncLit); ok {
					stack = append(stack, frame{fl.Body, DeclName(fd) + "$lit"})
				}
				as, ok := n.(*ast.AssignStmt)
				if !ok {
					return true
				}
				for i, l := range as.Lhs {
					opt := m.optionSel(info, l)
					if opt == "" {
						continue
					}
					sel := ast.Unparen(l).(*ast.SelectorExpr)
					side := m.nm.intoType
					if c50namedOf(info.TypeOf(sel.X)) == m.loadT {
						side = m.nm.loadType
					}
					top := stack[len(stack)-1]
					f := m.fn(m.bp, top.name, top.body)
					if !seenFn[f] {
						seenFn[f] = true
						fns = append(fns, f)
					}
					out = append(out, c50Override{side: side, opt: opt, as: as, idx: i, fn: f, nodeX: sel.X})
				}
				return true
			})
		}
	}
	return out, fns
}

func (m *c50o) ruleO1O4() {
	c := m.c
	ovs, fns := m.overrides()
	type entry struct {
		text string
		pos  token.Pos
	}
	per := map[string]map[string][]entry{m.nm.intoType: {}, m.nm.loadType: {}}
	for _, ov := range ovs {
		gs, ok := ov.fn.guards(ov.as)
		if !ok {
			c.Undecided("C50-O1", ov.opt, ov.as.Pos(), "assignment not found in the control-flow graph of "+ov.fn.name)
			return
		}
		// conditions that already hold when the node is created say which statement is being built, not when the option is overridden
		drop := m.creationGuards(ov)
		var keep []c50Atom
		for _, a := range gs {
			if !drop[a.String()] {
				keep = append(keep, a)
			}
		}
		val := "?"
		if len(ov.as.Rhs) == len(ov.as.Lhs) {
			rhs := ov.as.Rhs[ov.idx]
			val = ov.fn.cx.term(rhs)
			// bool option set from a bool expression: X = e  ==  if e { X = true } when the default is false
			if dv := m.defaults[ov.opt]; dv != nil && dv.Kind() == constant.Bool && !constant.BoolVal(dv) && ov.fn.cx.constOf(rhs) == nil && ov.as.Tok == token.ASSIGN {
				keep = append(keep, ov.fn.cx.lits(rhs, true)...)
				val = "true"
			}
		} else {
			val = fmt.Sprintf("result %d of %s", ov.idx, ov.fn.cx.term(ov.as.Rhs[0]))
		}
		if ov.as.Tok != token.ASSIGN {
			val = ov.as.Tok.String() + " " + val
		} else if dv := m.defaults[ov.opt]; dv != nil && dv.Kind() == constant.String && constant.StringVal(dv) == "" {
			// the default is the empty string: "only when the given text is non-empty" changes nothing
			var k2 []c50Atom
			for _, a := range keep {
				if !(a.Kind == "len" && a.Op == ">=" && a.K == 1 && a.T == val) {
					k2 = append(k2, a)
				}
			}
			keep = k2
		}
		g := c50conj(keep)
		if g == "" {
			g = "always"
		}
		per[ov.side][ov.opt] = append(per[ov.side][ov.opt], entry{g + " => " + val, ov.as.Pos()})
	}
	render := func(es []entry) string {
		var ss []string
		for _, e := range es {
			ss = append(ss, e.text)
		}
		sort.Strings(ss)
		if len(ss) == 0 {
			return "(never overridden)"
		}
		return strings.Join(ss, " ; ")
	}
	for _, opt := range m.opts {
		a, b := per[m.nm.intoType][opt], per[m.nm.loadType][opt]
		pos := token.NoPos
		if len(b) > 0 {
			pos = b[0].pos
		} else if len(a) > 0 {
			pos = a[0].pos
		}
		ra, rb := render(a), render(b)
		// an option that the reader ignores altogether (named exception of C50-D3) cannot be plumbed differently in an observable way
		if why := m.readerIgnores(opt); why != "" {
			c.Exc("C50-O1", opt, pos, "the LOAD DATA reader ignores this option ("+why+"): the two override predicates (today: ["+ra+"] / ["+rb+"]) cannot disagree observably")
			continue
		}
		c.Check(ra == rb, "C50-O1", opt, pos, ra,
			fmt.Sprintf("option %s: %s overrides it as [%s] but %s as [%s]: the same FIELDS/LINES clause leaves the writer and the reader with different values (default %s)",
				opt, m.nm.intoType, ra, m.nm.loadType, rb, c50constStr(m.defaults[opt])))
	}

	// ---- O4: rejected option values -----------------------------------------------------------------------
	type rej struct {
		opt, cond string
		pos       token.Pos
	}
	rejects := map[string][]rej{}
	for _, f := range fns {
		info := f.pk.TypesInfo
		ast.Inspect(f.body, func(n ast.Node) bool {
			if _, ok := n.(*ast.FuncLit); ok {
				return false
			}
			ifs, ok := n.(*ast.IfStmt)
			if !ok || len(ifs.Body.List) == 0 {
				return true
			}
			es, ok := ifs.Body.List[len(ifs.Body.List)-1].(*ast.ExprStmt)
			if !ok {
				return true
			}
			call, ok := es.X.(*ast.CallExpr)
			if !ok {
				return true
			}
			if !IsBuiltinCall(info, call, "panic") {
				fn := Callee(info, call)
				if fn == nil || !m.neverReturns(fn) {
					return true
				}
			}
			// which node's option does the condition test?
			side, opt := "", ""
			ast.Inspect(ifs.Cond, func(x ast.Node) bool {
				if e, ok := x.(ast.Expr); ok {
					if o := m.optionSel(info, e); o != "" {
						opt = o
						side = m.nm.intoType
						if c50namedOf(info.TypeOf(ast.Unparen(e).(*ast.SelectorExpr).X)) == m.loadT {
							side = m.nm.loadType
						}
					}
				}
				return true
			})
			if opt == "" {
				return true
			}
			rejects[side] = append(rejects[side], rej{opt, c50conj(f.cx.lits(ifs.Cond, true)), ifs.Pos()})
			return true
		})
	}
	has := map[string]bool{}
	for _, r := range rejects[m.nm.intoType] {
		has[r.cond] = true
	}
	for _, r := range rejects[m.nm.loadType] {
		c.Check(has[r.cond], "C50-O4", r.cond, r.pos, "also rejected for "+m.nm.intoType,
			fmt.Sprintf("%s is rejected when %s but %s accepts it: a file written with such a %s cannot be loaded with the same options", m.nm.loadType, r.cond, m.nm.intoType, r.opt))
	}
	for _, r := range rejects[m.nm.intoType] {
		c.Note("C50-O4", m.nm.intoType+" rejects "+r.cond, r.pos, "writer-side rejection (no file is produced: not a round-trip obligation)")
	}
}

func c50constStr(v constant.Value) string {
	if v == nil {
		return "?"
	}
	return v.ExactString()
}

func (m *c50o) ruleO2() {
	c := m.c
	var keys []string
	for k := range m.carriers {
		keys = append(keys, k)
	}
	sort.Strings(keys)
	for _, key := range keys {
		opt := m.carriers[key]
		field := key[strings.Index(key, ".")+1:]
		pos := m.carrierPos[key]
		if strings.Contains(opt, "|") {
			c.Bad("C50-O2", key, pos, fmt.Sprintf("%s is initialised from different options (%s) in different literals", key, opt))
			continue
		}
		namesake := ""
		for _, o := range m.opts {
			if strings.EqualFold(o, field) {
				namesake = o
			}
		}
		if namesake != "" && namesake != opt {
			c.Bad("C50-O2", key, pos, fmt.Sprintf("%s is named after option %s but is initialised from option %s: the reader uses the %s text where the writer used the %s text", key, namesake, opt, opt, namesake))
			continue
		}
		c.Ok("C50-O2", key, pos, "carries "+opt)
	}
	if len(keys) == 0 {
		c.Note("C50-O2", "carriers", 0, "no struct carries an option: both executors read the plan nodes directly")
	}
}

type c50execFn struct {
	fd *ast.FuncDecl
	pk *packages.Package
	f  *c50fn
}

// execFuncs: the OUTFILE writer (the exec function reading most Into options) and the reader functions (functions of
// the exec/plan packages, other than the writer, that read a LoadData option or a carrier field).
func (m *c50o) execFuncs() (*c50execFn, []*c50execFn) {
	var writer *c50execFn
	best := 0
	var readers []*c50execFn
	m.c.P.EachFuncDecl([]string{m.nm.execRel, m.nm.planRel}, func(pk *packages.Package, fd *ast.FuncDecl) {
		if fd.Body == nil {
			return
		}
		info := pk.TypesInfo
		nInto, nLoad := 0, 0
		ast.Inspect(fd.Body, func(n ast.Node) bool {
			sel, ok := n.(*ast.SelectorExpr)
			if !ok {
				return true
			}
			if m.optionSel(info, sel) != "" {
				if c50namedOf(info.TypeOf(sel.X)) == m.intoT {
					nInto++
				} else {
					nLoad++
				}
			} else if k, _ := m.carrierSel(info, sel); k != "" {
				nLoad++
			}
			return true
		})
		if nInto > best && pk == m.ep {
			best = nInto
			writer = &c50execFn{fd: fd, pk: pk}
		}
		if nLoad > 0 {
			readers = append(readers, &c50execFn{fd: fd, pk: pk})
		}
	})
	if writer != nil {
		writer.f = m.fn(writer.pk, DeclName(writer.fd), writer.fd.Body)
	}
	var rs []*c50execFn
	for _, r := range readers {
		if writer != nil && r.fd == writer.fd {
			continue
		}
		r.f = m.fn(r.pk, DeclName(r.fd), r.fd.Body)
		rs = append(rs, r)
	}
	sort.Slice(rs, func(i, j int) bool { return DeclName(rs[i].fd) < DeclName(rs[j].fd) })
	return writer, rs
}

// escape class of a guard set: "off" (escape option empty), "on" (non-empty) or "" (not tested)
func (m *c50o) escClass(f *c50fn, gs []c50Atom) string {
	cls := ""
	for _, a := range gs {
		if a.Kind != "len" || !m.isEscTerm(a.T) {
			continue
		}
		if a.Op == "<=" && a.K == 0 {
			cls = "off"
		}
		if a.Op == ">=" && a.K >= 1 {
			cls = "on"
		}
	}
	return cls
}

func (m *c50o) isEscTerm(t string) bool {
	if t == "%."+m.nm.escapeField {
		return true
	}
	if strings.HasPrefix(t, "@.") {
		for k, o := range m.carriers {
			if o == m.nm.escapeField && strings.HasSuffix(k, "."+t[2:]) {
				return true
			}
		}
	}
	return false
}

// optionOnly: the literal only talks about options (plan-node options, carrier fields, constants).
func (m *c50o) optionOnly(s string) bool {
	for _, t := range c50reOptTerm.FindAllString(s, -1) {
		if t[0] == '@' || !m.isOpt[t[2:]] {
			return false // a carrier that is not rewritten, or a node field that is not a format option
		}
	}
	rest := c50reOptTerm.ReplaceAllString(s, "")
	rest = strings.NewReplacer("len(", "(", "set(", "(").Replace(rest)
	rest = c50reQuoted.ReplaceAllString(rest, "")
	for _, r := range rest {
		if r == '_' || (r >= 'a' && r <= 'z') || (r >= 'A' && r <= 'Z') {
			return false
		}
	}
	return true
}

var (
	c50reOptTerm = regexp.MustCompile(`[@%]\.[A-Za-z_0-9]+`)
	c50reQuoted  = regexp.MustCompile(`"(?:[^"\\]|\\.)*"`)
)

// toOptions rewrites carrier terms (@.field) into the option they carry (%.Option).
func (m *c50o) toOptions(s string) string {
	return c50reOptTerm.ReplaceAllStringFunc(s, func(t string) string {
		if t[0] != '@' {
			return t
		}
		for k, o := range m.carriers {
			if strings.HasSuffix(k, "."+t[2:]) {
				return "%." + o
			}
		}
		return t
	})
}

func (m *c50o) ruleO3(w *c50execFn, readers []*c50execFn) {
	c := m.c
	wname := DeclName(w.fd)
	clsName := map[string]string{"off": "disabled", "on": "enabled"}
	// ---- reader: words mapped to NULL, escape letters -------------------------------------------------------------
	type word struct {
		w      string
		cls    string
		pos    token.Pos
		fn     string
		guards []string // option-only literals under which the word is mapped to NULL
	}
	var words []word
	type arm struct {
		text string
		ok   bool
		pos  token.Pos
	}
	arms := map[byte]arm{}
	escSwitch := ""
	var escSwitchPos token.Pos
	var escSwitchGuards []string // option-only literals, carriers rewritten to options
	for _, r := range readers {
		info := r.pk.TypesInfo
		ast.Inspect(r.fd.Body, func(n ast.Node) bool {
			switch v := n.(type) {
			case *ast.CallExpr:
				hasNil := false
				for _, a := range v.Args {
					if r.f.cx.isNil(a) {
						hasNil = true
					}
				}
				if !hasNil {
					return true
				}
				gs, ok := r.f.guards(v)
				if !ok {
					return true
				}
				var optOnly []string
				for _, a := range gs {
					if s := m.toOptions(a.String()); m.optionOnly(s) {
						optOnly = append(optOnly, s)
					}
				}
				for _, a := range gs {
					if a.Kind == "eq" && a.Op == "==" && len(a.Consts) > 0 {
						for _, k := range a.Consts {
							if k.Kind() == constant.String {
								words = append(words, word{constant.StringVal(k), m.escClass(r.f, gs), v.Pos(), DeclName(r.fd), optOnly})
							}
						}
					}
				}
			case *ast.SwitchStmt:
				if v.Tag == nil {
					return true
				}
				bt, isB := info.TypeOf(v.Tag).Underlying().(*types.Basic)
				if !isB || bt.Info()&types.IsInteger == 0 {
					return true
				}
				gs, ok := r.f.guards(v.Tag)
				if !ok {
					return true
				}
				mentions := false
				var optOnly []string
				for _, a := range gs {
					s := m.toOptions(a.String())
					if strings.Contains(s, "%."+m.nm.escapeField) {
						mentions = true
					}
					if m.optionOnly(s) {
						optOnly = append(optOnly, s)
					}
				}
				if !mentions {
					return true
				}
				escSwitch, escSwitchPos, escSwitchGuards = DeclName(r.fd), v.Pos(), optOnly
				for _, cl := range v.Body.List {
					cc := cl.(*ast.CaseClause)
					text, okArm := "", true
					for _, st := range cc.Body {
						ast.Inspect(st, func(y ast.Node) bool {
							call, ok := y.(*ast.CallExpr)
							if !ok || !c50isWriteCall(info, call) || len(call.Args) == 0 {
								return true
							}
							ps := r.f.template(call.Args[len(call.Args)-1])
							if len(ps) == 1 && ps[0].Opt == "" && ps[0].Unk == "" {
								text += ps[0].Const
							} else {
								okArm = false
							}
							return true
						})
					}
					for _, e := range cc.List {
						if k := r.f.cx.constOf(e); k != nil && k.Kind() == constant.Int {
							if b, exact := constant.Int64Val(k); exact && b >= 0 && b < 256 {
								arms[byte(b)] = arm{text, okArm, cc.Pos()}
							}
						}
					}
				}
			}
			return true
		})
	}
	accepts := func(s, cls string) bool {
		for _, wd := range words {
			if wd.w == s && (wd.cls == "" || wd.cls == cls) {
				return true
			}
		}
		return false
	}
	var wordList []string
	for _, wd := range words {
		wordList = append(wordList, strconv.Quote(wd.w))
	}
	sort.Strings(wordList)
	wordList = compactStrings(wordList)
	c.Notef("C50-O3 reader: words mapped to NULL %v; escape-letter switch in %s with %d letters, enabled when %v", wordList, escSwitch, len(arms), escSwitchGuards)

	// ---- writer: what is emitted for a nil value -------------------------------------------------------------------
	winfo := w.pk.TypesInfo
	nilTerms := map[string]bool{}
	ast.Inspect(w.fd.Body, func(n ast.Node) bool {
		be, ok := n.(*ast.BinaryExpr)
		if !ok || (be.Op != token.EQL && be.Op != token.NEQ) {
			return true
		}
		for _, pair := range [][2]ast.Expr{{be.X, be.Y}, {be.Y, be.X}} {
			if !w.f.cx.isNil(pair[1]) {
				continue
			}
			if it, ok := winfo.TypeOf(pair[0]).Underlying().(*types.Interface); ok && it.NumMethods() == 0 {
				nilTerms[w.f.cx.term(pair[0])] = true
			}
		}
		return true
	})
	type emission struct {
		parts  []c50Part
		cls    string
		pos    token.Pos
		guards []string // option-only literals
		gkey   string   // all literals: emissions with the same key happen together
	}
	var ems []emission
	ast.Inspect(w.fd.Body, func(n ast.Node) bool {
		call, ok := n.(*ast.CallExpr)
		if !ok || !c50isWriteCall(winfo, call) || len(call.Args) == 0 {
			return true
		}
		gs, ok := w.f.guards(call)
		if !ok {
			return true
		}
		isNull := false
		var optOnly []string
		for _, a := range gs {
			if a.Kind == "set" && a.Neg && nilTerms[a.T] {
				isNull = true
			}
			if s := m.toOptions(a.String()); m.optionOnly(s) {
				optOnly = append(optOnly, s)
			}
		}
		if !isNull {
			return true
		}
		var ps []c50Part
		fn := Callee(winfo, call)
		args := call.Args
		if fn != nil && fn.Pkg() != nil && (fn.Pkg().Path() == "fmt" || fn.Pkg().Path() == "io") {
			args = args[1:] // the destination
			if strings.HasSuffix(fn.Name(), "f") {
				ps, args = []c50Part{{Unk: types.ExprString(call)}}, nil
			}
		}
		for _, a := range args {
			ps = c50join(ps, w.f.template(a))
		}
		ems = append(ems, emission{ps, m.escClass(w.f, gs), call.Pos(), optOnly, c50conj(gs)})
		return true
	})
	keyOf := func(cls string) string { return wname + "/NULL with escaping " + clsName[cls] }
	if len(ems) == 0 {
		c.Undecided("C50-O3", keyOf("off"), w.fd.Pos(), "no emission under a `value == nil` test found in "+wname+": cannot read how NULL is written")
		return
	}
	// emissions made under the same conditions form one representation (WriteString(esc); WriteString("N") == WriteString(esc+"N"))
	type group struct {
		parts  []c50Part
		cls    string
		pos    token.Pos
		guards []string
	}
	var groups []*group
	byKey := map[string]*group{}
	for _, e := range ems {
		g := byKey[e.gkey]
		if g == nil {
			g = &group{cls: e.cls, pos: e.pos, guards: e.guards}
			byKey[e.gkey] = g
			groups = append(groups, g)
		}
		g.parts = c50join(g.parts, e.parts)
	}
	sort.Slice(groups, func(i, j int) bool { return groups[i].pos < groups[j].pos })
	implies := func(have map[string]bool, g string) bool {
		if have[g] {
			return true
		}
		if strings.HasPrefix(g, "(") && strings.HasSuffix(g, ")") {
			for _, alt := range strings.Split(g[1:len(g)-1], " | ") { // a disjunction holds if one alternative does
				if have[alt] {
					return true
				}
			}
		}
		return false
	}
	usedKey := map[string]bool{}
	covered := map[string]bool{}
	for _, g := range groups {
		shown := c50showParts(g.parts)
		classes := []string{g.cls}
		if g.cls == "" {
			classes = []string{"off", "on"}
		}
		have := map[string]bool{}
		for _, x := range g.guards {
			have[x] = true
		}
		isWord := len(g.parts) == 1 && g.parts[0].Opt == "" && g.parts[0].Unk == ""
		isEscLetter := len(g.parts) == 2 && g.parts[0].Opt == m.nm.escapeField && g.parts[1].Opt == "" && g.parts[1].Unk == "" && len(g.parts[1].Const) == 1
		for _, cls := range classes {
			covered[cls] = true
			key := keyOf(cls)
			if usedKey[key] {
				key += " (alternative: " + shown + ")"
			}
			usedKey[key] = true
			switch {
			case isWord:
				c.Check(accepts(g.parts[0].Const, cls), "C50-O3", key, g.pos, "writer emits "+shown+", reader maps that word to NULL",
					fmt.Sprintf("with escaping %s %s writes %s for NULL, but the reader maps only %v to NULL: NULLs are read back as strings", clsName[cls], wname, shown, wordList))
			case isEscLetter && cls == "off":
				c.Bad("C50-O3", key, g.pos, fmt.Sprintf("%s writes %s for NULL also when escaping is disabled (%s empty): the file holds the bare letter, which is read back as a string", wname, shown, m.nm.escapeField))
			case isEscLetter:
				letter := g.parts[1].Const[0]
				a, found := arms[letter]
				switch {
				case escSwitch == "":
					c.Undecided("C50-O3", key, g.pos, "no switch over the byte after the escape character found in the reader functions: cannot read the escape letters")
				case !found:
					c.Bad("C50-O3", key, g.pos, fmt.Sprintf("%s writes %s for NULL but the reader's escape switch (%s) has no case %q: the field is read back as the string %q", wname, shown, escSwitch, string(letter), string(letter)))
				case !a.ok:
					c.Undecided("C50-O3", key, a.pos, fmt.Sprintf("the arm for escape letter %q in %s does not append a constant", string(letter), escSwitch))
				default:
					c.Check(accepts(a.text, cls), "C50-O3", key, g.pos, fmt.Sprintf("writer emits %s, reader arm %q yields %q which it maps to NULL", shown, string(letter), a.text),
						fmt.Sprintf("%s writes %s for NULL; the reader's arm for escape letter %q yields %q, but only %v are mapped to NULL: NULLs are read back as strings", wname, shown, string(letter), a.text, wordList))
				}
			default:
				c.Undecided("C50-O3", key, g.pos, fmt.Sprintf("NULL is written as %s with escaping %s: neither a constant word nor <%s>+letter", shown, clsName[cls], m.nm.escapeField))
			}
		}
		if !isEscLetter {
			continue
		}
		// (b) the reader processes escape letters under every option condition under which the writer relies on them
		if escSwitch != "" {
			var missing []string
			for _, x := range escSwitchGuards {
				if !implies(have, x) {
					missing = append(missing, x)
				}
			}
			sort.Strings(missing)
			key := wname + "/escape letters honoured whenever written"
			if usedKey[key] {
				key += " (alternative: " + shown + ")"
			}
			usedKey[key] = true
			c.Check(len(missing) == 0, "C50-O3", key, escSwitchPos, fmt.Sprintf("reader condition %v is implied by the writer's %v", escSwitchGuards, g.guards),
				fmt.Sprintf("%s writes %s for NULL whenever %v, but %s only interprets escape letters when additionally %s: under the remaining option combinations the NULL marker is read as data",
					wname, shown, g.guards, escSwitch, strings.Join(missing, " & ")))
		}
		// (c) where the writer uses the escape letter, a bare word that the reader maps to NULL is the text of a string value
		for _, wd := range words {
			key := fmt.Sprintf("%s/word %s read as NULL with escaping enabled", wd.fn, strconv.Quote(wd.w))
			if usedKey[key] {
				continue
			}
			usedKey[key] = true
			applies := true
			for _, x := range wd.guards {
				if !implies(have, x) {
					applies = false
				}
			}
			c.Check(!applies, "C50-O3", key, wd.pos, fmt.Sprintf("the word is only mapped to NULL when %v, which excludes the writer's %v", wd.guards, g.guards),
				fmt.Sprintf("%s maps the field text %s to NULL also when %v, but %s then writes NULL as %s and writes string values verbatim: the string value %s is read back as NULL",
					wd.fn, strconv.Quote(wd.w), g.guards, wname, shown, strconv.Quote(wd.w)))
		}
	}
	for _, cls := range []string{"off", "on"} {
		if !covered[cls] {
			c.Bad("C50-O3", keyOf(cls), w.fd.Pos(), fmt.Sprintf("%s writes nothing for a nil value when escaping is %s: the field is read back as an empty string", wname, clsName[cls]))
		}
	}
}

// ruleO6: nodes that configure a file format are only created where their options are filled in.
func (m *c50o) ruleO6() {
	c := m.c
	info0 := m.pp.TypesInfo
	ctorOf := map[*types.Func]*types.Named{}
	ctorName := map[*types.Named]string{m.intoT: m.nm.intoCtor, m.loadT: m.nm.loadCtor}
	for t, name := range ctorName {
		if fn := LookupFunc(m.pp, name); fn != nil {
			ctorOf[fn] = t
		}
	}
	if len(ctorOf) != 2 {
		c.Undecided("C50-O6", "constructors", 0, "constructor functions not found")
		return
	}
	// which constructor parameter becomes the output-file field (a node without an output file configures no format)
	fileParam := -1
	if m.nm.outfileField != "" {
		if _, fd := c.P.FuncDecl(m.nm.planRel, m.nm.intoCtor); fd != nil {
			var params []types.Object
			for _, fl := range fd.Type.Params.List {
				for _, id := range fl.Names {
					params = append(params, info0.Defs[id])
				}
			}
			ast.Inspect(fd.Body, func(n ast.Node) bool {
				kv, ok := n.(*ast.KeyValueExpr)
				if !ok {
					return true
				}
				if k, ok := kv.Key.(*ast.Ident); ok && k.Name == m.nm.outfileField {
					if v, ok := ast.Unparen(kv.Value).(*ast.Ident); ok {
						for i, p := range params {
							if p != nil && info0.Uses[v] == p {
								fileParam = i
							}
						}
					}
				}
				return true
			})
		}
		if fileParam < 0 {
			c.Undecided("C50-O6", m.nm.intoCtor+"/"+m.nm.outfileField, 0, "cannot find the constructor parameter that becomes "+m.nm.outfileField)
			return
		}
	}
	ovs, _ := m.overrides()
	skipped := 0
	c.P.EachModuleFuncDecl(func(pk *packages.Package, fd *ast.FuncDecl) {
		info := pk.TypesInfo
		self, _ := info.Defs[fd.Name].(*types.Func)
		var parents []ast.Node
		ast.Inspect(fd.Body, func(n ast.Node) bool {
			if n == nil {
				parents = parents[:len(parents)-1]
				return true
			}
			parents = append(parents, n)
			switch v := n.(type) {
			case *ast.CompositeLit:
				t := c50namedOf(info.TypeOf(v))
				if t != m.intoT && t != m.loadT {
					return true
				}
				if len(parents) >= 2 {
					if u, ok := parents[len(parents)-2].(*ast.UnaryExpr); ok && u.Op == token.AND {
						_ = u
					}
				}
				key := DeclName(fd) + "/literal " + t.Obj().Name()
				c.Check(self != nil && ctorOf[self] == t, "C50-O6", key, v.Pos(), "the constructor's literal",
					fmt.Sprintf("%s builds a %s literal outside %s: the format options of the new node are whatever the literal says, not what the statement configured", DeclName(fd), t.Obj().Name(), ctorName[t]))
			case *ast.CallExpr:
				fn := Callee(info, v)
				t := ctorOf[fn]
				if fn == nil || t == nil {
					return true
				}
				argTerm := ""
				if t == m.intoT && fileParam >= 0 && fileParam < len(v.Args) {
					if k, ok := info.Types[v.Args[fileParam]]; ok && k.Value != nil && k.Value.Kind() == constant.String && constant.StringVal(k.Value) == "" {
						skipped++
						return true // no output file: the node configures no file format
					}
					argTerm = "(" + m.nm.outfileField + "=" + types.ExprString(v.Args[fileParam]) + ")"
				}
				key := DeclName(fd) + "/" + fn.Name() + argTerm
				// the result must be the node variable that receives the overrides of every option
				var nodeObj types.Object
				if len(parents) >= 2 {
					if as, ok := parents[len(parents)-2].(*ast.AssignStmt); ok && len(as.Lhs) == 1 && len(as.Rhs) == 1 {
						if id, ok := as.Lhs[0].(*ast.Ident); ok {
							if nodeObj = info.Defs[id]; nodeObj == nil {
								nodeObj = info.Uses[id]
							}
						}
					}
				}
				got := map[string]bool{}
				if nodeObj != nil && pk == m.bp {
					for _, ov := range ovs {
						if id, ok := ast.Unparen(ov.nodeX).(*ast.Ident); ok && info.Uses[id] == nodeObj {
							got[ov.opt] = true
						}
					}
				}
				var missing []string
				for _, o := range m.opts {
					if !got[o] {
						missing = append(missing, o)
					}
				}
				c.Check(len(missing) == 0, "C50-O6", key, v.Pos(), "every option is overridden from the statement on the new node",
					fmt.Sprintf("%s creates a %s with %s but never sets %v on it from the statement: the node keeps the defaults whatever FIELDS/LINES clause was given (the other statement honours the clause)", DeclName(fd), t.Obj().Name(), fn.Name(), missing))
			}
			return true
		})
	})
	if skipped > 0 {
		c.Notef("C50-O6: %d %s call(s) with a constant empty %s (no file format involved) not examined", skipped, m.nm.intoCtor, m.nm.outfileField)
	}
}

func (m *c50o) ruleO5(w *c50execFn, readers []*c50execFn) {
	c := m.c
	type dflt struct {
		opt string
		s   string
	}
	var ds []dflt
	for _, o := range m.opts {
		if v := m.defaults[o]; v != nil && v.Kind() == constant.String && constant.StringVal(v) != "" {
			ds = append(ds, dflt{o, constant.StringVal(v)})
		}
	}
	fns := append([]*c50execFn{w}, readers...)
	for _, ef := range fns {
		info := ef.pk.TypesInfo
		f := ef.f
		mentionsOpt := func(e ast.Expr) bool {
			found := false
			var walk func(e ast.Node, depth int)
			walk = func(e ast.Node, depth int) {
				ast.Inspect(e, func(n ast.Node) bool {
					switch v := n.(type) {
					case *ast.SelectorExpr:
						if m.optionSel(info, v) != "" {
							found = true
						} else if k, _ := m.carrierSel(info, v); k != "" {
							found = true
						}
					case *ast.Ident:
						if depth < 8 {
							if o := info.Uses[v]; o != nil {
								if d := f.cx.subst[o]; d != nil {
									walk(d, depth+1)
								}
							}
						}
					}
					return !found
				})
			}
			walk(e, 0)
			return found
		}
		constIs := func(e ast.Expr, d string, contains bool) bool {
			v := f.cx.constOf(e)
			if v == nil {
				return false
			}
			switch v.Kind() {
			case constant.String:
				if contains {
					return strings.Contains(constant.StringVal(v), d)
				}
				return constant.StringVal(v) == d
			case constant.Int:
				bt, isB := info.TypeOf(e).Underlying().(*types.Basic)
				if !isB || len(d) != 1 || !(bt.Kind() == types.Uint8 || bt.Kind() == types.Int32 || bt.Kind() == types.UntypedRune) {
					return false
				}
				k, exact := constant.Int64Val(v)
				return exact && k == int64(d[0])
			}
			return false
		}
		for _, d := range ds {
			var hits []string
			hitPos := token.NoPos
			hit := func(pos token.Pos, what string) {
				if !hitPos.IsValid() {
					hitPos = pos
				}
				hits = append(hits, what+" at "+c.P.Rel(pos))
			}
			// every outermost constant expression of the function, with its context
			exempt := map[ast.Expr]bool{} // constants compared with an expression that itself is the option
			var visit func(n ast.Node, inWrite bool)
			visit = func(root ast.Node, inWrite bool) {
				ast.Inspect(root, func(n ast.Node) bool {
					if n == nil || n == root {
						return true
					}
					switch v := n.(type) {
					case *ast.BinaryExpr:
						if v.Op == token.EQL || v.Op == token.NEQ {
							if mentionsOpt(v.Y) {
								exempt[ast.Unparen(v.X)] = true
							}
							if mentionsOpt(v.X) {
								exempt[ast.Unparen(v.Y)] = true
							}
						}
					case *ast.SwitchStmt:
						if v.Tag != nil && mentionsOpt(v.Tag) {
							for _, cl := range v.Body.List {
								for _, e := range cl.(*ast.CaseClause).List {
									exempt[ast.Unparen(e)] = true
								}
							}
						}
					case *ast.CallExpr:
						if !inWrite && c50isWriteCall(info, v) {
							visit(v.Fun, inWrite)
							for _, a := range v.Args {
								visit(&ast.ParenExpr{X: a}, true)
							}
							return false
						}
					}
					e, ok := n.(ast.Expr)
					if !ok || f.cx.constOf(e) == nil {
						return true
					}
					if exempt[ast.Unparen(e)] {
						return false
					}
					switch {
					case ef == w && inWrite:
						if constIs(e, d.s, true) {
							hit(e.Pos(), "emitted text "+types.ExprString(e))
						}
					case ef != w && inWrite:
						// what an escape letter stands for (\n -> newline) is appended, not matched against the input
					default:
						if constIs(e, d.s, false) {
							hit(e.Pos(), "constant "+types.ExprString(e))
						}
					}
					return false
				})
			}
			visit(ef.fd.Body, false)
			key := DeclName(ef.fd) + "/" + d.opt
			if len(hits) == 0 {
				c.Ok("C50-O5", key, ef.fd.Pos(), "no literal "+strconv.Quote(d.s))
			} else {
				c.Bad("C50-O5", key, hitPos, fmt.Sprintf("%s hard-codes %s, the default of %s (%s): with a different %s the writer and the reader no longer use the same delimiter", DeclName(ef.fd), strconv.Quote(d.s), d.opt, strings.Join(hits, "; "), d.opt))
			}
		}
	}
}

var c50rePath = regexp.MustCompile(`\$(?:\.[A-Za-z_0-9]+)+`)

// ruleD2: per option, the statement field paths that the override (value and guards) draws on are the same for both nodes.
func (m *c50o) ruleD2() {
	c := m.c
	ovs, _ := m.overrides()
	paths := map[string]map[string]map[string]bool{m.nm.intoType: {}, m.nm.loadType: {}}
	first := map[string]token.Pos{}
	for _, ov := range ovs {
		gs, ok := ov.fn.guards(ov.as)
		if !ok {
			c.Undecided("C50-D2", ov.opt, ov.as.Pos(), "assignment not found in the control-flow graph of "+ov.fn.name)
			return
		}
		drop := m.creationGuards(ov)
		set := paths[ov.side][ov.opt]
		if set == nil {
			set = map[string]bool{}
			paths[ov.side][ov.opt] = set
		}
		if _, seen := first[ov.side+"."+ov.opt]; !seen {
			first[ov.side+"."+ov.opt] = ov.as.Pos()
		}
		add := func(text string) {
			for _, p := range c50rePath.FindAllString(text, -1) {
				parts := strings.Split(p[2:], ".")
				for i := 1; i <= len(parts); i++ {
					set[strings.Join(parts[:i], ".")] = true
				}
			}
		}
		for _, a := range gs {
			if !drop[a.String()] {
				add(a.String())
			}
		}
		if len(ov.as.Rhs) == len(ov.as.Lhs) {
			add(ov.fn.cx.term(ov.as.Rhs[ov.idx]))
		} else {
			add(ov.fn.cx.term(ov.as.Rhs[0]))
		}
	}
	render := func(set map[string]bool) string {
		var ks []string
		for k := range set {
			ks = append(ks, k)
		}
		sort.Strings(ks)
		return "{" + strings.Join(ks, ", ") + "}"
	}
	for _, f := range m.opts {
		a, b := render(paths[m.nm.intoType][f]), render(paths[m.nm.loadType][f])
		pos := first[m.nm.intoType+"."+f]
		if !pos.IsValid() {
			pos = first[m.nm.loadType+"."+f]
		}
		if why := m.readerIgnores(f); why != "" {
			c.Exc("C50-D2", f, pos, "the LOAD DATA reader ignores this option ("+why+"): override sources (today: "+a+" / "+b+") cannot disagree observably")
			continue
		}
		c.Check(a == b, "C50-D2", f, pos, a,
			fmt.Sprintf("option %s is overridden from %s for %s but from %s for %s: the same FIELDS/LINES clause configures the writer and the reader differently", f, a, m.nm.intoType, b, m.nm.loadType))
	}
}

// creationGuards: the literals that already hold where the node variable of the override is created.
func (m *c50o) creationGuards(ov c50Override) map[string]bool {
	drop := map[string]bool{}
	if id, ok := ast.Unparen(ov.nodeX).(*ast.Ident); ok {
		if o := ov.fn.pk.TypesInfo.Uses[id]; o != nil {
			if ds := ov.fn.defStmt[o]; ds != nil {
				if dg, ok := ov.fn.guards(ds); ok {
					for _, a := range dg {
						drop[a.String()] = true
					}
				}
			}
		}
	}
	return drop
}

// readerIgnores: every iterator field carrying the option is a named exception of C50-D3 (stored, never read).
func (m *c50o) readerIgnores(opt string) string {
	if m.c.fixtureMode {
		return ""
	}
	carried, why := 0, ""
	for k, o := range m.carriers {
		if o != opt {
			continue
		}
		carried++
		r, ok := c50Exceptions[k]
		if !ok {
			return ""
		}
		why = r
	}
	if carried == 0 {
		return ""
	}
	return why
}
