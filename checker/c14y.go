package main

import (
	"fmt"
	"go/types"
	"sort"
	"strings"

	"golang.org/x/tools/go/ssa"
)

// C14-Y1 — prefix-length truncation is symmetric.
//
// A unique-key comparator that receives two rows and the index's prefix lengths ([]uint16)
// must apply the SAME function of (cell, declared prefix length) to both cells before they
// are compared. Decided on the SSA form (reaching definitions are exact there, so a bound
// variable that is re-initialised between the two truncations is distinguished from one that
// is not):
//   * population: every function of the package with >= 2 parameters of the row type and a
//     parameter of type []uint16;
//   * truncation sites: every slice operation x[lo:hi] whose operand derives (def-use closure:
//     phi, conversions, type assertions, index/field loads, builtin and other calls = union of
//     their operands, loads of address-taken locals = every stored value) from exactly one row
//     parameter A — in the function itself or in a same-package helper it calls statically with
//     a cell of A (helper summaries in terms of the helper's parameters, 2 levels);
//   * obligation per row parameter A: every bound of every A-site derives from the []uint16
//     parameter and from NO other row parameter (no def-use path from the other cell or its
//     length into the bound);
//   * symmetry: the static types truncated on behalf of each row parameter are the same set
//     (a []byte arm dropped on one side truncates one cell only).
// Control dependence is not followed.

type c14yParams struct {
	rels    []string
	rowRel  string
	rowType string
	floor   int
}

var c14yRepo = c14yParams{rels: []string{"memory"}, rowRel: "sql", rowType: "Row", floor: 3}

type c14ySite struct {
	pos    string
	xType  string
	xSrc   map[int]bool // parameter indices the sliced operand derives from
	bSrc   map[int]bool // parameter indices the bounds derive from
	chains map[int][]string
	via    string
}

type c14yAn struct {
	c     *Ctx
	memo  map[*ssa.Function][]c14ySite
	stack map[*ssa.Function]bool
}

// sources: backward def-use closure of v inside fn; returns parameter index -> chain of steps.
func (a *c14yAn) sources(fn *ssa.Function, v ssa.Value) map[int][]string {
	out := map[int][]string{}
	type item struct {
		v     ssa.Value
		chain []string
	}
	seen := map[ssa.Value]bool{}
	work := []item{{v, nil}}
	pidx := map[*ssa.Parameter]int{}
	for i, p := range fn.Params {
		pidx[p] = i
	}
	for len(work) > 0 {
		it := work[0]
		work = work[1:]
		if it.v == nil || seen[it.v] {
			continue
		}
		seen[it.v] = true
		step := func() []string {
			s := it.v.String()
			if len(s) > 70 {
				s = s[:70] + "…"
			}
			if in, ok := it.v.(ssa.Instruction); ok && in.Pos().IsValid() {
				s = a.c.P.Rel(in.Pos()) + ": " + s
			}
			return append(append([]string{}, it.chain...), s)
		}
		push := func(vs ...ssa.Value) {
			ch := step()
			for _, x := range vs {
				if x != nil {
					work = append(work, item{x, ch})
				}
			}
		}
		switch x := it.v.(type) {
		case *ssa.Parameter:
			if i, ok := pidx[x]; ok {
				if _, have := out[i]; !have {
					out[i] = append(append([]string{}, it.chain...), "parameter "+x.Name())
				}
			}
		case *ssa.Const, *ssa.Global, *ssa.FreeVar, *ssa.Function, *ssa.Builtin:
		case *ssa.Phi:
			push(x.Edges...)
		case *ssa.Alloc:
			// address-taken local: every value stored into it (flow-insensitive)
			if refs := x.Referrers(); refs != nil {
				for _, r := range *refs {
					switch s := r.(type) {
					case *ssa.Store:
						if s.Addr == x {
							push(s.Val)
						}
					case *ssa.IndexAddr:
						if rr := s.Referrers(); rr != nil {
							for _, r2 := range *rr {
								if st, ok := r2.(*ssa.Store); ok && st.Addr == s {
									push(st.Val)
								}
							}
						}
					case *ssa.FieldAddr:
						if rr := s.Referrers(); rr != nil {
							for _, r2 := range *rr {
								if st, ok := r2.(*ssa.Store); ok && st.Addr == s {
									push(st.Val)
								}
							}
						}
					}
				}
			}
		case *ssa.Call:
			push(x.Call.Args...)
			if x.Call.IsInvoke() {
				push(x.Call.Value)
			} else if _, isFn := x.Call.Value.(*ssa.Function); !isFn {
				if _, isB := x.Call.Value.(*ssa.Builtin); !isB {
					push(x.Call.Value)
				}
			}
		default:
			if in, ok := it.v.(ssa.Instruction); ok {
				var ops []*ssa.Value
				for _, op := range in.Operands(ops) {
					if op != nil && *op != nil {
						push(*op)
					}
				}
			}
		}
	}
	return out
}

// sites: the truncation sites of fn in terms of fn's parameters.
func (a *c14yAn) sites(fn *ssa.Function, depth int) []c14ySite {
	if s, ok := a.memo[fn]; ok {
		return s
	}
	if a.stack[fn] || depth > 2 || fn == nil || len(fn.Blocks) == 0 {
		return nil
	}
	a.stack[fn] = true
	defer delete(a.stack, fn)
	var out []c14ySite
	set := func(m map[int][]string) map[int]bool {
		s := map[int]bool{}
		for i := range m {
			s[i] = true
		}
		return s
	}
	for _, b := range fn.Blocks {
		for _, in := range b.Instrs {
			switch x := in.(type) {
			case *ssa.Slice:
				if x.Low == nil && x.High == nil && x.Max == nil {
					continue // x[:] is not a truncation
				}
				xs := a.sources(fn, x.X)
				bs := map[int][]string{}
				for _, bv := range []ssa.Value{x.Low, x.High, x.Max} {
					if bv == nil {
						continue
					}
					for i, ch := range a.sources(fn, bv) {
						if _, have := bs[i]; !have {
							bs[i] = ch
						}
					}
				}
				out = append(out, c14ySite{pos: a.c.P.Rel(x.Pos()), xType: types.TypeString(x.X.Type(), func(*types.Package) string { return "" }), xSrc: set(xs), bSrc: set(bs), chains: bs})
			case *ssa.Call:
				g := x.Call.StaticCallee()
				if g == nil || g.Pkg == nil || fn.Pkg == nil || g.Pkg != fn.Pkg || len(g.Blocks) == 0 {
					continue
				}
				for _, gs := range a.sites(g, depth+1) {
					s := c14ySite{pos: a.c.P.Rel(x.Pos()), xType: gs.xType, xSrc: map[int]bool{}, bSrc: map[int]bool{}, chains: map[int][]string{}, via: g.Name() + " (" + gs.pos + ")"}
					for k := range gs.xSrc {
						if k < len(x.Call.Args) {
							for i := range a.sources(fn, x.Call.Args[k]) {
								s.xSrc[i] = true
							}
						}
					}
					for k := range gs.bSrc {
						if k < len(x.Call.Args) {
							for i, ch := range a.sources(fn, x.Call.Args[k]) {
								s.bSrc[i] = true
								if _, have := s.chains[i]; !have {
									s.chains[i] = append([]string{fmt.Sprintf("%s: argument %d of %s, which bounds the slice at %s", a.c.P.Rel(x.Pos()), k, g.Name(), gs.pos)}, ch...)
								}
							}
						}
					}
					out = append(out, s)
				}
			}
		}
	}
	a.memo[fn] = out
	return out
}

func runC14Y(c *Ctx, p c14yParams) {
	c.Rule("C14-Y1", "prefix-length truncation is symmetric: in every function that receives two rows and the index prefix lengths ([]uint16), each bound of a slice applied to a cell of one row derives from the prefix-length parameter and from no cell of the other row (SSA def-use closure, helper summaries), and both rows have the same set of truncated cell types", p.floor)
	var rowT types.Type
	if pk := c.P.Pkg(p.rowRel); pk != nil {
		if tn, ok := pk.Types.Scope().Lookup(p.rowType).(*types.TypeName); ok {
			rowT = tn.Type()
		}
	}
	if rowT == nil {
		c.Undecided("C14-Y1", "anchors", 0, "row type "+p.rowRel+"."+p.rowType+" not found")
		return
	}
	prefT := types.NewSlice(types.Typ[types.Uint16])
	an := &c14yAn{c: c, memo: map[*ssa.Function][]c14ySite{}, stack: map[*ssa.Function]bool{}}
	c.P.SSA()
	type cand struct {
		fn   *types.Func
		rows []int
		pref []int
	}
	var cands []cand
	for _, rel := range p.rels {
		pk := c.P.Pkg(rel)
		if pk == nil {
			c.Undecided("C14-Y1", "anchors", 0, "package "+rel+" not loaded")
			continue
		}
		for fn, fd := range c.P.decls {
			if fn.Pkg() != pk.Types || fd.Body == nil || strings.HasSuffix(c.P.Fset.Position(fd.Pos()).Filename, "_test.go") {
				continue
			}
			sig := fn.Type().(*types.Signature)
			off := 0
			if sig.Recv() != nil {
				off = 1 // ssa parameters include the receiver
			}
			cd := cand{fn: fn}
			for i := 0; i < sig.Params().Len(); i++ {
				t := sig.Params().At(i).Type()
				if types.Identical(t, rowT) {
					cd.rows = append(cd.rows, i+off)
				} else if types.Identical(t, prefT) {
					cd.pref = append(cd.pref, i+off)
				}
			}
			if len(cd.rows) >= 2 && len(cd.pref) >= 1 {
				cands = append(cands, cd)
			}
		}
	}
	sort.Slice(cands, func(i, j int) bool { return FuncName(cands[i].fn) < FuncName(cands[j].fn) })
	for _, cd := range cands {
		sf := c.P.SSAFunc(cd.fn)
		name := ngFuncKey(cd.fn)
		if sf == nil || len(sf.Blocks) == 0 {
			c.Undecided("C14-Y1", name, cd.fn.Pos(), "no SSA body")
			continue
		}
		isRow := map[int]bool{}
		for _, r := range cd.rows {
			isRow[r] = true
		}
		sites := an.sites(sf, 0)
		perRow := map[int][]c14ySite{}
		var mixed []string
		for _, s := range sites {
			var rs []int
			for i := range s.xSrc {
				if isRow[i] {
					rs = append(rs, i)
				}
			}
			switch len(rs) {
			case 0:
			case 1:
				perRow[rs[0]] = append(perRow[rs[0]], s)
			default:
				mixed = append(mixed, s.pos+": the sliced operand derives from more than one row parameter")
			}
		}
		if len(perRow) == 0 && len(mixed) == 0 {
			// a forwarder hands both rows and the prefix lengths to another comparator
			fwd := false
			for _, b := range sf.Blocks {
				for _, in := range b.Instrs {
					if call, ok := in.(*ssa.Call); ok {
						if g := call.Call.StaticCallee(); g != nil && g != sf {
							nr, np := 0, 0
							for _, arg := range call.Call.Args {
								if types.Identical(arg.Type(), rowT) {
									nr++
								} else if types.Identical(arg.Type(), prefT) {
									np++
								}
							}
							if nr >= 2 && np >= 1 {
								fwd = true
							}
						}
					}
				}
			}
			if fwd {
				c.Note("C14-Y1", name, cd.fn.Pos(), "forwards both rows and the prefix lengths to another comparator: decided there")
			} else {
				c.Undecided("C14-Y1", name, cd.fn.Pos(), "the function receives two rows and prefix lengths but no slice of a row cell is found (in it or in a same-package helper): how the prefix length is applied cannot be read")
			}
			continue
		}
		for _, r := range cd.rows {
			pname := sf.Params[r].Name()
			key := name + "/bound of " + pname
			ss := perRow[r]
			if len(ss) == 0 {
				c.Bad("C14-Y1", key, cd.fn.Pos(), fmt.Sprintf("%s: %s truncates the cells of another row parameter to the prefix length but never those of %s: the two compared cells are not normalised alike", c.P.Rel(cd.fn.Pos()), name, pname))
				continue
			}
			var bad, path []string
			for _, s := range ss {
				hasPref := false
				for _, pi := range cd.pref {
					if s.bSrc[pi] {
						hasPref = true
					}
				}
				if !hasPref {
					bad = append(bad, fmt.Sprintf("%s: the bound of the %s slice does not derive from the prefix-length parameter", s.pos, s.xType))
				}
				for i := range s.bSrc {
					if isRow[i] && i != r {
						bad = append(bad, fmt.Sprintf("%s: the bound of the %s slice applied to a cell of %s depends on row parameter %s", s.pos, s.xType, pname, sf.Params[i].Name()))
						if len(path) == 0 {
							path = s.chains[i]
						}
					}
				}
			}
			if len(bad) == 0 {
				c.Ok("C14-Y1", key, cd.fn.Pos(), fmt.Sprintf("%d truncation sites; bounds derive from the prefix lengths and the cell itself only", len(ss)))
			} else {
				sort.Strings(bad)
				c.Bad("C14-Y1", key, cd.fn.Pos(), fmt.Sprintf("%s: in %s the length to which a cell of %s is truncated is not a function of (that cell, declared prefix length) alone — %s: the two cells of a unique-key comparison are cut to different lengths, so unequal keys match (false duplicate) or equal keys differ",
					c.P.Rel(cd.fn.Pos()), name, pname, strings.Join(bad, "; ")), path...)
			}
		}
		// symmetry of the truncated types
		key := name + "/same truncation on both rows"
		typeSet := func(ss []c14ySite) string {
			m := map[string]bool{}
			for _, s := range ss {
				m[s.xType] = true
			}
			var l []string
			for t := range m {
				l = append(l, t)
			}
			sort.Strings(l)
			return strings.Join(l, ", ")
		}
		ref, okSym := "", true
		var desc []string
		for k, r := range cd.rows {
			ts := typeSet(perRow[r])
			desc = append(desc, sf.Params[r].Name()+": {"+ts+"}")
			if k == 0 {
				ref = ts
			} else if ts != ref {
				okSym = false
			}
		}
		if len(mixed) > 0 {
			c.Bad("C14-Y1", key, cd.fn.Pos(), fmt.Sprintf("%s: %s", c.P.Rel(cd.fn.Pos()), strings.Join(mixed, "; ")))
		} else {
			c.Check(okSym, "C14-Y1", key, cd.fn.Pos(), "truncated cell types agree: "+strings.Join(desc, " "),
				fmt.Sprintf("%s: %s truncates different cell types for its row parameters (%s): a cell of the missing type is compared untruncated against a truncated one", c.P.Rel(cd.fn.Pos()), name, strings.Join(desc, " ")))
		}
	}
}
