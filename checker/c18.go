package main

import (
	"fmt"
	"go/ast"
	"go/constant"
	"go/token"
	"go/types"
	"sort"
	"strings"

	"golang.org/x/tools/go/cfg"
	"golang.org/x/tools/go/packages"
)

// C18 — foreign keys: referential-action dispatch and wiring.

type c18Params struct {
	sqlRel     string   // package declaring the action enum and the editor interfaces
	enumType   string   // "ForeignKeyReferentialAction"
	restrictFn string   // predicate method of the enum: "IsEquivalentToRestrict"
	ocIface    string   // "EditOpenerCloser"
	planRel    string   // "sql/plan"
	editorType string   // "ForeignKeyEditor"
	ops        []string // {"Update","Delete"}: method name = op, action field = "On"+op, handlers = "On"+op+suffix
	handler    string   // "ForeignKeyHandler" (the node that wires the editor in)
	// wiring (skipped when analyzerRel is empty)
	analyzerRel string // "sql/analyzer"
	applyFn     string // "applyForeignKeysToNodes"
	execRel     string // "sql/rowexec"
	iterIface   string // "RowIter"
	// key-change gates (C18-K, c18k.go; skipped when mapperType is empty)
	rowType       string   // "Row"
	typeIface     string   // "Type"
	compareMethod string   // "Compare"
	mapperType    string   // "ForeignKeyRowMapper": its method returning (RowIter, error) is the child-row lookup
	mappingType   string   // "ChildParentMapping": []int with -1 for columns outside the key
	refType       string   // "ForeignKeyReferenceHandler"
	checkFn       string   // "CheckReference"
	refCheckFns   []string // functions that must check the references of the row they write
	selfRefFn     string   // "ForeignKeyConstraint.IsSelfReferential" (empty: clause skipped)
	floors        map[string]int
}

var c18Repo = c18Params{sqlRel: "sql", enumType: "ForeignKeyReferentialAction", restrictFn: "IsEquivalentToRestrict", ocIface: "EditOpenerCloser",
	planRel: "sql/plan", editorType: "ForeignKeyEditor", ops: []string{"Update", "Delete"}, handler: "ForeignKeyHandler",
	analyzerRel: "sql/analyzer", applyFn: "applyForeignKeysToNodes", execRel: "sql/rowexec", iterIface: "RowIter",
	rowType: "Row", typeIface: "Type", compareMethod: "Compare", mapperType: "ForeignKeyRowMapper", mappingType: "ChildParentMapping",
	refType: "ForeignKeyReferenceHandler", checkFn: "CheckReference", refCheckFns: []string{"ForeignKeyEditor.Update", "ForeignKeyHandler.Insert"},
	selfRefFn: "ForeignKeyConstraint.IsSelfReferential",
	floors:    map[string]int{"C18-D1": 12, "C18-D2": 4, "C18-D3": 8, "C18-D4": 1, "C18-W": 3, "C18-W2": 2, "C18-K": 14}}

func init() {
	register(&Property{
		ID:       "C18",
		Patterns: []string{"./sql/plan", "./sql/rowexec", "./sql/analyzer"},
		Explanation: "Referential-action dispatch of plan.ForeignKeyEditor. Decided: (D1) in Update and in Delete the switch over the action before the edit and the switch after it, folded over every constant of sql.ForeignKeyReferentialAction, partition the enum: each action either reaches an On…Restrict handler before the edit or a non-empty arm calling its own handler (On<Op>Cascade / SetNull / SetDefault, matched with the constant's name) after the edit, never both and never neither; the acting set equals the set for which IsEquivalentToRestrict() is false; " +
			"(D2) on every CFG path the pre-edit dispatch precedes the underlying Editor.Update/Delete and the edit precedes the post-edit dispatch (restrict before, cascade after); " +
			"(D3) the errors of every handler call and of the underlying edit are returned (not dropped, not swallowed); " +
			"(D4) Update and Delete treat the same actions as restricting / acting; " +
			"(W) every plan node type whose rowexec builder constructs a DML iterator (an iterator that edits rows through field-held editors: InsertInto, Update, DeleteFrom) has a case in analyzer.applyForeignKeysToNodes whose arm wires a plan.ForeignKeyHandler in; " +
			"(K) the key-change gates, folded over every key of 0..3 columns with each column's sql.Type.Compare(old,new) abstracted to 0 / <0 / >0 / error (and ChildParentMapping entries of -1): every On<Op>… handler called by the dispatch reaches its child-row lookup (the ForeignKeyRowMapper method returning a RowIter) iff at least ONE referenced column changed for UPDATE and unconditionally for DELETE, returns comparison errors, and compares the old with the new value of the column the loop is at; the (bool,error) predicates the handlers gate on (ColumnsUpdated) are true iff some referenced column changed; " +
			"ForeignKeyEditor.Update calls CheckReference on the NEW row for every reference of which some column changed and ForeignKeyHandler.Insert for every reference, before the underlying edit on every path, and a failing check or comparison fails the edit; CheckReference accepts a parentless self-referencing row iff ALL its key columns equal the referenced columns. " +
			"(W2) node MODES: for every field of a rowexec row-editing iterator through which Delete or Update is called on an sql.EditOpenerCloser (insertIter.replacer.Delete, insertIter.updater.Update) and that the node's builder fills from a local assigned under conditions on the plan node (ii.IsReplace, ii.OnDupExprs.HasUpdates()), every truth assignment of the node-rooted boolean atoms under which the builder may fill the field must, in the node's arm of applyForeignKeysToNodes, may-reach a call of a function that installs the parent-side referential actions (transitively writes a non-nil ForeignKeyEditor.RefActions); branches on the atoms are decided by the assignment, every other branch may go either way: a mode without such a path deletes/updates parent rows with no RESTRICT / CASCADE / SET NULL handling.",
		NotCovered: "which child rows a cascade touches (the row the child lookup is keyed by, the values written to the children), depth limits and cycles, the NULL / MATCH FULL rules and the parent lookup inside CheckReference, that an unchanged key skips the child-side check (only 'changed => checked' is demanded there), TRUNCATE (validated separately by processTruncate), foreign_key_checks = 0",
		Technique:  "enum-dispatch folding over go/constant + CFG ordering + who-constructs cross-check between rowexec builders and the analyzer's type switch + finite-domain folding (eng_mini with unrolled key loops) of the key-change gates",
		Run:        func(c *Ctx) { runC18(c, c18Repo) },
		Fixture: func(c *Ctx, fx *Prog) {
			p := c18Params{sqlRel: "testdata/c18/sql", enumType: "ForeignKeyReferentialAction", restrictFn: "IsEquivalentToRestrict", ocIface: "EditOpenerCloser",
				planRel: "testdata/c18/plan", editorType: "ForeignKeyEditor", ops: []string{"Update", "Delete"}, handler: "", floors: map[string]int{}}
			expectFixture(c, fx, "c18: broken referential-action dispatch must be reported", []string{
				"C18-D1:ForeignKeyEditor.Update/ForeignKeyReferentialAction_SetDefault",
				"C18-D1:ForeignKeyEditor.Delete/ForeignKeyReferentialAction_SetNull",
				"C18-D2:ForeignKeyEditor.Delete/cascade-after-edit",
				"C18-D3:ForeignKeyEditor.Update/OnUpdateCascade",
				"C18-D4:Update-vs-Delete",
			}, func(fc *Ctx) { runC18(fc, p) })
			pk := c18Params{sqlRel: "testdata/c18k/sql", ocIface: "EditOpenerCloser", planRel: "testdata/c18k/plan", editorType: "ForeignKeyEditor", ops: []string{"Update", "Delete"},
				iterIface: "RowIter", rowType: "Row", typeIface: "Type", compareMethod: "Compare", mapperType: "ForeignKeyRowMapper", mappingType: "ChildParentMapping",
				refType: "ForeignKeyReferenceHandler", checkFn: "CheckReference", refCheckFns: []string{"ForeignKeyEditor.Update", "ForeignKeyHandler.Insert"}, floors: map[string]int{}}
			expectFixture(c, fx, "c18k: broken key-change gates must be reported", []string{
				"C18-K:ForeignKeyEditor.Update/reference-check",
				"C18-K:ForeignKeyEditor.OnUpdateCascade/key-change-gate",
				"C18-K:ForeignKeyEditor.AllColumnsUpdated/any-referenced-column-changed",
				"C18-K:ForeignKeyHandler.Insert/reference-check-before-edit",
			}, func(fc *Ctx) { runC18K(fc, pk, dmlLookupIface(fc.P, pk.sqlRel, pk.ocIface)) })
		},
		FixturePkgs: []string{"./testdata/c18/sql", "./testdata/c18/plan", "./testdata/c18k/sql", "./testdata/c18k/plan"},
	})
}

type c18Dispatch struct {
	restrict map[string]bool // const name -> reaches a Restrict handler before the edit
	act      map[string]string
}

func runC18(c *Ctx, p c18Params) {
	c.Rule("C18-D1", "pre- and post-edit switches partition the referential-action enum; acting set = !IsEquivalentToRestrict; handler matches the action", p.floors["C18-D1"])
	c.Rule("C18-D2", "restrict dispatch before the underlying edit, cascade dispatch after it, on every path", p.floors["C18-D2"])
	c.Rule("C18-D3", "errors of the handlers and of the underlying edit are returned", p.floors["C18-D3"])
	c.Rule("C18-D4", "Update and Delete agree on which actions restrict and which act", p.floors["C18-D4"])
	c.Rule("C18-W", "every DML plan node kind is wired to a ForeignKeyHandler by applyForeignKeysToNodes", p.floors["C18-W"])
	sqlPk, planPk := c.P.Pkg(p.sqlRel), c.P.Pkg(p.planRel)
	if sqlPk == nil || planPk == nil {
		c.Undecided("C18-D1", "packages", 0, "packages not loaded")
		return
	}
	consts, enumT := EnumConsts(sqlPk, p.enumType)
	oc := dmlLookupIface(c.P, p.sqlRel, p.ocIface)
	if len(consts) < 3 || oc == nil {
		c.Undecided("C18-D1", p.enumType, 0, "enum constants or interface "+p.ocIface+" not found")
		return
	}
	// IsEquivalentToRestrict table
	var restrictSet map[string]bool
	if fn := LookupFunc(sqlPk, p.enumType+"."+p.restrictFn); fn != nil {
		f := &Folder{P: c.P}
		set, err := f.PredicateSet(fn, consts)
		if err != nil {
			c.Undecided("C18-D1", p.restrictFn, fn.Pos(), "predicate table not readable: "+err.Error())
		} else {
			restrictSet = set
		}
	} else {
		c.Undecided("C18-D1", p.restrictFn, 0, "predicate "+p.restrictFn+" not found")
	}
	info := planPk.TypesInfo
	disp := map[string]*c18Dispatch{}
	for _, op := range p.ops {
		_, fd := c.P.FuncDecl(p.planRel, p.editorType+"."+op)
		if fd == nil {
			c.Undecided("C18-D1", p.editorType+"."+op, 0, "method not found")
			continue
		}
		disp[op] = c18Method(c, p, planPk, info, fd, op, consts, enumT, oc, restrictSet)
	}
	// D4
	if len(p.ops) == 2 && disp[p.ops[0]] != nil && disp[p.ops[1]] != nil {
		a, b := disp[p.ops[0]], disp[p.ops[1]]
		var diff []string
		for _, k := range consts {
			n := k.Obj.Name()
			if a.restrict[n] != b.restrict[n] || (a.act[n] != "") != (b.act[n] != "") {
				diff = append(diff, n)
			}
		}
		c.Check(len(diff) == 0, "C18-D4", p.ops[0]+"-vs-"+p.ops[1], 0, "same restricting / acting sets",
			fmt.Sprintf("%s.%s and .%s disagree on %s: an action that restricts one operation is ignored or acted on by the other", p.editorType, p.ops[0], p.ops[1], strings.Join(diff, ", ")))
	}
	if p.analyzerRel != "" {
		c18Wiring(c, p, oc)
		c18ModeWiring(c, p, oc, p.floors["C18-W2"])
	}
	if p.mapperType != "" {
		runC18K(c, p, oc)
	}
}

func c18Method(c *Ctx, p c18Params, pk *packages.Package, info *types.Info, fd *ast.FuncDecl, op string, consts []EnumConst, enumT types.Type, oc *types.Interface, restrictSet map[string]bool) *c18Dispatch {
	name := DeclName(fd)
	recv := dmlRecvObj(info, fd)
	recvT := dmlRecvNamed(info, fd)
	sig := info.Defs[fd.Name].(*types.Func).Type().(*types.Signature)
	g := c.P.CFG(info, fd.Body)
	// the underlying edit: recv.<field>.<op>(…) on an editor-typed field
	var edits []*ast.CallExpr
	for _, call := range dmlCallsIn(fd.Body, false) {
		if x, ok := dmlMethodCallOn(call, op); ok && dmlImplements(info.TypeOf(x), oc) && dmlBaseIdent(x) != nil && info.Uses[dmlBaseIdent(x)] == recv {
			if _, isSel := ast.Unparen(x).(*ast.SelectorExpr); isSel {
				edits = append(edits, call)
			}
		}
	}
	if len(edits) == 0 {
		c.Undecided("C18-D2", name+"/edit", fd.Pos(), name+": no call of the underlying editor's "+op+" found")
		return nil
	}
	// the dispatch switches are split at the last edit call; every edit call is subject to D2
	sort.Slice(edits, func(i, j int) bool { return edits[i].Pos() < edits[j].Pos() })
	edit := edits[len(edits)-1]
	// switches over the On<op> action
	type sw struct {
		s    *ast.SwitchStmt
		loop *ast.RangeStmt
	}
	var pre, post []sw
	var loops []*ast.RangeStmt
	ast.Inspect(fd.Body, func(n ast.Node) bool {
		switch x := n.(type) {
		case *ast.RangeStmt:
			loops = append(loops, x)
		case *ast.SwitchStmt:
			if x.Tag == nil || !types.Identical(info.TypeOf(x.Tag), enumT) {
				return true
			}
			sel, ok := ast.Unparen(x.Tag).(*ast.SelectorExpr)
			if !ok || sel.Sel.Name != "On"+op {
				return true
			}
			var lp *ast.RangeStmt
			for _, l := range loops {
				if l.Body.Pos() <= x.Pos() && x.End() <= l.Body.End() {
					lp = l
				}
			}
			if x.Pos() < edit.Pos() {
				pre = append(pre, sw{x, lp})
			} else {
				post = append(post, sw{x, lp})
			}
		}
		return true
	})
	if len(pre) != 1 || len(post) != 1 {
		c.Undecided("C18-D1", name+"/switches", fd.Pos(), fmt.Sprintf("%s: expected one switch over On%s before and one after the edit, found %d / %d", name, op, len(pre), len(post)))
		return nil
	}
	// arm for a constant: matching case clause or default
	armOf := func(s *ast.SwitchStmt, v constant.Value) *ast.CaseClause {
		var def *ast.CaseClause
		for _, st := range s.Body.List {
			cc := st.(*ast.CaseClause)
			if cc.List == nil {
				def = cc
				continue
			}
			for _, e := range cc.List {
				if tv, ok := info.Types[e]; ok && tv.Value != nil && constant.Compare(tv.Value, token.EQL, v) {
					return cc
				}
			}
		}
		return def
	}
	// handler calls in an arm: methods of the receiver type named On<op>…
	handlers := func(cc *ast.CaseClause) []*ast.CallExpr {
		var out []*ast.CallExpr
		if cc == nil {
			return nil
		}
		for _, st := range cc.Body {
			for _, call := range dmlCallsIn(st, false) {
				fn := Callee(info, call)
				if fn == nil || !strings.HasPrefix(fn.Name(), "On"+op) {
					continue
				}
				if fsig := fn.Type().(*types.Signature); fsig.Recv() != nil && dmlNamedOf(fsig.Recv().Type()) == recvT {
					out = append(out, call)
				}
			}
		}
		return out
	}
	d := &c18Dispatch{restrict: map[string]bool{}, act: map[string]string{}}
	var allHandlerCalls []*ast.CallExpr
	for _, k := range consts {
		cn := k.Obj.Name()
		key := name + "/" + cn
		suffix := cn[strings.LastIndex(cn, "_")+1:]
		preH, postH := handlers(armOf(pre[0].s, k.Val)), handlers(armOf(post[0].s, k.Val))
		allHandlerCalls = append(allHandlerCalls, preH...)
		allHandlerCalls = append(allHandlerCalls, postH...)
		restricts := false
		for _, h := range preH {
			if Callee(info, h).Name() == "On"+op+"Restrict" {
				restricts = true
			}
		}
		acting := ""
		for _, h := range postH {
			if n := Callee(info, h).Name(); n != "On"+op+"Restrict" {
				acting = n
			}
		}
		d.restrict[cn], d.act[cn] = restricts, acting
		var bad []string
		switch {
		case restricts && acting != "":
			bad = append(bad, "is restricted before the edit and also acted on after it ("+acting+")")
		case !restricts && acting == "":
			bad = append(bad, "reaches neither On"+op+"Restrict before the edit nor a handler after it: parent rows can be changed while child rows still reference them")
		}
		if acting != "" && acting != "On"+op+suffix {
			bad = append(bad, "is handled by "+acting+" instead of On"+op+suffix)
		}
		if restrictSet != nil {
			if want := !restrictSet[cn]; want != (acting != "") && len(bad) == 0 {
				bad = append(bad, fmt.Sprintf("%s() is %v for it, but the dispatch %s", p.restrictFn, restrictSet[cn], map[bool]string{true: "acts on it", false: "restricts it"}[acting != ""]))
			}
		}
		for _, h := range preH {
			if n := Callee(info, h).Name(); n != "On"+op+"Restrict" {
				bad = append(bad, n+" runs before the underlying edit")
			}
		}
		if len(bad) == 0 {
			what := "restricted before the edit"
			if acting != "" {
				what = acting + " after the edit"
			}
			c.Ok("C18-D1", key, pre[0].s.Pos(), what)
		} else {
			c.Bad("C18-D1", key, pre[0].s.Pos(), fmt.Sprintf("%s: action %s %s", name, cn, strings.Join(bad, "; ")))
		}
	}

	// D2 ordering
	isEdit := func(n ast.Node) bool {
		for _, e := range edits {
			if n.Pos() <= e.Pos() && e.End() <= n.End() {
				return true
			}
		}
		return false
	}
	preBarrier := func(n ast.Node) bool {
		if pre[0].loop != nil {
			return n == ast.Node(pre[0].loop.X)
		}
		return n == ast.Node(pre[0].s.Tag)
	}
	if path := PathAvoiding(g, EntryPoint(g), preBarrier, isEdit, nil); path != nil {
		c.Bad("C18-D2", name+"/restrict-before-edit", edit.Pos(), name+": the underlying "+op+" is reachable without the pre-edit dispatch over the referential actions: RESTRICT / NO ACTION are not enforced on that path", c.P.DescribePath(path)...)
	} else {
		c.Ok("C18-D2", name+"/restrict-before-edit", edit.Pos(), "")
	}
	isPostTag := func(n ast.Node) bool { return n == ast.Node(post[0].s.Tag) }
	if path := PathAvoiding(g, EntryPoint(g), isEdit, isPostTag, nil); path != nil {
		c.Bad("C18-D2", name+"/cascade-after-edit", post[0].s.Pos(), name+": the post-edit dispatch (cascade / set null / set default) is reachable without the underlying "+op+" having run", c.P.DescribePath(path)...)
	} else {
		c.Ok("C18-D2", name+"/cascade-after-edit", post[0].s.Pos(), "")
	}

	// D3 errors
	seen := map[string]bool{}
	checkErr := func(call *ast.CallExpr, label string) {
		if seen[label] {
			return
		}
		seen[label] = true
		key := name + "/" + label
		pt, ok := FindNode(g, call)
		if !ok {
			c.Undecided("C18-D3", key, call.Pos(), "call not found in the CFG")
			return
		}
		node := pt.B.Nodes[pt.I]
		ev := c19ErrVarOf(info, node, call)
		if ev == nil {
			if r, isRet := node.(*ast.ReturnStmt); isRet && len(r.Results) > 0 && ast.Unparen(r.Results[len(r.Results)-1]) == ast.Expr(call) {
				c.Ok("C18-D3", key, call.Pos(), "returned directly")
				return
			}
			c.Bad("C18-D3", key, call.Pos(), name+": the error of "+label+" is dropped")
			return
		}
		path := dmlSearch(g, pt, dmlErrAny, func(n ast.Node, st int) (int, dmlVerdict) {
			if r, isRet := n.(*ast.ReturnStmt); isRet {
				if e := dmlErrOperand(info, sig, r); (e == nil || isNilIdent(info, e)) && st&dmlErrNil == 0 {
					return st, dmlHit
				}
				return st, dmlStop
			}
			if _, isExpr := n.(ast.Expr); isExpr {
				return st, dmlGo
			}
			if st&dmlErrNil == 0 || (st&^dmlErrNil != 0 && dmlAssigns(info, n, ev)) {
				return st, dmlHit // work continues / error overwritten while it is (or may be) pending
			}
			if st == dmlErrNil {
				return st, dmlStop
			}
			return st, dmlGo
		}, func(b *cfg.Block, si int, st int) (int, bool) { return dmlRefineErr(info, b, si, ev, st) }, func(st int) bool { return st&dmlErrNil == 0 })
		if path != nil {
			c.Bad("C18-D3", key, call.Pos(), name+": the error of "+label+" is not returned", c.P.DescribePath(path)...)
		} else {
			c.Ok("C18-D3", key, call.Pos(), "")
		}
	}
	for _, h := range allHandlerCalls {
		checkErr(h, Callee(info, h).Name())
	}
	checkErr(edit, "Editor."+op)
	return d
}

// c18Wiring decides W.
func c18Wiring(c *Ctx, p c18Params, oc *types.Interface) {
	ex, an, planPk := c.P.Pkg(p.execRel), c.P.Pkg(p.analyzerRel), c.P.Pkg(p.planRel)
	ri := dmlLookupIface(c.P, p.sqlRel, p.iterIface)
	if ex == nil || an == nil || ri == nil {
		c.Undecided("C18-W", "packages", 0, "rowexec / analyzer not loaded")
		return
	}
	einfo := ex.TypesInfo
	// DML iterator types (as in C15-S3)
	dml := map[*types.Named]bool{}
	for _, nt := range dmlNamedTypes(ex) {
		if !dmlImplements(nt, ri) || dmlImplements(nt, oc) {
			continue
		}
		for _, fd := range dmlMethodDecls(ex, nt) {
			recv := dmlRecvObj(einfo, fd)
			for _, call := range dmlCallsIn(fd.Body, true) {
				sel, ok := ast.Unparen(call.Fun).(*ast.SelectorExpr)
				if !ok || (sel.Sel.Name != "Insert" && sel.Sel.Name != "Update" && sel.Sel.Name != "Delete") || !dmlImplements(einfo.TypeOf(sel.X), oc) {
					continue
				}
				if strings.HasPrefix(dmlNormPath(einfo, fd.Body, recv, sel.X), "recv.") {
					dml[nt] = true
				}
			}
		}
	}
	// functions of rowexec that construct one, closed under static calls inside the package
	constructs := map[*types.Func]bool{}
	calls := map[*types.Func][]*types.Func{}
	decls := map[*types.Func]*ast.FuncDecl{}
	c.P.EachFuncDecl([]string{p.execRel}, func(_ *packages.Package, fd *ast.FuncDecl) {
		fn, _ := einfo.Defs[fd.Name].(*types.Func)
		if fn == nil {
			return
		}
		decls[fn] = fd
		ast.Inspect(fd.Body, func(n ast.Node) bool {
			switch x := n.(type) {
			case *ast.CompositeLit:
				if nt := dmlNamedOf(einfo.TypeOf(x)); nt != nil && dml[nt] {
					constructs[fn] = true
				}
			case *ast.CallExpr:
				if cf := Callee(einfo, x); cf != nil && cf.Pkg() == ex.Types {
					calls[fn] = append(calls[fn], cf.Origin())
				}
			}
			return true
		})
	})
	for changed := true; changed; {
		changed = false
		for fn, cs := range calls {
			if constructs[fn] {
				continue
			}
			for _, cf := range cs {
				if constructs[cf] && !strings.HasPrefix(cf.Name(), "build") {
					constructs[fn] = true
					changed = true
				}
			}
		}
	}
	// node kinds: build* methods with a *plan.T parameter that construct a DML iterator
	kinds := map[string]token.Pos{}
	for fn := range constructs {
		if !strings.HasPrefix(fn.Name(), "build") {
			continue
		}
		sig := fn.Type().(*types.Signature)
		for i := 0; i < sig.Params().Len(); i++ {
			if nt := dmlNamedOf(sig.Params().At(i).Type()); nt != nil && nt.Obj().Pkg() == planPk.Types {
				if _, isPtr := sig.Params().At(i).Type().(*types.Pointer); isPtr {
					kinds[nt.Obj().Name()] = fn.Pos()
				}
			}
		}
	}
	if len(kinds) == 0 {
		c.Undecided("C18-W", "dml-node-kinds", 0, "no rowexec builder constructs a DML iterator")
		return
	}
	// the analyzer's type switch
	_, fd := c.P.FuncDecl(p.analyzerRel, p.applyFn)
	if fd == nil {
		c.Undecided("C18-W", p.applyFn, 0, "function not found")
		return
	}
	ainfo := an.TypesInfo
	var ts *ast.TypeSwitchStmt
	for _, st := range fd.Body.List {
		if x, ok := st.(*ast.TypeSwitchStmt); ok {
			ts = x
		}
	}
	if ts == nil {
		c.Undecided("C18-W", p.applyFn, fd.Pos(), "no type switch over the node")
		return
	}
	handlerTN, _ := planPk.Types.Scope().Lookup(p.handler).(*types.TypeName)
	var wiresRec func(n ast.Node, depth int) bool
	wiresRec = func(n ast.Node, depth int) bool {
		found := false
		ast.Inspect(n, func(m ast.Node) bool {
			if found {
				return false
			}
			switch x := m.(type) {
			case *ast.CompositeLit:
				if nt := dmlNamedOf(ainfo.TypeOf(x)); nt != nil && handlerTN != nil && nt.Obj() == handlerTN {
					found = true
				}
			case *ast.CallExpr:
				if depth < 2 {
					if cf := Callee(ainfo, x); cf != nil && cf.Pkg() == an.Types {
						if cd := c.P.Decl(cf); cd != nil && cd.Body != nil && wiresRec(cd.Body, depth+1) {
							found = true
						}
					}
				}
			}
			return true
		})
		return found
	}
	wires := wiresRec
	arms := map[string]*ast.CaseClause{}
	for _, st := range ts.Body.List {
		cc := st.(*ast.CaseClause)
		for _, e := range cc.List {
			if nt := dmlNamedOf(ainfo.TypeOf(e)); nt != nil && nt.Obj().Pkg() == planPk.Types {
				arms[nt.Obj().Name()] = cc
			}
		}
	}
	var ks []string
	for k := range kinds {
		ks = append(ks, k)
	}
	sort.Strings(ks)
	for _, k := range ks {
		key := p.applyFn + "/plan." + k
		cc := arms[k]
		switch {
		case cc == nil:
			c.Bad("C18-W", key, fd.Pos(), fmt.Sprintf("rowexec builds a row-editing iterator for *plan.%s, but %s has no case for it: its edits bypass every foreign key", k, p.applyFn))
		case !wires(&ast.BlockStmt{List: cc.Body}, 0):
			c.Bad("C18-W", key, cc.Pos(), fmt.Sprintf("the *plan.%s arm of %s never constructs a plan.%s: the statement runs without foreign key enforcement", k, p.applyFn, p.handler))
		default:
			c.Ok("C18-W", key, cc.Pos(), "wired to plan."+p.handler)
		}
	}
}
