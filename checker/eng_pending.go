package main

import (
	"fmt"
	"go/ast"
	"go/token"
	"go/types"

	"golang.org/x/tools/go/cfg"
	"golang.org/x/tools/go/packages"
)

// Pending-error engine: an error bound from a call stays *pending* until the function has either
// established that it is nil (the false edge of `err != nil`, the true edge of `err == nil`, taken
// alone - a compound condition such as `err != nil && !kind.Is(err)` establishes nothing on its
// false edge) or handed it on (returned it, passed it to a call, stored it). A return that
// answers "no error" (a nil literal in the error position) on a path where the error is still
// pending drops it: the caller sees success where the callee had something to report.
//
// Path-sensitive over go/cfg; a reassignment of the variable from another call starts a new
// pending error (and is itself a drop if the old one was still pending and never looked at - not
// reported here, the ineffectual-assignment case is out of scope).

type pendingDrop struct {
	key  string
	pos  token.Pos
	what string
}

func pendingErrorDrops(p *Prog, rels []string, only func(pk *packages.Package, fd *ast.FuncDecl) bool) (drops []pendingDrop, sites int) {
	errT := types.Universe.Lookup("error").Type()
	p.EachFuncDecl(rels, func(pk *packages.Package, fd *ast.FuncDecl) {
		if fd.Body == nil || (only != nil && !only(pk, fd)) {
			return
		}
		info := pk.TypesInfo
		sig, _ := info.Defs[fd.Name].Type().(*types.Signature)
		if sig == nil || sig.Results().Len() == 0 || !types.Identical(sig.Results().At(sig.Results().Len()-1).Type(), errT) {
			return
		}
		errPos := sig.Results().Len() - 1
		g := p.CFG(info, fd.Body)
		objOf := func(e ast.Expr) types.Object {
			id := identOf(e)
			if id == nil {
				return nil
			}
			if o := info.Defs[id]; o != nil {
				return o
			}
			return info.Uses[id]
		}
		mentions := func(n ast.Node, o types.Object) bool {
			found := false
			ast.Inspect(n, func(m ast.Node) bool {
				if id, ok := m.(*ast.Ident); ok && info.Uses[id] == o {
					found = true
				}
				return !found
			})
			return found
		}
		seen := map[string]int{}
		for _, b := range g.Blocks {
			for i, n := range b.Nodes {
				as, ok := n.(*ast.AssignStmt)
				if !ok || len(as.Rhs) != 1 {
					continue
				}
				call, ok := ast.Unparen(as.Rhs[0]).(*ast.CallExpr)
				if !ok {
					continue
				}
				var errObj types.Object
				for _, l := range as.Lhs {
					if o := objOf(l); o != nil && types.Identical(o.Type(), errT) {
						errObj = o
					}
				}
				if errObj == nil {
					continue
				}
				sites++
				callee := "call"
				if fn := Callee(info, call); fn != nil {
					callee = fn.Name()
				}
				key := fmt.Sprintf("%s.%s/%s<-%s", pkRel(pk), DeclName(fd), errObj.Name(), callee)
				seen[key]++
				if seen[key] > 1 {
					key = fmt.Sprintf("%s#%d", key, seen[key])
				}
				// walk forward while pending
				visited := map[*cfg.Block]bool{}
				var bads []pendingDrop
				badSeen := map[string]bool{}
				var walk func(bl *cfg.Block, from int)
				walk = func(bl *cfg.Block, from int) {
					for j := from; j < len(bl.Nodes); j++ {
						m := bl.Nodes[j]
						isCond := j == len(bl.Nodes)-1 && len(bl.Succs) == 2
						if isCond {
							break
						}
						if rs, ok := m.(*ast.ReturnStmt); ok {
							if len(rs.Results) > errPos {
								if tv, ok := info.Types[rs.Results[errPos]]; ok && tv.IsNil() {
									txt := "return"
									for ri, r := range rs.Results {
										if ri == 0 {
											txt += " " + types.ExprString(r)
										} else {
											txt += ", " + types.ExprString(r)
										}
									}
									k := key + "/" + txt
									if badSeen[k] {
										return
									}
									badSeen[k] = true
									bads = append(bads, pendingDrop{key: k, pos: rs.Pos(), what: fmt.Sprintf("%s: `return` at %s answers nil in the error position while the error bound from %s (%s) is still pending on this path - it was neither established to be nil nor handed on", DeclName(fd), p.Fset.Position(rs.Pos()), callee, errObj.Name())})
								}
							}
							return
						}
						if m2, ok := m.(*ast.AssignStmt); ok {
							redef := false
							for _, l := range m2.Lhs {
								if objOf(l) == errObj {
									redef = true
								}
							}
							if redef {
								return // a new value: its own site
							}
						}
						if mentions(m, errObj) {
							return // handed on (passed, stored, wrapped)
						}
					}
					if len(bl.Succs) == 2 && len(bl.Nodes) > 0 {
						cond, _ := bl.Nodes[len(bl.Nodes)-1].(ast.Expr)
						nilOn := -1 // successor index on which the error is known to be nil
						if be, ok := ast.Unparen(cond).(*ast.BinaryExpr); ok && (be.Op == token.NEQ || be.Op == token.EQL) {
							isErr := func(e ast.Expr) bool { return objOf(e) == errObj }
							isNil := func(e ast.Expr) bool { tv, ok := info.Types[e]; return ok && tv.IsNil() }
							if (isErr(be.X) && isNil(be.Y)) || (isErr(be.Y) && isNil(be.X)) {
								if be.Op == token.NEQ {
									nilOn = 1
								} else {
									nilOn = 0
								}
							}
						}
						for si, s := range bl.Succs {
							if si == nilOn || visited[s] {
								continue
							}
							visited[s] = true
							walk(s, 0)
						}
						return
					}
					for _, s := range bl.Succs {
						if !visited[s] {
							visited[s] = true
							walk(s, 0)
						}
					}
				}
				walk(b, i+1)
				drops = append(drops, bads...)
			}
		}
	})
	return drops, sites
}
