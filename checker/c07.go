package main

import (
	"fmt"
	"go/token"
	"go/types"
	"sort"
	"strings"

	"golang.org/x/tools/go/ssa"
)

// C07 — grouping / de-duplication use the same equality as '=': no collated string is
// hashed without its schema.

type c07Config struct {
	HashRel  string // "sql/hash"
	HashOf   string // "HashOf" (ctx, sch, row)
	Simple   string // "HashOfSimple" ("" = none)
	SqlRel   string // "sql"
	CollType string // "CollationID"
	Weight   string // "WriteWeightString"
	HashTo   string // "HashToUint"
	Floors   [2]int
}

func init() {
	register(&Property{
		ID:       "C07",
		Patterns: []string{"./sql/rowexec", "./sql/iters", "./sql/plan", "./sql/hash", "./memory"},
		Explanation: "Hash-equality clause of 'grouping and de-duplication use the same equality as ='. hash.HashOf(ctx, sch, row) writes a collation weight string only for " +
			"positions whose schema entry is a StringType; with no schema it hashes the raw bytes of a string, so 'a' and 'A' under a case-insensitive collation get different keys " +
			"although '=' makes them equal. Decided: (H1) for every call that resolves to sql/hash.HashOf in the loaded engine packages, the schema operand is not the nil constant " +
			"(SSA constant, also through phis) - each nil-schema site is a violation unless it is a named row-identity use; (H3) the mechanism itself: HashOf writes string positions " +
			"through CollationID.WriteWeightString into the digest it returns, and HashOfSimple returns CollationID.HashToUint for text types. " +
			"(H4) numeric text is canonicalised only behind the decimal point: every call of the hash package that strips trailing '0' characters from a string is guarded by a test that the string contains '.', and no stripped cutset holds both '0' and '.' - otherwise 10, 100 and 1000 (or 10.0 and 1) get one key, and every consumer that decides equality from the key alone (hash IN, DISTINCT, grouping) identifies different numbers.",
		NotCovered: "numeric representation equality (1 vs 1.0), hash collisions, schemas that are non-nil but carry the wrong types, hashing operators that do not go through sql/hash at all, the weight tables themselves (C29)",
		Technique:  "SSA dataflow: constant-nil operand of every resolved call site + callee/argument links inside the hashing kernel; AST guard analysis of the zero-stripping calls of the hash package",
		Run: func(c *Ctx) {
			runC07(c, c07Config{HashRel: "sql/hash", HashOf: "HashOf", Simple: "HashOfSimple", SqlRel: "sql", CollType: "CollationID", Weight: "WriteWeightString", HashTo: "HashToUint", Floors: [2]int{18, 2}})
			c.Rule("C07-H4", "numeric text is canonicalised only behind the decimal point: every call in the hash package that strips trailing '0' characters from a string is guarded by a test that the string contains '.'", 1)
			ruleZeroTrimGuarded(c, "C07-H4", []string{"sql/hash"})
		},
		Fixture: func(c *Ctx, fx *Prog) {
			expectFixture(c, fx, "c07: nil schema literal, nil schema through a variable, kernel without weight strings",
				[]string{"C07-H1:testdata/c07/ops.Distinct/HashOf(nil, row)", "C07-H1:testdata/c07/ops.ViaVar/HashOf(nil, row)", "C07-H3:HashOf/weight-string"},
				func(fc *Ctx) {
					runC07(fc, c07Config{HashRel: "testdata/c07/hash", HashOf: "HashOf", SqlRel: "testdata/c07/hash", CollType: "CollationID", Weight: "WriteWeightString"})
				})
			expectFixture(c, fx, "c07 trim: zeros stripped without a decimal-point test, and with a cutset that holds the point",
				[]string{"C07-H4:Unguarded/TrimRight(s)", "C07-H4:Mixed/TrimRight(s)"},
				func(fc *Ctx) { ruleZeroTrimGuarded(fc, "C07-H4", []string{"testdata/c07/trim"}) })
		},
		FixturePkgs: []string{"./testdata/c07/hash", "./testdata/c07/ops", "./testdata/c07/trim"},
	})
}

// c07Exceptions: nil-schema call sites that want byte identity of a row (one site each).
var c07Exceptions = map[string]string{
	"sql/rowexec.fullJoinIter.Next/HashOf(nil, leftColumns())":     "marks which concrete left row has been matched (seenLeft): row identity, not value equality - rows with identical bytes have identical join-condition results, while collapsing 'a' and 'A' would hide an unmatched row",
	"sql/rowexec.fullJoinIter.Next/HashOf(nil, leftColumns()) #2":  "the matching write side of seenLeft (see first site)",
	"sql/rowexec.fullJoinIter.Next/HashOf(nil, rightColumns())":    "marks which concrete right row has been matched (seenRight): row identity, same argument as seenLeft",
	"sql/rowexec.fullJoinIter.Next/HashOf(nil, rightColumns()) #2": "the lookup side of seenRight in phase 2 (see first site)",
	"sql/rowexec.concatIter.Next/HashOf(nil, cur.Next())":          "plan.Concat merges several index lookups over the same table (OR conditions of a lookup join) and drops rows fetched twice: identity of a stored row, not SQL equality",
	"sql/rowexec.updateJoinIter.Next/HashOf(nil, map[])":           "remembers which stored table row has already been updated through the join (one update per row): identity of a stored row",
	"sql/plan.init/HashOf(nil, sql.NewRow())":                      "package-level nilKey = hash of the constant row (NULL): no string can occur",
}

func runC07(c *Ctx, cfg c07Config) {
	c.Rule("C07-H1", "every call resolving to sql/hash.HashOf passes a schema operand that is not the nil constant (through phis); named row-identity uses excepted", cfg.Floors[0])
	c.Rule("C07-H3", "hash.HashOf writes string-typed positions through CollationID.WriteWeightString into the digest whose Sum64 it returns; hash.HashOfSimple returns CollationID.HashToUint for text types", cfg.Floors[1])
	hp := c.P.Pkg(cfg.HashRel)
	target := LookupFunc(hp, cfg.HashOf)
	if target == nil {
		c.Undecided("C07-H1", "anchors", 0, "hash function "+cfg.HashRel+"."+cfg.HashOf+" not found")
		return
	}
	c.P.SSA()
	type site struct {
		key  string
		call *ssa.Call
		nilS bool
	}
	var sites []site
	var fns []*ssa.Function
	for fn := range c.P.decls {
		if sf := c.P.SSAFunc(fn); sf != nil {
			fns = append(fns, sf)
			fns = append(fns, sf.AnonFuncs...)
		}
	}
	// package initialisers (var x = hash.HashOf(...))
	for _, mp := range c.P.Module {
		if sp := c.P.SSA().Package(mp.Types); sp != nil {
			if in := sp.Func("init"); in != nil {
				fns = append(fns, in)
			}
		}
	}
	sort.Slice(fns, func(i, j int) bool { return fns[i].String() < fns[j].String() })
	seenFn := map[*ssa.Function]bool{}
	for _, sf := range fns {
		if seenFn[sf] {
			continue
		}
		seenFn[sf] = true
		used := map[string]int{}
		for _, b := range sf.Blocks {
			for _, in := range b.Instrs {
				call, ok := in.(*ssa.Call)
				if !ok || ngStaticCallee(&call.Call) != target || len(call.Call.Args) != 3 {
					continue
				}
				isNil := c07MayBeNilConst(call.Call.Args[1], map[ssa.Value]bool{})
				sch := "sch"
				if isNil {
					sch = "nil"
				}
				key := fmt.Sprintf("%s/HashOf(%s, %s)", c07FuncKey(sf), sch, c07Desc(call.Call.Args[2], 0))
				used[key]++
				if used[key] > 1 {
					key = fmt.Sprintf("%s #%d", key, used[key])
				}
				sites = append(sites, site{key, call, isNil})
			}
		}
	}
	for _, s := range sites {
		switch {
		case !s.nilS:
			c.Ok("C07-H1", s.key, s.call.Pos(), "schema operand is a value, not the nil constant")
		case c07Exceptions[s.key] != "" && !c.fixtureMode:
			c.Exc("C07-H1", s.key, s.call.Pos(), c07Exceptions[s.key])
		default:
			c.Bad("C07-H1", s.key, s.call.Pos(), fmt.Sprintf("%s: %s hashes a row with a nil schema: string values are hashed by their raw bytes, so values that are equal under a case/accent-insensitive collation ('a' = 'A') land in different buckets and are not collapsed by this operator, while '=' and GROUP BY (which passes its key schema) treat them as equal", c.P.Rel(s.call.Pos()), c07FuncKey(s.call.Parent())))
		}
	}

	// ---- H3: the kernel ----
	sp := c.P.Pkg(cfg.SqlRel)
	var weight, hashTo *types.Func
	if sp != nil {
		weight = LookupFunc(sp, cfg.CollType+"."+cfg.Weight)
		if cfg.HashTo != "" {
			hashTo = LookupFunc(sp, cfg.CollType+"."+cfg.HashTo)
		}
	}
	if weight == nil {
		c.Undecided("C07-H3", "HashOf/weight-string", target.Pos(), "CollationID."+cfg.Weight+" not found")
	} else {
		sf := c.P.SSAFunc(target)
		ok, why := c07KernelWrites(sf, weight)
		c.Check(ok, "C07-H3", "HashOf/weight-string", target.Pos(), "string positions are written through "+cfg.Weight+" into the returned digest",
			"hash.HashOf does not write string-typed positions through CollationID."+cfg.Weight+" into the digest it returns ("+why+"): GROUP BY / hash joins would no longer collapse collation-equal strings")
	}
	if cfg.Simple != "" {
		simple := LookupFunc(hp, cfg.Simple)
		sf := c.P.SSAFunc(simple)
		if simple == nil || sf == nil || hashTo == nil {
			c.Undecided("C07-H3", "HashOfSimple/collation-hash", 0, "HashOfSimple or CollationID."+cfg.HashTo+" not found")
		} else {
			found := false
			for _, b := range sf.Blocks {
				for _, in := range b.Instrs {
					call, ok := in.(*ssa.Call)
					if !ok || ngStaticCallee(&call.Call) != hashTo || call.Referrers() == nil {
						continue
					}
					for _, r := range *call.Referrers() {
						if ex, ok := r.(*ssa.Extract); ok && ex.Index == 0 && c07ReachesReturn(ex) {
							found = true
						}
					}
				}
			}
			c.Check(found, "C07-H3", "HashOfSimple/collation-hash", simple.Pos(), "returns CollationID."+cfg.HashTo+" for text types",
				"hash.HashOfSimple has no return of CollationID."+cfg.HashTo+"(str): IN lists and hash lookups on text keys would hash raw strings")
		}
	}
}

// c07KernelWrites: some call to weight(coll, digest, str) writes into a digest value whose
// Sum64 (any method call on the same digest value) reaches a return.
func c07KernelWrites(sf *ssa.Function, weight *types.Func) (bool, string) {
	if sf == nil {
		return false, "no SSA body"
	}
	for _, b := range sf.Blocks {
		for _, in := range b.Instrs {
			call, ok := in.(*ssa.Call)
			if !ok || ngStaticCallee(&call.Call) != weight || len(call.Call.Args) < 3 {
				continue
			}
			digest := call.Call.Args[1]
			if mi, ok := digest.(*ssa.MakeInterface); ok {
				digest = mi.X
			}
			// the same digest value must produce the returned hash
			if refs := digest.Referrers(); refs != nil {
				for _, r := range *refs {
					if c2, ok := r.(*ssa.Call); ok && c2 != call && c07ReachesReturn(c2) {
						return true, ""
					}
				}
			}
			return false, "the weight string is written into a digest that is not the one returned"
		}
	}
	return false, "no call to the weight-string writer"
}

// c07ReachesReturn: the value is a return operand, directly or through a result cell (go/ssa
// spills results into cells when the function has defers).
func c07ReachesReturn(v ssa.Value) bool {
	if v.Referrers() == nil {
		return false
	}
	for _, r := range *v.Referrers() {
		switch x := r.(type) {
		case *ssa.Return:
			return true
		case *ssa.Store:
			if a, ok := x.Addr.(*ssa.Alloc); ok && x.Val == v && a.Referrers() != nil {
				for _, ar := range *a.Referrers() {
					if ld, ok := ar.(*ssa.UnOp); ok && ld.Op == token.MUL && ld.Referrers() != nil {
						for _, lr := range *ld.Referrers() {
							if _, ok := lr.(*ssa.Return); ok {
								return true
							}
						}
					}
				}
			}
		}
	}
	return false
}

func c07MayBeNilConst(v ssa.Value, seen map[ssa.Value]bool) bool {
	if seen[v] {
		return false
	}
	seen[v] = true
	switch x := v.(type) {
	case *ssa.Const:
		return x.IsNil()
	case *ssa.Phi:
		for _, e := range x.Edges {
			if c07MayBeNilConst(e, seen) {
				return true
			}
		}
	case *ssa.ChangeType:
		return c07MayBeNilConst(x.X, seen)
	case *ssa.Convert:
		return c07MayBeNilConst(x.X, seen)
	}
	return false
}

func c07FuncKey(sf *ssa.Function) string {
	if sf.Parent() != nil {
		return c07FuncKey(sf.Parent()) + "$lit"
	}
	if o, ok := sf.Object().(*types.Func); ok && o != nil {
		return ngFuncKey(o)
	}
	p := ""
	if sf.Pkg != nil {
		p = strings.TrimPrefix(strings.TrimPrefix(strings.TrimPrefix(sf.Pkg.Pkg.Path(), modPath), "/"), "vchk/")
	}
	return p + "." + sf.Name()
}

// c07Desc names the row operand: parameter name, callee, field, …
func c07Desc(v ssa.Value, depth int) string {
	if depth > 4 {
		return "…"
	}
	switch x := v.(type) {
	case *ssa.Parameter:
		return x.Name()
	case *ssa.Extract:
		return c07Desc(x.Tuple, depth+1)
	case *ssa.Call:
		if x.Call.IsInvoke() {
			return c07Desc(x.Call.Value, depth+1) + "." + x.Call.Method.Name() + "()"
		}
		if f := x.Call.StaticCallee(); f != nil {
			if f.Signature.Recv() != nil {
				return f.Name() + "()"
			}
			if f.Pkg != nil {
				return f.Pkg.Pkg.Name() + "." + f.Name() + "()"
			}
			return f.Name() + "()"
		}
		return "call()"
	case *ssa.UnOp:
		if x.Op == token.MUL {
			return c07Desc(x.X, depth+1)
		}
	case *ssa.FieldAddr:
		if p, ok := x.X.Type().Underlying().(*types.Pointer); ok {
			if s, ok := p.Elem().Underlying().(*types.Struct); ok {
				return s.Field(x.Field).Name()
			}
		}
	case *ssa.Field:
		if s, ok := x.X.Type().Underlying().(*types.Struct); ok {
			return s.Field(x.Field).Name()
		}
	case *ssa.Phi:
		var parts []string
		for _, e := range x.Edges {
			d := c07Desc(e, depth+1)
			dup := false
			for _, p := range parts {
				if p == d {
					dup = true
				}
			}
			if !dup {
				parts = append(parts, d)
			}
		}
		sort.Strings(parts)
		return strings.Join(parts, "|")
	case *ssa.Lookup:
		return "map[]"
	case *ssa.Const:
		return "const"
	case *ssa.Alloc:
		return "local"
	case *ssa.Slice:
		return c07Desc(x.X, depth+1)
	}
	return strings.TrimPrefix(fmt.Sprintf("%T", v), "*ssa.")
}
