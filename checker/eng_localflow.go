package main

import (
	"fmt"
	"go/ast"
	"go/token"
	"go/types"
	"os"
)

// E6 helper: flow-insensitive, intra-procedural "may depend on" relation between the local
// variables of one function and the expressions assigned to them. It is used by the
// writer/reader table rules (C41, C50) to find out which source atoms (struct fields, accessor
// calls, constants) may reach an expression. It is a syntactic closure over go/types objects:
//
//	v := e, v = e, var v = e, v[k] = e, *v = e, v.f = e      => v depends on e (and on k)
//	a, b := f(x)                                             => a and b depend on f(x)
//	for k, v := range e                                      => k, v depend on e
//	outParam(call, argIdent)                                 => argIdent depends on call
//
// Nothing is executed; the relation over-approximates real data flow (no kill, no paths).
type lfDeps struct {
	info *types.Info
	deps map[types.Object][]ast.Expr
}

// lfBuild collects the relation for a function body. outParam, if non-nil, is asked for
// every call expression: it returns the argument expressions that the call fills in.
func lfBuild(info *types.Info, body ast.Node, outParam func(call *ast.CallExpr) []ast.Expr) *lfDeps {
	d := &lfDeps{info: info, deps: map[types.Object][]ast.Expr{}}
	root := func(e ast.Expr) (types.Object, []ast.Expr) {
		var extra []ast.Expr
		for {
			switch x := ast.Unparen(e).(type) {
			case *ast.Ident:
				if o := info.Defs[x]; o != nil {
					return o, extra
				}
				return info.Uses[x], extra
			case *ast.IndexExpr:
				extra = append(extra, x.Index)
				e = x.X
			case *ast.StarExpr:
				e = x.X
			case *ast.SelectorExpr:
				e = x.X
			default:
				return nil, extra
			}
		}
	}
	add := func(lhs ast.Expr, rhs ...ast.Expr) {
		o, extra := root(lhs)
		if o == nil {
			return
		}
		if _, isVar := o.(*types.Var); !isVar {
			return
		}
		d.deps[o] = append(d.deps[o], rhs...)
		d.deps[o] = append(d.deps[o], extra...)
	}
	ast.Inspect(body, func(n ast.Node) bool {
		switch s := n.(type) {
		case *ast.AssignStmt:
			if len(s.Lhs) == len(s.Rhs) {
				for i := range s.Lhs {
					add(s.Lhs[i], s.Rhs[i])
				}
			} else if len(s.Rhs) == 1 {
				for i := range s.Lhs {
					add(s.Lhs[i], s.Rhs[0])
				}
			}
		case *ast.ValueSpec:
			for i, nm := range s.Names {
				if len(s.Values) == len(s.Names) {
					add(nm, s.Values[i])
				} else if len(s.Values) == 1 {
					add(nm, s.Values[0])
				}
			}
		case *ast.RangeStmt:
			if s.Key != nil {
				add(s.Key, s.X)
			}
			if s.Value != nil {
				add(s.Value, s.X)
			}
		case *ast.CallExpr:
			if outParam != nil {
				for _, a := range outParam(s) {
					if u, ok := ast.Unparen(a).(*ast.UnaryExpr); ok && u.Op == token.AND {
						a = u.X
					}
					add(a, s)
				}
			}
		}
		return true
	})
	return d
}

// Reach calls visit for every expression node of e and, transitively, of every expression
// that a local variable mentioned in e may depend on. Function literals are descended into.
func (d *lfDeps) Reach(e ast.Expr, visit func(n ast.Node)) {
	seen := map[types.Object]bool{}
	var walk func(e ast.Node)
	walk = func(e ast.Node) {
		ast.Inspect(e, func(n ast.Node) bool {
			if n == nil {
				return false
			}
			visit(n)
			if id, ok := n.(*ast.Ident); ok {
				if o := d.info.Uses[id]; o != nil && !seen[o] {
					seen[o] = true
					for _, r := range d.deps[o] {
						walk(r)
					}
				}
			}
			return true
		})
	}
	walk(e)
}

// lfLocalCallees lists the functions of package pkg reachable from root through statically
// resolved calls and function-value references (identifiers/selectors that resolve to a
// package function or method), root included.
func lfLocalCallees(p *Prog, pkg *types.Package, info *types.Info, root *types.Func) []*types.Func {
	seen := map[*types.Func]bool{}
	var order []*types.Func
	var visit func(fn *types.Func)
	visit = func(fn *types.Func) {
		fn = fn.Origin()
		if seen[fn] || fn.Pkg() != pkg {
			return
		}
		fd := p.Decl(fn)
		if fd == nil || fd.Body == nil {
			return
		}
		seen[fn] = true
		order = append(order, fn)
		ast.Inspect(fd.Body, func(n ast.Node) bool {
			switch x := n.(type) {
			case *ast.Ident:
				if f, ok := info.Uses[x].(*types.Func); ok {
					visit(f)
				}
			case *ast.SelectorExpr:
				if sel := info.Selections[x]; sel != nil {
					if f, ok := sel.Obj().(*types.Func); ok {
						visit(f)
					}
				}
			}
			return true
		})
	}
	if root != nil {
		visit(root)
	}
	return order
}

// Aliases calls visit for every expression that e may denote as a whole value through local aliasing only:
// identifiers are followed to the expressions assigned to them, &x / (x) are stripped, append(s, a, b...) denotes
// the elements of s, a, b..., a range variable denotes the elements of the ranged expression. Sub-expressions
// (operands, call arguments other than append's, literal fields) are NOT followed.
func (d *lfDeps) Aliases(e ast.Expr, visit func(x ast.Expr)) {
	seen := map[types.Object]bool{}
	var walk func(e ast.Expr)
	walk = func(e ast.Expr) {
		e = ast.Unparen(e)
		visit(e)
		switch x := e.(type) {
		case *ast.UnaryExpr:
			if x.Op == token.AND {
				walk(x.X)
			}
		case *ast.StarExpr:
			walk(x.X)
		case *ast.Ident:
			if o := d.info.Uses[x]; o != nil && !seen[o] {
				seen[o] = true
				for _, r := range d.deps[o] {
					walk(r)
				}
			} else if o := d.info.Defs[x]; o != nil && !seen[o] {
				seen[o] = true
				for _, r := range d.deps[o] {
					walk(r)
				}
			}
		case *ast.CallExpr:
			if id, ok := ast.Unparen(x.Fun).(*ast.Ident); ok {
				if b, ok := d.info.Uses[id].(*types.Builtin); ok && b.Name() == "append" {
					for _, a := range x.Args {
						walk(a)
					}
				}
			}
		}
	}
	walk(e)
}

// dumpObsIfAsked prints every obligation recorded so far when VCHK_DUMP is set (development aid; evidence files keep
// only a sample of the discharged obligations).
func dumpObsIfAsked(c *Ctx) {
	if os.Getenv("VCHK_DUMP") == "" || c.fixtureMode {
		return
	}
	for _, o := range c.Obs {
		fmt.Printf("OBS %s %s %s %s\n", o.Rule, o.Status, o.Key, o.Pos)
	}
}
