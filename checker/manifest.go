package main

import (
	"encoding/json"
	"fmt"
	"os"
	"sort"
)

// notApplicable: properties this technique family cannot decide here (DESIGN.md section 6),
// or whose planned structural clause has not been built yet.
var notApplicable = map[string]string{
	"C02": "results vs. the SQL definition need an independent evaluation of arbitrary queries over run-time values; the structural crumbs are claimed under C01/C07/C08/C09",
	"C05": "three-valued evaluation of arbitrary predicates after rewrites is a semantic equivalence over run-time values, not a shape of the code; a 'single truth API' rule would not distinguish IsTrue(x) from !IsFalse(x)",
	"C06": "equivalence of two query pipelines on all data: run-time values, no structural clause that is a necessary condition without being a frozen-fragment proxy",
	"C12": "prepared vs inlined equality depends on value-dependent bind typing at run time; the one structural part (sessions cache ASTs, never plans) is claimed under C11",
	"C13": "DML vs a reference table model quantifies over histories of run-time values and counts; structural parts are claimed under C14/C15/C16",
	"C23": "trigger firing counts and OLD/NEW values are run-time quantities; the rollback half rests on savepoints the in-memory backend does not implement, so a pairing rule would certify a no-op",
	"C33": "match positions/occurrences are computed at run time by ICU through cgo, outside the analysed source",
	"C34": "algebraic identities over run-time values of scalar functions",
	"C43": "content equality of information_schema with the catalog after DDL histories: run-time values",
	"C49": "minimality of a computed edit distance: a numerical result",
	"C51": "tokenisation results and index/table agreement over histories; the one visible shape would be a single-constructor proxy that fires on equivalent refactors",
}

func writeManifest() {
	type level struct {
		Category  string `json:"category"`
		Text      string `json:"text"`
		DesignRef string `json:"design_ref"`
	}
	type check struct {
		PropertyID string `json:"property_id"`
		Quick      string `json:"quick_cmd"`
		Thorough   string `json:"thorough_cmd"`
		Evidence   string `json:"evidence_file"`
		Replay     string `json:"replay_cmd_template"`
		Engine     string `json:"engine"`
		Level      level  `json:"level_claimed"`
		Note       string `json:"level_note"`
		Technique  string `json:"technique"`
	}
	ids := []string{}
	for id := range registry {
		ids = append(ids, id)
	}
	sort.Strings(ids)
	var checks []check
	for _, id := range ids {
		p := registry[id]
		tech := p.Technique
		if tech == "" {
			tech = "static analysis: repository-specific rules over go/types + go/cfg + go/ssa of /repo's working tree"
		}
		checks = append(checks, check{
			PropertyID: id,
			Quick:      "./check.sh " + id + " quick",
			Thorough:   "./check.sh " + id + " thorough",
			Evidence:   "evidence/" + id + ".json",
			Replay:     "./check.sh " + id + " quick -replay {path}",
			Engine:     "vchk",
			Level: level{"other", "Static analysis decides a structural clause that is a necessary condition of the property (not the behavioural property itself), on every path / implementation / table entry of the anchored code. Decided: " +
				p.Explanation + " NOT decided: " + p.NotCovered, "DESIGN.md section 3, " + id},
			Note:      "Trusted: go/types, x/tools v0.50.0 CFG/SSA construction, Go semantics; the 0-byte sql/types/spatial_reference_systems.go is overlaid with a 12-line stub so that the engine type-checks; third-party modules are black boxes except for their declarations. Frozen instance/exception tables in the checker were confirmed by reading.",
			Technique: tech,
		})
	}
	type na struct {
		PropertyID string `json:"property_id"`
		Reason     string `json:"reason"`
	}
	var nas []na
	naIDs := []string{}
	for id := range notApplicable {
		naIDs = append(naIDs, id)
	}
	// properties planned in DESIGN.md whose rules are not built yet are listed too, so the list is always current
	for i := 1; i <= 52; i++ {
		id := fmt.Sprintf("C%02d", i)
		if registry[id] == nil && notApplicable[id] == "" {
			notApplicable[id] = "structural clause designed (DESIGN.md section 3) but its rule is not built yet; not claimed until it is"
			naIDs = append(naIDs, id)
		}
	}
	sort.Strings(naIDs)
	for _, id := range naIDs {
		if registry[id] == nil {
			nas = append(nas, na{id, notApplicable[id]})
		}
	}
	m := map[string]any{
		"version":   1,
		"setup_cmd": "./setup.sh",
		"hooks": map[string]any{
			"guard":            "verif",
			"enable":           "none needed: the checks are static and read /repo's working tree; no instrumentation is compiled in",
			"baseline_off_cmd": "./baseline.sh",
			"source_commits":   []string{},
			"add_only":         true,
		},
		"engines": []map[string]any{{
			"name": "vchk", "path": "checker/", "serves_properties": ids,
			"kind_free_text": "repository-specific static analyser (go/packages + go/types + go/cfg + go/ssa, x/tools v0.50.0): table folding over enums, CFG must-pass-through / pairing, who-may-write, sibling agreement, guarded-by, bounds/interval dataflow, taint",
		}},
		"checks":         checks,
		"not_applicable": nas,
		"notes":          "All claims are level 'other': each decides an exact structural clause (necessary condition) from source; see DESIGN.md. Known genuine defects are listed in known_findings.json and printed as KNOWN-FINDING lines.",
	}
	b, _ := json.MarshalIndent(m, "", " ")
	os.Stdout.Write(append(b, '\n'))
}
