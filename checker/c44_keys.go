package main

// C44-K1 — key-normalisation discipline of the case-insensitive name maps.
//
// A map is in the rule's domain when some access of it (read, comma-ok read, store, delete) uses a
// key that is directly the result of strings.ToLower: its readers fold the name, so every entry must
// live under the folded name and every access must fold. Maps are identified by their storage
// location (struct field or package-level variable). For every access of a domain map in the loaded
// module packages the key must be *normalised on all reaching definitions* (go/ssa):
//
//	strings.ToLower(…) · a lower-case string constant · a phi of normalised values ·
//	a key obtained by ranging over a domain map (its keys are normalised by this very rule) ·
//	a parameter of an unexported function or of a function literal all of whose static call
//	sites pass a normalised value (recursively) ·
//	Name() of an entry ranged out of a registry literal whose keys C44-N1 proved equal to the
//	entry's Name and lower-case — only if the registry map is never stored into elsewhere.
//
// Anything else (a parameter of an exported function or method, an interface call result, a field)
// is an un-normalised source and the access is reported with that source.

import (
	"fmt"
	"go/constant"
	"go/token"
	"go/types"
	"sort"
	"strings"

	"golang.org/x/tools/go/ssa"
)

type c44kAccess struct {
	fn   *ssa.Function
	pos  token.Pos
	kind string // "read", "read,ok", "store", "delete"
	m    ssa.Value
	key  ssa.Value
}

type c44k struct {
	c      *Ctx
	ix     *orgIndex
	domain map[types.Object]bool
	// registry literals (package-level maps whose entries satisfy N1); name method of their entries
	registries map[types.Object]bool
	nameMethod string
	visiting   map[ssa.Value]bool
}

// c44kMapID: the storage location the map value was loaded from.
func c44kMapID(v ssa.Value) types.Object {
	for {
		switch x := v.(type) {
		case *ssa.UnOp:
			if x.Op != token.MUL {
				return nil
			}
			switch a := x.X.(type) {
			case *ssa.FieldAddr:
				if fv := orgFieldOf(a.X.Type(), a.Field); fv != nil {
					return fv
				}
				return nil
			case *ssa.Global:
				return a.Object()
			}
			return nil
		case *ssa.Field:
			if fv := orgFieldOf(x.X.Type(), x.Field); fv != nil {
				return fv
			}
			return nil
		case *ssa.ChangeType:
			v = x.X
		default:
			return nil
		}
	}
}

func c44kIsToLower(v ssa.Value) bool {
	call, ok := v.(*ssa.Call)
	if !ok {
		return false
	}
	cal := call.Call.StaticCallee()
	return cal != nil && cal.Pkg != nil && cal.Pkg.Pkg.Path() == "strings" && cal.Name() == "ToLower"
}

var c44kKeepsCase = map[string]bool{"TrimSpace": true, "Trim": true, "TrimLeft": true, "TrimRight": true, "TrimPrefix": true, "TrimSuffix": true, "TrimFunc": true, "Clone": true}

// folded: v is a strings.ToLower result, directly or through a module helper all of whose returns are.
func (k *c44k) folded(v ssa.Value, depth int) bool {
	if c44kIsToLower(v) {
		return true
	}
	call, ok := v.(*ssa.Call)
	if !ok || depth > 2 {
		return false
	}
	cal := call.Call.StaticCallee()
	if cal == nil || len(cal.Blocks) == 0 || !k.ix.inMod[orgPkgOf(cal)] || cal.Signature.Results().Len() != 1 {
		return false
	}
	n := 0
	for _, b := range cal.Blocks {
		if ret, isRet := b.Instrs[len(b.Instrs)-1].(*ssa.Return); isRet {
			n++
			if !k.folded(ret.Results[0], depth+1) {
				return false
			}
		}
	}
	return n > 0
}

// dynamicallyCallable: an unexported method that an interface of its package declares can be
// reached through that interface: its static call sites are not all of its callers.
func (k *c44k) dynamicallyCallable(fn *ssa.Function) bool {
	obj := fn.Object()
	if obj == nil || fn.Signature.Recv() == nil || obj.Pkg() == nil {
		return false
	}
	sc := obj.Pkg().Scope()
	for _, n := range sc.Names() {
		tn, ok := sc.Lookup(n).(*types.TypeName)
		if !ok {
			continue
		}
		if it, ok := tn.Type().Underlying().(*types.Interface); ok {
			for i := 0; i < it.NumMethods(); i++ {
				if it.Method(i).Name() == obj.Name() {
					return true
				}
			}
		}
	}
	return false
}

func c44kStringKeyed(m ssa.Value) bool {
	mt, ok := m.Type().Underlying().(*types.Map)
	if !ok {
		return false
	}
	b, ok := mt.Key().Underlying().(*types.Basic)
	return ok && b.Info()&types.IsString != 0
}

func (k *c44k) accesses() []c44kAccess {
	var out []c44kAccess
	for _, f := range k.ix.funcs {
		for _, b := range f.Blocks {
			for _, in := range b.Instrs {
				switch x := in.(type) {
				case *ssa.Lookup:
					if c44kStringKeyed(x.X) {
						kind := "read"
						if x.CommaOk {
							kind = "read,ok"
						}
						out = append(out, c44kAccess{f, x.Pos(), kind, x.X, x.Index})
					}
				case *ssa.MapUpdate:
					if c44kStringKeyed(x.Map) {
						out = append(out, c44kAccess{f, x.Pos(), "store", x.Map, x.Key})
					}
				case *ssa.Call:
					if b, ok := x.Call.Value.(*ssa.Builtin); ok && b.Name() == "delete" && len(x.Call.Args) == 2 && c44kStringKeyed(x.Call.Args[0]) {
						out = append(out, c44kAccess{f, x.Pos(), "delete", x.Call.Args[0], x.Call.Args[1]})
					}
				}
			}
		}
	}
	return out
}

// norm: is v normalised on all reaching definitions? why names the first un-normalised source.
func (k *c44k) norm(v ssa.Value, depth int) (ok bool, why string) {
	if depth > 8 {
		return false, "normalisation not established within 8 call levels"
	}
	if k.visiting[v] {
		return true, "" // a cycle adds no new source
	}
	k.visiting[v] = true
	defer delete(k.visiting, v)
	switch x := v.(type) {
	case *ssa.Const:
		if x.Value != nil && x.Value.Kind() == constant.String {
			s := constant.StringVal(x.Value)
			if s == strings.ToLower(s) {
				return true, ""
			}
			return false, fmt.Sprintf("the constant %q is not lower-case", s)
		}
		return false, "a non-string constant"
	case *ssa.Call:
		if c44kIsToLower(x) {
			return true, ""
		}
		// Name() of an entry ranged out of a registry literal
		if k.nameMethod != "" && x.Call.IsInvoke() && x.Call.Method.Name() == k.nameMethod && len(x.Call.Args) == 0 {
			if k.fromRegistryRange(x.Call.Value, 0) {
				return true, ""
			}
		}
		if x.Call.IsInvoke() {
			return false, "the result of the interface call " + x.Call.Method.Name() + "()"
		}
		if cal := x.Call.StaticCallee(); cal != nil {
			// functions of package strings that keep a folded string folded (they only remove characters)
			if cal.Pkg != nil && cal.Pkg.Pkg.Path() == "strings" && c44kKeepsCase[cal.Name()] && len(x.Call.Args) > 0 {
				return k.norm(x.Call.Args[0], depth)
			}
			// a module function that returns a normalised value on every return
			if len(cal.Blocks) > 0 && k.ix.inMod[orgPkgOf(cal)] && cal.Signature.Results().Len() == 1 {
				all := true
				src := ""
				for _, b := range cal.Blocks {
					if ret, isRet := b.Instrs[len(b.Instrs)-1].(*ssa.Return); isRet {
						if o, w := k.norm(ret.Results[0], depth+1); !o {
							all, src = false, w
						}
					}
				}
				if all {
					return true, ""
				}
				return false, "the result of " + cal.Name() + "(): " + src
			}
			return false, "the result of " + cal.String()
		}
		return false, "the result of a dynamic call"
	case *ssa.Phi:
		for _, e := range x.Edges {
			if o, w := k.norm(e, depth); !o {
				return false, w
			}
		}
		return true, ""
	case *ssa.Extract:
		// key of a range over a domain map
		if nx, isNext := x.Tuple.(*ssa.Next); isNext && x.Index == 1 {
			if rg, isRange := nx.Iter.(*ssa.Range); isRange {
				if id := c44kMapID(rg.X); id != nil && k.domain[id] {
					return true, ""
				}
				if id := c44kMapID(rg.X); id != nil {
					return false, "a key ranged out of " + id.Name() + ", which is not a folded-name map"
				}
				return false, "a key ranged out of a map of unknown origin"
			}
		}
		return false, "a component of a multi-value result"
	case *ssa.Parameter:
		fn := x.Parent()
		idx := -1
		for i, p := range fn.Params {
			if p == x {
				idx = i
			}
		}
		exported := fn.Parent() == nil && fn.Object() != nil && fn.Object().Exported()
		if exported {
			return false, "parameter " + x.Name() + " of the exported " + c42FnName(fn)
		}
		sites := k.ix.callers[fn]
		if len(sites) == 0 || idx < 0 {
			return false, "parameter " + x.Name() + " of " + c42FnName(fn) + ", which has no static call site"
		}
		if k.dynamicallyCallable(fn) {
			return false, "parameter " + x.Name() + " of " + c42FnName(fn) + ", a method an interface of its package declares (callable dynamically)"
		}
		if fn.Object() != nil && k.usedAsValue(fn) {
			return false, "parameter " + x.Name() + " of " + c42FnName(fn) + ", which is also used as a function value"
		}
		for _, cs := range sites {
			args := cs.Common().Args
			if idx >= len(args) {
				return false, "parameter " + x.Name() + " of " + c42FnName(fn)
			}
			if o, w := k.norm(args[idx], depth+1); !o {
				return false, fmt.Sprintf("parameter %s of %s, passed un-normalised by %s (%s): %s", x.Name(), c42FnName(fn), c42FnName(cs.Parent()), k.c.P.Rel(cs.Pos()), w)
			}
		}
		return true, ""
	case *ssa.FreeVar:
		fn := x.Parent()
		idx := -1
		for i, fv := range fn.FreeVars {
			if fv == x {
				idx = i
			}
		}
		mcs := k.ix.closures[fn]
		if len(mcs) == 0 || idx < 0 {
			return false, "captured variable " + x.Name()
		}
		for _, mc := range mcs {
			if o, w := k.norm(mc.Bindings[idx], depth); !o {
				return false, w
			}
		}
		return true, ""
	case *ssa.UnOp:
		if x.Op == token.MUL {
			// a local variable cell (captured or address-taken): every store into it
			if al, isAlloc := x.X.(*ssa.Alloc); isAlloc {
				return k.normCell(al, depth)
			}
			if fv, isFV := x.X.(*ssa.FreeVar); isFV {
				fn := fv.Parent()
				for i, q := range fn.FreeVars {
					if q == fv {
						for _, mc := range k.ix.closures[fn] {
							if al, isAlloc := mc.Bindings[i].(*ssa.Alloc); isAlloc {
								return k.normCell(al, depth)
							}
						}
					}
				}
				return false, "captured variable " + fv.Name()
			}
			if fa, isFA := x.X.(*ssa.FieldAddr); isFA {
				if f := orgFieldOf(fa.X.Type(), fa.Field); f != nil {
					return false, "the field " + f.Name()
				}
			}
			return false, "a value loaded from memory"
		}
	case *ssa.ChangeType:
		return k.norm(x.X, depth)
	case *ssa.Convert:
		if b, isB := x.X.Type().Underlying().(*types.Basic); isB && b.Info()&types.IsString != 0 {
			return k.norm(x.X, depth)
		}
		return false, "a conversion from " + x.X.Type().String()
	case *ssa.BinOp:
		if x.Op == token.ADD {
			if o, w := k.norm(x.X, depth); !o {
				return false, w
			}
			return k.norm(x.Y, depth)
		}
	}
	return false, fmt.Sprintf("%T", v)
}

// normCell: every value stored into the cell (also from closures) is normalised.
func (k *c44k) normCell(al ssa.Value, depth int) (bool, string) {
	refs := al.Referrers()
	if refs == nil {
		return false, "a variable without visible stores"
	}
	n := 0
	for _, r := range *refs {
		switch x := r.(type) {
		case *ssa.Store:
			if x.Addr == al {
				n++
				if o, w := k.norm(x.Val, depth); !o {
					return false, w
				}
			}
		case *ssa.MakeClosure:
			fn, _ := x.Fn.(*ssa.Function)
			for i, b := range x.Bindings {
				if b == al && fn != nil && i < len(fn.FreeVars) {
					if o, w := k.normCell(fn.FreeVars[i], depth); !o && w != "a variable without visible stores" && w != "no store" {
						return false, w
					}
				}
			}
		}
	}
	if n == 0 {
		return false, "no store"
	}
	return true, ""
}

func (k *c44k) usedAsValue(fn *ssa.Function) bool {
	refs := fn.Referrers()
	if refs == nil {
		return false
	}
	for _, r := range *refs {
		ci, ok := r.(ssa.CallInstruction)
		if !ok || ci.Common().Value != ssa.Value(fn) {
			return true
		}
	}
	return false
}

// fromRegistryRange: v is the value variable of a range over a registry literal (directly, or over
// a slice literal whose elements are all registry literals).
func (k *c44k) fromRegistryRange(v ssa.Value, depth int) bool {
	ex, ok := v.(*ssa.Extract)
	if !ok || ex.Index != 2 {
		return false
	}
	nx, ok := ex.Tuple.(*ssa.Next)
	if !ok {
		return false
	}
	rg, ok := nx.Iter.(*ssa.Range)
	if !ok {
		return false
	}
	return k.isRegistry(rg.X, depth)
}

func (k *c44k) isRegistry(m ssa.Value, depth int) bool {
	if id := c44kMapID(m); id != nil {
		return k.registries[id]
	}
	if depth > 2 {
		return false
	}
	// an element of a slice/array literal: vars := []map…{systemVars, mariadbSystemVars}; for _, vars := range …
	if u, ok := m.(*ssa.UnOp); ok && u.Op == token.MUL {
		if ia, ok := u.X.(*ssa.IndexAddr); ok {
			base := ia.X
			if sl, ok := base.(*ssa.Slice); ok {
				base = sl.X
			}
			al, ok := base.(*ssa.Alloc)
			if !ok || al.Referrers() == nil {
				return false
			}
			n := 0
			for _, r := range *al.Referrers() {
				if ea, ok := r.(*ssa.IndexAddr); ok && ea.Referrers() != nil {
					for _, q := range *ea.Referrers() {
						if st, ok := q.(*ssa.Store); ok && st.Addr == ssa.Value(ea) {
							n++
							if !k.isRegistry(st.Val, depth+1) {
								return false
							}
						}
					}
				}
			}
			return n > 0
		}
	}
	return false
}

// c44kCfg: registries = the registry literal objects found by N1 (empty if N1 reported a violation:
// their Name()s are then not known to be folded); nameMethod = "GetName"; valueTypes = the named
// types of package sqlRel that hold a variable's definition or value: only maps with such elements
// belong to this property (other folded-name maps are listed in a note).
type c44kCfg struct {
	registries map[types.Object]bool
	nameMethod string
	sqlRel     string
	valueTypes []string
	floor      int
}

func (k *c44k) isVariableMap(id types.Object, cf c44kCfg) bool {
	mt, ok := id.Type().Underlying().(*types.Map)
	if !ok {
		return false
	}
	t := mt.Elem()
	if p, ok := t.(*types.Pointer); ok {
		t = p.Elem()
	}
	nt, ok := types.Unalias(t).(*types.Named)
	if !ok || nt.Obj().Pkg() == nil {
		return false
	}
	sp := k.c.P.Pkg(cf.sqlRel)
	return sp != nil && nt.Obj().Pkg() == sp.Types && contains(cf.valueTypes, nt.Obj().Name())
}

func runC44Keys(c *Ctx, cf c44kCfg) {
	c.Rule("C44-K1", "every read, comma-ok read, store and delete on a variable map whose readers fold the name (some access uses a strings.ToLower result as key) uses a key that is normalised on all reaching definitions", cf.floor)
	ix := orgIndexOf(c.P)
	k := &c44k{c: c, ix: ix, domain: map[types.Object]bool{}, registries: map[types.Object]bool{}, nameMethod: cf.nameMethod, visiting: map[ssa.Value]bool{}}
	for o := range cf.registries {
		k.registries[o] = true
	}
	acc := k.accesses()
	var outside []string
	for _, a := range acc {
		if id := c44kMapID(a.m); id != nil && !k.domain[id] && k.folded(a.key, 0) {
			if k.isVariableMap(id, cf) {
				k.domain[id] = true
			} else if n := c44kMapName(id); !contains(outside, n) {
				outside = append(outside, n)
			}
		}
	}
	// a registry that is also stored into at run time keeps N1 only for its literal: Name() of a ranged entry is then not known folded
	for _, a := range acc {
		if a.kind == "store" {
			if id := c44kMapID(a.m); id != nil && k.registries[id] {
				delete(k.registries, id)
				c.Notef("C44-K1: registry %s is also stored into at run time (%s, %s): Name() of an entry ranged out of it is not taken as folded", c44kMapName(id), c42FnName(a.fn), c.P.Rel(a.pos))
			}
		}
	}
	var names []string
	for id := range k.domain {
		names = append(names, c44kMapName(id))
	}
	sort.Strings(names)
	sort.Strings(outside)
	c.Notef("C44-K1 folded-name variable maps (%d): %v; folded-name maps outside the property (not decided): %v", len(names), names, outside)
	if len(k.domain) == 0 {
		c.Undecided("C44-K1", "domain", 0, "no variable map with a strings.ToLower key found")
		return
	}
	for _, a := range acc {
		id := c44kMapID(a.m)
		if id == nil || !k.domain[id] {
			continue
		}
		key := fmt.Sprintf("%s/%s[%s]", c42FnName(a.fn), c44kMapName(id), a.kind)
		ok, why := k.norm(a.key, 0)
		if ok {
			c.Ok("C44-K1", key, a.pos, "key normalised on all reaching definitions")
		} else {
			c.Bad("C44-K1", key, a.pos, fmt.Sprintf("%s of the folded-name map %s in %s uses a key that is not normalised: %s — every other access folds the name with strings.ToLower, so the entry is stored or looked up under a spelling nobody else uses",
				a.kind, c44kMapName(id), c42FnName(a.fn), why))
		}
	}
}

var c44kOwners map[*types.Var]string

func c44kMapName(id types.Object) string {
	if v, ok := id.(*types.Var); ok && v.IsField() {
		if c44kOwners == nil {
			c44kOwners = map[*types.Var]string{}
		}
		if o, ok := c44kOwners[v]; ok {
			return o + "." + v.Name()
		}
		if v.Pkg() != nil {
			sc := v.Pkg().Scope()
			for _, n := range sc.Names() {
				if tn, ok := sc.Lookup(n).(*types.TypeName); ok {
					if st, ok := tn.Type().Underlying().(*types.Struct); ok {
						for i := 0; i < st.NumFields(); i++ {
							if _, seen := c44kOwners[st.Field(i)]; !seen {
								c44kOwners[st.Field(i)] = tn.Name()
							}
						}
					}
				}
			}
		}
		if o, ok := c44kOwners[v]; ok {
			return o + "." + v.Name()
		}
		return v.Name()
	}
	if id.Pkg() != nil {
		return id.Pkg().Name() + "." + id.Name()
	}
	return id.Name()
}
