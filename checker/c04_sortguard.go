package main

import (
	"fmt"
	"go/ast"
	"go/constant"
	"go/types"
	"strings"

	"golang.org/x/tools/go/packages"
)

// C04-O8 — sort elimination by index order (analyzer.replaceIdxSort).
//
// The analyzer may drop a Sort node and serve ORDER BY from an index scan. An index scan
// (forward or reversed) delivers all key columns in ONE direction, so the Sort node may be
// *captured* for elimination only if all of its sort keys have the same direction.
//
// The clause is decided by folding the capturing arm — the case of the type switch over the plan
// node whose binding is a *plan.Sort and which assigns that binding to the function's *plan.Sort
// parameter — over the finite abstraction
//
//	{1,2,3 sort keys} x {each key ASC / DESC}
//
// with eng_mini (helpers such as isValidSortOrder are inlined; range loops over the sort
// conditions are unrolled, counted loops and len() are executed on the abstract list).
// The arm must leave the parameter nil (or return) whenever two keys differ in direction.

const c04O8 = "C04-O8"

type c04Dir struct {
	name string
	v    constant.Value
}

// c04SortCaptureArms finds, in package an, every (function, case clause) such that the clause is
// a case of a type switch whose case type is *plan.Sort and the function has a parameter of type
// *plan.Sort that is assigned inside the clause.
type c04CaptureArm struct {
	fd    *ast.FuncDecl
	cc    *ast.CaseClause
	bind  types.Object // the type-switch binding inside the clause
	param types.Object // the *plan.Sort parameter
}

func c04SortCaptureArms(c *Ctx, an *packages.Package, sortPtr types.Type) []c04CaptureArm {
	var out []c04CaptureArm
	info := an.TypesInfo
	for _, file := range an.Syntax {
		for _, d := range file.Decls {
			fd, ok := d.(*ast.FuncDecl)
			if !ok || fd.Body == nil {
				continue
			}
			var params []types.Object
			for _, fl := range fd.Type.Params.List {
				for _, n := range fl.Names {
					if o := info.Defs[n]; o != nil && types.Identical(o.Type(), sortPtr) {
						params = append(params, o)
					}
				}
			}
			if len(params) == 0 {
				continue
			}
			ast.Inspect(fd.Body, func(n ast.Node) bool {
				ts, ok := n.(*ast.TypeSwitchStmt)
				if !ok {
					return true
				}
				for _, cs := range ts.Body.List {
					cc := cs.(*ast.CaseClause)
					if len(cc.List) != 1 {
						continue
					}
					if tv, ok := info.Types[cc.List[0]]; !ok || !types.Identical(tv.Type, sortPtr) {
						continue
					}
					bind := info.Implicits[cc]
					if bind == nil {
						continue
					}
					for _, p := range params {
						assigned := false
						for _, st := range cc.Body {
							ast.Inspect(st, func(m ast.Node) bool {
								if as, ok := m.(*ast.AssignStmt); ok {
									for _, l := range as.Lhs {
										if id := identOf(l); id != nil && info.Uses[id] == p {
											assigned = true
										}
									}
								}
								return true
							})
						}
						if assigned {
							out = append(out, c04CaptureArm{fd, cc, bind, p})
						}
					}
				}
				return true
			})
		}
	}
	return out
}

func c04SortGuard(c *Ctx, an *packages.Package) {
	planPk, sqlPk := c.P.Pkg("sql/plan"), c.P.Pkg("sql")
	if planPk == nil || sqlPk == nil {
		c.Undecided(c04O8, "packages", 0, "sql/plan or sql not loaded")
		return
	}
	sortTN, _ := planPk.Types.Scope().Lookup("Sort").(*types.TypeName)
	if sortTN == nil {
		c.Undecided(c04O8, "plan.Sort", 0, "type not found")
		return
	}
	sortPtr := types.NewPointer(sortTN.Type())
	constOf := func(name string) constant.Value {
		if k, ok := sqlPk.Types.Scope().Lookup(name).(*types.Const); ok {
			return k.Val()
		}
		return nil
	}
	asc, desc := constOf("Ascending"), constOf("Descending")
	if asc == nil || desc == nil {
		c.Undecided(c04O8, "sort-constants", 0, "sql.Ascending/Descending not found")
		return
	}
	// the field of plan.Sort that holds the sort keys (type sql.SortConditions)
	scField := ""
	if st, ok := sortTN.Type().Underlying().(*types.Struct); ok {
		for i := 0; i < st.NumFields(); i++ {
			if nt, ok := st.Field(i).Type().(*types.Named); ok && nt.Obj().Name() == "SortConditions" && nt.Obj().Pkg() == sqlPk.Types {
				scField = st.Field(i).Name()
			}
		}
	}
	if scField == "" {
		c.Undecided(c04O8, "plan.Sort/SortConditions", sortTN.Pos(), "plan.Sort has no field of type sql.SortConditions")
		return
	}
	arms := c04SortCaptureArms(c, an, sortPtr)
	if len(arms) == 0 {
		c.Undecided(c04O8, "sort-capture", 0, "no function in sql/analyzer captures the *plan.Sort case of a node type switch into a *plan.Sort parameter (replaceIdxSortHelper's shape)")
		return
	}
	dirs := []c04Dir{{"ASC", asc}, {"DESC", desc}}
	for _, arm := range arms {
		fname := DeclName(arm.fd)
		for k := 1; k <= 3; k++ {
			for mask := 0; mask < 1<<k; mask++ {
				var seq []c04Dir
				var names []string
				for i := 0; i < k; i++ {
					d := dirs[(mask>>i)&1]
					seq = append(seq, d)
					names = append(names, d.name)
				}
				key := fname + "/capture/" + strings.Join(names, ",")
				same := true
				for _, d := range seq {
					if d.name != seq[0].name {
						same = false
					}
				}
				captured, err := c04FoldCapture(c, an, arm, scField, seq)
				if err != nil {
					c.Undecided(c04O8, key, arm.cc.Pos(), "capture arm not foldable: "+err.Error())
					continue
				}
				switch {
				case captured && !same:
					c.Bad(c04O8, key, arm.cc.Pos(), fmt.Sprintf("the Sort node with keys (%s) is captured for replacement by an index scan although its keys differ in direction: an index scan returns all key columns in one direction, so the rows come back in the wrong order for the key whose direction differs (and LIMIT/OFFSET slice that wrong sequence)", strings.Join(names, ", ")))
				case captured:
					c.Ok(c04O8, key, arm.cc.Pos(), "same direction: captured")
				case same:
					c.Ok(c04O8, key, arm.cc.Pos(), "same direction: not captured (the Sort node stays; slower, still ordered)")
				default:
					c.Ok(c04O8, key, arm.cc.Pos(), "mixed directions: Sort node kept")
				}
			}
		}
	}
}

// c04FoldCapture folds the capture arm for one abstract key list; captured = the *plan.Sort
// parameter holds the node afterwards.
func c04FoldCapture(c *Ctx, an *packages.Package, arm c04CaptureArm, scField string, seq []c04Dir) (bool, error) {
	info := an.TypesInfo
	var nullsFirst MV = &MSym{Name: "NullsFirst"}
	if sqlPk := c.P.Pkg("sql"); sqlPk != nil {
		if k, ok := sqlPk.Types.Scope().Lookup("NullsFirst").(*types.Const); ok {
			nullsFirst = k.Val() // MySQL: every key has the same NULL ordering
		}
	}
	scs := &MSym{Name: "sortConditions"}
	var elems []*MSym
	for i, d := range seq {
		elems = append(elems, &MSym{Name: fmt.Sprintf("key#%d", i), Fields: map[string]MV{"Order": d.v, "NullOrdering": nullsFirst, "Expr": &MSym{Name: fmt.Sprintf("expr#%d", i)}}})
	}
	node := &MSym{Name: "sortNode", Dyn: arm.bind.Type(), Fields: map[string]MV{scField: scs}}
	m := &Mini{P: c.P, Info: info, Counters: true}
	m.IndexV = func(m *Mini, x *ast.IndexExpr, base, idx MV) (MV, bool) {
		if base != MV(scs) {
			return nil, false
		}
		i, ok := MInt(idx)
		if !ok {
			return nil, false
		}
		if i < 0 || int(i) >= len(elems) {
			m.fail(x, "index %d out of range of a list of %d sort keys (run-time panic)", i, len(elems))
		}
		return elems[i], true
	}
	m.Unroll = func(m *Mini, rs *ast.RangeStmt, eval func(ast.Expr) MV) (int, func(int) (MV, MV), bool) {
		if eval(rs.X) != MV(scs) {
			return 0, nil, false
		}
		return len(elems), func(i int) (MV, MV) { return constant.MakeInt64(int64(i)), elems[i] }, true
	}
	m.Call = func(m *Mini, call *ast.CallExpr, fn *types.Func, recv MV, args []MV) ([]MV, bool) {
		if fn == nil && IsBuiltinCall(m.Info, call, "len") && len(args) == 1 && args[0] == MV(scs) {
			return []MV{constant.MakeInt64(int64(len(elems)))}, true
		}
		return nil, false
	}
	bind := map[types.Object]MV{arm.bind: node, arm.param: &MSym{Name: "nil", Nil: true}}
	for _, fl := range arm.fd.Type.Params.List {
		for _, n := range fl.Names {
			if o := info.Defs[n]; o != nil && o != arm.param {
				bind[o] = &MSym{Name: n.Name}
			}
		}
	}
	_, returned, panicked, get, err := m.RunBlock(arm.cc.Body, bind)
	if err != nil {
		return false, err
	}
	if panicked {
		return false, fmt.Errorf("the arm panics")
	}
	if returned {
		return false, nil // the arm leaves the function: nothing captured for the children
	}
	v, _ := get(arm.param)
	s, _ := v.(*MSym)
	switch {
	case s == node:
		return true, nil
	case s != nil && s.Nil:
		return false, nil
	}
	return false, fmt.Errorf("the *plan.Sort parameter holds neither nil nor the node after the arm")
}
