package main

import (
	"fmt"
	"go/ast"
	"go/constant"
	"go/types"

	"golang.org/x/tools/go/packages"
)

func init() {
	register(&Property{
		ID:       "C05",
		Patterns: []string{"./sql", "./sql/expression", "./sql/plan"},
		Explanation: "Whatever value v in {TRUE, FALSE, NULL} a predicate p takes on a row, exactly one of the filters `p`, `NOT p`, `p IS NULL` must keep the row. That holds iff three small tables are right, " +
			"and they are read from the source by folding over the three truth values: (T1) the connectives expression.And/Or/Xor/Not are Kleene's three-valued tables (9+9+9+3 entries), IS NULL is `v == nil`, " +
			"IS TRUE / IS FALSE never return NULL; (T2) sql.IsTrue / sql.IsFalse accept exactly TRUE / exactly FALSE and sql.EvaluateCondition maps NULL to NULL; (T3) plan.FilterIter.Next emits a row iff the " +
			"condition is TRUE; (P) composed from the folded tables: for each truth value of p exactly one of FilterIter(p), FilterIter(Not p), FilterIter(IsNull p) emits.",
		NotCovered: "the value of p itself for arbitrary expressions and functions, soundness of filter rewrites (simplifyFilters, pushNotFilters, push-down, backend-handled filters), join ON / HAVING sites other than FilterIter (listed as information), the value-row executor (NextValueRow)",
		Technique:  "finite-domain abstract interpretation (AST folding over the three truth values) of the connectives and the filter's truth test",
		Run:        runC05,
	})
}

// truth values: 1 TRUE, 0 FALSE, -1 NULL
func c05Val(v int) MV {
	switch v {
	case 1:
		return constant.MakeBool(true)
	case 0:
		return constant.MakeBool(false)
	}
	return &MSym{Name: "nil", Nil: true}
}

func c05Name(v int) string { return map[int]string{1: "TRUE", 0: "FALSE", -1: "NULL"}[v] }

func c05Decode(v MV) (int, bool) {
	if b, ok := MBool(v); ok {
		if b {
			return 1, true
		}
		return 0, true
	}
	if s, ok := v.(*MSym); ok && s.Nil {
		return -1, true
	}
	return 0, false
}

// c05FoldEval folds an expression's Eval with child values given by field name.
func c05FoldEval(c *Ctx, pk *packages.Package, fd *ast.FuncDecl, children map[string]int, fields map[string]MV) (int, error) {
	recv := &MSym{Name: "self", Fields: map[string]MV{}}
	childSym := map[*MSym]int{}
	for name, v := range children {
		s := &MSym{Name: name}
		recv.Fields[name] = s
		childSym[s] = v
	}
	for k, v := range fields {
		recv.Fields[k] = v
	}
	m := &Mini{P: c.P, Info: pk.TypesInfo}
	nilErr := &MSym{Name: "nil", Nil: true}
	m.Call = func(m *Mini, call *ast.CallExpr, fn *types.Func, recv MV, args []MV) ([]MV, bool) {
		if fn == nil {
			return nil, false
		}
		sig := fn.Type().(*types.Signature)
		if rs, ok := recv.(*MSym); ok {
			if v, isChild := childSym[rs]; isChild && sig.Results().Len() == 2 {
				return []MV{c05Val(v), nilErr}, true // child.Eval(ctx,row)
			}
		}
		if fn.Name() == "ConvertToBool" && len(args) == 2 {
			if _, ok := MBool(args[1]); ok {
				return []MV{args[1], nilErr}, true
			}
		}
		if fn.Name() == "StartRegion" || fn.Name() == "End" {
			return []MV{&MSym{Name: "region"}}, true
		}
		return nil, false
	}
	bind := map[types.Object]MV{}
	if fd.Recv != nil && len(fd.Recv.List[0].Names) > 0 {
		bind[pk.TypesInfo.Defs[fd.Recv.List[0].Names[0]]] = recv
	}
	for _, fl := range fd.Type.Params.List {
		for _, n := range fl.Names {
			if o := pk.TypesInfo.Defs[n]; o != nil {
				bind[o] = &MSym{Name: n.Name}
			}
		}
	}
	res, panicked, err := m.RunFunc(fd, bind)
	if err != nil {
		return 0, err
	}
	if panicked || len(res) != 2 {
		return 0, fmt.Errorf("unexpected result shape")
	}
	v, ok := c05Decode(res[0])
	if !ok {
		return 0, fmt.Errorf("result is not a truth value")
	}
	return v, nil
}

func runC05(c *Ctx) {
	c.Rule("C05-T1", "expression.And/Or/Xor/Not/IsNull/IsTrue.Eval folded over {TRUE,FALSE,NULL} equal Kleene's tables (IS NULL = v==nil; IS TRUE/IS FALSE two-valued)", 39)
	c.Rule("C05-T2", "sql.IsTrue accepts exactly TRUE, sql.IsFalse exactly FALSE; sql.EvaluateCondition keeps TRUE/FALSE/NULL apart", 9)
	c.Rule("C05-T3", "plan.FilterIter.Next emits the row iff the evaluated condition is TRUE", 3)
	c.Rule("C05-P", "for each truth value of p exactly one of FilterIter(p), FilterIter(NOT p), FilterIter(p IS NULL) emits (composition of the folded tables)", 3)
	ex, sq, pl := c.P.Pkg("sql/expression"), c.P.Pkg("sql"), c.P.Pkg("sql/plan")
	if ex == nil || sq == nil || pl == nil {
		c.Undecided("C05-T1", "packages", 0, "anchor packages not loaded")
		return
	}
	vals := []int{1, 0, -1}
	kAnd := func(a, b int) int {
		if a == 0 || b == 0 {
			return 0
		}
		if a == -1 || b == -1 {
			return -1
		}
		return 1
	}
	kOr := func(a, b int) int {
		if a == 1 || b == 1 {
			return 1
		}
		if a == -1 || b == -1 {
			return -1
		}
		return 0
	}
	kXor := func(a, b int) int {
		if a == -1 || b == -1 {
			return -1
		}
		if a != b {
			return 1
		}
		return 0
	}
	for _, bin := range []struct {
		typ string
		f   func(a, b int) int
	}{{"And", kAnd}, {"Or", kOr}, {"Xor", kXor}} {
		fd := c.P.Decl(LookupFunc(ex, bin.typ+".Eval"))
		if fd == nil {
			c.Undecided("C05-T1", bin.typ+".Eval", 0, "not found")
			continue
		}
		for _, a := range vals {
			for _, b := range vals {
				key := fmt.Sprintf("%s(%s,%s)", bin.typ, c05Name(a), c05Name(b))
				got, err := c05FoldEval(c, ex, fd, map[string]int{"LeftChild": a, "RightChild": b}, nil)
				if err != nil {
					c.Undecided("C05-T1", key, fd.Pos(), err.Error())
					continue
				}
				c.Check(got == bin.f(a, b), "C05-T1", key, fd.Pos(), c05Name(got), fmt.Sprintf("%s yields %s, three-valued logic requires %s", key, c05Name(got), c05Name(bin.f(a, b))))
			}
		}
	}
	notTab := map[int]int{}
	if fd := c.P.Decl(LookupFunc(ex, "Not.Eval")); fd == nil {
		c.Undecided("C05-T1", "Not.Eval", 0, "not found")
	} else {
		for _, a := range vals {
			key := fmt.Sprintf("Not(%s)", c05Name(a))
			got, err := c05FoldEval(c, ex, fd, map[string]int{"Child": a}, nil)
			if err != nil {
				c.Undecided("C05-T1", key, fd.Pos(), err.Error())
				continue
			}
			notTab[a] = got
			want := map[int]int{1: 0, 0: 1, -1: -1}[a]
			c.Check(got == want, "C05-T1", key, fd.Pos(), c05Name(got), fmt.Sprintf("%s yields %s, must be %s", key, c05Name(got), c05Name(want)))
		}
	}
	isNullTab := map[int]int{}
	if fd := c.P.Decl(LookupFunc(ex, "IsNull.Eval")); fd == nil {
		c.Undecided("C05-T1", "IsNull.Eval", 0, "not found")
	} else {
		for _, a := range vals {
			key := fmt.Sprintf("IsNull(%s)", c05Name(a))
			got, err := c05FoldEval(c, ex, fd, map[string]int{"Child": a}, nil)
			if err != nil {
				c.Undecided("C05-T1", key, fd.Pos(), err.Error())
				continue
			}
			isNullTab[a] = got
			want := 0
			if a == -1 {
				want = 1
			}
			c.Check(got == want, "C05-T1", key, fd.Pos(), c05Name(got), fmt.Sprintf("%s yields %s, must be %s", key, c05Name(got), c05Name(want)))
		}
	}
	if fd := c.P.Decl(LookupFunc(ex, "IsTrue.Eval")); fd == nil {
		c.Undecided("C05-T1", "IsTrue.Eval", 0, "not found")
	} else {
		for _, inv := range []bool{false, true} {
			for _, a := range vals {
				name := "IsTrue"
				want := 0
				if a == 1 {
					want = 1
				}
				if inv {
					name = "IsFalse"
					want = 0
					if a == 0 {
						want = 1
					}
				}
				key := fmt.Sprintf("%s(%s)", name, c05Name(a))
				got, err := c05FoldEval(c, ex, fd, map[string]int{"Child": a}, map[string]MV{"invert": constant.MakeBool(inv)})
				if err != nil {
					c.Undecided("C05-T1", key, fd.Pos(), err.Error())
					continue
				}
				c.Check(got == want, "C05-T1", key, fd.Pos(), c05Name(got), fmt.Sprintf("%s yields %s, must be %s (IS TRUE / IS FALSE are two-valued)", key, c05Name(got), c05Name(want)))
			}
		}
	}

	// ---- T2: sql.IsTrue / IsFalse / EvaluateCondition ------------------------------------
	truthFn := func(name string) map[int]int {
		out := map[int]int{}
		fd := c.P.Decl(LookupFunc(sq, name))
		if fd == nil {
			c.Undecided("C05-T2", name, 0, "not found")
			return nil
		}
		for _, a := range vals {
			m := &Mini{P: c.P, Info: sq.TypesInfo}
			bind := map[types.Object]MV{}
			for _, fl := range fd.Type.Params.List {
				for _, n := range fl.Names {
					bind[sq.TypesInfo.Defs[n]] = c05Val(a)
				}
			}
			res, panicked, err := m.RunFunc(fd, bind)
			if err != nil || panicked || len(res) != 1 {
				c.Undecided("C05-T2", fmt.Sprintf("%s(%s)", name, c05Name(a)), fd.Pos(), fmt.Sprint(err))
				return nil
			}
			b, ok := MBool(res[0])
			if !ok {
				c.Undecided("C05-T2", fmt.Sprintf("%s(%s)", name, c05Name(a)), fd.Pos(), "non-boolean result")
				return nil
			}
			out[a] = map[bool]int{true: 1, false: 0}[b]
		}
		return out
	}
	isTrue := truthFn("IsTrue")
	isFalse := truthFn("IsFalse")
	for _, a := range vals {
		if isTrue != nil {
			c.Check((isTrue[a] == 1) == (a == 1), "C05-T2", fmt.Sprintf("sql.IsTrue(%s)", c05Name(a)), LookupFunc(sq, "IsTrue").Pos(), "", fmt.Sprintf("sql.IsTrue(%s)=%v: filters would keep rows whose condition is not TRUE (or drop TRUE ones)", c05Name(a), isTrue[a] == 1))
		}
		if isFalse != nil {
			c.Check((isFalse[a] == 1) == (a == 0), "C05-T2", fmt.Sprintf("sql.IsFalse(%s)", c05Name(a)), LookupFunc(sq, "IsFalse").Pos(), "", fmt.Sprintf("sql.IsFalse(%s)=%v", c05Name(a), isFalse[a] == 1))
		}
	}
	evalCond := map[int]int{}
	if fd := c.P.Decl(LookupFunc(sq, "EvaluateCondition")); fd == nil {
		c.Undecided("C05-T2", "EvaluateCondition", 0, "not found")
	} else {
		for _, a := range vals {
			key := fmt.Sprintf("EvaluateCondition(%s)", c05Name(a))
			cond := &MSym{Name: "cond"}
			m := &Mini{P: c.P, Info: sq.TypesInfo}
			nilErr := &MSym{Name: "nil", Nil: true}
			m.Call = func(m *Mini, call *ast.CallExpr, fn *types.Func, recv MV, args []MV) ([]MV, bool) {
				if fn == nil {
					return nil, false
				}
				if recv == MV(cond) {
					return []MV{c05Val(a), nilErr}, true
				}
				if fn.Name() == "ConvertToBool" && len(args) == 2 {
					if _, ok := MBool(args[1]); ok {
						return []MV{args[1], nilErr}, true
					}
				}
				return nil, false
			}
			bind := map[types.Object]MV{}
			i := 0
			for _, fl := range fd.Type.Params.List {
				for _, n := range fl.Names {
					if i == 1 {
						bind[sq.TypesInfo.Defs[n]] = cond
					} else {
						bind[sq.TypesInfo.Defs[n]] = &MSym{Name: n.Name}
					}
					i++
				}
			}
			// skip the leading `defer trace…` statement: tracing is outside the abstraction
			body := fd.Body.List
			for len(body) > 0 {
				if _, ok := body[0].(*ast.DeferStmt); ok {
					body = body[1:]
					continue
				}
				break
			}
			res, returned, panicked, _, err := m.RunBlock(body, bind)
			if err != nil || panicked || !returned || len(res) != 2 {
				c.Undecided("C05-T2", key, fd.Pos(), fmt.Sprint(err))
				continue
			}
			got, ok := c05Decode(res[0])
			c.Check(ok && got == a, "C05-T2", key, fd.Pos(), c05Name(got), fmt.Sprintf("EvaluateCondition maps %s to %s", c05Name(a), c05Name(got)))
			evalCond[a] = got
		}
	}

	// ---- T3: FilterIter.Next ------------------------------------------------------------------
	emits := map[int]bool{}
	if fd := c.P.Decl(LookupFunc(pl, "FilterIter.Next")); fd == nil {
		c.Undecided("C05-T3", "FilterIter.Next", 0, "not found")
	} else {
		evalFn := LookupFunc(sq, "EvaluateCondition")
		for _, a := range vals {
			key := fmt.Sprintf("FilterIter.Next(cond=%s)", c05Name(a))
			rowSym := &MSym{Name: "row"}
			nilErr := &MSym{Name: "nil", Nil: true}
			m := &Mini{P: c.P, Info: pl.TypesInfo}
			m.Sel = func(m *Mini, sel *ast.SelectorExpr, base MV) (MV, bool) {
				if base != nil {
					return &MSym{Name: sel.Sel.Name}, true
				}
				return nil, false
			}
			m.Call = func(m *Mini, call *ast.CallExpr, fn *types.Func, recv MV, args []MV) ([]MV, bool) {
				if fn == nil {
					return nil, false
				}
				if fn == evalFn {
					v := a
					if e, ok := evalCond[a]; ok {
						v = e
					}
					return []MV{c05Val(v), nilErr}, true
				}
				if fn.Name() == "Next" && fn.Type().(*types.Signature).Results().Len() == 2 {
					return []MV{rowSym, nilErr}, true
				}
				return nil, false // sql.IsTrue is inlined (folded)
			}
			bind := map[types.Object]MV{}
			if fd.Recv != nil && len(fd.Recv.List[0].Names) > 0 {
				bind[pl.TypesInfo.Defs[fd.Recv.List[0].Names[0]]] = &MSym{Name: "i"}
			}
			for _, fl := range fd.Type.Params.List {
				for _, n := range fl.Names {
					bind[pl.TypesInfo.Defs[n]] = &MSym{Name: n.Name}
				}
			}
			res, panicked, err := m.RunFunc(fd, bind)
			if err != nil || panicked || len(res) == 0 {
				c.Undecided("C05-T3", key, fd.Pos(), fmt.Sprint(err))
				continue
			}
			_, skipped := res[0].(MNext)
			emitted := !skipped && res[0] == MV(rowSym)
			if !skipped && !emitted {
				c.Undecided("C05-T3", key, fd.Pos(), "neither emits the row nor moves to the next one")
				continue
			}
			emits[a] = emitted
			c.Check(emitted == (a == 1), "C05-T3", key, fd.Pos(), fmt.Sprint(emitted), fmt.Sprintf("FilterIter emits=%v for a condition that is %s; WHERE keeps exactly the TRUE rows", emitted, c05Name(a)))
		}
	}

	// ---- P: the partition, composed from the folded tables -----------------------------------
	if len(emits) == 3 && len(notTab) == 3 && len(isNullTab) == 3 {
		for _, a := range vals {
			n := 0
			var who []string
			if emits[a] {
				n++
				who = append(who, "p")
			}
			if emits[notTab[a]] {
				n++
				who = append(who, "NOT p")
			}
			if emits[isNullTab[a]] {
				n++
				who = append(who, "p IS NULL")
			}
			c.Check(n == 1, "C05-P", "partition/p="+c05Name(a), LookupFunc(pl, "FilterIter.Next").Pos(), fmt.Sprint(who), fmt.Sprintf("a row on which p is %s is kept by %d of the three filters %v; the three parts must partition the rows", c05Name(a), n, who))
		}
	}

	// information: other sites that decide on a condition's truth
	nSites := 0
	for _, pk := range c.P.Module {
		for _, file := range pk.Syntax {
			ast.Inspect(file, func(n ast.Node) bool {
				if call, ok := n.(*ast.CallExpr); ok {
					if fn := Callee(pk.TypesInfo, call); fn != nil && fn.Pkg() == sq.Types && (fn.Name() == "IsTrue" || fn.Name() == "IsFalse") {
						nSites++
					}
				}
				return true
			})
		}
	}
	c.Notef("calls of sql.IsTrue/sql.IsFalse in the loaded packages: %d (only plan.FilterIter.Next is folded)", nSites)
}
