package main

import (
	"fmt"
	"go/ast"
	"go/token"
	"go/types"
	"sort"
	"strings"

	"golang.org/x/tools/go/packages"
)

type c52Names struct {
	typesRel, spatialRel       string
	writeEWKB, writeWKB, iface string
	evalFn                     string
	evalArg                    int
	unknown                    string
}

var c52MutExceptions = map[string]string{}

func init() {
	real := c52Names{typesRel: "sql/types", spatialRel: "sql/expression/function/spatial", writeEWKB: "WriteEWKBHeader", writeWKB: "WriteWKBHeader",
		iface: "GeometryValue", evalFn: "EvalGeomFromWKB", evalArg: 3, unknown: "WKBUnknown"}
	fx := real
	fx.typesRel, fx.spatialRel = "testdata/c52/types", "testdata/c52/spatial"
	register(&Property{
		ID:        "C52",
		Patterns:  []string{"./sql/expression/function/spatial"},
		Technique: "writer/reader constant tables over go/types: serialiser header ids per geometry type, deserialiser dispatch switches, nested-element headers, typed FROMWKB constructors; M1: backward origin analysis over go/ssa (freshness engine: fresh/param/global/foreign leaves, flow-sensitive local cells and struct fields, callee result summaries, forwarding closure of writers over the static call graph)",
		Explanation: "Geometry values are stored and exchanged as (E)WKB: a header with a type id (types.WKB*ID) followed by the data. Decided: (W1) every geometry struct's serialiser writes one id constant, " +
			"ids are pairwise distinct, and every type implementing GeometryValue is covered by GeomColl.WriteData's type-switch table with the same id; nested element headers written by the multi-geometries carry the id of their element type; " +
			"(R1) in every switch over the WKB id, the arm for id C calls the deserialiser whose result type's serialiser writes C, the switch covers all ids or its default returns an error; " +
			"every guard 'if typ != C { error }' is followed by the deserialiser of the type that writes C; " +
			"(F1) every typed ST_*FROMWKB function passes to EvalGeomFromWKB the id that the value type of its declared SQL type writes (the generic one passes WKBUnknown). " +
			"A violated instance makes ST_GeomFromWKB(ST_AsWKB(g)) (or the stored form of g) come back as a different type or be rejected. " +
			"(M1) geometry values are immutable: the value types (the struct implementers of GeometryValue, enumerated by go/types) are copied by value but share their point / ring / member slices with the value they were copied from - the row stored in the table. " +
			"Every store into an element of a slice of geometry values or through a pointer to one, every copy() into such a slice, every append to a shortened re-slice of one (x[:k], the reuse-the-buffer idiom), every in-place sort/reverse of one (sort.Slice, slices.Sort..., frozen list) " +
			"and every call of a module function that does one of these through its own parameter must target memory the storing function allocated itself (make, composite literal, append to those, a callee that returns only fresh memory). " +
			"A target reached from the receiver, from a parameter of geometry type, from the result of Eval/UnwrapGeometry, from a field or a global rewrites a value the function does not own: ST_AsWKB(g)/ST_SwapXY(g) would change the stored g, so ST_GeomFromWKB(ST_AsWKB(g)) stops being g. " +
			"Destination-passing helpers (a []Point parameter that is not a geometry value, static callers only) are decided at their call sites.",
		NotCovered: "coordinate data round trip, byte order, SRID handling, WKT and GeoJSON codecs, spatial index vs predicate agreement; for M1: append to a full-length shared slice (writes in place only if there is spare capacity), stores performed inside callees whose bodies are not read (other than the listed in-place functions of sort/slices), aliases through the stored address of a local, sharing without writing (a result that keeps the operand's slice is fine for immutable values), []byte buffers (destination buffers by design)",
		Run: func(c *Ctx) {
			runC52(c, real, 7)
			runC52Mut(c, c52MutCfg{typesRel: real.typesRel, iface: real.iface, floor: 40, minTypes: 7, exc: c52MutExceptions})
		},
		Fixture: func(c *Ctx, fx2 *Prog) {
			expectFixture(c, fx2, "c52: wrong element header, wrong reader arm, missing id without error default, wrong guard, wrong typed constructor must be reported",
				[]string{
					"C52-W1:MultiPoint.WriteData/element-header",
					"C52-W1:GeomColl.WriteData/type-switch/Line",
					"C52-R1:Decode/switch/WKBLineID",
					"C52-R1:Decode/switch/total",
					"C52-R1:DecodeMulti/guard/WKBLineID",
					"C52-F1:LineFromWKB.Eval",
				},
				func(fc *Ctx) { runC52(fc, fx, 0) })
			expectFixture(c, fx2, "c52-M1: rings swapped in place through a value receiver, points rewritten two levels down, helper writing the receiver's members, operand sorted / de-duplicated / overwritten in place",
				[]string{
					"C52-M1:Poly.Swap/store p.Lines[]",
					"C52-M1:Poly.SetSRID/store p.Lines[].Points[].SRID",
					"C52-M1:Coll.Swap/swapAll(c.Geoms)",
					"C52-M1:sortedInPlace/sort.Slice(pts)",
					"C52-M1:dedupInPlace/append to shortened re-slice of e.Eval().(mut.Line).Points",
					"C52-M1:copyOver/copy into e.Eval().(mut.Line).Points",
					"C52-M1:editSwappedAny/store l.Points[].SRID",
				},
				func(fc *Ctx) {
					runC52Mut(fc, c52MutCfg{typesRel: "testdata/c52/mut", iface: "GeometryValue", minTypes: 4})
				})
		},
		FixturePkgs: []string{"./testdata/c52/types", "./testdata/c52/spatial", "./testdata/c52/mut"},
	})
}

func runC52(c *Ctx, nm c52Names, nTypes int) {
	fl := func(n int) int {
		if c.fixtureMode {
			return 0
		}
		return n
	}
	c.Rule("C52-W1", "per geometry struct: its serialiser writes exactly one WKB id, ids pairwise distinct; per nested element header / type-switch table entry: the id is the one the element's (case's) type writes; the type switch covers every "+nm.iface+" implementer", fl(2*nTypes+4))
	c.Rule("C52-R1", "per arm of a switch over the WKB id: the deserialiser called returns the type whose serialiser writes that id; per switch: total or error default; per guard 'typ != C': the next deserialiser is C's", fl(3*nTypes+3+5))
	c.Rule("C52-F1", "per call of "+nm.evalFn+" from a typed constructor: the expected id is the one written by the value type (Zero()) of the SQL type its Type() declares; "+nm.unknown+" only for the generic geometry type", fl(nTypes+1))
	tp, sp := c.P.Pkg(nm.typesRel), c.P.Pkg(nm.spatialRel)
	if tp == nil || sp == nil {
		c.Undecided("C52-W1", "packages", 0, "anchor packages not loaded")
		return
	}
	// id constants
	ids := map[types.Object]string{}
	for _, n := range tp.Types.Scope().Names() {
		if k, ok := tp.Types.Scope().Lookup(n).(*types.Const); ok && strings.HasPrefix(n, "WKB") && strings.HasSuffix(n, "ID") {
			ids[k] = n
		}
	}
	unknownObj := tp.Types.Scope().Lookup(nm.unknown)
	if len(ids) < 2 || (len(ids) < nTypes && !c.fixtureMode) {
		c.Undecided("C52-W1", "ids", 0, fmt.Sprintf("found %d WKB*ID constants, expected %d", len(ids), nTypes))
		return
	}
	idOf := func(info *types.Info, x ast.Expr) (string, bool) {
		for {
			x = ast.Unparen(x)
			if call, ok := x.(*ast.CallExpr); ok && len(call.Args) == 1 {
				if tv, ok := info.Types[call.Fun]; ok && tv.IsType() {
					x = call.Args[0]
					continue
				}
			}
			break
		}
		var o types.Object
		switch e := x.(type) {
		case *ast.Ident:
			o = info.Uses[e]
		case *ast.SelectorExpr:
			o = info.Uses[e.Sel]
		}
		if o == nil {
			return "", false
		}
		if n, ok := ids[o]; ok {
			return n, true
		}
		if o == unknownObj {
			return nm.unknown, true
		}
		return "", false
	}
	ewkb, wkb := LookupFunc(tp, nm.writeEWKB), LookupFunc(tp, nm.writeWKB)
	if ewkb == nil || wkb == nil {
		c.Undecided("C52-W1", "header-writers", 0, "header writer functions not found")
		return
	}
	named := func(t types.Type) *types.Named {
		if p, ok := types.Unalias(t).(*types.Pointer); ok {
			t = p.Elem()
		}
		nt, _ := types.Unalias(t).(*types.Named)
		return nt
	}

	// ---- W: serialiser table ----------------------------------------------------------------------
	W := map[string]string{} // type name -> id name
	wPos := map[string]token.Pos{}
	type elemHdr struct {
		fd   *ast.FuncDecl
		recv *types.Named
		id   string
		pos  token.Pos
	}
	var elems []elemHdr
	tinfo := tp.TypesInfo
	c.P.EachFuncDecl([]string{nm.typesRel}, func(pk *packages.Package, fd *ast.FuncDecl) {
		if fd.Recv == nil || len(fd.Recv.List) == 0 {
			return
		}
		rt := named(tinfo.TypeOf(fd.Recv.List[0].Type))
		if rt == nil {
			return
		}
		ast.Inspect(fd.Body, func(n ast.Node) bool {
			call, ok := n.(*ast.CallExpr)
			if !ok {
				return true
			}
			switch originOf(Callee(tinfo, call)) {
			case ewkb:
				id, ok := idOf(tinfo, call.Args[len(call.Args)-1])
				if !ok {
					c.Undecided("C52-W1", rt.Obj().Name()+"."+fd.Name.Name+"/header", call.Pos(), "EWKB header id is not a WKB*ID constant")
					return true
				}
				if prev, dup := W[rt.Obj().Name()]; dup && prev != id {
					c.Bad("C52-W1", rt.Obj().Name()+"/two-ids", call.Pos(), fmt.Sprintf("%s writes both %s and %s", rt.Obj().Name(), prev, id))
				}
				W[rt.Obj().Name()] = id
				wPos[rt.Obj().Name()] = call.Pos()
			case wkb:
				if id, ok := idOf(tinfo, call.Args[len(call.Args)-1]); ok {
					elems = append(elems, elemHdr{fd, rt, id, call.Pos()})
				}
			}
			return true
		})
	})
	var tnames []string
	for t := range W {
		tnames = append(tnames, t)
	}
	sort.Strings(tnames)
	byID := map[string]string{}
	for _, t := range tnames {
		if other, dup := byID[W[t]]; dup {
			c.Bad("C52-W1", t+"/serialiser-id", wPos[t], fmt.Sprintf("%s and %s both write %s: the reader cannot tell them apart", other, t, W[t]))
		} else {
			c.Ok("C52-W1", t+"/serialiser-id", wPos[t], W[t])
			byID[W[t]] = t
		}
	}
	if len(W) < nTypes {
		c.Undecided("C52-W1", "serialisers", 0, fmt.Sprintf("found %d geometry serialisers (methods calling %s with a constant id), expected %d", len(W), nm.writeEWKB, nTypes))
	}
	// nested element headers
	for _, e := range elems {
		st, ok := e.recv.Underlying().(*types.Struct)
		var elemT *types.Named
		n := 0
		if ok {
			for i := 0; i < st.NumFields(); i++ {
				if sl, ok := st.Field(i).Type().Underlying().(*types.Slice); ok {
					if nt := named(sl.Elem()); nt != nil && W[nt.Obj().Name()] != "" {
						elemT = nt
						n++
					}
				}
			}
		}
		key := e.recv.Obj().Name() + "." + e.fd.Name.Name + "/element-header"
		if n != 1 {
			c.Undecided("C52-W1", key, e.pos, "element type of the multi-geometry not determined (need exactly one slice field of a geometry type)")
			continue
		}
		c.Check(W[elemT.Obj().Name()] == e.id, "C52-W1", key, e.pos, e.id,
			fmt.Sprintf("%s writes nested headers with %s but its elements are %s values, whose id is %s: the reader's element guard rejects the data", e.recv.Obj().Name(), e.id, elemT.Obj().Name(), W[elemT.Obj().Name()]))
	}
	// type-switch tables (Go type -> id)
	ifaceObj, _ := tp.Types.Scope().Lookup(nm.iface).(*types.TypeName)
	c.P.EachFuncDecl([]string{nm.typesRel}, func(pk *packages.Package, fd *ast.FuncDecl) {
		ast.Inspect(fd.Body, func(n ast.Node) bool {
			ts, ok := n.(*ast.TypeSwitchStmt)
			if !ok {
				return true
			}
			table := map[string]string{}
			hasDefault := false
			var pos = map[string]token.Pos{}
			for _, cs := range ts.Body.List {
				cc := cs.(*ast.CaseClause)
				if cc.List == nil {
					hasDefault = true
				}
				var id string
				for _, st := range cc.Body {
					if as, ok := st.(*ast.AssignStmt); ok && len(as.Rhs) == 1 {
						if v, ok := idOf(tinfo, as.Rhs[0]); ok {
							id = v
						}
					}
				}
				if id == "" {
					continue
				}
				for _, x := range cc.List {
					if nt := named(tinfo.TypeOf(x)); nt != nil {
						table[nt.Obj().Name()] = id
						pos[nt.Obj().Name()] = cc.Pos()
					}
				}
			}
			if len(table) < 2 {
				return true
			}
			base := DeclName(fd) + "/type-switch/"
			var ks []string
			for t := range table {
				ks = append(ks, t)
			}
			sort.Strings(ks)
			for _, t := range ks {
				c.Check(W[t] == table[t], "C52-W1", base+t, pos[t], table[t],
					fmt.Sprintf("the table maps %s to %s but %s's own serialiser writes %s: a %s inside a collection is read back as another type or rejected", t, table[t], t, W[t], t))
			}
			// totality over implementers
			if ifaceObj != nil && !hasDefault {
				if it, ok := ifaceObj.Type().Underlying().(*types.Interface); ok {
					var missing []string
					for _, t := range tnames {
						obj, _ := tp.Types.Scope().Lookup(t).(*types.TypeName)
						if obj != nil && types.Implements(obj.Type(), it) && table[t] == "" {
							missing = append(missing, t)
						}
					}
					c.Check(len(missing) == 0, "C52-W1", base+"total", ts.Pos(), "",
						fmt.Sprintf("%v implement %s but have no case and there is no default: the header is written with id 0 and cannot be read back", missing, nm.iface))
				}
			}
			return true
		})
	})

	// deserialiser: function of the types package whose first result is a geometry struct and which takes a []byte
	deserResult := func(fn *types.Func) string {
		if fn == nil || fn.Pkg() != tp.Types {
			return ""
		}
		sig := fn.Type().(*types.Signature)
		if sig.Recv() != nil || sig.Results().Len() < 1 || sig.Params().Len() < 1 {
			return ""
		}
		if sl, ok := sig.Params().At(0).Type().Underlying().(*types.Slice); !ok || !types.Identical(sl.Elem(), types.Typ[types.Byte]) {
			return ""
		}
		nt := named(sig.Results().At(0).Type())
		if nt == nil || W[nt.Obj().Name()] == "" {
			return ""
		}
		return nt.Obj().Name()
	}
	firstDeser := func(info *types.Info, n ast.Node) (string, string) {
		var t, f string
		ast.Inspect(n, func(m ast.Node) bool {
			if t != "" {
				return false
			}
			if call, ok := m.(*ast.CallExpr); ok {
				if r := deserResult(originOf(Callee(info, call))); r != "" {
					t, f = r, Callee(info, call).Name()
					return false
				}
			}
			return true
		})
		return t, f
	}
	returnsError := func(info *types.Info, body []ast.Stmt) bool {
		for _, st := range body {
			found := false
			ast.Inspect(st, func(m ast.Node) bool {
				if r, ok := m.(*ast.ReturnStmt); ok && len(r.Results) > 0 {
					last := r.Results[len(r.Results)-1]
					if tv, ok := info.Types[last]; ok && !isNilIdent(info, last) && tv.Type != nil && types.Implements(tv.Type, types.Universe.Lookup("error").Type().Underlying().(*types.Interface)) {
						found = true
					}
				}
				return !found
			})
			if found {
				return true
			}
		}
		return false
	}

	// ---- R1: reader switches and guards, in every loaded module package ------------------------------
	c.P.EachModuleFuncDecl(func(pk *packages.Package, fd *ast.FuncDecl) {
		info := pk.TypesInfo
		nSw := 0
		ast.Inspect(fd.Body, func(n ast.Node) bool {
			switch s := n.(type) {
			case *ast.SwitchStmt:
				if s.Tag == nil {
					return true
				}
				arms := map[string]*ast.CaseClause{}
				var deflt *ast.CaseClause
				for _, cs := range s.Body.List {
					cc := cs.(*ast.CaseClause)
					if cc.List == nil {
						deflt = cc
					}
					for _, x := range cc.List {
						if id, ok := idOf(info, x); ok && id != nm.unknown {
							arms[id] = cc
						}
					}
				}
				if len(arms) < 2 {
					return true
				}
				nSw++
				base := DeclName(fd) + "/switch/"
				if nSw > 1 {
					base = fmt.Sprintf("%s/switch%d/", DeclName(fd), nSw)
				}
				var ks []string
				for id := range arms {
					ks = append(ks, id)
				}
				sort.Strings(ks)
				for _, id := range ks {
					t, f := firstDeser(info, &ast.BlockStmt{List: arms[id].Body})
					if t == "" {
						c.Note("C52-R1", base+id+"/no-deserialiser", arms[id].Pos(), "arm calls no geometry deserialiser")
						continue
					}
					c.Check(W[t] == id, "C52-R1", base+id, arms[id].Pos(), f,
						fmt.Sprintf("the arm for %s calls %s, which builds a %s, but %s values are serialised with %s (and %s is what %s writes): the value comes back as another type or fails to parse", id, f, t, t, W[t], id, byID[id]))
				}
				var missing []string
				for _, t := range tnames {
					if arms[W[t]] == nil {
						missing = append(missing, W[t])
					}
				}
				total := len(missing) == 0 || (deflt != nil && returnsError(info, deflt.Body))
				c.Check(total, "C52-R1", base+"total", s.Pos(), "",
					fmt.Sprintf("ids %v have no arm and the switch has no default that returns an error: such a value is silently read as nil", missing))
			case *ast.BlockStmt, *ast.CaseClause:
				var list []ast.Stmt
				if b, ok := s.(*ast.BlockStmt); ok {
					list = b.List
				} else {
					list = s.(*ast.CaseClause).Body
				}
				for i, st := range list {
					ifs, ok := st.(*ast.IfStmt)
					if !ok {
						continue
					}
					be, ok := ast.Unparen(ifs.Cond).(*ast.BinaryExpr)
					if !ok || be.Op != token.NEQ {
						continue
					}
					id, ok := idOf(info, be.Y)
					if !ok || id == nm.unknown {
						continue
					}
					if !returnsError(info, ifs.Body.List) {
						continue
					}
					var t, f string
					for _, later := range list[i+1:] {
						if t, f = firstDeser(info, later); t != "" {
							break
						}
					}
					key := DeclName(fd) + "/guard/" + id
					if t == "" {
						c.Note("C52-R1", key+"/no-deserialiser", ifs.Pos(), "guard is not followed by a geometry deserialiser in the same block")
						continue
					}
					c.Check(W[t] == id, "C52-R1", key, ifs.Pos(), f,
						fmt.Sprintf("data is accepted only if its header says %s (%s) but is then parsed with %s as a %s (id %s)", id, byID[id], f, t, W[t]))
				}
			}
			return true
		})
	})

	// ---- F1: typed constructors -----------------------------------------------------------------------
	evalFn := LookupFunc(sp, nm.evalFn)
	if evalFn == nil {
		c.Undecided("C52-F1", nm.evalFn, 0, "function not found in "+nm.spatialRel)
		return
	}
	sinfo := sp.TypesInfo
	valueTypeOf := func(sqlT *types.Named) string {
		// static type of the expression returned by (S).Zero()
		zero := LookupFunc(c.P.PkgOf(sqlT.Obj()), sqlT.Obj().Name()+".Zero")
		fd := c.P.Decl(zero)
		if fd == nil {
			return ""
		}
		out := ""
		zinfo := c.P.PkgOf(sqlT.Obj()).TypesInfo
		ast.Inspect(fd.Body, func(n ast.Node) bool {
			if r, ok := n.(*ast.ReturnStmt); ok && len(r.Results) == 1 {
				if nt := named(zinfo.TypeOf(r.Results[0])); nt != nil {
					out = nt.Obj().Name()
				}
			}
			return true
		})
		return out
	}
	c.P.EachFuncDecl([]string{nm.spatialRel}, func(pk *packages.Package, fd *ast.FuncDecl) {
		ast.Inspect(fd.Body, func(n ast.Node) bool {
			call, ok := n.(*ast.CallExpr)
			if !ok || originOf(Callee(sinfo, call)) != evalFn || len(call.Args) <= nm.evalArg {
				return true
			}
			key := DeclName(fd)
			id, ok := idOf(sinfo, call.Args[nm.evalArg])
			if !ok {
				c.Undecided("C52-F1", key, call.Pos(), "expected geometry id is not a WKB constant")
				return true
			}
			if fd.Recv == nil {
				c.Note("C52-F1", key+"/not-a-method", call.Pos(), "call outside a function expression")
				return true
			}
			rt := named(sinfo.TypeOf(fd.Recv.List[0].Type))
			typeM := LookupFunc(sp, rt.Obj().Name()+".Type")
			tfd := c.P.Decl(typeM)
			var sqlT *types.Named
			if tfd != nil {
				ast.Inspect(tfd.Body, func(m ast.Node) bool {
					if r, ok := m.(*ast.ReturnStmt); ok && len(r.Results) == 1 {
						sqlT = named(sinfo.TypeOf(r.Results[0]))
					}
					return true
				})
			}
			if sqlT == nil {
				c.Undecided("C52-F1", key, call.Pos(), "declared SQL type (Type method returning a type literal) not readable")
				return true
			}
			vt := valueTypeOf(sqlT)
			want := W[vt]
			switch {
			case id == nm.unknown:
				c.Check(want == "", "C52-F1", key, call.Pos(), "generic geometry: any id accepted",
					fmt.Sprintf("%s declares %s (value type %s) but accepts any geometry id: a different geometry type is returned under that SQL type", rt.Obj().Name(), sqlT.Obj().Name(), vt))
			case want == "":
				c.Undecided("C52-F1", key, call.Pos(), fmt.Sprintf("value type of %s not determined (Zero() returns %q)", sqlT.Obj().Name(), vt))
			default:
				c.Check(id == want, "C52-F1", key, call.Pos(), id,
					fmt.Sprintf("%s declares SQL type %s, whose values (%s) are serialised with %s, but it tells %s to expect %s: the WKB written for a %s is rejected and a %s is returned under the declared type", rt.Obj().Name(), sqlT.Obj().Name(), vt, want, nm.evalFn, id, vt, byID[id]))
			}
			return true
		})
	})
	dumpObsIfAsked(c)
}
