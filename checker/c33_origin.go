package main

import (
	"go/token"
	"go/types"

	"golang.org/x/tools/go/ssa"
)

// Backward derivation of a value handed to the matcher: which evaluated SQL argument (receiver
// field / helper parameter) it comes from and through which steps (resolved callees, type
// assertions, arithmetic). Flow-insensitive over phis and cells: every derivation is listed.

type c33Step struct {
	fn     *types.Func // resolved callee (origin of generics)
	recv   types.Type  // static receiver type of an interface method call
	assert types.Type  // non-comma-ok type assertion to this type
	arith  string      // arithmetic / unary operator applied
}

type c33Org struct {
	kind  string // eval-field | eval-param | const | param | global | field | unknown
	field *types.Var
	param *ssa.Parameter
	cst   *ssa.Const
	what  string
	steps []c33Step // innermost first
}

func (o c33Org) with(s c33Step) c33Org {
	n := o
	n.steps = append(append([]c33Step{}, o.steps...), s)
	return n
}

func (o c33Org) hasCallee(set map[*types.Func]bool) bool {
	for _, s := range o.steps {
		if s.fn != nil && set[s.fn] {
			return true
		}
	}
	return false
}

func (o c33Org) arith() string {
	for _, s := range o.steps {
		if s.arith != "" {
			return s.arith
		}
	}
	return ""
}

func (o c33Org) describe() string {
	switch o.kind {
	case "eval-field":
		return "the evaluated field " + o.field.Name()
	case "eval-param":
		return "the evaluated parameter " + o.param.Name()
	case "const":
		return "the constant " + o.cst.String()
	case "param":
		return "the parameter " + o.param.Name()
	case "field":
		return "the raw field " + o.field.Name()
	case "global":
		return "a package variable"
	}
	return o.what
}

func c33IsContext(t types.Type) bool {
	ms := types.NewMethodSet(t)
	for _, n := range []string{"Deadline", "Done", "Err", "Value"} {
		found := false
		for i := 0; i < ms.Len(); i++ {
			if ms.At(i).Obj().Name() == n {
				found = true
			}
		}
		if !found {
			return false
		}
	}
	return true
}

// origins lists the derivations of v. Context parameters and package variables (type
// descriptors such as types.LongText used as method receivers) are dropped.
func (e *c33) origins(v ssa.Value) []c33Org {
	all := e.org(v, -1, map[ssa.Value]bool{}, 0)
	var out []c33Org
	for _, o := range all {
		if o.kind == "global" {
			continue
		}
		if o.kind == "param" && c33IsContext(o.param.Type()) {
			continue
		}
		out = append(out, o)
	}
	return out
}

func (e *c33) org(v ssa.Value, idx int, seen map[ssa.Value]bool, depth int) []c33Org {
	if depth > 40 {
		return []c33Org{{kind: "unknown", what: "a derivation deeper than 40 steps"}}
	}
	if seen[v] {
		return nil
	}
	switch x := v.(type) {
	case *ssa.Const:
		return []c33Org{{kind: "const", cst: x}}
	case *ssa.Parameter:
		return []c33Org{{kind: "param", param: x}}
	case *ssa.Global:
		return []c33Org{{kind: "global"}}
	case *ssa.Function, *ssa.MakeClosure, *ssa.Builtin:
		return []c33Org{{kind: "global"}}
	case *ssa.Convert:
		return e.org(x.X, -1, seen, depth+1)
	case *ssa.ChangeType:
		return e.org(x.X, -1, seen, depth+1)
	case *ssa.ChangeInterface:
		return e.org(x.X, -1, seen, depth+1)
	case *ssa.MakeInterface:
		return e.org(x.X, -1, seen, depth+1)
	case *ssa.TypeAssert:
		res := e.org(x.X, -1, seen, depth+1)
		if x.CommaOk {
			return res
		}
		for i := range res {
			res[i] = res[i].with(c33Step{assert: x.AssertedType})
		}
		return res
	case *ssa.Extract:
		return e.org(x.Tuple, x.Index, seen, depth+1)
	case *ssa.Call:
		cc := x.Common()
		if e.isEvalCall(cc) && idx <= 0 {
			if _, f, _, ok := c33FieldLoad(cc.Value); ok {
				return []c33Org{{kind: "eval-field", field: f}}
			}
			if p, ok := c33Root(cc.Value).(*ssa.Parameter); ok {
				return []c33Org{{kind: "eval-param", param: p}}
			}
			return []c33Org{{kind: "unknown", what: "the evaluation of " + c33Describe(cc.Value)}}
		}
		step := c33Step{fn: c33Callee(cc)}
		var res []c33Org
		var args []ssa.Value
		if cc.IsInvoke() {
			step.recv = cc.Value.Type()
			args = append(args, cc.Value)
		}
		for _, a := range cc.Args {
			if c33IsContext(a.Type()) {
				continue // contexts carry no SQL value
			}
			args = append(args, a)
		}
		if len(args) == 0 {
			return []c33Org{{kind: "unknown", what: "the result of " + c33Describe(x)}}
		}
		for _, a := range args {
			for _, o := range e.org(a, -1, seen, depth+1) {
				res = append(res, o.with(step))
			}
		}
		return res
	case *ssa.UnOp:
		if x.Op != token.MUL {
			res := e.org(x.X, -1, seen, depth+1)
			for i := range res {
				res[i] = res[i].with(c33Step{arith: x.Op.String()})
			}
			return res
		}
		switch a := x.X.(type) {
		case *ssa.Global:
			return []c33Org{{kind: "global"}}
		case *ssa.FieldAddr:
			if _, f, _, ok := c33FieldAddr(a); ok {
				return []c33Org{{kind: "field", field: f}}
			}
		case *ssa.Alloc:
			seen[v] = true
			var res []c33Org
			for _, r := range *a.Referrers() {
				if s, ok := r.(*ssa.Store); ok && s.Addr == a {
					res = append(res, e.org(s.Val, -1, seen, depth+1)...)
				}
			}
			delete(seen, v)
			if len(res) > 0 {
				return res
			}
		case *ssa.FreeVar:
			if r := c33Root(v); r != v {
				return e.org(r, -1, seen, depth+1)
			}
		}
		return []c33Org{{kind: "unknown", what: "a load of " + c33Describe(x.X)}}
	case *ssa.BinOp:
		var res []c33Org
		for _, op := range []ssa.Value{x.X, x.Y} {
			for _, o := range e.org(op, -1, seen, depth+1) {
				res = append(res, o.with(c33Step{arith: x.Op.String()}))
			}
		}
		return res
	case *ssa.Phi:
		seen[v] = true
		var res []c33Org
		for _, ed := range x.Edges {
			res = append(res, e.org(ed, -1, seen, depth+1)...)
		}
		delete(seen, v)
		return res
	}
	return []c33Org{{kind: "unknown", what: c33Describe(v)}}
}

// phiLeaves resolves v through phis only (and interface conversions): the values that may flow
// into it unchanged.
func c33PhiLeaves(v ssa.Value) []ssa.Value {
	var out []ssa.Value
	seen := map[ssa.Value]bool{}
	var rec func(v ssa.Value)
	rec = func(v ssa.Value) {
		if seen[v] {
			return
		}
		seen[v] = true
		switch x := v.(type) {
		case *ssa.Phi:
			for _, ed := range x.Edges {
				rec(ed)
			}
		case *ssa.ChangeType:
			rec(x.X)
		default:
			out = append(out, v)
		}
	}
	rec(v)
	return out
}
