package main

import (
	"fmt"
	"go/ast"
	"go/constant"
	"go/types"
)

// C06-SQ: x IN (subquery) evaluated by InSubquery.Eval against the cached, hashed rows of the
// subquery has the table of the disjunction of equalities over those rows (which is FALSE over
// no rows, also for a NULL x); NOT IN is its negation; EXISTS passes the row test through.

func c06Subquery(w *c06World) {
	c := w.c
	fd := c.P.Decl(LookupFunc(w.pl, "InSubquery.Eval"))
	sqT := c06PtrTo(w.pl, "Subquery")
	hashOf := LookupFunc(w.hs, "HashOf")
	numCols := LookupFunc(w.ty, "NumColumns")
	nilKeyObj := c06Var(w.pl, "nilKey")
	if fd == nil || sqT == nil || hashOf == nil || nilKeyObj == nil {
		c.Undecided("C06-SQ", "InSubquery.Eval", 0, "InSubquery.Eval / Subquery / hash.HashOf / nilKey not found")
		return
	}
	nilKey := &MSym{Name: "nilKey"}
	w.globals[nilKeyObj] = nilKey
	defer delete(w.globals, nilKeyObj)
	type cache struct {
		name                 string
		empty, match, hasNil bool
	}
	points := []struct {
		leftNull bool
		ca       cache
		want     int
	}{
		{true, cache{"no-rows", true, false, false}, 0},
		{true, cache{"rows-without-NULL", false, false, false}, -1},
		{true, cache{"rows-with-NULL", false, false, true}, -1},
		{false, cache{"no-rows", true, false, false}, 0},
		{false, cache{"match", false, true, false}, 1},
		{false, cache{"match-and-NULL", false, true, true}, 1},
		{false, cache{"no-match-with-NULL", false, false, true}, -1},
		{false, cache{"no-match-no-NULL", false, false, false}, 0},
	}
	for _, pt := range points {
		lname := "value"
		if pt.leftNull {
			lname = "NULL"
		}
		key := fmt.Sprintf("InSubquery.Eval(left=%s,rows=%s)", lname, pt.ca.name)
		leftSym, lType, typ := &MSym{Name: "left"}, &MSym{Name: "leftType"}, &MSym{Name: "promoted"}
		sq := &MSym{Name: "subquery", Dyn: sqT, Fields: map[string]MV{}}
		rTyp := &MSym{Name: "rowType", Dyn: types.Typ[types.Int]} // a scalar (non-tuple) row type
		values, keySym, found := &MSym{Name: "cache"}, &MSym{Name: "key"}, &MSym{Name: "cached value"}
		self := &MSym{Name: "self", Fields: map[string]MV{"LeftChild": leftSym, "RightChild": sq}}
		m := w.mini(w.pl)
		m.Call = func(m *Mini, call *ast.CallExpr, fn *types.Func, recv MV, args []MV) ([]MV, bool) {
			if fn == nil {
				return nil, false
			}
			if r, ok := w.errCall(fn, recv, args); ok {
				return r, true
			}
			sig := fn.Type().(*types.Signature)
			nres := sig.Results().Len()
			switch {
			case fn == numCols && numCols != nil:
				return []MV{constant.MakeInt64(1)}, true
			case fn == hashOf:
				return []MV{keySym, w.nilSym}, true
			case recv == MV(leftSym) && nres == 1: // LeftChild.Type
				return []MV{lType}, true
			case recv == MV(lType) && nres == 1: // .Promote
				return []MV{typ}, true
			case recv == MV(leftSym) && nres == 2: // LeftChild.Eval
				if pt.leftNull {
					return []MV{w.nilSym, w.nilSym}, true
				}
				return []MV{&MSym{Name: "leftVal"}, w.nilSym}, true
			case (recv == MV(typ) || recv == MV(rTyp)) && nres == 3 && len(args) == 2: // Convert keeps NULL NULL and a value a value
				return []MV{args[1], constant.MakeInt64(0), w.nilSym}, true
			case recv == MV(rTyp) && nres == 2 && len(args) == 3: // rTyp.Compare(ctx, left, val): a cached match is a match
				return []MV{constant.MakeInt64(0), w.nilSym}, true
			case recv == MV(sq) && nres == 1: // right.Type
				return []MV{rTyp}, true
			case recv == MV(sq) && nres == 2: // right.HashMultiple
				return []MV{values, w.nilSym}, true
			case recv == MV(values) && nres == 1 && len(args) == 0: // Size
				if pt.ca.empty {
					return []MV{constant.MakeInt64(0)}, true
				}
				return []MV{constant.MakeInt64(2)}, true
			case recv == MV(values) && nres == 2 && len(args) == 1: // Get
				switch args[0] {
				case MV(keySym):
					if pt.ca.match {
						return []MV{found, w.nilSym}, true
					}
					return []MV{w.nilSym, w.errOther}, true
				case MV(nilKey):
					if pt.ca.hasNil {
						return []MV{w.nilSym, w.nilSym}, true
					}
					return []MV{w.nilSym, w.errOther}, true
				}
			}
			return nil, false
		}
		res, panicked, err := m.RunFunc(fd, w.bind(w.pl, fd, self, nil))
		if err != nil {
			c.Undecided("C06-SQ", key, fd.Pos(), err.Error())
			continue
		}
		got, err := w.truthResult(res, panicked)
		if err != nil {
			c.Undecided("C06-SQ", key, fd.Pos(), err.Error())
			continue
		}
		c.Check(got == pt.want, "C06-SQ", key, fd.Pos(), c06TruthName(got),
			fmt.Sprintf("InSubquery.Eval yields %s for left=%s over %s; the disjunction of equalities over the subquery's rows yields %s", c06TruthName(got), lname, pt.ca.name, c05Name(pt.want)))
	}

	// NOT IN (subquery) = Not(InSubquery(left, right))
	nfd := c.P.Decl(LookupFunc(w.pl, "NewNotInSubquery"))
	newNot, newIn := LookupFunc(w.ex, "NewNot"), LookupFunc(w.pl, "NewInSubquery")
	if nfd == nil || newNot == nil || newIn == nil {
		c.Undecided("C06-SQ", "NewNotInSubquery", 0, "NewNotInSubquery / NewNot / NewInSubquery not found")
	} else {
		var pn []string
		for _, f := range nfd.Type.Params.List {
			for _, n := range f.Names {
				pn = append(pn, n.Name)
			}
		}
		l, r := &MSym{Name: "l"}, &MSym{Name: "r"}
		m := w.mini(w.pl)
		m.Call = func(m *Mini, call *ast.CallExpr, fn *types.Func, recv MV, args []MV) ([]MV, bool) {
			switch {
			case fn != nil && fn == newNot && len(args) == 1:
				return []MV{&MSym{Name: "Not", Fields: map[string]MV{"Child": args[0]}}}, true
			case fn != nil && fn == newIn && len(args) == 3:
				return []MV{&MSym{Name: "In", Fields: map[string]MV{"L": args[1], "R": args[2]}}}, true
			}
			return nil, false
		}
		ok := len(pn) == 3
		if ok {
			res, panicked, err := m.RunFunc(nfd, w.bind(w.pl, nfd, nil, map[string]MV{pn[1]: l, pn[2]: r}))
			ok = err == nil && !panicked && len(res) == 1
			if ok {
				n, _ := res[0].(*MSym)
				ok = n != nil && n.Name == "Not"
				if ok {
					in, _ := n.Fields["Child"].(*MSym)
					ok = in != nil && in.Name == "In" && in.Fields["L"] == MV(l) && in.Fields["R"] == MV(r)
				}
			}
		}
		c.Check(ok, "C06-SQ", "NewNotInSubquery", nfd.Pos(), "Not(InSubquery(left,right))", "NewNotInSubquery does not build Not(InSubquery(left, right)) with the operands in position")
	}

	// EXISTS passes the subquery's row test through, two-valued
	efd := c.P.Decl(LookupFunc(w.pl, "ExistsSubquery.Eval"))
	if efd == nil {
		c.Undecided("C06-SQ", "ExistsSubquery.Eval", 0, "not found")
		return
	}
	for _, has := range []bool{true, false} {
		key := fmt.Sprintf("ExistsSubquery.Eval(hasRow=%v)", has)
		q := &MSym{Name: "query"}
		self := &MSym{Name: "self", Fields: map[string]MV{"Query": q}}
		m := w.mini(w.pl)
		m.Call = func(m *Mini, call *ast.CallExpr, fn *types.Func, recv MV, args []MV) ([]MV, bool) {
			if fn != nil && recv == MV(q) && fn.Type().(*types.Signature).Results().Len() == 2 {
				return []MV{constant.MakeBool(has), w.nilSym}, true
			}
			return nil, false
		}
		res, panicked, err := m.RunFunc(efd, w.bind(w.pl, efd, self, nil))
		if err != nil {
			c.Undecided("C06-SQ", key, efd.Pos(), err.Error())
			continue
		}
		got, err := w.truthResult(res, panicked)
		if err != nil {
			c.Undecided("C06-SQ", key, efd.Pos(), err.Error())
			continue
		}
		want := 0
		if has {
			want = 1
		}
		c.Check(got == want, "C06-SQ", key, efd.Pos(), c06TruthName(got), fmt.Sprintf("EXISTS yields %s when the subquery has row=%v", c06TruthName(got), has))
	}
}
