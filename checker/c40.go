package main

import (
	"fmt"
	"go/ast"
	"go/token"
	"go/types"
	"sort"

	"golang.org/x/tools/go/cfg"
	"golang.org/x/tools/go/packages"
)

func init() {
	register(&Property{
		ID:        "C40",
		Patterns:  []string{"./sql/mysql_db"},
		Technique: "sibling agreement + CFG path search with branch-condition implication (go/cfg, go/types); zone-domain bounds analysis on go/ssa; disjunctive-form reading of the account-selection condition (go/ast + go/types)",
		Explanation: "Authentication accepts exactly the valid credentials — structural clauses over package sql/mysql_db. (U1) in every function that looks an account up with MySQLDb.GetUser and can " +
			"return an authenticated identity (a non-nil mysql.Getter), every control-flow path from the lookup to such a return passes a branch on which the account's Locked flag is known to be " +
			"false: a locked account can never be accepted, whatever the plugin. (U2) validateMysqlNativePassword indexes and slices its client-controlled arguments only in range (bounds engine). " +
			"(U3) every return of validateMysqlNativePassword is the constant false or the result of a byte-wise comparison (bytes.Equal / subtle.ConstantTimeCompare / hmac.Equal): there is no other way " +
			"to answer true. (U4) in the callers of validateMysqlNativePassword no path on which the stored hash is non-empty and the validation has not returned true reaches an accepting return. " +
			"(H1) in MySQLDb.GetUser every disjunct (as parsed: || weaker than &&) of the condition under which a candidate account is handed back mentions the client host - the host parameter or a local copied from it - " +
			"or is the '%' wildcard test, and the exact-key lookup carries the client host in its key: a disjunct that looks only at the stored account accepts it for a client connecting from anywhere.",
		NotCovered: "host pattern matching itself and which of several matching accounts is chosen (only that every acceptance disjunct of GetUser constrains the client host is decided, H1), plugin negotiation (HandleUser), correctness of the scramble arithmetic and of the caching_sha2 serialisation, " +
			"connection-security (REQUIRE SSL/X509) checks, the identity the session then runs as",
		Run: func(c *Ctx) {
			runC40(c, "sql/mysql_db", "MySQLDb.GetUser", "Locked", "validateMysqlNativePassword", 5, 2, 2)
			c.Rule("C40-H1", "account selection depends on the client host: every disjunct of the condition under which GetUser hands back a candidate account mentions the client host (the host parameter or a copy) or is the '%' wildcard test, and the exact-key lookup carries the client host", 5)
			runC40Host(c, "sql/mysql_db", "MySQLDb.GetUser", "host")
		},
		Fixture: func(c *Ctx, fx *Prog) {
			expectFixture(c, fx, "c40: auth path without the Locked test, accepting return before the test, unguarded scramble loop, return true, accept after failed validation",
				[]string{
					"C40-U1:pluginStorage.UserEntryWithPassword",
					"C40-U1:earlyStorage.UserEntryWithHash",
					"C40-U2:validateMysqlNativePassword/authResponse[i]",
					"C40-U3:validateMysqlNativePassword/return true",
					"C40-U4:earlyStorage.UserEntryWithHash",
				},
				func(fc *Ctx) {
					runC40(fc, "testdata/c40/authdb", "DB.GetUser", "Locked", "validateMysqlNativePassword", 0, 0, 0)
				})
			expectFixture(c, fx, "c40 host: a loopback alias grouped so that it no longer tests the client host",
				[]string{`C40-H1:DB.Lookup/accept:u.Host == "::1"`},
				func(fc *Ctx) { runC40Host(fc, "testdata/c40/authdb", "DB.Lookup", "host") })
		},
		FixturePkgs: []string{"./testdata/c40/authdb"},
	})
}

func runC40(c *Ctx, rel, getUserName, lockedField, validateName string, floorU1, floorU3, floorU4 int) {
	c.Rule("C40-U1", "every function that calls GetUser and can return a non-nil Getter: on every path from the lookup to an accepting return the account's Locked flag has been tested false", floorU1)
	c.Rule("C40-U2", "validateMysqlNativePassword: every index/slice expression is in range on every path (bounds engine)", 4)
	c.Rule("C40-U3", "validateMysqlNativePassword: every return is the constant false or a byte-wise comparison result", floorU3)
	c.Rule("C40-U4", "callers of validateMysqlNativePassword: no path with a non-empty stored hash and without a successful validation reaches an accepting return", floorU4)
	if c.fixtureMode {
		c.Rule("C40-U2", "", 0)
	}
	pk := c.P.Pkg(rel)
	if pk == nil {
		c.Undecided("C40-U1", "package", 0, "package "+rel+" not loaded")
		return
	}
	info := pk.TypesInfo
	getUser := LookupFunc(pk, getUserName)
	validate := LookupFunc(pk, validateName)
	if getUser == nil || validate == nil {
		c.Undecided("C40-U1", "anchors", 0, fmt.Sprintf("%s or %s not found in %s", getUserName, validateName, rel))
		return
	}
	// ---- U2
	BoundsCheckFuncs(c, "C40-U2", []*types.Func{validate})

	// ---- U3
	if fd := c.P.Decl(validate); fd == nil || fd.Body == nil {
		c.Undecided("C40-U3", validateName, validate.Pos(), "no body")
	} else {
		n := map[string]int{}
		ast.Inspect(fd.Body, func(m ast.Node) bool {
			if _, ok := m.(*ast.FuncLit); ok {
				return false
			}
			ret, ok := m.(*ast.ReturnStmt)
			if !ok {
				return true
			}
			if len(ret.Results) != 1 {
				c.Bad("C40-U3", validateName+"/return", ret.Pos(), "return without an explicit single result: the answer cannot be read")
				return true
			}
			r := ast.Unparen(ret.Results[0])
			desc := types.ExprString(r)
			okRet := false
			if tv, has := info.Types[r]; has && tv.Value != nil {
				okRet = tv.Value.String() == "false"
			} else if call, isCall := r.(*ast.CallExpr); isCall {
				if fn := Callee(info, call); fn != nil {
					switch FullName(fn) {
					case "bytes.Equal", "crypto/hmac.Equal":
						okRet = true
						desc = FullName(fn)
					}
				}
			} else if be, isBin := r.(*ast.BinaryExpr); isBin && be.Op == token.EQL {
				if call, isCall := ast.Unparen(be.X).(*ast.CallExpr); isCall {
					if fn := Callee(info, call); fn != nil && FullName(fn) == "crypto/subtle.ConstantTimeCompare" {
						okRet = true
						desc = "subtle.ConstantTimeCompare == 1"
					}
				}
			}
			if len(desc) > 40 {
				desc = desc[:40]
			}
			key := validateName + "/return " + desc
			n[key]++
			if n[key] > 1 && okRet {
				return true // one instance per distinct form of return
			}
			c.Check(okRet, "C40-U3", key, ret.Pos(), "", validateName+" returns "+types.ExprString(r)+": an answer that is neither false nor the result of comparing the candidate hash with the stored hash")
			return true
		})
	}

	// ---- U1 / U4 over the functions that call GetUser
	type site struct {
		fd   *ast.FuncDecl
		name string
	}
	var sites []site
	c.P.EachFuncDecl([]string{rel}, func(_ *packages.Package, fd *ast.FuncDecl) {
		if ContainsCall(info, fd.Body, func(fn *types.Func, _ *ast.CallExpr) bool { return fn == getUser }) {
			sites = append(sites, site{fd, DeclName(fd)})
		}
	})
	sort.Slice(sites, func(i, j int) bool { return sites[i].name < sites[j].name })
	for _, s := range sites {
		fd := s.fd
		fn, _ := info.Defs[fd.Name].(*types.Func)
		if fn == nil {
			continue
		}
		gi := c40GetterIndex(fn)
		if gi < 0 {
			c.Note("C40-U1", s.name, fd.Pos(), "calls GetUser but does not return a Getter: not an authentication path")
			continue
		}
		g := c.P.CFG(info, fd.Body)
		// the lookup: userEntry := db.GetUser(...)
		var userObj types.Object
		var lookup ast.Node
		ast.Inspect(fd.Body, func(m ast.Node) bool {
			as, ok := m.(*ast.AssignStmt)
			if !ok || len(as.Rhs) != 1 || len(as.Lhs) != 1 {
				return true
			}
			if call, ok := ast.Unparen(as.Rhs[0]).(*ast.CallExpr); ok && Callee(info, call) == getUser {
				if id, ok := as.Lhs[0].(*ast.Ident); ok && lookup == nil {
					if o := info.Defs[id]; o != nil {
						userObj = o
					} else {
						userObj = info.Uses[id]
					}
					lookup = as
				}
			}
			return true
		})
		if lookup == nil || userObj == nil {
			c.Undecided("C40-U1", s.name, fd.Pos(), "GetUser result is not assigned to a variable: the account cannot be followed")
			continue
		}
		from, ok := FindNode(g, lookup)
		if !ok {
			c.Undecided("C40-U1", s.name, lookup.Pos(), "lookup not found in the CFG")
			continue
		}
		accepting := func(n ast.Node) bool {
			ret, ok := n.(*ast.ReturnStmt)
			if !ok {
				return false
			}
			if len(ret.Results) <= gi {
				return true // bare return with named results: cannot be read, treated as accepting
			}
			return !isNilIdent(info, ret.Results[gi])
		}
		// atom: <userObj>.Locked
		isLocked := func(e ast.Expr) bool {
			sel, ok := ast.Unparen(e).(*ast.SelectorExpr)
			if !ok || sel.Sel.Name != lockedField {
				return false
			}
			id, ok := ast.Unparen(sel.X).(*ast.Ident)
			return ok && info.Uses[id] == userObj
		}
		edgeOK := func(b *cfg.Block, succ int) bool {
			if len(b.Succs) != 2 || len(b.Nodes) == 0 {
				return true
			}
			cond, ok := b.Nodes[len(b.Nodes)-1].(ast.Expr)
			if !ok {
				return true
			}
			// cut the edge on which Locked is known to be false: the obligation is met there
			return c40Implied(cond, succ == 0, isLocked) != -1
		}
		path := PathAvoiding(g, from, nil, accepting, edgeOK)
		if path == nil {
			c.Ok("C40-U1", s.name, lookup.Pos(), "every accepting return is reached only with Locked tested false")
		} else {
			c.Bad("C40-U1", s.name, lookup.Pos(), s.name+" can return an authenticated identity for the account it looked up without having tested that the account is not locked (sibling authentication paths test userEntry.Locked)",
				c.P.DescribePath(path)...)
		}
		// U4: callers of validate
		if !ContainsCall(info, fd.Body, func(f *types.Func, _ *ast.CallExpr) bool { return f == validate }) {
			continue
		}
		isValidate := func(e ast.Expr) bool {
			call, ok := ast.Unparen(e).(*ast.CallExpr)
			return ok && Callee(info, call) == validate
		}
		// stored hash non-empty: len(<user>.AuthString) > 0 / <user>.AuthString != ""
		hashSet := func(e ast.Expr) int {
			be, ok := ast.Unparen(e).(*ast.BinaryExpr)
			if !ok {
				return 0
			}
			mentions := false
			ast.Inspect(be, func(m ast.Node) bool {
				if sel, ok := m.(*ast.SelectorExpr); ok {
					if id, ok := ast.Unparen(sel.X).(*ast.Ident); ok && info.Uses[id] == userObj {
						if v, ok := info.Uses[sel.Sel].(*types.Var); ok && v.IsField() && bndBytesOrString(v.Type()) {
							mentions = true
						}
					}
				}
				return true
			})
			if !mentions {
				return 0
			}
			if tv, ok := info.Types[be.Y]; ok && tv.Value != nil {
				z := tv.Value.String() == "0" || tv.Value.String() == `""`
				if z && (be.Op == token.GTR || be.Op == token.NEQ) {
					return +1 // condition true <=> hash set
				}
				if z && (be.Op == token.EQL || be.Op == token.LEQ) {
					return -1
				}
			}
			return 0
		}
		edgeOK4 := func(b *cfg.Block, succ int) bool {
			if len(b.Succs) != 2 || len(b.Nodes) == 0 {
				return true
			}
			cond, ok := b.Nodes[len(b.Nodes)-1].(ast.Expr)
			if !ok {
				return true
			}
			truth := succ == 0
			// follow only edges consistent with "hash set" and "validation did not succeed"
			if v := c40Implied(cond, truth, isValidate); v == +1 {
				return false
			}
			set := 0
			if hs := hashSet(cond); hs != 0 {
				if truth {
					set = hs
				} else {
					set = -hs
				}
			}
			return set != -1
		}
		path4 := PathAvoiding(g, from, nil, accepting, edgeOK4)
		if path4 == nil {
			c.Ok("C40-U4", s.name, lookup.Pos(), "accepting returns need an empty stored hash or a successful validation")
		} else {
			c.Bad("C40-U4", s.name, lookup.Pos(), s.name+" can accept a login for an account with a stored password hash although "+validateName+" has not returned true on that path", c.P.DescribePath(path4)...)
		}
	}
}

// c40GetterIndex: index of the result whose type is an interface named Getter (vitess mysql.Getter), or -1.
func c40GetterIndex(fn *types.Func) int {
	res := fn.Type().(*types.Signature).Results()
	for i := 0; i < res.Len(); i++ {
		if nt, ok := types.Unalias(res.At(i).Type()).(*types.Named); ok && nt.Obj().Name() == "Getter" {
			if _, isIface := nt.Underlying().(*types.Interface); isIface {
				return i
			}
		}
	}
	return -1
}

// c40Implied: the truth value of the atom implied by "cond evaluates to truth": +1 true, -1 false,
// 0 unknown. Handles !, && (true edge), || (false edge) and parentheses.
func c40Implied(cond ast.Expr, truth bool, atom func(ast.Expr) bool) int {
	cond = ast.Unparen(cond)
	if atom(cond) {
		if truth {
			return +1
		}
		return -1
	}
	switch x := cond.(type) {
	case *ast.UnaryExpr:
		if x.Op == token.NOT {
			return c40Implied(x.X, !truth, atom)
		}
	case *ast.BinaryExpr:
		if (x.Op == token.LAND && truth) || (x.Op == token.LOR && !truth) {
			if v := c40Implied(x.X, truth, atom); v != 0 {
				return v
			}
			return c40Implied(x.Y, truth, atom)
		}
	}
	return 0
}
