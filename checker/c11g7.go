package main

import (
	"fmt"
	"go/ast"
	"go/token"
	"go/types"
	"sort"
	"strings"

	"golang.org/x/tools/go/packages"
)

// C11-G7 — a scalar subquery built inside a trigger body is volatile in EVERY builder state.
//
// The body of a trigger is planned once per DML statement and executed once per affected row on
// the same plan objects, so a plan.Subquery created while the body is being built must never use
// its result cache: it has to be marked volatile. The rule is a fold of the construction site over
// the finite builder-state abstraction, every part of which is read from the code:
//   * state = the boolean fields of planbuilder.TriggerContext (Active, Call, LoadOnly);
//   * "a trigger body is being built" = the bracket fields: fields that the function constructing
//     the CreateTrigger node (it calls plan.NewCreateTrigger) sets to `true` around the build of the
//     body and restores in a deferred function (Active); the if-conditions enclosing that
//     assignment (`!LoadOnly`) restrict the feasible states;
//   * marking = a call, assigned back to the subquery variable, of a method of plan.Subquery whose
//     body sets the `volatile` field to true (WithVolatile).
// For every construction `v := plan.NewSubquery(...)` in planbuilder and every feasible state with
// all bracket fields true, the statements that follow the construction are folded with the
// if-conditions over TriggerContext fields decided by the state: the subquery must be marked on the
// path taken. A condition over anything else that decides whether the mark happens is undecided.

type c11g7Cfg struct {
	planRel, sqType, volField, ctor string
	builderRel, ctxType, bodyCtor   string
	floor                           int
}

var c11g7Repo = c11g7Cfg{planRel: "sql/plan", sqType: "Subquery", volField: "volatile", ctor: "NewSubquery",
	builderRel: "sql/planbuilder", ctxType: "TriggerContext", bodyCtor: "NewCreateTrigger", floor: 1}

type c11g7 struct {
	c      *Ctx
	cfg    c11g7Cfg
	info   *types.Info
	fields map[*types.Var]bool // bool fields of the context type
}

func (g *c11g7) atom(x ast.Expr) *types.Var {
	if sel, ok := ast.Unparen(x).(*ast.SelectorExpr); ok {
		if fv, ok := g.info.Uses[sel.Sel].(*types.Var); ok && g.fields[fv] {
			return fv
		}
	}
	return nil
}

// eval: 1 true, 0 false, -1 unknown.
func (g *c11g7) eval(x ast.Expr, sigma map[*types.Var]bool) int {
	switch v := ast.Unparen(x).(type) {
	case *ast.UnaryExpr:
		if v.Op == token.NOT {
			if r := g.eval(v.X, sigma); r >= 0 {
				return 1 - r
			}
			return -1
		}
	case *ast.BinaryExpr:
		if v.Op == token.LAND || v.Op == token.LOR {
			a, b := g.eval(v.X, sigma), g.eval(v.Y, sigma)
			if v.Op == token.LAND {
				switch {
				case a == 0 || b == 0:
					return 0
				case a == 1 && b == 1:
					return 1
				}
				return -1
			}
			switch {
			case a == 1 || b == 1:
				return 1
			case a == 0 && b == 0:
				return 0
			}
			return -1
		}
	}
	if tv := g.info.Types[x]; tv.Value != nil {
		switch tv.Value.ExactString() {
		case "true":
			return 1
		case "false":
			return 0
		}
	}
	if fv := g.atom(x); fv != nil {
		if val, ok := sigma[fv]; ok {
			if val {
				return 1
			}
			return 0
		}
	}
	return -1
}

// eachList calls f for every statement list of body.
func c11g7EachList(body ast.Node, f func(list []ast.Stmt)) {
	ast.Inspect(body, func(n ast.Node) bool {
		switch x := n.(type) {
		case *ast.BlockStmt:
			f(x.List)
		case *ast.CaseClause:
			f(x.Body)
		case *ast.CommClause:
			f(x.Body)
		}
		return true
	})
}

func runC11G7(c *Ctx, cfg c11g7Cfg) {
	c.Rule("C11-G7", "every plan.Subquery constructed by planbuilder is marked volatile in every feasible builder state in which a trigger body is being built (fold of the construction site over the boolean fields of TriggerContext; the trigger-body states are those of the bracket field set by the CreateTrigger builder)", cfg.floor)
	planPk, bpk := c.P.Pkg(cfg.planRel), c.P.Pkg(cfg.builderRel)
	if planPk == nil || bpk == nil {
		c.Undecided("C11-G7", "packages", 0, "plan / planbuilder not loaded")
		return
	}
	g := &c11g7{c: c, cfg: cfg, info: bpk.TypesInfo, fields: map[*types.Var]bool{}}
	ctxTN, _ := bpk.Types.Scope().Lookup(cfg.ctxType).(*types.TypeName)
	sqTN, _ := planPk.Types.Scope().Lookup(cfg.sqType).(*types.TypeName)
	ctor := LookupFunc(planPk, cfg.ctor)
	bodyCtor := LookupFunc(planPk, cfg.bodyCtor)
	if ctxTN == nil || sqTN == nil || ctor == nil || bodyCtor == nil {
		c.Undecided("C11-G7", "anchors", 0, fmt.Sprintf("anchors not found: %s.%s / %s.%s / %s / %s", cfg.builderRel, cfg.ctxType, cfg.planRel, cfg.sqType, cfg.ctor, cfg.bodyCtor))
		return
	}
	var order []*types.Var
	if st, ok := ctxTN.Type().Underlying().(*types.Struct); ok {
		for i := 0; i < st.NumFields(); i++ {
			if b, ok := st.Field(i).Type().Underlying().(*types.Basic); ok && b.Info()&types.IsBoolean != 0 {
				g.fields[st.Field(i)] = true
				order = append(order, st.Field(i))
			}
		}
	}
	if len(order) == 0 || len(order) > 8 {
		c.Undecided("C11-G7", cfg.ctxType, ctxTN.Pos(), "the builder-state abstraction (boolean fields of the context type) is empty or too large")
		return
	}
	// volatile writers of plan.Subquery
	var volField *types.Var
	if st, ok := sqTN.Type().Underlying().(*types.Struct); ok {
		for i := 0; i < st.NumFields(); i++ {
			if st.Field(i).Name() == cfg.volField {
				volField = st.Field(i)
			}
		}
	}
	if volField == nil {
		c.Undecided("C11-G7", cfg.sqType+"."+cfg.volField, sqTN.Pos(), "field not found")
		return
	}
	writers := map[*types.Func]bool{}
	c.P.EachFuncDecl([]string{cfg.planRel}, func(pk *packages.Package, fd *ast.FuncDecl) {
		fn, _ := pk.TypesInfo.Defs[fd.Name].(*types.Func)
		if fn == nil || fd.Body == nil || fd.Recv == nil {
			return
		}
		ast.Inspect(fd.Body, func(n ast.Node) bool {
			if as, ok := n.(*ast.AssignStmt); ok && len(as.Lhs) == len(as.Rhs) {
				for i, l := range as.Lhs {
					if sel, ok := ast.Unparen(l).(*ast.SelectorExpr); ok && pk.TypesInfo.Uses[sel.Sel] == volField {
						if tv := pk.TypesInfo.Types[as.Rhs[i]]; tv.Value != nil && tv.Value.ExactString() == "true" {
							writers[fn] = true
						}
					}
				}
			}
			return true
		})
	})
	if len(writers) == 0 {
		c.Undecided("C11-G7", cfg.sqType+"."+cfg.volField, sqTN.Pos(), "no method sets the field to true")
		return
	}
	// bracket fields: set to true (and restored in a defer) by the function that constructs the CreateTrigger node
	type bracket struct {
		fld   *types.Var
		conds []ast.Expr // enclosing if-conditions (then-edges) / negated (else-edges)
		neg   []bool
		pos   token.Pos
		fn    string
	}
	var brackets []bracket
	c.P.EachFuncDecl([]string{cfg.builderRel}, func(pk *packages.Package, fd *ast.FuncDecl) {
		if fd.Body == nil {
			return
		}
		builds := false
		ast.Inspect(fd.Body, func(n ast.Node) bool {
			if call, ok := n.(*ast.CallExpr); ok && Callee(g.info, call) == bodyCtor {
				builds = true
			}
			return true
		})
		if !builds {
			return
		}
		restored := map[*types.Var]bool{}
		for _, dc := range DeferredCalls(fd.Body, false) {
			if fl, ok := ast.Unparen(dc.Fun).(*ast.FuncLit); ok {
				ast.Inspect(fl.Body, func(n ast.Node) bool {
					if as, ok := n.(*ast.AssignStmt); ok {
						for _, l := range as.Lhs {
							if fv := g.atom(l); fv != nil {
								restored[fv] = true
							}
						}
					}
					return true
				})
			}
		}
		var walk func(list []ast.Stmt, conds []ast.Expr, neg []bool)
		walk = func(list []ast.Stmt, conds []ast.Expr, neg []bool) {
			for _, s := range list {
				switch x := s.(type) {
				case *ast.AssignStmt:
					if len(x.Lhs) == len(x.Rhs) {
						for i, l := range x.Lhs {
							if fv := g.atom(l); fv != nil {
								if tv := g.info.Types[x.Rhs[i]]; tv.Value != nil && tv.Value.ExactString() == "true" && restored[fv] {
									brackets = append(brackets, bracket{fv, append([]ast.Expr{}, conds...), append([]bool{}, neg...), x.Pos(), DeclName(fd)})
								}
							}
						}
					}
				case *ast.IfStmt:
					walk(x.Body.List, append(conds, x.Cond), append(neg, false))
					if x.Else != nil {
						walk([]ast.Stmt{x.Else}, append(conds, x.Cond), append(neg, true))
					}
				case *ast.BlockStmt:
					walk(x.List, conds, neg)
				}
			}
		}
		walk(fd.Body.List, nil, nil)
	})
	if len(brackets) == 0 {
		c.Undecided("C11-G7", "trigger-body-state", bodyCtor.Pos(), "no boolean field of "+cfg.ctxType+" is set to true and restored (deferred) by the function that builds the CreateTrigger node: the builder states in which a trigger body is being built cannot be read")
		return
	}
	var bnames []string
	for _, b := range brackets {
		bnames = append(bnames, b.fld.Name()+" (set by "+b.fn+")")
	}
	// feasible trigger-body states
	var states []map[*types.Var]bool
	for m := 0; m < 1<<len(order); m++ {
		sigma := map[*types.Var]bool{}
		for i, f := range order {
			sigma[f] = m&(1<<i) != 0
		}
		ok := true
		for _, b := range brackets {
			if !sigma[b.fld] {
				ok = false
			}
			for i, cnd := range b.conds {
				r := g.eval(cnd, sigma)
				if (r == 0 && !b.neg[i]) || (r == 1 && b.neg[i]) {
					ok = false
				}
			}
		}
		if ok {
			states = append(states, sigma)
		}
	}
	descr := func(sigma map[*types.Var]bool) string {
		var l []string
		for _, f := range order {
			if sigma[f] {
				l = append(l, f.Name())
			} else {
				l = append(l, "!"+f.Name())
			}
		}
		return strings.Join(l, " && ")
	}
	// construction sites
	nSites := 0
	c.P.EachFuncDecl([]string{cfg.builderRel}, func(pk *packages.Package, fd *ast.FuncDecl) {
		if fd.Body == nil || strings.HasSuffix(c.P.Fset.Position(fd.Pos()).Filename, "_test.go") {
			return
		}
		handled := map[*ast.CallExpr]bool{}
		c11g7EachList(fd.Body, func(list []ast.Stmt) {
			for k, s := range list {
				as, ok := s.(*ast.AssignStmt)
				if !ok || len(as.Lhs) != 1 || len(as.Rhs) != 1 {
					continue
				}
				call, ok := ast.Unparen(as.Rhs[0]).(*ast.CallExpr)
				if !ok || Callee(g.info, call) != ctor {
					continue
				}
				id, ok := as.Lhs[0].(*ast.Ident)
				if !ok {
					continue
				}
				v := g.info.Defs[id]
				if v == nil {
					v = g.info.Uses[id]
				}
				if v == nil {
					continue
				}
				handled[call] = true
				nSites++
				key := DeclName(fd) + "/" + cfg.ctor + "/trigger body => volatile"
				var unmarked, undec []string
				for _, sigma := range states {
					marked, und := g.fold(list[k+1:], v, writers, sigma, false)
					if und != "" {
						undec = append(undec, descr(sigma)+": "+und)
					} else if !marked {
						unmarked = append(unmarked, descr(sigma))
					}
				}
				sort.Strings(unmarked)
				switch {
				case len(unmarked) > 0:
					c.Bad("C11-G7", key, as.Pos(), fmt.Sprintf("%s: the subquery constructed in %s is not marked volatile in the builder state(s) [%s], in which a trigger body is being built (%s): the body's plan is executed once per affected row, so the subquery's result cache serves the first firing's result to every later firing of the trigger in the same statement",
						c.P.Rel(as.Pos()), DeclName(fd), strings.Join(unmarked, " | "), strings.Join(bnames, ", ")))
				case len(undec) > 0:
					c.Undecided("C11-G7", key, as.Pos(), "whether the subquery is marked volatile depends on a condition outside the builder-state abstraction: "+strings.Join(undec, "; "))
				default:
					c.Ok("C11-G7", key, as.Pos(), fmt.Sprintf("marked volatile in all %d feasible trigger-body states (bracket %s)", len(states), strings.Join(bnames, ", ")))
				}
			}
		})
		ast.Inspect(fd.Body, func(n ast.Node) bool {
			if call, ok := n.(*ast.CallExpr); ok && Callee(g.info, call) == ctor && !handled[call] {
				nSites++
				c.Undecided("C11-G7", DeclName(fd)+"/"+cfg.ctor+"/trigger body => volatile", call.Pos(), "the constructed subquery is not bound to a local variable by a simple assignment: the marking cannot be followed")
			}
			return true
		})
	})
	if nSites == 0 {
		c.Undecided("C11-G7", cfg.ctor, ctor.Pos(), "planbuilder constructs no "+cfg.sqType)
	}
}

// fold runs the statements after the construction under sigma; returns whether v is marked when it
// leaves (return of v or end of the list), and a reason when that cannot be decided.
func (g *c11g7) fold(list []ast.Stmt, v types.Object, writers map[*types.Func]bool, sigma map[*types.Var]bool, marked bool) (bool, string) {
	m, und, _ := g.foldList(list, v, writers, sigma, marked)
	return m, und
}

func (g *c11g7) foldList(list []ast.Stmt, v types.Object, writers map[*types.Func]bool, sigma map[*types.Var]bool, marked bool) (m bool, und string, returned bool) {
	isV := func(x ast.Expr) bool {
		id, ok := ast.Unparen(x).(*ast.Ident)
		return ok && g.info.Uses[id] == v
	}
	for _, s := range list {
		switch x := s.(type) {
		case *ast.AssignStmt:
			for i, l := range x.Lhs {
				if !isV(l) {
					continue
				}
				if len(x.Lhs) != len(x.Rhs) {
					return marked, "the subquery variable is reassigned from a multi-value expression", false
				}
				call, ok := ast.Unparen(x.Rhs[i]).(*ast.CallExpr)
				if !ok {
					return marked, "the subquery variable is reassigned", false
				}
				sel, ok := ast.Unparen(call.Fun).(*ast.SelectorExpr)
				if !ok || !isV(sel.X) {
					return marked, "the subquery variable is reassigned from another value", false
				}
				if fn := Callee(g.info, call); fn != nil && writers[fn.Origin()] {
					marked = true
				}
			}
		case *ast.ReturnStmt:
			for _, r := range x.Results {
				if isV(r) {
					return marked, "", true
				}
			}
			return true, "", true // leaves without the subquery: nothing to mark on this path
		case *ast.BlockStmt:
			mm, u, ret := g.foldList(x.List, v, writers, sigma, marked)
			if u != "" || ret {
				return mm, u, ret
			}
			marked = mm
		case *ast.IfStmt:
			r := g.eval(x.Cond, sigma)
			var elseList []ast.Stmt
			if x.Else != nil {
				elseList = []ast.Stmt{x.Else}
			}
			switch r {
			case 1:
				mm, u, ret := g.foldList(x.Body.List, v, writers, sigma, marked)
				if u != "" || ret {
					return mm, u, ret
				}
				marked = mm
			case 0:
				mm, u, ret := g.foldList(elseList, v, writers, sigma, marked)
				if u != "" || ret {
					return mm, u, ret
				}
				marked = mm
			default:
				m1, u1, r1 := g.foldList(x.Body.List, v, writers, sigma, marked)
				m2, u2, r2 := g.foldList(elseList, v, writers, sigma, marked)
				if u1 != "" {
					return m1, u1, false
				}
				if u2 != "" {
					return m2, u2, false
				}
				opaque := "the mark depends on the condition at " + g.c.P.Rel(x.Cond.Pos()) + ", which is not a formula over the " + g.cfg.ctxType + " fields"
				if m1 != m2 || r1 != r2 {
					return marked, opaque, false
				}
				if r1 && r2 {
					return m1, "", true
				}
				marked = m1
			}
		default:
			touches := false
			ast.Inspect(s, func(n ast.Node) bool {
				if as, ok := n.(*ast.AssignStmt); ok {
					for _, l := range as.Lhs {
						if isV(l) {
							touches = true
						}
					}
				}
				return !touches
			})
			if touches {
				return marked, "the subquery variable is assigned inside a loop/switch statement", false
			}
		}
	}
	return marked, "", false
}
