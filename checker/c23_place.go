package main

import (
	"go/ast"
	"go/constant"
	"go/token"
	"go/types"
	"sort"
	"strings"
)

// C23-T3: which statements get triggers, and where the executors are put.
//
//	DML kinds   the plan node types whose build function (or a helper it calls) opens a table editor
//	            (plan.NewTableEditorIter / NewCheckpointingTableEditorIter); the iterator type wrapped there is
//	            the kind's row editor
//	detection   the type switch in applyTriggers that assigns the statement's TriggerEvent
//	placement   the type switch in applyTrigger that builds plan.NewTriggerExecutor nodes
//
// (a) every DML kind has an arm in both switches, (b) both switches name the same event for it, (c) in every
// placement arm the branch taken for BEFORE wraps a field of the node (its row source) and returns the node rebuilt
// around the executor, the other branch wraps the node itself and returns the executor, (d) every editor operation
// (RowInserter.Insert, RowUpdater.Update, RowDeleter.Delete) that a method of the kind's iterator calls belongs to the
// event the kind is matched to — an INSERT that updates or deletes rows must also fire those rows' triggers.
//
// C23-L (width): the rows such an iterator returns go to the AFTER executors above it, whose logic was resolved
// against a scope that is one table wide for INSERT/DELETE: no returned row may be a doubled/concatenated row.

type c23DML struct {
	node  *types.Named
	iter  *types.Named
	build *ast.FuncDecl
	pos   token.Pos
}

func c23DMLKinds(e *c23Env) []c23DML {
	info := e.execPk.TypesInfo
	isCtor := func(fn *types.Func) bool {
		if fn == nil || fn.Pkg() != e.planPk.Types {
			return false
		}
		for _, n := range e.nm.editorCtors {
			if fn.Name() == n {
				return true
			}
		}
		return false
	}
	// static callers inside the package
	callers := map[*types.Func][]*ast.FuncDecl{}
	var decls []*ast.FuncDecl
	for _, f := range e.execPk.Syntax {
		for _, d := range f.Decls {
			if fd, ok := d.(*ast.FuncDecl); ok && fd.Body != nil {
				decls = append(decls, fd)
				for _, call := range c23AllCalls(fd.Body) {
					if fn := Callee(info, call); fn != nil && fn.Pkg() == e.execPk.Types {
						callers[fn.Origin()] = append(callers[fn.Origin()], fd)
					}
				}
			}
		}
	}
	nodeOf := func(fd *ast.FuncDecl) *types.Named {
		if fd.Recv == nil || !c23IsNamed(info.TypeOf(fd.Recv.List[0].Type), e.execPk, e.nm.builder) {
			return nil
		}
		for _, p := range fd.Type.Params.List {
			if nt := c23Deref(info.TypeOf(p.Type)); nt != nil && nt.Obj().Pkg() == e.planPk.Types {
				if _, isPtr := types.Unalias(info.TypeOf(p.Type)).(*types.Pointer); isPtr {
					return nt
				}
			}
		}
		return nil
	}
	var resolve func(fd *ast.FuncDecl, depth int, seen map[*ast.FuncDecl]bool) []*types.Named
	resolve = func(fd *ast.FuncDecl, depth int, seen map[*ast.FuncDecl]bool) []*types.Named {
		if seen[fd] || depth > 4 {
			return nil
		}
		seen[fd] = true
		if n := nodeOf(fd); n != nil {
			return []*types.Named{n}
		}
		fn, _ := info.Defs[fd.Name].(*types.Func)
		var out []*types.Named
		for _, c := range callers[fn] {
			out = append(out, resolve(c, depth+1, seen)...)
		}
		return out
	}
	var out []c23DML
	seen := map[string]bool{}
	for _, fd := range decls {
		for _, call := range c23AllCalls(fd.Body) {
			if !isCtor(Callee(info, call)) || len(call.Args) == 0 {
				continue
			}
			// the wrapped iterator type
			var it *types.Named
			arg := ast.Unparen(call.Args[0])
			litType := func(x ast.Expr) *types.Named {
				if u, ok := ast.Unparen(x).(*ast.UnaryExpr); ok && u.Op == token.AND {
					x = u.X
				}
				if lit, ok := ast.Unparen(x).(*ast.CompositeLit); ok {
					if nt := c23Deref(info.TypeOf(lit)); nt != nil && nt.Obj().Pkg() == e.execPk.Types {
						return nt
					}
				}
				return nil
			}
			it = litType(arg)
			if it == nil {
				if o := c23Obj(info, arg); o != nil {
					for _, a := range c23AssignmentsTo(info, fd.Body, o) {
						if a.rhs != nil {
							if t := litType(a.rhs); t != nil {
								it = t
							}
						}
					}
				}
			}
			if it == nil {
				continue
			}
			for _, n := range resolve(fd, 0, map[*ast.FuncDecl]bool{}) {
				k := n.Obj().Name() + "/" + it.Obj().Name()
				if !seen[k] {
					seen[k] = true
					out = append(out, c23DML{node: n, iter: it, build: fd, pos: call.Pos()})
				}
			}
		}
	}
	sort.Slice(out, func(i, j int) bool { return out[i].node.Obj().Name() < out[j].node.Obj().Name() })
	return out
}

// c23AllCalls lists all calls in n including those inside function literals.
func c23AllCalls(n ast.Node) []*ast.CallExpr {
	var out []*ast.CallExpr
	ast.Inspect(n, func(m ast.Node) bool {
		if c, ok := m.(*ast.CallExpr); ok {
			out = append(out, c)
		}
		return true
	})
	return out
}

type c23Arm struct {
	clause *ast.CaseClause
	nodes  []string
	events map[string]bool
}

func (e *c23Env) eventConstName(info *types.Info, x ast.Expr) string {
	tn, _ := e.planPk.Types.Scope().Lookup(e.nm.eventType).(*types.TypeName)
	tv, ok := info.Types[x]
	if tn == nil || !ok || tv.Value == nil || !types.Identical(tv.Type, tn.Type()) {
		return ""
	}
	consts, _ := EnumConsts(e.planPk, e.nm.eventType)
	for _, k := range consts {
		if constant.Compare(k.Val, token.EQL, tv.Value) {
			return k.Obj.Name()
		}
	}
	return ""
}

// eventConstsAssigned: the event constants a right-hand side stores: the constant itself, or the elements of
// append(events, const…) when the detection collects a set of events.
func (e *c23Env) eventConstsAssigned(info *types.Info, r ast.Expr) []string {
	if nm := e.eventConstName(info, r); nm != "" {
		return []string{nm}
	}
	var out []string
	if call, ok := ast.Unparen(r).(*ast.CallExpr); ok && IsBuiltinCall(info, call, "append") && len(call.Args) >= 2 {
		for _, a := range call.Args[1:] {
			if nm := e.eventConstName(info, a); nm != "" {
				out = append(out, nm)
			}
		}
	}
	return out
}

// c23TypeSwitchArms reads the type switches of fd whose arms satisfy pick (which returns the events an arm names).
func c23TypeSwitchArms(e *c23Env, fd *ast.FuncDecl, pick func(cc *ast.CaseClause) map[string]bool) (*ast.TypeSwitchStmt, []c23Arm) {
	info := e.anPk.TypesInfo
	var best *ast.TypeSwitchStmt
	var arms []c23Arm
	ast.Inspect(fd.Body, func(n ast.Node) bool {
		ts, ok := n.(*ast.TypeSwitchStmt)
		if !ok {
			return true
		}
		var got []c23Arm
		for _, st := range ts.Body.List {
			cc := st.(*ast.CaseClause)
			evs := pick(cc)
			if len(evs) == 0 {
				continue
			}
			a := c23Arm{clause: cc, events: evs}
			for _, tx := range cc.List {
				if nt := c23Deref(info.TypeOf(tx)); nt != nil {
					a.nodes = append(a.nodes, nt.Obj().Name())
				}
			}
			got = append(got, a)
		}
		if len(got) > len(arms) {
			best, arms = ts, got
		}
		return true
	})
	return best, arms
}

func c23RunPlace(e *c23Env) {
	c := e.c
	ainfo := e.anPk.TypesInfo
	kinds := c23DMLKinds(e)
	if len(kinds) == 0 {
		c.Undecided("C23-T3", "dml-kinds", 0, "no build function that opens a table editor found")
		return
	}
	_, applyFd := c.P.FuncDecl(e.nm.anRel, e.nm.applyFn)
	_, oneFd := c.P.FuncDecl(e.nm.anRel, e.nm.applyOneFn)
	if applyFd == nil || oneFd == nil {
		c.Undecided("C23-T3", "anchors", 0, "analyzer."+e.nm.applyFn+" / "+e.nm.applyOneFn+" not found")
		return
	}
	newExec := LookupFunc(e.planPk, e.nm.newExecutor)

	// detection: arms that assign a TriggerEvent constant
	_, det := c23TypeSwitchArms(e, applyFd, func(cc *ast.CaseClause) map[string]bool {
		out := map[string]bool{}
		for _, s := range cc.Body {
			ast.Inspect(s, func(n ast.Node) bool {
				if as, ok := n.(*ast.AssignStmt); ok {
					for _, r := range as.Rhs {
						for _, nm := range e.eventConstsAssigned(ainfo, r) {
							out[nm] = true
						}
					}
				}
				return true
			})
		}
		return out
	})
	// placement: arms that build executors
	_, plc := c23TypeSwitchArms(e, oneFd, func(cc *ast.CaseClause) map[string]bool {
		out := map[string]bool{}
		for _, s := range cc.Body {
			for _, call := range c23AllCalls(s) {
				if fn := Callee(ainfo, call); fn != nil && fn == newExec {
					found := false
					for _, a := range call.Args {
						if nm := e.eventConstName(ainfo, a); nm != "" {
							out[nm] = true
							found = true
						}
					}
					if !found {
						out["?"] = true
					}
				}
			}
		}
		return out
	})
	if len(det) == 0 || len(plc) == 0 || newExec == nil {
		c.Undecided("C23-T3", "switches", applyFd.Pos(), "detection switch (assigns a "+e.nm.eventType+") or placement switch (calls "+e.nm.newExecutor+") not found")
		return
	}
	index := func(arms []c23Arm) map[string]c23Arm {
		m := map[string]c23Arm{}
		for _, a := range arms {
			for _, n := range a.nodes {
				m[n] = a
			}
		}
		return m
	}
	detBy, plcBy := index(det), index(plc)
	one := func(m map[string]bool) string {
		if len(m) != 1 {
			return ""
		}
		for k := range m {
			return k
		}
		return ""
	}

	// (a) + (b)
	eventOf := map[string]string{}
	doneKind := map[string]bool{}
	for _, k := range kinds {
		n := k.node.Obj().Name()
		if doneKind[n] {
			continue
		}
		doneKind[n] = true
		d, dok := detBy[n]
		p, pok := plcBy[n]
		switch {
		case !dok && !pok:
			c.Bad("C23-T3", "dml-kind/"+n, k.pos, "plan."+n+" opens a table editor ("+k.iter.Obj().Name()+" in "+DeclName(k.build)+") but neither "+e.nm.applyFn+" nor "+e.nm.applyOneFn+" has an arm for it: its rows never fire triggers")
		case !dok:
			c.Bad("C23-T3", "dml-kind/"+n, k.pos, "plan."+n+" has a placement arm but "+e.nm.applyFn+" never detects it: no trigger is selected for it")
		case !pok:
			c.Bad("C23-T3", "dml-kind/"+n, k.pos, "plan."+n+" is detected by "+e.nm.applyFn+" but "+e.nm.applyOneFn+" has no arm that places an executor for it: the selected triggers are silently dropped")
		default:
			c.Ok("C23-T3", "dml-kind/"+n, k.pos, "plan."+n+" (editor iterator "+k.iter.Obj().Name()+") has a detection and a placement arm")
			de, pe := one(d.events), one(p.events)
			eventOf[n] = de
			c.Check(de != "" && de == pe, "C23-T3", "event/"+n, p.clause.Pos(), "detection and placement agree: "+de,
				"detection names "+c23SetString(d.events)+" but placement builds executors for "+c23SetString(p.events)+" (each arm must name exactly one, the same, event)")
		}
	}

	// (c) placement per arm and time
	beforeVal := ""
	if tn, _ := e.planPk.Types.Scope().Lookup("TriggerTime").(*types.TypeName); tn != nil {
		ks, _ := EnumConsts(e.planPk, "TriggerTime")
		for _, k := range ks {
			if strings.EqualFold(constant.StringVal(k.Val), "before") {
				beforeVal = constant.StringVal(k.Val)
			}
		}
	}
	for _, arm := range plc {
		for _, n := range arm.nodes {
			c23PlacementArm(e, arm, n, newExec, beforeVal)
		}
	}

	// (d) editor operations of the kind's iterator
	xinfo := e.execPk.TypesInfo
	type op struct {
		itf, method, event string
		fn                 *types.Func
	}
	var ops []op
	for itf, spec := range e.nm.editOps {
		i := strings.Index(spec, "=")
		tn, _ := e.sqlPk.Types.Scope().Lookup(itf).(*types.TypeName)
		if tn == nil || i < 0 {
			c.Undecided("C23-T3", "editor-op/"+itf, 0, "interface sql."+itf+" not found")
			continue
		}
		o, _, _ := types.LookupFieldOrMethod(tn.Type(), false, e.sqlPk.Types, spec[:i])
		fn, _ := o.(*types.Func)
		if fn == nil {
			c.Undecided("C23-T3", "editor-op/"+itf, 0, "method sql."+itf+"."+spec[:i]+" not found")
			continue
		}
		ops = append(ops, op{itf, spec[:i], spec[i+1:], fn})
	}
	sort.Slice(ops, func(i, j int) bool { return ops[i].itf < ops[j].itf })
	doneIter := map[string]bool{}
	for _, k := range kinds {
		it := k.iter.Obj().Name()
		ev := eventOf[k.node.Obj().Name()]
		if doneIter[it] || ev == "" {
			continue
		}
		doneIter[it] = true
		for _, o := range ops {
			var first *ast.CallExpr
			var where string
			for _, fd := range c23MethodsOf(c.P, e.execPk, it) {
				for _, call := range c23AllCalls(fd.Body) {
					if fn := Callee(xinfo, call); fn != nil && fn.Origin() == o.fn && first == nil {
						first, where = call, DeclName(fd)
					}
				}
			}
			if first == nil {
				continue
			}
			key := it + "/" + o.itf + "." + o.method
			c.Check(o.event == ev, "C23-T3", key, first.Pos(), where+" performs "+o.method+" and plan."+k.node.Obj().Name()+" fires "+ev,
				where+" performs "+o.itf+"."+o.method+" (a row is "+strings.ToLower(o.method)+"d) but plan."+k.node.Obj().Name()+" statements only select "+ev+" triggers: the "+o.event+" triggers of that row never run")
		}
	}

	// width of the rows handed to AFTER executors
	for _, k := range kinds {
		it := k.iter.Obj().Name()
		ev := eventOf[k.node.Obj().Name()]
		if ev == "" || e.scopeWidth == nil {
			continue
		}
		w, ok := e.scopeWidth[ev]
		if !ok {
			c.Undecided("C23-L", it+".Next/row-width", k.pos, "no scope read for event "+ev)
			continue
		}
		c23RowWidth(e, k, ev, w)
	}
}

// c23PlacementArm decides clause (c) for one node type of a placement arm.
func c23PlacementArm(e *c23Env, arm c23Arm, node string, newExec *types.Func, beforeVal string) {
	c := e.c
	info := e.anPk.TypesInfo
	nObj := info.Implicits[arm.clause] // the variable bound by the type switch in this clause
	keyB, keyA := e.nm.applyOneFn+"/"+node+"/before", e.nm.applyOneFn+"/"+node+"/after"
	// the if statement that tests the trigger time against "before"
	var timeIf *ast.IfStmt
	beforeIsThen := true
	for _, s := range arm.clause.Body {
		ast.Inspect(s, func(n ast.Node) bool {
			is, ok := n.(*ast.IfStmt)
			if !ok || timeIf != nil {
				return true
			}
			be, ok := ast.Unparen(is.Cond).(*ast.BinaryExpr)
			if !ok || (be.Op != token.EQL && be.Op != token.NEQ) {
				return true
			}
			for _, side := range []ast.Expr{be.X, be.Y} {
				if tv, ok := info.Types[side]; ok && tv.Value != nil && tv.Value.Kind() == constant.String && beforeVal != "" && constant.StringVal(tv.Value) == beforeVal {
					timeIf, beforeIsThen = is, be.Op == token.EQL
				}
			}
			return true
		})
	}
	if nObj == nil || timeIf == nil || timeIf.Else == nil {
		c.Undecided("C23-T3", keyB, arm.clause.Pos(), "no if/else on the trigger time (compared with the BEFORE constant) in this arm: placement not readable")
		return
	}
	c23TriggerMatchesNode(e, arm, node, nObj, timeIf)
	var beforeBr, afterBr ast.Node = timeIf.Body, timeIf.Else
	if !beforeIsThen {
		beforeBr, afterBr = timeIf.Else, timeIf.Body
	}
	// no executor outside the two branches
	for _, s := range arm.clause.Body {
		for _, call := range c23AllCalls(s) {
			if fn := Callee(info, call); fn != nil && fn == newExec && !(timeIf.Pos() <= call.Pos() && call.End() <= timeIf.End()) {
				c.Bad("C23-T3", keyB, call.Pos(), "an executor is built outside the BEFORE/AFTER branches of this arm")
			}
		}
	}
	execCalls := func(br ast.Node) []*ast.CallExpr {
		var out []*ast.CallExpr
		for _, call := range c23AllCalls(br) {
			if fn := Callee(info, call); fn != nil && fn == newExec {
				out = append(out, call)
			}
		}
		return out
	}
	returnsOf := func(br ast.Node) []*ast.ReturnStmt {
		var out []*ast.ReturnStmt
		ast.Inspect(br, func(n ast.Node) bool {
			switch r := n.(type) {
			case *ast.FuncLit:
				return false
			case *ast.ReturnStmt:
				out = append(out, r)
			}
			return true
		})
		return out
	}
	// resolve an expression to the call it denotes (directly or through a single-definition variable of the branch)
	callOf := func(br ast.Node, x ast.Expr) *ast.CallExpr {
		if call, ok := ast.Unparen(x).(*ast.CallExpr); ok {
			return call
		}
		if o := c23Obj(info, x); o != nil {
			for _, a := range c23AssignmentsTo(info, br, o) {
				var rhs ast.Expr = a.rhs
				if rhs == nil && a.idx == 0 {
					rhs = a.stmt.Rhs[0]
				}
				if call, ok := ast.Unparen(rhs).(*ast.CallExpr); ok {
					return call
				}
			}
		}
		return nil
	}

	// BEFORE: executor(child = n.<field>) and return n.<Method>(…, executor, …)
	{
		calls := execCalls(beforeBr)
		good, why := len(calls) == 1, "the BEFORE branch must build exactly one executor"
		if good {
			se, ok := ast.Unparen(calls[0].Args[0]).(*ast.SelectorExpr)
			if !ok || c23Obj(info, se.X) != nObj {
				good, why = false, "the BEFORE executor does not wrap a field of the node (its row source): the trigger would not run on the rows before they are stored"
			}
		}
		if good {
			rets := returnsOf(beforeBr)
			if len(rets) == 0 {
				good, why = false, "the BEFORE branch does not return"
			}
			for _, r := range rets {
				if len(r.Results) == 0 || c23IsNilLit(info, r.Results[0]) {
					continue // error return
				}
				rc := callOf(beforeBr, r.Results[0])
				okRet := false
				if rc != nil {
					if se, ok := ast.Unparen(rc.Fun).(*ast.SelectorExpr); ok && c23Obj(info, se.X) == nObj {
						for _, a := range rc.Args {
							if ac := callOf(beforeBr, a); ac == calls[0] {
								okRet = true
							}
						}
					}
				}
				if !okRet {
					good, why = false, "the BEFORE branch does not return the node rebuilt around the executor (n.With…(executor)): the executor must sit between the node and its row source"
				}
			}
		}
		if good {
			c.Ok("C23-T3", keyB, timeIf.Pos(), "BEFORE: the executor wraps the node's row source and the node is rebuilt around it")
		} else {
			c.Bad("C23-T3", keyB, timeIf.Pos(), why)
		}
	}
	// AFTER: return executor(child = n)
	{
		calls := execCalls(afterBr)
		good, why := len(calls) == 1, "the AFTER branch must build exactly one executor"
		if good && c23Obj(info, calls[0].Args[0]) != nObj {
			good, why = false, "the AFTER executor does not wrap the node itself: the trigger would not run on the rows after they are stored"
		}
		if good {
			n := 0
			for _, r := range returnsOf(afterBr) {
				if len(r.Results) == 0 || c23IsNilLit(info, r.Results[0]) {
					continue
				}
				n++
				if callOf(afterBr, r.Results[0]) != calls[0] {
					good, why = false, "the AFTER branch does not return the executor itself"
				}
			}
			if n == 0 && good {
				good, why = false, "the AFTER branch does not return the executor"
			}
		}
		if good {
			c.Ok("C23-T3", keyA, timeIf.Pos(), "AFTER: the executor wraps the node and replaces it")
		} else {
			c.Bad("C23-T3", keyA, timeIf.Pos(), why)
		}
	}
}

// c23RowWidth classifies the row returns of the kind's iterator (following calls to its own methods).
func c23RowWidth(e *c23Env, k c23DML, ev string, width int) {
	c := e.c
	info := e.execPk.TypesInfo
	it := k.iter.Obj().Name()
	methods := map[*types.Func]*ast.FuncDecl{}
	for _, fd := range c23MethodsOf(c.P, e.execPk, it) {
		if fn, ok := info.Defs[fd.Name].(*types.Func); ok {
			methods[fn] = fd
		}
	}
	next := LookupFunc(e.execPk, it+".Next")
	if next == nil || methods[next] == nil {
		c.Undecided("C23-L", it+".Next/row-width", k.pos, "Next not found")
		return
	}
	isDoubleMake := func(x ast.Expr) bool {
		call, ok := ast.Unparen(x).(*ast.CallExpr)
		if !ok || !IsBuiltinCall(info, call, "make") || len(call.Args) < 2 {
			return false
		}
		if t := info.TypeOf(call.Args[0]); t == nil || !types.Identical(t, e.rowT) {
			return false
		}
		be, ok := ast.Unparen(call.Args[1]).(*ast.BinaryExpr)
		if !ok || be.Op != token.MUL {
			return false
		}
		for _, side := range []ast.Expr{be.X, be.Y} {
			if tv, ok := info.Types[side]; ok && tv.Value != nil && constant.Compare(tv.Value, token.EQL, constant.MakeInt64(2)) {
				return true
			}
		}
		return false
	}
	classify := func(fd *ast.FuncDecl, x ast.Expr) string {
		if _, _, ok := c23Concat(e, info, x); ok {
			return "concat"
		}
		if isDoubleMake(x) {
			return "doubled-make"
		}
		if o := c23Obj(info, x); o != nil {
			for _, a := range c23AssignmentsTo(info, fd.Body, o) {
				if a.rhs == nil {
					continue
				}
				if _, _, ok := c23Concat(e, info, a.rhs); ok {
					return "concat"
				}
				if isDoubleMake(a.rhs) {
					return "doubled-make"
				}
			}
		}
		return ""
	}
	visited := map[*types.Func]bool{}
	var walk func(fn *types.Func)
	walk = func(fn *types.Func) {
		if visited[fn] {
			return
		}
		visited[fn] = true
		fd := methods[fn]
		name := DeclName(fd)
		single := 0
		ast.Inspect(fd.Body, func(n ast.Node) bool {
			switch r := n.(type) {
			case *ast.FuncLit:
				return false
			case *ast.ReturnStmt:
				if len(r.Results) == 0 {
					return true
				}
				x := r.Results[0]
				if len(r.Results) == 1 {
					// return f(...) of a (Row, error) method
					if call, ok := ast.Unparen(x).(*ast.CallExpr); ok {
						if cf := Callee(info, call); cf != nil && methods[cf.Origin()] != nil {
							walk(cf.Origin())
						}
					}
					return true
				}
				if c23IsNilLit(info, x) || !types.Identical(info.TypeOf(x), e.rowT) {
					return true
				}
				if kind := classify(fd, x); kind != "" {
					if width == 1 {
						c.Bad("C23-L", name+"/row-width:"+kind, r.Pos(), "this "+it+" return hands a two-rows-wide row ("+kind+") to the executors above it, but the "+ev+" scope the trigger body is resolved against is one table wide: NEW.x / OLD.x read the first half, not the row of this event")
					} else {
						c.Ok("C23-L", name+"/row-width:"+kind, r.Pos(), "two-rows-wide row for a two-tables-wide scope")
					}
				} else {
					single++
				}
			}
			return true
		})
		if single > 0 {
			if width == 1 {
				c.Ok("C23-L", name+"/row-width", fd.Pos(), "row returns that are not doubled or concatenated rows (the source row or a projection) for a one-table-wide scope")
			} else {
				c.Ok("C23-L", name+"/row-width", fd.Pos(), "hands the child's rows on (for UPDATE these are the old||new rows of the update source, decided above)")
			}
		}
	}
	walk(next)
}

// c23TriggerMatchesNode: a placement arm runs for every node of its kind in the analysed subtree and for every selected
// trigger. The subtree can hold DML nodes of several kinds and tables (branches of an IF inside a trigger body), so the arm
// itself must test that this trigger is defined for this node's event and table before it builds an executor: an if
// statement in front of (early return) or around the BEFORE/AFTER branches whose condition involves both the trigger and
// the node — the trigger's event and table fields directly, or a helper that is given the trigger and reads both fields.
func c23TriggerMatchesNode(e *c23Env, arm c23Arm, node string, nObj types.Object, timeIf *ast.IfStmt) {
	c := e.c
	info := e.anPk.TypesInfo
	key := e.nm.applyOneFn + "/" + node + "/trigger-matches-node"
	_, oneFd := c.P.FuncDecl(e.nm.anRel, e.nm.applyOneFn)
	var trigObj types.Object
	for _, f := range oneFd.Type.Params.List {
		if c23IsNamed(info.TypeOf(f.Type), e.planPk, e.nm.createNode) && len(f.Names) == 1 {
			trigObj = info.Defs[f.Names[0]]
		}
	}
	if trigObj == nil {
		c.Undecided("C23-T3", key, arm.clause.Pos(), "no *plan."+e.nm.createNode+" parameter in "+e.nm.applyOneFn)
		return
	}
	// fieldsRead: which of (event, table) fields of the CreateTrigger object `obj` are read inside n (following one level of
	// package-local helper calls that are given obj)
	var fieldsRead func(pkInfo *types.Info, n ast.Node, obj types.Object, depth int) (ev, tbl bool)
	fieldsRead = func(pkInfo *types.Info, n ast.Node, obj types.Object, depth int) (ev, tbl bool) {
		ast.Inspect(n, func(k ast.Node) bool {
			switch x := k.(type) {
			case *ast.SelectorExpr:
				if c23Obj(pkInfo, x.X) == obj {
					switch x.Sel.Name {
					case "TriggerEvent":
						ev = true
					case "Table":
						tbl = true
					}
				}
			case *ast.CallExpr:
				if depth >= 2 {
					return true
				}
				fn := Callee(pkInfo, x)
				if fn == nil || fn.Pkg() != e.anPk.Types {
					return true
				}
				fd := c.P.Decl(fn)
				if fd == nil || fd.Body == nil {
					return true
				}
				// which parameter receives obj?
				i := 0
				for _, f := range fd.Type.Params.List {
					for _, nm := range f.Names {
						if i < len(x.Args) && c23Obj(pkInfo, x.Args[i]) == obj {
							e2, t2 := fieldsRead(info, fd.Body, info.Defs[nm], depth+1)
							ev, tbl = ev || e2, tbl || t2
						}
						i++
					}
				}
			}
			return true
		})
		return
	}
	ev, tbl, usesNode, withoutNode := false, false, false, false
	for _, s := range arm.clause.Body {
		ast.Inspect(s, func(k ast.Node) bool {
			is, ok := k.(*ast.IfStmt)
			if !ok || is == timeIf {
				return true
			}
			guards := false
			if is.End() <= timeIf.Pos() && len(is.Body.List) > 0 {
				if _, isRet := is.Body.List[len(is.Body.List)-1].(*ast.ReturnStmt); isRet {
					guards = true // early return in front of the placement
				}
			}
			if is.Body.Pos() <= timeIf.Pos() && timeIf.End() <= is.Body.End() {
				guards = true // placement inside the then-branch
			}
			if !guards {
				return true
			}
			e1, t1 := fieldsRead(info, is.Cond, trigObj, 0)
			if !e1 && !t1 {
				return true
			}
			// the same condition must involve this node
			if c23Mentions(info, is.Cond, map[types.Object]bool{nObj: true}) {
				usesNode = true
				ev, tbl = ev || e1, tbl || t1
			} else {
				withoutNode = true
			}
			return true
		})
	}
	switch {
	case ev && tbl && usesNode:
		c.Ok("C23-T3", key, arm.clause.Pos(), "the arm builds an executor only after testing the trigger's event and table against this node")
	case !ev && !tbl && withoutNode:
		c.Bad("C23-T3", key, arm.clause.Pos(), "the arm tests the trigger's event/table, but not against this node (the condition does not involve the node the executor is placed on)")
	case !ev && !tbl:
		c.Bad("C23-T3", key, arm.clause.Pos(), "the arm places the trigger on every plan."+node+" of the analysed subtree without testing that the trigger's event and table are this node's: applyTriggers detects one event / one table set for the whole subtree, so with DML nodes of several kinds or tables (IF branches in a trigger body) a trigger runs for rows of another event or table")
	case !ev:
		c.Bad("C23-T3", key, arm.clause.Pos(), "the arm tests the trigger's table but not its event against this node")
	case !tbl:
		c.Bad("C23-T3", key, arm.clause.Pos(), "the arm tests the trigger's event but not its table against this node")
	default:
		c.Bad("C23-T3", key, arm.clause.Pos(), "the test of the trigger's event and table does not involve this node")
	}
}
