package main

import (
	"fmt"
	"go/ast"
	"go/types"
	"os"
	"sort"
	"strings"

	"golang.org/x/tools/go/cfg"
	"golang.org/x/tools/go/packages"
)

// C51 — the full-text index stays in sync with the table: the structural coupling between the
// table editor, the five pseudo-index tables of a FULLTEXT index and the bulk (DDL / TRUNCATE)
// paths. Nothing about tokenisation results, relevance values or match results is decided.
//
//	F1 (c51.go)        fan-out of the wrapper editors, derived from their struct types
//	F2, T (c51_sym.go) Insert/Delete symmetry of the transformer, one tokenizer, one collation source
//	A  (c51_attach.go) attachment: nobody hands out a bare row editor for a table with FULLTEXT indexes
//	R  (c51_attach.go) bulk mutations in the executor are followed by a rebuild of the index tables
//	K  (c51_sym.go)    row-identity sources of the index-table keys agree between writer and reader

type c51Site struct{ rel, fn string }

type c51Params struct {
	sqlRel       string   // "sql"
	editorIface  string   // "TableEditor": the row editor interface the wrappers implement
	ftRel        string   // "sql/fulltext"
	forwarders   []string // wrapper types whose DML methods forward the row unchanged
	transformers []string // wrapper types whose DML methods translate the row into index-table rows
	perIndex     string   // "IndexEditors": the per-index group of sub-editors of the transformer
	tableSet     string   // "TableSet"
	createEditor string   // "CreateEditor"
	createMulti  string   // "CreateMultiTableEditor"
	rebuild      string   // "RebuildTables"
	keyColumns   string   // "KeyColumns"
	keyPositions string   // "Positions"
	readerSites  []c51Site
	memRel       string              // "memory"
	bareEditor   string              // "tableEditor"
	execRel      string              // "sql/rowexec"
	bulk         map[string][]string // interface in sqlRel -> methods that change rows / row identity in bulk
	indexIface   string              // "Index"
	isFullText   string              // "IsFullText"
	floors       map[string]int
	aExc, rExc   map[string]string
	f2Exc        map[string]string
}

var c51Repo = c51Params{
	sqlRel: "sql", editorIface: "TableEditor", ftRel: "sql/fulltext",
	forwarders: []string{"MultiTableEditor"}, transformers: []string{"TableEditor"}, perIndex: "IndexEditors",
	tableSet: "TableSet", createEditor: "CreateEditor", createMulti: "CreateMultiTableEditor", rebuild: "RebuildTables",
	keyColumns: "KeyColumns", keyPositions: "Positions",
	readerSites: []c51Site{{"sql/expression", "MatchAgainst.inNaturalLanguageMode"}, {"sql/rowexec", "FulltextFilterTable.PartitionRows"}},
	memRel:      "memory", bareEditor: "tableEditor", execRel: "sql/rowexec",
	bulk: map[string][]string{
		"AlterableTable":           {"AddColumn", "DropColumn", "ModifyColumn"},
		"PrimaryKeyAlterableTable": {"CreatePrimaryKey", "DropPrimaryKey"},
		"TruncateableTable":        {"Truncate"},
	},
	indexIface: "Index", isFullText: "IsFullText",
	floors: map[string]int{"C51-F1": 34, "C51-F2": 11, "C51-T": 10, "C51-K": 3, "C51-A": 9, "C51-R": 10},
	aExc: map[string]string{
		"TableRevision.Inserter/bare editor": "TableRevision is the container for AS OF smoke tests (only enginetest's memory harness builds one, through NewPartitionedTableRevision); it edits its embedded data without a session and no SQL path declares a FULLTEXT index on a revision",
	},
	rExc: map[string]string{
		"BaseBuilder.buildAlterDefaultSet/ModifyColumn":  "ALTER COLUMN … SET DEFAULT: the new column differs from the old one in its Default only; no stored row, column position or name changes, so no index-table row (word, key columns, row hash) can change",
		"BaseBuilder.buildAlterDefaultDrop/ModifyColumn": "ALTER COLUMN … DROP DEFAULT: the new column differs from the old one in its Default only; no stored row, column position or name changes",
		"BaseBuilder.buildRenameColumn/ModifyColumn":     "RENAME COLUMN: the column handed to ModifyColumn is a copy of the old one with a new Name (nc := *old; nc.Name = new) and a nil order; no stored row, column position, type or key changes and the backend renames the index expressions; repro/c51_test.go TestC51RenameColumnKeepsFullTextUsable shows INSERT/DELETE/MATCH stay in step after renaming the indexed and a non-indexed column",
		"updateDefaultsOnColumnRename/ModifyColumn":      "rewrites only the Default / Generated expressions of *other* columns that mention a renamed column (column references inside expressions); no stored row, column position, name or key changes; called on the way to the ModifyColumn of the renamed column itself (modifyColumnIter.Next, buildRenameColumn)",
	},
	f2Exc: map[string]string{
		"TableEditor.Insert~Delete/filter/GlobalCount@GlobalCount:H:updateGlobalCount+RowCount:U":                       "duplicate-row regime: Delete decrements the global count of over-long words that Insert never counted; updateGlobalCount(…, false) finds no row for such a word and returns before any write (repro/c51_test.go TestC51LongWordDuplicateRowsStayConsistent passes on the pin)",
		"TableEditor.Insert~Delete/filter/GlobalCount@DocCount:W+GlobalCount:H:updateGlobalCount+Position:W+RowCount:W": "last-row regime: same no-op decrement through updateGlobalCount(…, false) for a word that has no global-count row; the doc-count write in the same loop is the part that fails and is the listed finding",
	},
}

func init() {
	register(&Property{
		ID:       "C51",
		Patterns: []string{"./sql/rowexec", "./memory"},
		Explanation: "Structural necessary conditions of \"the full-text index stays consistent with the table across any DML history\" (a FULLTEXT index is five ordinary tables — config, position, doc-count, global-count, row-count — written by fulltext.TableEditor, which memory attaches to the table's row editor through fulltext.MultiTableEditor). Decided: " +
			"(F1) fan-out, derived from the struct types: for every struct type of sql/fulltext that implements sql.TableEditor, the set of sub-editors is read off its fields (fields of an editor interface type, through nested structs and slices: TableEditor → Config.Editor and Indexes[*].{Position,DocCount,GlobalCount,RowCount}.Editor; MultiTableEditor → primary, secondaries[*]); each of StatementBegin, DiscardChanges, StatementComplete, Close calls the same-named method on every one of them on every control-flow path (for a slice: the range statement is on every path and no path through its body reaches the next iteration, the loop exit or a return without the call), and Insert/Update/Delete of the forwarding wrapper (MultiTableEditor) do so on every path that has not already failed; " +
			"(F2) Insert/Delete symmetry of fulltext.TableEditor: per iteration of the loop over the indexes, the families of index tables written on the successful paths (row-count, position, doc-count, global-count — helper calls such as updateGlobalCount are replaced by the tables they write) are mirror images: every (table, Insert|Update) set of Insert has the (table, Delete|Update) set in Delete and vice versa; a word loop that writes a table skips over-long words in Insert iff it does in Delete (same comparison, same constant); the helper's boolean direction flag is constant per method and opposite between the two; Update(old,new) reaches Delete(old) and Insert(new) on every non-failed path; " +
			"(T) one tokenizer, one collation source: every construction of the parser type the transformer iterates over — in Insert, Delete and in the readers (MatchAgainst.inNaturalLanguageMode, FulltextFilterTable.PartitionRows) — resolves to the same constructor (through pure forwarding wrappers), the writer's sites pass the same source columns (row[Indexes[*].SourceCols[*]]) and every site's collation argument originates (through locals and the struct field it is stored in) in a call of one and the same function; " +
			"(K) the row-identity part of the index-table keys is drawn from the same sources by the writer (Insert, Delete) and the reader (MatchAgainst): row[KeyColumns.Positions[*]] and HashRow(row); " +
			"(A) attachment in package memory: every composite literal of the bare row editor (memory.tableEditor) sits in an unexported constructor, and every function that calls such a constructor passes, on every path from the call to a return, either the call that wraps the editor (the function that calls fulltext.CreateEditor and hands its result as a secondary to fulltext.CreateMultiTableEditor, returning the wrapped editor) or the no-index edge of `len(tableSets) > 0` where tableSets comes from the function that lists the table sets; that function skips an index only under !IsFullText(); every fulltext.TableSet literal of the module sets all of its fields; " +
			"(R) bulk paths in sql/rowexec: every call of AddColumn/DropColumn/ModifyColumn (sql.AlterableTable), CreatePrimaryKey/DropPrimaryKey (sql.PrimaryKeyAlterableTable) or Truncate (sql.TruncateableTable) — the table operations that change stored rows, column positions or the key columns without going through a row editor — is followed on every non-failed path to a return by a call that reaches fulltext.RebuildTables, or leaves through the no-index edge of a test of the executor's has-FULLTEXT predicate.",
		NotCovered: "tokenisation itself (which words a document yields, stop words, minimum word length), collation behaviour (that equal words hash/compare equal), relevance values and which rows MATCH … AGAINST returns, the arithmetic of the counters (row_count, doc_count, global_count values), that the index tables' own editors store what they are given, error paths (a failed statement is C15's clause; F1 only adds Close and type-derived completeness to C15-S5), concurrent sessions, integrator backends other than memory for clause A, and DDL that never calls one of the six bulk methods (RENAME TABLE, index DDL itself); T decides identity of the constructor and of the collation-deriving function, not that two different functions would be equivalent",
		Technique:  "type-derived obligation sets (struct fields implementing the editor interface) + CFG must-pass-through (go/cfg, error edges pruned) + per-path write-set families on the AST with helper summaries + source-origin normal forms (sibling agreement) + who-may-construct/call over go/types",
		Run:        func(c *Ctx) { runC51(c, c51Repo) },
		Fixture: func(c *Ctx, fx *Prog) {
			p := c51Repo
			p.sqlRel, p.ftRel, p.memRel, p.execRel = "testdata/c51/sql", "testdata/c51/ft", "testdata/c51/mem", "testdata/c51/exec"
			p.readerSites = []c51Site{{"testdata/c51/exec", "Reader.Match"}}
			p.floors, p.aExc, p.rExc, p.f2Exc = map[string]int{}, map[string]string{}, map[string]string{}, map[string]string{}
			expectFixture(c, fx, "c51: dropped forwards, asymmetric Insert/Delete, bare editor handed out, bulk change without rebuild must be reported", []string{
				"C51-F1:TableEditor.Close/recv.Indexes[*].DocCount.Editor",
				"C51-F1:TableEditor.DiscardChanges/recv.Indexes[*].RowCount.Editor",
				"C51-F1:MultiTableEditor.StatementComplete/recv.secondaries[*]",
				"C51-F1:MultiTableEditor.Delete/recv.secondaries[*]",
				"C51-F2:TableEditor.Insert~Delete/write-sets",
				"C51-F2:TableEditor.Insert~Delete/filter/GlobalCount@GlobalCount:H:bump+RowCount:U",
				"C51-F2:TableEditor.Insert~Delete/direction bump",
				"C51-F2:TableEditor.Update/Delete($1)",
				"C51-T:Reader.Match/constructor",
				"C51-T:TableEditor.Delete/collation",
				"C51-K:Reader.Match/key sources",
				"C51-A:Table.Updater/bare editor",
				"C51-A:Table.rewriteEditor/wrap after newEditor",
				"C51-A:Table.tableSets/skips only non-FULLTEXT",
				"C51-A:Table.tableSets/TableSet{}",
				"C51-R:addColumn/AddColumn",
				"C51-R:truncate/Truncate",
			}, func(fc *Ctx) { runC51(fc, p) })
		},
		FixturePkgs: []string{"./testdata/c51/sql", "./testdata/c51/ft", "./testdata/c51/mem", "./testdata/c51/exec"},
	})
}

func runC51(c *Ctx, p c51Params) {
	c.Rule("C51-F1", "every lifecycle method of a full-text wrapper editor (and every DML method of the forwarding wrapper) calls the same-named method on every sub-editor its struct type holds, on every path", p.floors["C51-F1"])
	c.Rule("C51-F2", "TableEditor.Insert and Delete write mirror-image sets of index tables per regime, filter words alike, pass opposite direction flags; Update = Delete(old) + Insert(new)", p.floors["C51-F2"])
	c.Rule("C51-T", "writer and readers build the tokenizer with one constructor and derive its collation from one function; the writer's sites tokenize the same source columns", p.floors["C51-T"])
	c.Rule("C51-K", "writer and reader draw the row-identity part of the index keys from the same sources", p.floors["C51-K"])
	c.Rule("C51-A", "no function of the backend hands out a bare row editor for a table that may have FULLTEXT indexes", p.floors["C51-A"])
	c.Rule("C51-R", "bulk table mutations in the executor are followed by a full-text rebuild on every successful path", p.floors["C51-R"])

	ftPk, sqlPk := c.P.Pkg(p.ftRel), c.P.Pkg(p.sqlRel)
	if ftPk == nil || sqlPk == nil {
		c.Undecided("C51-F1", "packages", 0, "packages "+p.ftRel+" / "+p.sqlRel+" not loaded")
		return
	}
	edIface := dmlLookupIface(c.P, p.sqlRel, p.editorIface)
	if edIface == nil {
		c.Undecided("C51-F1", "anchors", 0, "interface "+p.sqlRel+"."+p.editorIface+" not found")
		return
	}
	c51FanOut(c, p, ftPk, edIface)
	c51Symmetry(c, p, ftPk, edIface)
	c51Attach(c, p, ftPk)
	c51Rebuild(c, p, ftPk)
	if os.Getenv("VCHK_DUMP") != "" && !c.fixtureMode {
		for _, o := range c.Obs {
			fmt.Printf("OBS %s %s %s %s | %s\n", o.Rule, o.Status, o.Key, o.Pos, o.Msg)
		}
	}
}

// ---- F1 ---------------------------------------------------------------------------------------

// c51EditorPaths derives the sub-editor access paths of a struct type: fields whose type
// implements the editor interface, through nested structs of the same package and slices.
func c51EditorPaths(t types.Type, prefix string, iface *types.Interface, pkg *types.Package, depth int, out *[]string) {
	if depth > 4 {
		return
	}
	st, ok := t.Underlying().(*types.Struct)
	if !ok {
		return
	}
	for i := 0; i < st.NumFields(); i++ {
		f := st.Field(i)
		ft := f.Type()
		path := prefix + "." + f.Name()
		if sl, ok := ft.Underlying().(*types.Slice); ok {
			ft = sl.Elem()
			path += "[*]"
		}
		if _, isIface := ft.Underlying().(*types.Interface); isIface {
			if types.Implements(ft, iface) {
				*out = append(*out, path)
			}
			continue
		}
		if nt := dmlNamedOf(ft); nt != nil && nt.Obj().Pkg() == pkg {
			c51EditorPaths(nt, path, iface, pkg, depth+1, out)
		}
	}
}

func c51FanOut(c *Ctx, p c51Params, ftPk *packages.Package, iface *types.Interface) {
	info := ftPk.TypesInfo
	known := map[string]string{}
	for _, n := range p.forwarders {
		known[n] = "forwarder"
	}
	for _, n := range p.transformers {
		known[n] = "transformer"
	}
	lifecycle := []string{"StatementBegin", "DiscardChanges", "StatementComplete", "Close"}
	dml := []string{"Insert", "Update", "Delete"}
	found := 0
	for _, nt := range dmlNamedTypes(ftPk) {
		if _, isStruct := nt.Underlying().(*types.Struct); !isStruct || !dmlImplements(nt, iface) {
			continue
		}
		kind, ok := known[nt.Obj().Name()]
		if !ok {
			c.Undecided("C51-F1", nt.Obj().Name()+"/classification", nt.Obj().Pos(), "a new editor type of "+p.ftRel+" implements "+p.editorIface+": it must be listed as forwarder or transformer")
			continue
		}
		found++
		var paths []string
		c51EditorPaths(nt, "recv", iface, ftPk.Types, 0, &paths)
		sort.Strings(paths)
		if len(paths) == 0 {
			c.Undecided("C51-F1", nt.Obj().Name()+"/sub-editors", nt.Obj().Pos(), "no field of an editor interface type found in the struct")
			continue
		}
		decls := map[string]*ast.FuncDecl{}
		for _, fd := range dmlMethodDecls(ftPk, nt) {
			decls[fd.Name.Name] = fd
		}
		methods := append([]string{}, lifecycle...)
		if kind == "forwarder" {
			methods = append(methods, dml...)
		}
		for _, m := range methods {
			fd := decls[m]
			if fd == nil {
				c.Undecided("C51-F1", nt.Obj().Name()+"."+m, nt.Obj().Pos(), "method not declared on the type")
				continue
			}
			successOnly := kind == "forwarder" && (m == "Insert" || m == "Update" || m == "Delete")
			for _, path := range paths {
				key := nt.Obj().Name() + "." + m + "/" + path
				bad, why := c51MustCallOn(c.P, info, fd, path, m, successOnly)
				if bad == nil && why == "" {
					c.Ok("C51-F1", key, fd.Pos(), "calls "+m+" on "+path+" on every path")
				} else {
					c.Bad("C51-F1", key, fd.Pos(), nt.Obj().Name()+"."+m+": "+why+" — that sub-editor's table falls out of the statement/forwarding protocol and drifts from the other tables", c.P.DescribePath(bad)...)
				}
			}
		}
	}
	if found < len(known) {
		c.Undecided("C51-F1", "wrapper types", 0, "not every listed wrapper type was found as a struct implementing "+p.editorIface)
	}
}

// c51CallOn: n contains a call of a method named m whose receiver expression normalises to path.
func c51CallOn(info *types.Info, fd *ast.FuncDecl, n ast.Node, path, m string) bool {
	recv := dmlRecvObj(info, fd)
	return ContainsCall(info, n, func(fn *types.Func, call *ast.CallExpr) bool {
		if fn.Name() != m {
			return false
		}
		x, ok := dmlMethodCallOn(call, m)
		if !ok {
			return false
		}
		return dmlNormPath(info, fd.Body, recv, x) == path
	})
}

// c51ErrEdge prunes the successor on which an error variable is known to be non-nil.
func c51ErrEdge(info *types.Info) func(b *cfg.Block, succ int) bool {
	return func(b *cfg.Block, succ int) bool {
		if o, nonNil, ok := ErrNilEdge(info, b, succ); ok && nonNil && IsErrorType(o.Type()) {
			return false
		}
		return true
	}
}

// c51MustCallOn decides "method m is called on sub-editor `path` on every path of fd". For a path
// through a slice ("…[*]…") the obligation is: some range statement over that slice is passed on every
// path from the entry to an exit, and inside its body no path from the start of an iteration
// reaches the next iteration, the loop exit, a return or the end of the function without the call.
func c51MustCallOn(p *Prog, info *types.Info, fd *ast.FuncDecl, path, m string, successOnly bool) ([]ast.Node, string) {
	g := p.CFG(info, fd.Body)
	var edgeOK func(b *cfg.Block, succ int) bool
	if successOnly {
		edgeOK = c51ErrEdge(info)
	}
	isCall := func(n ast.Node) bool { return c51CallOn(info, fd, n, path, m) }
	star := strings.Index(path, "[*]")
	if star < 0 {
		if bad := PathAvoiding(g, EntryPoint(g), isCall, nil, edgeOK); bad != nil {
			return bad, "a path from the entry to an exit does not call " + m + " on " + path
		}
		return nil, ""
	}
	if strings.Count(path, "[*]") != 1 {
		return []ast.Node{fd}, "UNDECIDED: nested slices of sub-editors are not supported (" + path + ")"
	}
	slicePath := path[:star]
	recv := dmlRecvObj(info, fd)
	var loops []*ast.RangeStmt
	ast.Inspect(fd.Body, func(n ast.Node) bool {
		if rs, ok := n.(*ast.RangeStmt); ok && dmlNormPath(info, fd.Body, recv, rs.X) == slicePath {
			loops = append(loops, rs)
		}
		return true
	})
	if len(loops) == 0 {
		return []ast.Node{fd.Body}, "no range loop over " + slicePath + ", so " + m + " is not called on " + path
	}
	var firstBad []ast.Node
	firstWhy := ""
	for _, rs := range loops {
		// (a) the loop is on every path
		onLoop := func(n ast.Node) bool { return n.Pos() <= rs.X.Pos() && rs.X.End() <= n.End() }
		if bad := PathAvoiding(g, EntryPoint(g), onLoop, nil, edgeOK); bad != nil {
			if firstBad == nil {
				firstBad, firstWhy = bad, "a path from the entry to an exit does not reach the loop over "+slicePath
			}
			continue
		}
		// (b) every iteration makes the call
		var body, loop, done *cfg.Block
		for _, b := range g.Blocks {
			if b.Stmt != ast.Stmt(rs) {
				continue
			}
			switch b.Kind {
			case cfg.KindRangeBody:
				body = b
			case cfg.KindRangeLoop:
				loop = b
			case cfg.KindRangeDone:
				done = b
			}
		}
		if body == nil || loop == nil || done == nil {
			return []ast.Node{rs}, "UNDECIDED: range blocks not found in the CFG"
		}
		bad := c51BodyEscapes(body, loop, done, isCall, edgeOK)
		if bad == nil {
			return nil, ""
		}
		if firstBad == nil {
			firstBad, firstWhy = bad, "an iteration of the loop over "+slicePath+" can end (next iteration, loop exit or return) without calling "+m+" on "+path
		}
	}
	return firstBad, firstWhy
}

// c51BodyEscapes searches a path from the start of a loop body that leaves the iteration
// (back edge, loop exit, return, end of function) without passing a node for which hit is true.
func c51BodyEscapes(body, loop, done *cfg.Block, hit func(ast.Node) bool, edgeOK func(b *cfg.Block, succ int) bool) []ast.Node {
	visited := map[*cfg.Block]bool{body: true}
	var walk func(b *cfg.Block, tr []ast.Node) []ast.Node
	walk = func(b *cfg.Block, tr []ast.Node) []ast.Node {
		for _, n := range b.Nodes {
			if hit(n) {
				return nil
			}
			if _, ok := n.(*ast.ReturnStmt); ok {
				return append(append([]ast.Node{}, tr...), n)
			}
		}
		if len(b.Succs) == 0 {
			if isFallOffEnd(b) {
				return append(append([]ast.Node{}, tr...), nil)
			}
			return nil // panic
		}
		var last ast.Node
		if len(b.Nodes) > 0 {
			last = b.Nodes[len(b.Nodes)-1]
		}
		for si, s := range b.Succs {
			if edgeOK != nil && !edgeOK(b, si) {
				continue
			}
			ntr := tr
			if last != nil {
				ntr = append(append([]ast.Node{}, tr...), last)
			}
			if s == loop || s == done {
				if len(ntr) == 0 {
					ntr = []ast.Node{body.Stmt}
				}
				return ntr
			}
			if visited[s] {
				continue
			}
			visited[s] = true
			if r := walk(s, ntr); r != nil {
				return r
			}
		}
		return nil
	}
	return walk(body, nil)
}
