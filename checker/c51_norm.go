package main

import (
	"go/ast"
	"go/token"
	"go/types"
	"sort"
	"strings"
)

// c51Fn renders expressions of one function in a *source-origin normal form*: the receiver is
// "recv", parameter i is "$i", a range value is "<ranged>[*]", a local is replaced by what was
// assigned to it (all assignments, element stores and appends, as a sorted set), context
// arguments are dropped. Two sibling functions that compute a value from the same sources get
// the same string whatever they call their locals. The form is flow-insensitive on purpose: it
// answers "from which sources may this value be built", not "on which path".
type c51Fn struct {
	info     *types.Info
	fd       *ast.FuncDecl
	recv     types.Object
	params   map[types.Object]int
	rangeVal map[types.Object]ast.Expr
	rangeKey map[types.Object]bool
	defs     map[types.Object][]c51Def
	elems    map[types.Object][]ast.Expr
}

type c51Def struct {
	rhs ast.Expr
	idx int // result index when rhs is a multi-value call, else -1
}

func c51NewFn(info *types.Info, fd *ast.FuncDecl) *c51Fn {
	f := &c51Fn{info: info, fd: fd, recv: dmlRecvObj(info, fd), params: map[types.Object]int{}, rangeVal: map[types.Object]ast.Expr{},
		rangeKey: map[types.Object]bool{}, defs: map[types.Object][]c51Def{}, elems: map[types.Object][]ast.Expr{}}
	i := 0
	if fd.Type.Params != nil {
		for _, fl := range fd.Type.Params.List {
			if len(fl.Names) == 0 {
				i++
			}
			for _, n := range fl.Names {
				if o := info.Defs[n]; o != nil {
					f.params[o] = i
				}
				i++
			}
		}
	}
	objOf := func(e ast.Expr) types.Object {
		id, ok := ast.Unparen(e).(*ast.Ident)
		if !ok || id.Name == "_" {
			return nil
		}
		if o := info.Defs[id]; o != nil {
			return o
		}
		return info.Uses[id]
	}
	if fd.Body == nil {
		return f
	}
	ast.Inspect(fd.Body, func(n ast.Node) bool {
		switch x := n.(type) {
		case *ast.RangeStmt:
			if o := objOf(x.Value); o != nil && x.Value != nil {
				f.rangeVal[o] = x.X
			}
			if x.Key != nil {
				if o := objOf(x.Key); o != nil {
					f.rangeKey[o] = true
				}
			}
		case *ast.AssignStmt:
			if len(x.Lhs) == len(x.Rhs) {
				for i, l := range x.Lhs {
					if o := objOf(l); o != nil {
						f.defs[o] = append(f.defs[o], c51Def{x.Rhs[i], -1})
					} else if ix, ok := ast.Unparen(l).(*ast.IndexExpr); ok {
						if o := objOf(ix.X); o != nil {
							f.elems[o] = append(f.elems[o], x.Rhs[i])
						}
					}
				}
			} else if len(x.Rhs) == 1 {
				for i, l := range x.Lhs {
					if o := objOf(l); o != nil {
						f.defs[o] = append(f.defs[o], c51Def{x.Rhs[0], i})
					}
				}
			}
		case *ast.ValueSpec:
			for i, n := range x.Names {
				o := info.Defs[n]
				if o == nil {
					continue
				}
				switch {
				case len(x.Values) == len(x.Names):
					f.defs[o] = append(f.defs[o], c51Def{x.Values[i], -1})
				case len(x.Values) == 1:
					f.defs[o] = append(f.defs[o], c51Def{x.Values[0], i})
				}
			}
		}
		return true
	})
	return f
}

func c51IsCtxType(t types.Type) bool {
	if t == nil {
		return false
	}
	s := t.String()
	return s == "context.Context" || strings.HasSuffix(s, "/sql.Context") || strings.HasSuffix(s, "/sql.Context)") || s == "*"+modPath+"/sql.Context"
}

// Norm renders e; see the type comment.
func (f *c51Fn) Norm(e ast.Expr) string { return f.norm(e, 0, map[types.Object]bool{}) }

func c51SetString(parts []string) string {
	seen := map[string]bool{}
	var out []string
	for _, p := range parts {
		// flatten nested sets
		if strings.HasPrefix(p, "{") && strings.HasSuffix(p, "}") && c51Balanced(p[1:len(p)-1]) {
			for _, q := range c51SplitTop(p[1 : len(p)-1]) {
				if q != "" && !seen[q] {
					seen[q] = true
					out = append(out, q)
				}
			}
			continue
		}
		if p != "" && !seen[p] {
			seen[p] = true
			out = append(out, p)
		}
	}
	sort.Strings(out)
	if len(out) == 1 {
		return out[0]
	}
	return "{" + strings.Join(out, ",") + "}"
}

func c51Balanced(s string) bool {
	d := 0
	for _, r := range s {
		switch r {
		case '{', '(', '[':
			d++
		case '}', ')', ']':
			d--
			if d < 0 {
				return false
			}
		}
	}
	return d == 0
}

func c51SplitTop(s string) []string {
	var out []string
	d, start := 0, 0
	for i, r := range s {
		switch r {
		case '{', '(', '[':
			d++
		case '}', ')', ']':
			d--
		case ',':
			if d == 0 {
				out = append(out, s[start:i])
				start = i + 1
			}
		}
	}
	return append(out, s[start:])
}

func (f *c51Fn) norm(e ast.Expr, depth int, busy map[types.Object]bool) string {
	if e == nil {
		return ""
	}
	if depth > 14 {
		return "?"
	}
	info := f.info
	if tv, ok := info.Types[e]; ok && tv.Value != nil {
		// a constant: name it by its object when it has one, else by value
		if id, ok := ast.Unparen(e).(*ast.Ident); ok {
			if c, ok := info.Uses[id].(*types.Const); ok {
				return c.Name()
			}
		}
		if sel, ok := ast.Unparen(e).(*ast.SelectorExpr); ok {
			if c, ok := info.Uses[sel.Sel].(*types.Const); ok {
				return c.Name()
			}
		}
		return tv.Value.ExactString()
	}
	switch x := ast.Unparen(e).(type) {
	case *ast.Ident:
		o := info.Uses[x]
		if o == nil {
			o = info.Defs[x]
		}
		if o == nil {
			return x.Name
		}
		if _, isNil := o.(*types.Nil); isNil {
			return "nil"
		}
		if o == f.recv {
			return "recv"
		}
		if i, ok := f.params[o]; ok {
			if c51IsCtxType(o.Type()) {
				return "ctx"
			}
			return "$" + c51Itoa(i)
		}
		if r, ok := f.rangeVal[o]; ok {
			return f.norm(r, depth+1, busy) + "[*]"
		}
		if f.rangeKey[o] {
			return "*"
		}
		if v, isVar := o.(*types.Var); isVar && v.Pkg() != nil && v.Parent() == v.Pkg().Scope() {
			return v.Name()
		}
		if _, isFn := o.(*types.Func); isFn {
			return o.Name()
		}
		if busy[o] {
			return ""
		}
		ds, es := f.defs[o], f.elems[o]
		if len(ds) == 0 && len(es) == 0 {
			return x.Name
		}
		busy[o] = true
		var parts []string
		for _, d := range ds {
			s := f.norm(d.rhs, depth+1, busy)
			if d.idx > 0 {
				s += "." + c51Itoa(d.idx)
			}
			parts = append(parts, s)
		}
		for _, r := range es {
			parts = append(parts, f.norm(r, depth+1, busy))
		}
		delete(busy, o)
		return c51SetString(parts)
	case *ast.SelectorExpr:
		if id, ok := x.X.(*ast.Ident); ok {
			if _, isPkg := info.Uses[id].(*types.PkgName); isPkg {
				return x.Sel.Name
			}
		}
		return f.norm(x.X, depth+1, busy) + "." + x.Sel.Name
	case *ast.IndexExpr:
		ix := "*"
		if id, ok := ast.Unparen(x.Index).(*ast.Ident); ok {
			if o := info.Uses[id]; o != nil {
				if _, isRange := f.rangeVal[o]; isRange {
					ix = f.norm(x.Index, depth+1, busy)
				}
			}
		}
		return f.norm(x.X, depth+1, busy) + "[" + ix + "]"
	case *ast.SliceExpr:
		return f.norm(x.X, depth+1, busy)
	case *ast.StarExpr:
		return f.norm(x.X, depth+1, busy)
	case *ast.TypeAssertExpr:
		return f.norm(x.X, depth+1, busy)
	case *ast.UnaryExpr:
		if x.Op == token.AND {
			return f.norm(x.X, depth+1, busy)
		}
		return x.Op.String() + f.norm(x.X, depth+1, busy)
	case *ast.BinaryExpr:
		return f.norm(x.X, depth+1, busy) + x.Op.String() + f.norm(x.Y, depth+1, busy)
	case *ast.CompositeLit:
		var parts []string
		for _, el := range x.Elts {
			if kv, ok := el.(*ast.KeyValueExpr); ok {
				parts = append(parts, f.norm(kv.Value, depth+1, busy))
			} else {
				parts = append(parts, f.norm(el, depth+1, busy))
			}
		}
		if len(parts) == 0 {
			return ""
		}
		return c51SetString(parts)
	case *ast.CallExpr:
		if tv, ok := info.Types[x.Fun]; ok && tv.IsType() && len(x.Args) == 1 {
			return f.norm(x.Args[0], depth+1, busy) // conversion
		}
		if IsBuiltinCall(info, x, "append") {
			var parts []string
			for _, a := range x.Args {
				parts = append(parts, f.norm(a, depth+1, busy))
			}
			return c51SetString(parts)
		}
		if IsBuiltinCall(info, x, "make") || IsBuiltinCall(info, x, "new") {
			return ""
		}
		var args []string
		for _, a := range x.Args {
			if c51IsCtxType(info.TypeOf(a)) {
				continue
			}
			args = append(args, f.norm(a, depth+1, busy))
		}
		name := ""
		switch fun := ast.Unparen(x.Fun).(type) {
		case *ast.Ident:
			name = fun.Name
		case *ast.SelectorExpr:
			if id, ok := fun.X.(*ast.Ident); ok {
				if _, isPkg := info.Uses[id].(*types.PkgName); isPkg {
					name = fun.Sel.Name
					break
				}
			}
			name = f.norm(fun.X, depth+1, busy) + "." + fun.Sel.Name
		default:
			name = types.ExprString(x.Fun)
		}
		return name + "(" + strings.Join(args, ",") + ")"
	}
	return types.ExprString(e)
}

func c51Itoa(i int) string {
	if i == 0 {
		return "0"
	}
	neg := i < 0
	if neg {
		i = -i
	}
	var b []byte
	for i > 0 {
		b = append([]byte{byte('0' + i%10)}, b...)
		i /= 10
	}
	if neg {
		return "-" + string(b)
	}
	return string(b)
}
