package main

import (
	"fmt"
	"go/ast"
	"go/types"
	"sort"
	"strings"
)

// C45-T5: the set of identifier spellings (collected from the AST, consulted for keyword-typed
// tokens) is written and read under ONE normal form. If one writer stores the raw spelling and
// another (or the reader) a case-folded one, a keyword-typed token that is really an identifier
// misses the set and is emitted verbatim by emitStructural: the identifier leaks.
func c45KeyNormalForm(c *Ctx, rel string) {
	c.Rule("C45-T5", "every write to and lookup in the identifier-spelling set (map[string]struct{} of package sqlredact) uses the same key normal form (all raw, or all case-folded)", 3)
	pk := c.P.Pkg(rel)
	if pk == nil {
		c.Undecided("C45-T5", rel, 0, "package not loaded")
		return
	}
	info := pk.TypesInfo
	isSet := func(t types.Type) bool {
		m, ok := t.Underlying().(*types.Map)
		if !ok {
			return false
		}
		k, ok := m.Key().Underlying().(*types.Basic)
		if !ok || k.Kind() != types.String {
			return false
		}
		st, ok := m.Elem().Underlying().(*types.Struct)
		return ok && st.NumFields() == 0
	}
	form := func(e ast.Expr) string {
		f := "raw"
		ast.Inspect(e, func(n ast.Node) bool {
			if call, ok := n.(*ast.CallExpr); ok {
				if fn := Callee(info, call); fn != nil {
					switch {
					case fn.Name() == "Lowered", fn.Name() == "ToLower", fn.Name() == "ToLowerSpecial", fn.Name() == "EqualFold":
						f = "case-folded"
					case fn.Name() == "ToUpper":
						f = "upper-cased"
					}
				}
			}
			return true
		})
		return f
	}
	type site struct {
		key, form, fn string
		pos          ast.Node
	}
	var sites []site
	for _, file := range pk.Syntax {
		for _, d := range file.Decls {
			fd, ok := d.(*ast.FuncDecl)
			if !ok || fd.Body == nil {
				continue
			}
			ast.Inspect(fd.Body, func(n ast.Node) bool {
				ix, ok := n.(*ast.IndexExpr)
				if !ok {
					return true
				}
				if tv, ok := info.Types[ix.X]; ok && isSet(tv.Type) {
					sites = append(sites, site{types.ExprString(ix.Index), form(ix.Index), DeclName(fd), ix})
				}
				return true
			})
		}
	}
	forms := map[string]int{}
	for _, s := range sites {
		forms[s.form]++
	}
	var fl []string
	for f, n := range forms {
		fl = append(fl, fmt.Sprintf("%s x%d", f, n))
	}
	sort.Strings(fl)
	// majority form is the reference; with exactly two forms both sides are reported against each other
	ref, best := "", 0
	for f, n := range forms {
		if n > best || (n == best && f < ref) {
			ref, best = f, n
		}
	}
	for _, s := range sites {
		key := s.fn + "/[" + s.key + "]"
		c.Check(s.form == ref, "C45-T5", key, s.pos.Pos(), s.form,
			fmt.Sprintf("this access keys the identifier set by the %s spelling while the other accesses use the %s one (%s): a keyword-typed identifier spelled with different case misses the set and is written to the trace verbatim", s.form, ref, strings.Join(fl, ", ")))
	}
}
