package main

import (
	"fmt"
	"go/ast"
	"go/constant"
	"go/token"
	"go/types"
	"sort"

	"golang.org/x/tools/go/packages"
)

type c50Names struct {
	planRel, builderRel, execRel string
	intoType, loadType           string
	intoCtor, loadCtor           string
	astPkgSuffix                 string   // package of the parsed statement types whose fields feed the overrides
	mustEscape                   []string // option fields whose occurrences inside a value the writer has to escape
	escapeField                  string
	outfileField                 string // field of the OUTFILE node naming the file (a node without it configures no format)
}

func init() {
	real := c50Names{planRel: "sql/plan", builderRel: "sql/planbuilder", execRel: "sql/rowexec", intoType: "Into", loadType: "LoadData",
		intoCtor: "NewInto", loadCtor: "NewLoadData", astPkgSuffix: "vitess/go/vt/sqlparser",
		mustEscape: []string{"FieldsEscapedBy", "FieldsEnclosedBy", "FieldsTerminatedBy", "LinesTerminatedBy"}, escapeField: "FieldsEscapedBy", outfileField: "Outfile"}
	fx := real
	fx.planRel, fx.builderRel, fx.execRel, fx.astPkgSuffix = "testdata/c50/plan", "testdata/c50/builder", "testdata/c50/exec", "testdata/c50/ast"
	fxo := real
	fxo.planRel, fxo.builderRel, fxo.execRel, fxo.astPkgSuffix = "testdata/c50/oplan", "testdata/c50/obuilder", "testdata/c50/oexec", "testdata/c50/oast"
	register(&Property{
		ID:        "C50",
		Patterns:  []string{"./sql/rowexec", "./sql/planbuilder"},
		Technique: "writer/reader option tables over go/types: constructor literals folded with go/constant; planbuilder override predicates read off go/cfg (branch edges and case clauses that dominate an assignment), put into negation normal form and canonicalised (nil/emptiness/length tests, single-assignment locals, conversions), compared between the two sibling builders; carrier wiring, field-read coverage and construction sites (who-may-construct) of both executors; constant/escape-letter tables of the NULL representation; escape-set coverage of the OUTFILE writer",
		Explanation: "SELECT ... INTO OUTFILE (plan.Into, written by rowexec.buildInto) and LOAD DATA (plan.LoadData, read by rowexec's loadDataIter) share six format options. Decided: " +
			"(D1) plan.NewInto and plan.NewLoadData initialise every shared option to the same constant value; (D2) the planbuilder overrides each option of both nodes from the same fields of the parsed statement " +
			"(same set of AST field paths in the assigned value and its guarding conditions); (D3) every option is read by both executors (for LOAD DATA also the iterator field that carries it), so an option " +
			"that one side honours is not ignored by the other; (E1) the OUTFILE writer escapes, inside string values, every option string that the LOAD DATA reader treats as special " +
			"(escape character, enclosure, field terminator, line terminator), prefixing it with the escape string; " +
			"(O1) per option, the condition under which the user's text replaces the default and the value that is stored are the same for both nodes: the branch conditions that dominate each override assignment " +
			"(minus those that already hold where the node is created) are compared in canonical form - specified (non-nil), specified-and-non-empty, flag set - so `ESCAPED BY ''` (no escaping) cannot be honoured by one statement and " +
			"treated as 'not specified' by the other; a non-emptiness test on an option whose default is the empty string, and `X = flag` for `if flag { X = true }`, are recognised as neutral; " +
			"(O2) every iterator field that carries an option is initialised from one option, and from its namesake if it is named after an option (no cross-wiring of e.g. enclosure and escape); " +
			"(O3) NULL representation: the text the writer emits for a nil value under each emission condition (the word NULL with escaping disabled, <escape>N otherwise) is mapped to NULL by the reader (word compared against the field; " +
			"escape-letter switch with an arm that yields such a word), the reader interprets escape letters under every option condition under which the writer relies on them, and the reader maps no other bare word to NULL " +
			"where the writer uses the escape letter; (O4) every option value that the planbuilder rejects for LOAD DATA is rejected for INTO OUTFILE too (no file can be written with options its reader refuses); " +
			"(O5) neither executor hard-codes a non-empty default delimiter (tab, backslash, newline) instead of using the option; (O6) plan.Into nodes with an output file and plan.LoadData nodes are only created " +
			"where every option is then overridden from the statement, and literals of the two types occur only in their constructors (copies keep the options). " +
			"A violated instance means that rows exported with some option combination are read back differently (or cannot be read back) with the same options.",
		NotCovered: "that escaping and unescaping are inverse on every value (only the set of escaped delimiters, the NULL marker and the option plumbing are decided): enclosure doubling, multi-character delimiters inside values, " +
			"embedded line terminators; the role in which each executor uses an option beyond the namesake check (a consistent swap in both builders is not seen); overrides moved into a helper function on one side only are compared as " +
			"opaque calls; character sets, DUMPFILE, SET/user-variable handling of LOAD DATA, LINES TERMINATED BY '' (the reader cannot split on an empty terminator)",
		Run: func(c *Ctx) {
			runC50(c, real, 6)
			runC50Opts(c, real, c50Floors{o1: 6, o2: 5, o3: 3, o4: 2, o5: 9, o6: 4})
		},
		Fixture: func(c *Ctx, fx2 *Prog) {
			expectFixture(c, fx2, "c50: different default, different override source, option ignored by one executor, unescaped delimiter must be reported",
				[]string{
					"C50-D1:LinesTerminatedBy",
					"C50-D2:LinesStartingBy",
					"C50-D3:LoadData.FieldsEscapedBy",
					"C50-D3:loadIter.linesStartingBy",
					"C50-E1:buildInto/FieldsTerminatedBy", "C50-E1:buildInto/FieldsEnclosedBy", "C50-E1:buildInto/FieldsEscapedBy",
				},
				func(fc *Ctx) { runC50(fc, fx, 0) })
			expectFixture(c, fx2, "c50 option plumbing: extra emptiness guard on one override, cross-wired carrier, missing NULL escape letter, reader-only rejection, hard-coded escape character, node rebuilt through the constructor must be reported",
				[]string{
					"C50-O1:FieldsEscapedBy",
					"C50-O2:loadIter.linesStartingBy",
					"C50-O3:buildInto/NULL with escaping enabled",
					"C50-O4:len(%.FieldsEnclosedBy)>=2",
					"C50-O5:loadIter.parse/FieldsEscapedBy",
					"C50-O6:Into.Copy/NewInto(Outfile=i.Outfile)",
				},
				func(fc *Ctx) { runC50Opts(fc, fxo, c50Floors{}) })
		},
		FixturePkgs: []string{"./testdata/c50/plan", "./testdata/c50/builder", "./testdata/c50/exec", "./testdata/c50/ast",
			"./testdata/c50/oplan", "./testdata/c50/obuilder", "./testdata/c50/oexec", "./testdata/c50/oast"},
	})
}

// c50Exceptions: carrier fields that are legitimately never read.
var c50Exceptions = map[string]string{
	"loadDataIter.fieldsEnclosedByOpt": "the LOAD DATA field parser accepts enclosed and unenclosed fields alike (source: 'TODO: Support the OPTIONALLY parameter'), so OPTIONALLY needs no reader-side handling",
}

func runC50(c *Ctx, nm c50Names, nOpts int) {
	fl := func(n int) int {
		if c.fixtureMode {
			return 0
		}
		return n
	}
	c.Rule("C50-D1", "per option field shared by "+nm.intoType+" and "+nm.loadType+": "+nm.intoCtor+" and "+nm.loadCtor+" initialise it to the same constant value", fl(nOpts))
	c.Rule("C50-D2", "per option: the planbuilder's assignments to it for "+nm.intoType+" and for "+nm.loadType+" draw on the same set of parsed-statement field paths (value and guarding conditions)", fl(nOpts))
	c.Rule("C50-D3", "per option and node: the executor package reads the field; a struct field that only carries the option (assigned n.F in a literal) is itself read", fl(3*nOpts))
	c.Rule("C50-E1", "per delimiter option the reader treats as special: the OUTFILE writer replaces its occurrences in string values by escape+delimiter", fl(len(nm.mustEscape)))
	pp, bp, ep := c.P.Pkg(nm.planRel), c.P.Pkg(nm.builderRel), c.P.Pkg(nm.execRel)
	if pp == nil || bp == nil || ep == nil {
		c.Undecided("C50-D1", "packages", 0, "anchor packages not loaded")
		return
	}
	structOf := func(name string) *types.Named {
		tn, _ := pp.Types.Scope().Lookup(name).(*types.TypeName)
		if tn == nil {
			return nil
		}
		nt, _ := tn.Type().(*types.Named)
		return nt
	}
	intoT, loadT := structOf(nm.intoType), structOf(nm.loadType)
	if intoT == nil || loadT == nil {
		c.Undecided("C50-D1", "types", 0, "plan node types not found")
		return
	}
	named := func(t types.Type) *types.Named {
		if t == nil {
			return nil
		}
		if p, ok := types.Unalias(t).(*types.Pointer); ok {
			t = p.Elem()
		}
		nt, _ := types.Unalias(t).(*types.Named)
		return nt
	}
	// constructor literals
	ctorLit := func(name string, want *types.Named) map[string]ast.Expr {
		_, fd := c.P.FuncDecl(nm.planRel, name)
		if fd == nil {
			return nil
		}
		var out map[string]ast.Expr
		ast.Inspect(fd.Body, func(n ast.Node) bool {
			lit, ok := n.(*ast.CompositeLit)
			if !ok || named(pp.TypesInfo.TypeOf(lit)) != want {
				return true
			}
			out = map[string]ast.Expr{}
			for _, el := range lit.Elts {
				if kv, ok := el.(*ast.KeyValueExpr); ok {
					if id, ok := kv.Key.(*ast.Ident); ok {
						out[id.Name] = kv.Value
					}
				}
			}
			return false
		})
		return out
	}
	il, ll := ctorLit(nm.intoCtor, intoT), ctorLit(nm.loadCtor, loadT)
	if il == nil || ll == nil {
		c.Undecided("C50-D1", "constructors", 0, "constructor literals not found")
		return
	}
	fieldType := func(nt *types.Named, f string) types.Type {
		st := nt.Underlying().(*types.Struct)
		for i := 0; i < st.NumFields(); i++ {
			if st.Field(i).Name() == f {
				return st.Field(i).Type()
			}
		}
		return nil
	}
	// option fields: same name and type in both structs, initialised by at least one constructor
	var opts []string
	st := intoT.Underlying().(*types.Struct)
	for i := 0; i < st.NumFields(); i++ {
		f := st.Field(i).Name()
		lt := fieldType(loadT, f)
		if lt == nil || !types.Identical(lt, st.Field(i).Type()) {
			continue
		}
		_, a := il[f]
		_, b := ll[f]
		if a || b {
			opts = append(opts, f)
		}
	}
	sort.Strings(opts)
	isOpt := map[string]bool{}
	for _, f := range opts {
		isOpt[f] = true
	}
	c.Notef("shared options: %v", opts)

	// ---- D1 ---------------------------------------------------------------------------------------
	for _, f := range opts {
		a, b := il[f], ll[f]
		switch {
		case a == nil || b == nil:
			pos := token.NoPos
			if a != nil {
				pos = a.Pos()
			} else {
				pos = b.Pos()
			}
			c.Bad("C50-D1", f, pos, fmt.Sprintf("option %s is initialised by only one of %s / %s: the other side starts from the zero value", f, nm.intoCtor, nm.loadCtor))
		default:
			va, vb := pp.TypesInfo.Types[a].Value, pp.TypesInfo.Types[b].Value
			if va == nil || vb == nil {
				c.Undecided("C50-D1", f, a.Pos(), "default is not a constant expression")
				continue
			}
			c.Check(va.Kind() == vb.Kind() && constant.Compare(va, token.EQL, vb), "C50-D1", f, a.Pos(), va.ExactString(),
				fmt.Sprintf("default %s: %s uses %s, %s uses %s: a file written with default options is not read back with default options", f, nm.intoCtor, va.ExactString(), nm.loadCtor, vb.ExactString()))
		}
	}

	// ---- D2: planbuilder override sources (c50_opts.go: shares the canonical guards of C50-O1, so local aliases of statement
	// parts and rewritten conditions do not matter) ---------------------------------------------------------------------
	if om := c50newModel(c, nm); om != nil {
		om.ruleD2()
	} else {
		c.Undecided("C50-D2", "model", 0, "plan node types, constructors or shared options not found")
	}

	// ---- D3: both executors read every option -------------------------------------------------------------
	type carrier struct {
		owner *types.Named
		field string
		pos   token.Pos
	}
	reads := map[string]token.Pos{} // "Type.Field" read somewhere in exec/plan packages
	var carriers []carrier
	scan := func(pk *packages.Package) {
		info := pk.TypesInfo
		for _, file := range pk.Syntax {
			lhs := map[ast.Expr]bool{}
			ast.Inspect(file, func(n ast.Node) bool {
				switch x := n.(type) {
				case *ast.AssignStmt:
					for _, l := range x.Lhs {
						lhs[ast.Unparen(l)] = true
					}
				case *ast.CompositeLit:
					owner := named(info.TypeOf(x))
					for _, el := range x.Elts {
						kv, ok := el.(*ast.KeyValueExpr)
						if !ok || owner == nil {
							continue
						}
						k, ok := kv.Key.(*ast.Ident)
						if !ok {
							continue
						}
						if sel, ok := ast.Unparen(kv.Value).(*ast.SelectorExpr); ok && isOpt[sel.Sel.Name] {
							if nt := named(info.TypeOf(sel.X)); nt == intoT || nt == loadT {
								if owner != intoT && owner != loadT {
									carriers = append(carriers, carrier{owner, k.Name, kv.Pos()})
								}
							}
						}
					}
				case *ast.SelectorExpr:
					if lhs[x] {
						return true
					}
					if s := info.Selections[x]; s != nil && s.Kind() == types.FieldVal {
						if nt := named(s.Recv()); nt != nil {
							key := nt.Obj().Name() + "." + x.Sel.Name
							if _, seen := reads[key]; !seen {
								reads[key] = x.Pos()
							}
						}
					}
				}
				return true
			})
		}
	}
	scan(ep)
	scan(pp)
	for _, f := range opts {
		for _, t := range []*types.Named{intoT, loadT} {
			key := t.Obj().Name() + "." + f
			pos, ok := reads[key]
			c.Check(ok, "C50-D3", key, pos, "read at "+c.P.Rel(pos),
				fmt.Sprintf("option %s of %s is never read by the executor packages: the option is accepted and honoured by the other statement only", f, t.Obj().Name()))
		}
	}
	seenCarrier := map[string]bool{}
	for _, cr := range carriers {
		key := cr.owner.Obj().Name() + "." + cr.field
		if seenCarrier[key] {
			continue
		}
		seenCarrier[key] = true
		if pos, ok := reads[key]; ok {
			c.Ok("C50-D3", key, pos, "carrier read at "+c.P.Rel(pos))
		} else if why, ok := c50Exceptions[key]; ok && !c.fixtureMode {
			c.Exc("C50-D3", key, cr.pos, why)
		} else {
			c.Bad("C50-D3", key, cr.pos, fmt.Sprintf("%s only stores the option (assigned in a literal at %s) and is never read: the option has no effect on this side", key, c.P.Rel(cr.pos)))
		}
	}

	// ---- E1: escape set of the OUTFILE writer -------------------------------------------------------------
	// writer = the function of the executor package that reads the most option fields of the Into node
	var writer *ast.FuncDecl
	best := 0
	einfo := ep.TypesInfo
	c.P.EachFuncDecl([]string{nm.execRel}, func(pk *packages.Package, fd *ast.FuncDecl) {
		n := 0
		ast.Inspect(fd.Body, func(m ast.Node) bool {
			if sel, ok := m.(*ast.SelectorExpr); ok && isOpt[sel.Sel.Name] && named(einfo.TypeOf(sel.X)) == intoT {
				n++
			}
			return true
		})
		if n > best {
			writer, best = fd, n
		}
	})
	if writer == nil {
		c.Undecided("C50-E1", "writer", 0, "no function of "+nm.execRel+" reads the options of "+nm.intoType)
		return
	}
	// single-assignment locals of the writer stand for their definition (esc := n.FieldsEscapedBy)
	var wsubst map[types.Object]ast.Expr
	if om := c50newModel(c, nm); om != nil {
		wsubst = om.fn(ep, DeclName(writer), writer.Body).cx.subst
	}
	resolve := func(e ast.Expr) ast.Expr {
		e = ast.Unparen(e)
		for i := 0; i < 8; i++ {
			id, ok := e.(*ast.Ident)
			if !ok {
				break
			}
			d := wsubst[einfo.Uses[id]]
			if d == nil {
				break
			}
			e = ast.Unparen(d)
		}
		return e
	}
	escaped := map[string]token.Pos{}
	ast.Inspect(writer.Body, func(m ast.Node) bool {
		call, ok := m.(*ast.CallExpr)
		if !ok {
			return true
		}
		fn := Callee(einfo, call)
		if fn == nil || fn.Pkg() == nil || fn.Pkg().Path() != "strings" || (fn.Name() != "Replace" && fn.Name() != "ReplaceAll") || len(call.Args) < 3 {
			return true
		}
		old, ok := resolve(call.Args[1]).(*ast.SelectorExpr)
		if !ok || named(einfo.TypeOf(old.X)) != intoT {
			return true
		}
		// the replacement must start from the escape option
		usesEsc := false
		var walk func(e ast.Node, depth int)
		walk = func(e ast.Node, depth int) {
			ast.Inspect(e, func(x ast.Node) bool {
				if s, ok := x.(*ast.SelectorExpr); ok && s.Sel.Name == nm.escapeField && named(einfo.TypeOf(s.X)) == intoT {
					usesEsc = true
				}
				if id, ok := x.(*ast.Ident); ok && depth < 8 {
					if d := resolve(id); d != ast.Expr(id) {
						walk(d, depth+1)
					}
				}
				return true
			})
		}
		walk(call.Args[2], 0)
		if usesEsc {
			escaped[old.Sel.Name] = call.Pos()
		}
		return true
	})
	for _, f := range nm.mustEscape {
		pos, ok := escaped[f]
		if !ok {
			pos = writer.Pos()
		}
		c.Check(ok, "C50-E1", DeclName(writer)+"/"+f, pos, "escaped",
			fmt.Sprintf("%s writes string values without escaping occurrences of %s (no strings.Replace(value, n.%s, n.%s+...)): LOAD DATA treats that string as a delimiter/escape, so a value containing it is read back differently", DeclName(writer), f, f, nm.escapeField))
	}
	dumpObsIfAsked(c)
}

func compactStrings(ss []string) []string {
	var out []string
	for i, s := range ss {
		if i == 0 || s != ss[i-1] {
			out = append(out, s)
		}
	}
	return out
}
