// vchk decides structural clauses of the properties in /verif/properties.jsonl from the
// source of /repo's current working tree (go/packages + go/types + go/cfg + go/ssa). It
// executes nothing from /repo.
package main

import (
	"encoding/json"
	"flag"
	"fmt"
	"os"
	"path/filepath"
	"runtime/debug"
	"sort"
	"strconv"
	"strings"
	"time"
)

// Property is one registered check.
type Property struct {
	ID          string
	Patterns    []string // packages loaded in the quick tier (relative to the repo root)
	Thorough    []string // packages loaded in the thorough tier (default: enginePatterns)
	Explanation string   // the clause that is decided, in words
	NotCovered  string   // what is not decided
	Run         func(c *Ctx)
	Fixture     func(c *Ctx, fx *Prog) // optional: run the rules on /verif/checker/testdata fixtures
	FixturePkgs []string
	Technique   string
}

var registry = map[string]*Property{}

func register(p *Property) { registry[p.ID] = p }

// enginePatterns is everything the build covers except the enginetest query corpora
// (test-support tables, no engine code) and example/integration mains.
var enginePatterns = []string{".", "./server/...", "./memory/...", "./sql/...", "./internal/...", "./errguard/...", "./eventscheduler/...", "./driver/...", "./optgen/..."}

type overlayFlag map[string]string

func (o overlayFlag) String() string { return fmt.Sprint(map[string]string(o)) }
func (o overlayFlag) Set(s string) error {
	i := strings.Index(s, "=")
	if i < 0 {
		return fmt.Errorf("want rel/path.go=/abs/replacement.go")
	}
	o[s[:i]] = s[i+1:]
	return nil
}

func main() {
	prop := flag.String("prop", "", "property id (C01…)")
	tier := flag.String("tier", "quick", "quick|thorough")
	repo := flag.String("repo", "/repo", "repository root")
	verif := flag.String("verif", "/verif", "verif directory (evidence, known_findings.json)")
	replay := flag.String("replay", "", "replay file: re-decide that obligation and print its diagnosis")
	list := flag.Bool("list", false, "list registered properties")
	manifest := flag.Bool("manifest", false, "print MANIFEST.json generated from the registry")
	ov := overlayFlag{}
	flag.Var(ov, "overlay", "rel/path.go=/abs/file.go: analyse with this file content instead (mutant testing); repeatable")
	flag.Parse()

	if *manifest {
		writeManifest()
		return
	}
	if *list {
		ids := []string{}
		for id := range registry {
			ids = append(ids, id)
		}
		sort.Strings(ids)
		for _, id := range ids {
			fmt.Println(id)
		}
		return
	}
	pr := registry[*prop]
	if pr == nil {
		fmt.Printf("unknown property %q\n", *prop)
		os.Exit(2)
	}
	if t := os.Getenv("VERIF_TIER"); t != "" && flag.Lookup("tier").Value.String() == "quick" && t == "thorough" {
		*tier = t
	}
	seed := 0
	if s := os.Getenv("VERIF_SEED"); s != "" {
		seed, _ = strconv.Atoi(s)
	}
	os.Exit(runProperty(pr, *tier, *repo, *verif, *replay, ov, seed))
}

func runProperty(pr *Property, tier, repo, verif, replay string, ov map[string]string, seed int) (code int) {
	start := time.Now()
	patterns := pr.Patterns
	if tier == "thorough" {
		patterns = pr.Thorough
		if len(patterns) == 0 {
			patterns = enginePatterns
		}
	}
	var c *Ctx
	defer func() {
		if r := recover(); r != nil {
			// an analyser panic is a failed check, never a pass
			fmt.Printf("analyser panic: %v\n%s\n", r, debug.Stack())
			if c == nil {
				c = NewCtx(pr.ID, tier, nil)
			}
			c.Explanation, c.NotCovered = pr.Explanation, pr.NotCovered
			c.add("framework", "panic", 0, Violation, fmt.Sprint(r))
			code = c.Finish(verif, start, seed, patterns, nil)
		}
	}()
	p, err := Load(repo, ov, patterns...)
	c = NewCtx(pr.ID, tier, p)
	c.Explanation, c.NotCovered = pr.Explanation, pr.NotCovered
	if err == nil {
		pr.Run(c)
		if pr.Fixture != nil {
			runFixture(pr, c, verif)
		}
	}
	if replay != "" {
		return doReplay(c, verif, replay)
	}
	return c.Finish(verif, start, seed, patterns, err)
}

// runFixture loads the tiny fixture packages and lets the property run its rules on them:
// each must fire on the broken example and stay silent on the good one.
func runFixture(pr *Property, c *Ctx, verif string) {
	dir := filepath.Join(verif, "checker")
	fx, err := Load(dir, nil, pr.FixturePkgs...)
	if err != nil {
		c.Fixtures = append(c.Fixtures, Fixture{Name: "load " + strings.Join(pr.FixturePkgs, ","), Want: "loads", Got: err.Error()})
		return
	}
	pr.Fixture(c, fx)
}

// expectFixture runs fn on a fresh context bound to the fixture program and compares the
// set of violated constructs with want.
func expectFixture(c *Ctx, fx *Prog, name string, want []string, fn func(fc *Ctx)) {
	fc := NewCtx(c.Prop, c.Tier, fx)
	fc.fixtureMode = true
	fn(fc)
	var got []string
	for _, o := range fc.Obs {
		if o.Status == Violation {
			got = append(got, o.Rule+":"+o.Key)
		}
	}
	sort.Strings(got)
	w := append([]string{}, want...)
	sort.Strings(w)
	c.Fixtures = append(c.Fixtures, Fixture{Name: name, Want: strings.Join(w, " "), Got: strings.Join(got, " "), Pass: strings.Join(w, " ") == strings.Join(got, " ")})
}

func doReplay(c *Ctx, verif, path string) int {
	if !filepath.IsAbs(path) {
		path = filepath.Join(verif, path)
	}
	b, err := os.ReadFile(path)
	if err != nil {
		fmt.Println(err)
		return 2
	}
	var r struct{ Rule, Construct string }
	json.Unmarshal(b, &r)
	found := false
	for _, o := range c.Obs {
		if o.Rule == r.Rule && o.Key == r.Construct {
			found = true
			fmt.Printf("REPLAY property=%s rule=%s construct=%s at %s: status=%s %s\n", c.Prop, o.Rule, o.Key, o.Pos, o.Status, o.Msg)
			for _, s := range o.Path {
				fmt.Printf("    path: %s\n", s)
			}
			if o.Status == Violation {
				fmt.Printf("VIOLATION property=%s replay=%s\n", c.Prop, path)
				return 1
			}
		}
	}
	if !found {
		fmt.Printf("REPLAY property=%s rule=%s construct=%s: no such obligation on the current tree\n", c.Prop, r.Rule, r.Construct)
	}
	return 0
}
