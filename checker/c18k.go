package main

import (
	"fmt"
	"go/ast"
	"go/constant"
	"go/types"
	"sort"
	"strings"

	"golang.org/x/tools/go/packages"
)

// C18-K — key-change gates on the foreign key paths, decided by folding the functions over a
// finite abstraction of "what the per-column comparison says".
//
// A referenced key is a *sequence* of columns. Whether an UPDATE touches it ("did the key
// change?") is an existential over the columns; whether a self-referencing row matches itself is a
// universal. The abstraction: the key is a sequence (length 0..3) of entries, each entry is
//     -    a mapping entry of -1 (child column outside the key; only for ChildParentMapping)
//     eq   the column's Type.Compare(old, new) returns 0
//     lt/gt  it returns -1 / +1
//     err  it returns an error
// Every function below is folded (eng_mini, loops over the key unrolled) for every sequence; the
// calls that the abstraction gives meaning to are resolved by type (sql.Type.Compare, the child-row
// lookup = a method of the row mapper returning (sql.RowIter, error), the reference check).
// Nothing is executed.

type c18kKind int

const (
	c18kSkip c18kKind = iota
	c18kEq
	c18kLt
	c18kGt
	c18kErr
)

var c18kNames = [...]string{"-", "eq", "lt", "gt", "err"}

func c18kSeqName(s []c18kKind) string {
	var p []string
	for _, k := range s {
		p = append(p, c18kNames[k])
	}
	return "[" + strings.Join(p, " ") + "]"
}

// c18kSeqs enumerates all sequences of length 0..maxLen.
func c18kSeqs(withSkip bool, maxLen int) [][]c18kKind {
	alpha := []c18kKind{c18kEq, c18kLt, c18kGt, c18kErr}
	if withSkip {
		alpha = append([]c18kKind{c18kSkip}, alpha...)
	}
	out := [][]c18kKind{{}}
	prev := [][]c18kKind{{}}
	for l := 1; l <= maxLen; l++ {
		var cur [][]c18kKind
		for _, p := range prev {
			for _, a := range alpha {
				cur = append(cur, append(append([]c18kKind{}, p...), a))
			}
		}
		out = append(out, cur...)
		prev = cur
	}
	return out
}

// c18kFirst: the first deciding entry of a sequence (Eq = none decides) and whether an error
// entry follows a deciding "changed" entry (an implementation that does not short-circuit may
// report that error instead).
func c18kFirst(s []c18kKind) (first c18kKind, laterErr bool) {
	first = c18kEq
	for i, k := range s {
		if k == c18kLt || k == c18kGt || k == c18kErr {
			first = k
			for _, l := range s[i+1:] {
				if l == c18kErr {
					laterErr = true
				}
			}
			return
		}
	}
	return
}

type c18kAnchors struct {
	c            *Ctx
	p            c18Params
	sqlPk, plan  *packages.Package
	compareFn    *types.Func  // sql.Type.Compare
	rowT         *types.Named // sql.Row
	rowIter      *types.Interface
	editorT      *types.Named
	mapperT      *types.Named
	mappingT     *types.Named
	checkFn      *types.Func // ForeignKeyReferenceHandler.CheckReference
	refT         *types.Named
	oc           *types.Interface
	predicates   map[*types.Func]bool
	predicateUse map[*types.Func][]string
}

type c18kSelKey struct {
	base *MSym
	name string
}

// c18kState is the abstract state of one fold.
type c18kState struct {
	a         *c18kAnchors
	seq       []c18kKind
	cur       int
	curLoop   *ast.RangeStmt
	errSyms   []*MSym
	reached   *MSym
	nilSym    *MSym
	checkRet  MV
	checkArgs bool // demand old[j] / new[j] as the compared cells
	memo      map[c18kSelKey]*MSym
	parent    map[*MSym]*MSym
	idx       map[*MSym]int64
	rows      map[*MSym]bool
	checked   []MV // row arguments of the reference check calls
	lookups   int
	compares  int
	bad       []string
}

func (a *c18kAnchors) newState(seq []c18kKind) *c18kState {
	st := &c18kState{a: a, seq: seq, cur: -1, reached: &MSym{Name: "child-row-lookup"}, nilSym: &MSym{Name: "nil", Nil: true},
		memo: map[c18kSelKey]*MSym{}, parent: map[*MSym]*MSym{}, idx: map[*MSym]int64{}, rows: map[*MSym]bool{}}
	st.checkRet = st.nilSym
	for i := range seq {
		st.errSyms = append(st.errSyms, &MSym{Name: fmt.Sprintf("compare-error#%d", i)})
	}
	return st
}

func (st *c18kState) sub(base *MSym, name string) *MSym {
	k := c18kSelKey{base, name}
	if s, ok := st.memo[k]; ok {
		return s
	}
	s := &MSym{Name: base.Name + name}
	st.memo[k] = s
	st.parent[s] = base
	return s
}

func (st *c18kState) isErrSym(v MV) bool {
	for _, e := range st.errSyms {
		if v == MV(e) {
			return true
		}
	}
	return false
}

// colIndexOf: the constant index found on the access path of a symbol (Schema[j].Type -> j).
func (st *c18kState) colIndexOf(v MV) (int64, bool) {
	s, _ := v.(*MSym)
	for n := 0; s != nil && n < 8; n++ {
		if i, ok := st.idx[s]; ok {
			return i, true
		}
		s = st.parent[s]
	}
	return 0, false
}

func (st *c18kState) mini(pk *packages.Package) *Mini {
	a := st.a
	m := &Mini{P: a.c.P, Info: pk.TypesInfo}
	m.Sel = func(m *Mini, sel *ast.SelectorExpr, base MV) (MV, bool) {
		bs, ok := base.(*MSym)
		if !ok || bs == nil || bs.Nil {
			return nil, false
		}
		if bs.Fields != nil {
			if _, has := bs.Fields[sel.Sel.Name]; has {
				return nil, false
			}
		}
		if s := m.Info.Selections[sel]; s == nil || s.Kind() != types.FieldVal {
			return nil, false
		}
		return st.sub(bs, "."+sel.Sel.Name), true
	}
	m.IndexV = func(m *Mini, x *ast.IndexExpr, base, idx MV) (MV, bool) {
		bs, ok := base.(*MSym)
		if !ok || bs == nil || bs.Nil {
			return nil, false
		}
		if iv, ok := MInt(idx); ok {
			s := st.sub(bs, fmt.Sprintf("[%d]", iv))
			st.idx[s] = iv
			return s, true
		}
		if is, ok := idx.(*MSym); ok {
			return st.sub(bs, fmt.Sprintf("[%s@%p]", is.Name, is)), true
		}
		return nil, false
	}
	m.Unroll = func(m *Mini, rs *ast.RangeStmt, _ func(ast.Expr) MV) (int, func(int) (MV, MV), bool) {
		t := m.Info.TypeOf(rs.X)
		if t == nil {
			return 0, nil, false
		}
		sl, ok := t.Underlying().(*types.Slice)
		if !ok {
			return 0, nil, false
		}
		eb, ok := sl.Elem().Underlying().(*types.Basic)
		if !ok || eb.Info()&(types.IsInteger|types.IsString) == 0 {
			return 0, nil, false
		}
		isInt := eb.Info()&types.IsInteger != 0
		isMapping := a.mappingT != nil && dmlNamedOf(t) == a.mappingT
		var at []int
		for i, k := range st.seq {
			if k == c18kSkip && !isMapping {
				continue
			}
			at = append(at, i)
		}
		return len(at), func(i int) (MV, MV) {
			st.cur, st.curLoop = at[i], rs
			var v MV = &MSym{Name: fmt.Sprintf("key-column#%d", at[i])}
			if isInt {
				v = constant.MakeInt64(int64(at[i]))
				if st.seq[at[i]] == c18kSkip {
					v = constant.MakeInt64(-1)
				}
			}
			return constant.MakeInt64(int64(i)), v
		}, true
	}
	m.Call = func(m *Mini, call *ast.CallExpr, fn *types.Func, recv MV, args []MV) ([]MV, bool) {
		if fn == nil {
			return nil, false
		}
		sig := fn.Type().(*types.Signature)
		var recvT *types.Named
		if sig.Recv() != nil {
			recvT = dmlNamedOf(sig.Recv().Type())
		}
		switch {
		case fn == a.compareFn:
			if st.cur < 0 || st.curLoop == nil || call.Pos() < st.curLoop.Body.Pos() || call.End() > st.curLoop.Body.End() {
				return nil, false // a comparison outside a loop over the key columns: outside the abstraction
			}
			st.compares++
			kd := st.seq[st.cur]
			if kd == c18kSkip {
				st.bad = append(st.bad, "a column is compared for a mapping entry of -1 (child column outside the foreign key)")
				return []MV{constant.MakeInt64(0), st.nilSym}, true
			}
			if st.checkArgs && len(args) >= 2 {
				x, y := args[len(args)-2], args[len(args)-1]
				xs, _ := x.(*MSym)
				ys, _ := y.(*MSym)
				xi, xok := st.idx[xs]
				yi, yok := st.idx[ys]
				good := xs != nil && ys != nil && xok && yok && st.rows[st.parent[xs]] && st.rows[st.parent[ys]] &&
					st.parent[xs] != st.parent[ys] && xi == int64(st.cur) && yi == int64(st.cur)
				if !good {
					st.bad = append(st.bad, fmt.Sprintf("the comparison `%s` does not compare the old and the new value of the key column the loop is at", types.ExprString(call)))
				}
				if ti, ok := st.colIndexOf(recv); ok && ti != int64(st.cur) {
					st.bad = append(st.bad, fmt.Sprintf("the comparison `%s` uses the type of another column than the one compared", types.ExprString(call)))
				}
			}
			switch kd {
			case c18kEq:
				return []MV{constant.MakeInt64(0), st.nilSym}, true
			case c18kLt:
				return []MV{constant.MakeInt64(-1), st.nilSym}, true
			case c18kGt:
				return []MV{constant.MakeInt64(1), st.nilSym}, true
			}
			return []MV{constant.MakeInt64(0), st.errSyms[st.cur]}, true
		case recvT != nil && recvT == a.mapperT && sig.Results().Len() == 2 && IsErrorType(sig.Results().At(1).Type()) && dmlImplements(sig.Results().At(0).Type(), a.rowIter):
			// the child-row lookup: the fold stops here (the lookup "fails" with a marker that a
			// correct caller hands straight back)
			st.lookups++
			return []MV{&MSym{Name: "rows"}, st.reached}, true
		case a.checkFn != nil && fn == a.checkFn:
			for i := 0; i < sig.Params().Len() && i < len(args); i++ {
				if dmlNamedOf(sig.Params().At(i).Type()) == a.rowT {
					st.checked = append(st.checked, args[i])
				}
			}
			return []MV{st.checkRet}, true
		case recvT != nil && recvT == a.editorT && sig.Results().Len() == 2 && IsErrorType(sig.Results().At(1).Type()):
			if b, ok := sig.Results().At(0).Type().Underlying().(*types.Basic); ok && b.Info()&types.IsBoolean != 0 {
				a.predicates[fn.Origin()] = true
			}
			return nil, false // inlined
		case fn.Pkg() != nil && sig.Results().Len() == 1 && types.Implements(sig.Results().At(0).Type(), types.Universe.Lookup("error").Type().Underlying().(*types.Interface)) &&
			(fn.Pkg().Path() == "errors" && fn.Name() == "New" || fn.Pkg().Path() == "fmt" && fn.Name() == "Errorf" ||
				strings.HasPrefix(fn.Pkg().Path(), "gopkg.in/src-d/go-errors") && fn.Name() == "New"):
			return []MV{&MSym{Name: "new-error"}}, true // error constructors never return nil
		}
		return nil, false
	}
	return m
}

// bindParams binds receiver and parameters of fd to fresh symbols; sql.Row parameters are the rows.
func (st *c18kState) bindParams(info *types.Info, fd *ast.FuncDecl) (bind map[types.Object]MV, rows []*MSym) {
	bind = map[types.Object]MV{}
	if o := dmlRecvObj(info, fd); o != nil {
		bind[o] = &MSym{Name: o.Name()}
	}
	for _, fl := range fd.Type.Params.List {
		for _, n := range fl.Names {
			o := info.Defs[n]
			if o == nil {
				continue
			}
			s := &MSym{Name: n.Name}
			bind[o] = s
			if dmlNamedOf(o.Type()) == st.a.rowT {
				st.rows[s] = true
				rows = append(rows, s)
			}
		}
	}
	return
}

func (st *c18kState) classify(v MV) string {
	switch {
	case v == MV(st.reached):
		return "lookup"
	case st.isErrSym(v):
		return "err"
	}
	if s, ok := v.(*MSym); ok {
		if s.Nil {
			return "nil"
		}
		if st.checkRet != MV(st.nilSym) && v == st.checkRet {
			return "check-error"
		}
		return "other:" + s.Name
	}
	if b, ok := MBool(v); ok {
		return fmt.Sprint(b)
	}
	return "other"
}

func runC18K(c *Ctx, p c18Params, oc *types.Interface) {
	c.Rule("C18-K", "the key-change gates of the foreign key paths, folded over {per key column: compare 0 / <0 / >0 / error}: referential actions and reference checks run iff SOME key column changed; a self-reference matches iff ALL columns match; comparison errors are returned", p.floors["C18-K"])
	a := &c18kAnchors{c: c, p: p, sqlPk: c.P.Pkg(p.sqlRel), plan: c.P.Pkg(p.planRel), oc: oc, predicates: map[*types.Func]bool{}}
	lookupNamed := func(pk *packages.Package, name string) *types.Named {
		if tn, ok := pk.Types.Scope().Lookup(name).(*types.TypeName); ok {
			return dmlNamedOf(tn.Type())
		}
		return nil
	}
	a.rowT = lookupNamed(a.sqlPk, p.rowType)
	a.rowIter = dmlLookupIface(c.P, p.sqlRel, p.iterIface)
	a.editorT, a.mapperT, a.mappingT, a.refT = lookupNamed(a.plan, p.editorType), lookupNamed(a.plan, p.mapperType), lookupNamed(a.plan, p.mappingType), lookupNamed(a.plan, p.refType)
	if tn := lookupNamed(a.sqlPk, p.typeIface); tn != nil {
		if o, _, _ := types.LookupFieldOrMethod(tn, true, a.sqlPk.Types, p.compareMethod); o != nil {
			a.compareFn, _ = o.(*types.Func)
		}
	}
	a.checkFn = LookupFunc(a.plan, p.refType+"."+p.checkFn)
	if a.rowT == nil || a.rowIter == nil || a.editorT == nil || a.mapperT == nil || a.mappingT == nil || a.refT == nil || a.compareFn == nil || a.checkFn == nil {
		c.Undecided("C18-K", "anchors", 0, fmt.Sprintf("anchor types not found (row=%v iter=%v editor=%v mapper=%v mapping=%v ref=%v compare=%v check=%v)",
			a.rowT != nil, a.rowIter != nil, a.editorT != nil, a.mapperT != nil, a.mappingT != nil, a.refT != nil, a.compareFn != nil, a.checkFn != nil))
		return
	}
	info := a.plan.TypesInfo

	// ---- parent side: every referential-action handler called by the dispatch ------------------
	for _, op := range p.ops {
		_, fd := c.P.FuncDecl(p.planRel, p.editorType+"."+op)
		if fd == nil {
			continue // reported by D1
		}
		seen := map[*types.Func]bool{}
		var hs []*types.Func
		for _, call := range dmlCallsIn(fd.Body, false) {
			fn := Callee(info, call)
			if fn == nil || !strings.HasPrefix(fn.Name(), "On"+op) || seen[fn] {
				continue
			}
			if sig := fn.Type().(*types.Signature); sig.Recv() != nil && dmlNamedOf(sig.Recv().Type()) == a.editorT {
				seen[fn] = true
				hs = append(hs, fn)
			}
		}
		sort.Slice(hs, func(i, j int) bool { return hs[i].Name() < hs[j].Name() })
		for _, h := range hs {
			a.gate(h, op)
		}
	}
	// ---- the predicates the handlers gate on -----------------------------------------------------
	var preds []*types.Func
	for fn := range a.predicates {
		preds = append(preds, fn)
	}
	sort.Slice(preds, func(i, j int) bool { return preds[i].Name() < preds[j].Name() })
	for _, fn := range preds {
		a.predicate(fn)
	}
	// ---- child side: reference checks ----------------------------------------------------------
	wantLoops := map[string]bool{}
	for _, n := range p.refCheckFns {
		wantLoops[n] = true
	}
	c.P.EachFuncDecl([]string{p.planRel}, func(pk *packages.Package, fd *ast.FuncDecl) {
		if fd.Body == nil {
			return
		}
		name := DeclName(fd)
		var loops []*ast.RangeStmt
		ast.Inspect(fd.Body, func(n ast.Node) bool {
			if rs, ok := n.(*ast.RangeStmt); ok {
				if sl, ok := info.TypeOf(rs.X).Underlying().(*types.Slice); ok && dmlNamedOf(sl.Elem()) == a.refT {
					for _, call := range dmlCallsIn(rs.Body, false) {
						if Callee(info, call) == a.checkFn {
							loops = append(loops, rs)
							break
						}
					}
				}
			}
			return true
		})
		if len(loops) == 0 {
			if wantLoops[name] {
				c.Bad("C18-K", name+"/reference-check", fd.Pos(), name+": no loop over the table's foreign key references that calls "+p.checkFn+": child rows are written without checking that their parent exists")
				delete(wantLoops, name)
			}
			return
		}
		delete(wantLoops, name)
		for _, rs := range loops {
			a.refLoop(fd, rs)
		}
	})
	for n := range wantLoops {
		c.Undecided("C18-K", n+"/reference-check", 0, "function "+n+" not found")
	}
	// ---- self-referencing rows -----------------------------------------------------------------
	if p.selfRefFn != "" {
		a.selfRef()
	}
}

// gate folds one referential-action handler up to its child-row lookup.
func (a *c18kAnchors) gate(h *types.Func, op string) {
	c := a.c
	name := a.p.editorType + "." + h.Name()
	key := name + "/key-change-gate"
	fd := c.P.Decl(h)
	if fd == nil || fd.Body == nil {
		c.Undecided("C18-K", key, h.Pos(), "handler body not found")
		return
	}
	conditional := false
	var bad []string
	n := 0
	for _, seq := range c18kSeqs(true, 3) {
		st := a.newState(seq)
		st.checkArgs = true
		bind, rows := st.bindParams(a.plan.TypesInfo, fd)
		res, panicked, err := st.mini(a.plan).RunFunc(fd, bind)
		if err != nil || panicked || len(res) != 1 {
			c.Undecided("C18-K", key, fd.Pos(), fmt.Sprintf("%s is not foldable up to its child-row lookup for key %s: %v", name, c18kSeqName(seq), err))
			return
		}
		n++
		got := st.classify(res[0])
		first, laterErr := c18kFirst(seq)
		// an UPDATE handler (two rows) acts iff some key column changed; a DELETE handler always acts
		want := "lookup"
		if len(rows) >= 2 {
			conditional = true
			switch first {
			case c18kEq:
				want = "nil"
			case c18kErr:
				want = "err"
			}
		}
		hasErr := false
		for _, k := range seq {
			hasErr = hasErr || k == c18kErr
		}
		ok := got == want || (want == "lookup" && got == "err" && (laterErr || (len(rows) < 2 && hasErr)))
		if len(st.bad) > 0 && len(bad) < 4 {
			bad = append(bad, st.bad[0])
		} else if !ok && len(bad) < 4 {
			bad = append(bad, fmt.Sprintf("key %s: %s, must %s", c18kSeqName(seq), c18kGateWord(got), c18kGateWord(want)))
		}
	}
	bad = c18kDedup(bad)
	if len(bad) > 0 {
		c.Bad("C18-K", key, fd.Pos(), fmt.Sprintf("%s (ON %s action): the child rows are looked up (and restricted / cascaded) iff at least one referenced column changed, comparison errors are returned — violated for: %s", name, strings.ToUpper(op), strings.Join(bad, "; ")))
		return
	}
	what := "always reaches the child-row lookup"
	if conditional {
		what = "reaches the child-row lookup iff some referenced column changed"
	}
	c.Ok("C18-K", key, fd.Pos(), fmt.Sprintf("%s (%d key shapes folded)", what, n))
}

func c18kGateWord(s string) string {
	switch s {
	case "lookup":
		return "look the child rows up"
	case "nil":
		return "return nil without looking at the child rows"
	case "err":
		return "return the comparison error"
	case "true":
		return "return true"
	case "false":
		return "return false"
	}
	return "return " + s
}

func c18kDedup(in []string) []string {
	seen := map[string]bool{}
	var out []string
	for _, s := range in {
		if !seen[s] {
			seen[s] = true
			out = append(out, s)
		}
	}
	return out
}

// predicate folds a (bool, error) method of the editor that a handler gates on.
func (a *c18kAnchors) predicate(fn *types.Func) {
	c := a.c
	name := a.p.editorType + "." + fn.Name()
	key := name + "/any-referenced-column-changed"
	fd := c.P.Decl(fn)
	if fd == nil || fd.Body == nil {
		c.Undecided("C18-K", key, fn.Pos(), "body not found")
		return
	}
	var bad []string
	n := 0
	for _, seq := range c18kSeqs(true, 3) {
		st := a.newState(seq)
		st.checkArgs = true
		bind, _ := st.bindParams(a.plan.TypesInfo, fd)
		res, panicked, err := st.mini(a.plan).RunFunc(fd, bind)
		if err != nil || panicked || len(res) != 2 {
			c.Undecided("C18-K", key, fd.Pos(), fmt.Sprintf("%s is not foldable for key %s: %v", name, c18kSeqName(seq), err))
			return
		}
		n++
		got := st.classify(res[0])
		if e := st.classify(res[1]); e != "nil" {
			got = e
		}
		first, laterErr := c18kFirst(seq)
		want := map[c18kKind]string{c18kEq: "false", c18kLt: "true", c18kGt: "true", c18kErr: "err"}[first]
		ok := got == want || (want == "true" && laterErr && got == "err")
		if len(st.bad) > 0 && len(bad) < 4 {
			bad = append(bad, st.bad[0])
		} else if !ok && len(bad) < 4 {
			bad = append(bad, fmt.Sprintf("key %s: %s, must %s", c18kSeqName(seq), c18kGateWord(got), c18kGateWord(want)))
		}
	}
	bad = c18kDedup(bad)
	if len(bad) > 0 {
		c.Bad("C18-K", key, fd.Pos(), fmt.Sprintf("%s gates the ON UPDATE actions: it must be true iff at least one referenced column's comparison is non-zero (a partial update of a composite key is an update of the key) and hand comparison errors back — violated for: %s", name, strings.Join(bad, "; ")))
		return
	}
	c.Ok("C18-K", key, fd.Pos(), fmt.Sprintf("true iff some referenced column changed (%d key shapes folded)", n))
}

// refLoop folds the body of a `for … range <references>` loop that calls the reference check.
func (a *c18kAnchors) refLoop(fd *ast.FuncDecl, rs *ast.RangeStmt) {
	c, info := a.c, a.plan.TypesInfo
	name := DeclName(fd)
	key := name + "/reference-check"
	// the underlying edit of the same operation: X.<name>(…) on an editor-typed field path
	var edits []*ast.CallExpr
	for _, call := range dmlCallsIn(fd.Body, false) {
		if x, ok := dmlMethodCallOn(call, fd.Name.Name); ok && dmlImplements(info.TypeOf(x), a.oc) {
			if _, isSel := ast.Unparen(x).(*ast.SelectorExpr); isSel {
				edits = append(edits, call)
			}
		}
	}
	if len(edits) == 0 {
		c.Undecided("C18-K", key, fd.Pos(), name+": no call of the underlying editor's "+fd.Name.Name+" found")
		return
	}
	edit := edits[len(edits)-1]
	var newObj types.Object
	if len(edit.Args) > 0 {
		if id, ok := ast.Unparen(edit.Args[len(edit.Args)-1]).(*ast.Ident); ok {
			newObj = info.Uses[id]
		}
	}
	if newObj == nil {
		c.Undecided("C18-K", key, edit.Pos(), name+": the row written by the underlying edit is not a plain parameter")
		return
	}
	var bad []string
	n := 0
	for _, withErr := range []bool{false, true} {
		for _, seq := range c18kSeqs(false, 3) {
			st := a.newState(seq)
			st.checkArgs = true
			if withErr {
				st.checkRet = &MSym{Name: "reference-check-error"}
			}
			bind, rows := st.bindParams(info, fd)
			for _, e := range []ast.Expr{rs.Key, rs.Value} {
				if id, ok := e.(*ast.Ident); ok && id.Name != "_" {
					if o := info.Defs[id]; o != nil {
						bind[o] = &MSym{Name: id.Name}
					}
				}
			}
			ret, returned, panicked, _, err := st.mini(a.plan).RunBlock(rs.Body.List, bind)
			if err != nil || panicked {
				c.Undecided("C18-K", key, rs.Pos(), fmt.Sprintf("%s: the reference loop is not foldable for key %s: %v", name, c18kSeqName(seq), err))
				return
			}
			n++
			first, _ := c18kFirst(seq)
			if len(rows) < 2 {
				first = c18kLt // no comparison gates the check (INSERT): it is due for every row
			}
			got := "continues"
			if returned {
				got = "returns other"
				if len(ret) == 1 {
					got = "returns " + st.classify(ret[0])
				}
			}
			checkedNew := false
			for _, r := range st.checked {
				if r == bind[newObj] {
					checkedNew = true
				}
			}
			var msg string
			switch {
			case len(st.bad) > 0:
				msg = st.bad[0]
			case got == "returns nil":
				msg = fmt.Sprintf("key %s: returns success from inside the loop (the remaining references and the edit are skipped)", c18kSeqName(seq))
			case first == c18kErr && got != "returns err":
				msg = fmt.Sprintf("key %s: the comparison error is not returned (%s)", c18kSeqName(seq), got)
			case (first == c18kLt || first == c18kGt) && !checkedNew && got != "returns err":
				msg = fmt.Sprintf("key %s: a key column changed but %s is not called on the new row", c18kSeqName(seq), a.p.checkFn)
			case (first == c18kLt || first == c18kGt) && checkedNew && withErr && got != "returns check-error" && got != "returns err":
				msg = fmt.Sprintf("key %s: the error of %s is not returned (%s)", c18kSeqName(seq), a.p.checkFn, got)
			}
			if msg != "" && len(bad) < 4 {
				bad = append(bad, msg)
			}
		}
	}
	bad = c18kDedup(bad)
	if len(bad) > 0 {
		c.Bad("C18-K", key, rs.Pos(), fmt.Sprintf("%s: every foreign key reference whose columns change (any of them; for an INSERT: every reference) must be checked against the parent table with the row being written, and a failing check or comparison must fail the edit — violated for: %s", name, strings.Join(bad, "; ")))
	} else {
		c.Ok("C18-K", key, rs.Pos(), fmt.Sprintf("%d folds", n))
	}
	// the checks precede the edit on every path
	g := c.P.CFG(info, fd.Body)
	isEdit := func(n ast.Node) bool {
		for _, e := range edits {
			if n.Pos() <= e.Pos() && e.End() <= n.End() {
				return true
			}
		}
		return false
	}
	barrier := func(n ast.Node) bool { return n == ast.Node(rs.X) }
	if path := PathAvoiding(g, EntryPoint(g), barrier, isEdit, nil); path != nil {
		c.Bad("C18-K", name+"/reference-check-before-edit", edit.Pos(), name+": the underlying "+fd.Name.Name+" is reachable without passing the loop that checks the row's foreign key references", c.P.DescribePath(path)...)
	} else {
		c.Ok("C18-K", name+"/reference-check-before-edit", edit.Pos(), "")
	}
}

// selfRef folds the "row references itself" exemption of the reference check.
func (a *c18kAnchors) selfRef() {
	c, info := a.c, a.plan.TypesInfo
	name := a.p.refType + "." + a.p.checkFn
	key := name + "/self-reference-all-columns"
	fd := c.P.Decl(a.checkFn)
	self := LookupFunc(a.sqlPk, a.p.selfRefFn)
	if fd == nil || fd.Body == nil || self == nil {
		c.Undecided("C18-K", key, 0, "anchor "+a.p.selfRefFn+" or the body of "+name+" not found")
		return
	}
	var ifs *ast.IfStmt
	at := -1
	for i, s := range fd.Body.List {
		if x, ok := s.(*ast.IfStmt); ok && x.Init == nil {
			if call, ok := ast.Unparen(x.Cond).(*ast.CallExpr); ok && Callee(info, call) == self {
				ifs, at = x, i
			}
		}
	}
	if ifs == nil {
		c.Undecided("C18-K", key, fd.Pos(), name+": no top-level `if <fk>."+self.Name()+"()` found")
		return
	}
	var bad []string
	n := 0
	for _, seq := range c18kSeqs(false, 3) {
		if len(seq) == 0 {
			continue // a foreign key has at least one column
		}
		st := a.newState(seq)
		bind, _ := st.bindParams(info, fd)
		m := st.mini(a.plan)
		ret, returned, panicked, _, err := m.RunBlock(ifs.Body.List, bind)
		if err == nil && !panicked && !returned {
			ret, returned, panicked, _, err = m.RunBlock(fd.Body.List[at+1:], bind)
			if err == nil && !returned {
				err = fmt.Errorf("the statements after the self-reference block do not return")
			}
		}
		if err != nil || panicked || len(ret) != 1 {
			c.Undecided("C18-K", key, ifs.Pos(), fmt.Sprintf("%s: the self-reference block is not foldable for key %s: %v", name, c18kSeqName(seq), err))
			return
		}
		n++
		got := st.classify(ret[0])
		first, laterErr := c18kFirst(seq)
		var msg string
		switch first {
		case c18kEq:
			if got != "nil" {
				msg = fmt.Sprintf("key %s (all columns equal their referenced columns): rejected (%s)", c18kSeqName(seq), got)
			}
		case c18kErr:
			if got != "err" {
				msg = fmt.Sprintf("key %s: the comparison error is not returned (%s)", c18kSeqName(seq), got)
			}
		default:
			if got == "nil" || (got == "err" && !laterErr) {
				msg = fmt.Sprintf("key %s (a column differs from its referenced column): the row is accepted without a parent row", c18kSeqName(seq))
			}
		}
		if msg != "" && len(bad) < 4 {
			bad = append(bad, msg)
		}
	}
	if len(bad) > 0 {
		c.Bad("C18-K", key, ifs.Pos(), fmt.Sprintf("%s: a row without a parent row is its own parent only if ALL its foreign key columns equal the referenced columns of the same row — violated for: %s", name, strings.Join(bad, "; ")))
		return
	}
	c.Ok("C18-K", key, ifs.Pos(), fmt.Sprintf("accepted iff all columns match (%d key shapes folded)", n))
}
