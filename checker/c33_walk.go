package main

import (
	"fmt"
	"go/token"
	"go/types"
	"sort"
	"strings"

	"golang.org/x/tools/go/ssa"
)

// Path exploration over go/ssa for the C33 rules. Nothing is executed: the walker enumerates
// the block paths of one function and keeps, per path, which SSA values are known to BE the
// tracked value ("carriers"): the value itself, a phi that receives it on this path's edge, the
// value held by a local cell (Alloc that was not lifted: named results of functions that defer)
// at the time of the load, an interface conversion of a carrier, the result of a call that
// receives a carrier (wrapping). Stores to cells and phi edges are followed per path, so a
// variable that is re-assigned stops carrying.

type c33State struct {
	car   map[ssa.Value]bool
	cells map[*ssa.Alloc]ssa.Value
	alias map[*ssa.Phi]ssa.Value
}

func c33NewState(car ...ssa.Value) *c33State {
	st := &c33State{car: map[ssa.Value]bool{}, cells: map[*ssa.Alloc]ssa.Value{}, alias: map[*ssa.Phi]ssa.Value{}}
	for _, v := range car {
		st.car[v] = true
	}
	return st
}

func (st *c33State) clone() *c33State {
	n := c33NewState()
	for k, v := range st.car {
		n.car[k] = v
	}
	for k, v := range st.cells {
		n.cells[k] = v
	}
	for k, v := range st.alias {
		n.alias[k] = v
	}
	return n
}

func (st *c33State) key() string {
	var parts []string
	for v := range st.car {
		parts = append(parts, "c"+v.Name())
	}
	for a, v := range st.cells {
		parts = append(parts, "m"+a.Name()+"="+v.Name())
	}
	for p, v := range st.alias {
		parts = append(parts, "p"+p.Name()+"="+v.Name())
	}
	sort.Strings(parts)
	return strings.Join(parts, ",")
}

// resolve follows, for this path, loads of tracked cells, phi edges and value-preserving
// interface conversions.
func (st *c33State) resolve(v ssa.Value) ssa.Value {
	for i := 0; i < 32; i++ {
		switch x := v.(type) {
		case *ssa.UnOp:
			if x.Op == token.MUL {
				if a, ok := x.X.(*ssa.Alloc); ok {
					if cv, ok := st.cells[a]; ok {
						v = cv
						continue
					}
				}
			}
			return v
		case *ssa.Phi:
			if av, ok := st.alias[x]; ok {
				v = av
				continue
			}
			return v
		case *ssa.ChangeInterface:
			v = x.X
		case *ssa.MakeInterface:
			if _, isIface := x.X.Type().Underlying().(*types.Interface); isIface {
				v = x.X
				continue
			}
			return v
		default:
			return v
		}
	}
	return v
}

func (st *c33State) isCar(v ssa.Value) bool {
	if st.car[v] {
		return true
	}
	return st.car[st.resolve(v)]
}

func c33IsNilConst(v ssa.Value) bool {
	c, ok := v.(*ssa.Const)
	return ok && c.Value == nil && !c33IsBasicNonNil(c.Type())
}

func c33IsBasicNonNil(t types.Type) bool {
	// a Const with nil Value of a basic/struct type is a zero value, not nil
	switch t.Underlying().(type) {
	case *types.Interface, *types.Pointer, *types.Slice, *types.Map, *types.Chan, *types.Signature:
		return false
	}
	if b, ok := t.Underlying().(*types.Basic); ok && b.Kind() == types.UntypedNil {
		return false
	}
	return true
}

// nilTest decodes `x == nil` / `x != nil` (either operand order): the compared value and the
// successor index taken when it is NOT nil.
func c33NilTest(cond ssa.Value) (x ssa.Value, nonNilSucc int, ok bool) {
	b, isBin := cond.(*ssa.BinOp)
	if !isBin || (b.Op != token.EQL && b.Op != token.NEQ) {
		return nil, 0, false
	}
	switch {
	case c33IsNilConst(b.Y):
		x = b.X
	case c33IsNilConst(b.X):
		x = b.Y
	default:
		return nil, 0, false
	}
	if b.Op == token.NEQ {
		return x, 0, true
	}
	return x, 1, true
}

type c33Act int

const (
	c33Cont c33Act = iota
	c33Done
	c33Bad
)

type c33Walk struct {
	e       *c33
	fn      *ssa.Function
	onInstr func(in ssa.Instruction, st *c33State) (c33Act, string)
	// onIf may prune: it returns which successors to follow (default: both).
	onIf    func(in *ssa.If, st *c33State) (follow [2]bool)
	steps   int
	visited map[string]bool
	bad     string
	badPath []string
}

const c33StepLimit = 400000

// run explores from instruction index i of block b. It returns the first offending path.
func (w *c33Walk) run(b *ssa.BasicBlock, i int, st *c33State) (string, []string) {
	w.visited = map[string]bool{}
	w.walk(b, i, st, nil)
	return w.bad, w.badPath
}

func (w *c33Walk) walk(b *ssa.BasicBlock, i int, st *c33State, trail []string) bool {
	for ; i < len(b.Instrs); i++ {
		w.steps++
		if w.steps > c33StepLimit {
			w.bad, w.badPath = "UNDECIDED: path exploration exceeded its step limit", trail
			return false
		}
		in := b.Instrs[i]
		// generic tracking
		switch x := in.(type) {
		case *ssa.Store:
			if a, ok := x.Addr.(*ssa.Alloc); ok {
				st.cells[a] = st.resolve(x.Val)
			}
		case *ssa.Call:
			// wrapping: a call that receives a carrier and returns an error carries it
			if c33ErrIndex(x.Common().Signature()) >= 0 {
				for _, a := range x.Common().Args {
					if st.isCar(a) {
						st.car[x] = true
					}
				}
			}
		case *ssa.Extract:
			if st.car[x.Tuple] {
				if c33IsErr(x.Type()) {
					st.car[x] = true
				}
			}
		}
		act, msg := w.onInstr(in, st)
		switch act {
		case c33Done:
			return true
		case c33Bad:
			w.bad, w.badPath = msg, append(trail, w.e.instrLine(in))
			return false
		}
		if _, ok := in.(*ssa.Return); ok {
			return true
		}
		if _, ok := in.(*ssa.Panic); ok {
			return true
		}
	}
	follow := [2]bool{true, true}
	var last ssa.Instruction
	if len(b.Instrs) > 0 {
		last = b.Instrs[len(b.Instrs)-1]
	}
	if ifi, ok := last.(*ssa.If); ok && w.onIf != nil {
		follow = w.onIf(ifi, st)
	}
	for si := range b.Succs {
		if si < 2 && !follow[si] {
			continue
		}
		ns := st
		if len(b.Succs) > 1 {
			ns = st.clone()
		}
		t := trail
		if len(b.Succs) > 1 && last != nil {
			t = append(append([]string{}, trail...), fmt.Sprintf("%s [branch %d]", w.e.instrLine(last), si))
		}
		if !w.enter(b, si, ns, t) {
			return false
		}
	}
	return true
}

// enter follows the edge b -> b.Succs[si]: phis of the successor take this edge's value.
func (w *c33Walk) enter(b *ssa.BasicBlock, si int, ns *c33State, trail []string) bool {
	s := b.Succs[si]
	pi := -1
	for k, p := range s.Preds {
		if p == b {
			pi = k
			break
		}
	}
	for _, in := range s.Instrs {
		phi, ok := in.(*ssa.Phi)
		if !ok {
			break
		}
		if pi >= 0 && pi < len(phi.Edges) {
			ev := ns.resolve(phi.Edges[pi])
			ns.alias[phi] = ev
			if ns.car[ev] || ns.car[phi.Edges[pi]] {
				ns.car[phi] = true
			} else {
				delete(ns.car, phi)
			}
		}
	}
	key := fmt.Sprintf("%d|%s", s.Index, ns.key())
	if w.visited[key] {
		return true
	}
	w.visited[key] = true
	return w.walk(s, 0, ns, trail)
}

// runEdge explores from the edge b -> b.Succs[si].
func (w *c33Walk) runEdge(b *ssa.BasicBlock, si int, st *c33State) (string, []string) {
	w.visited = map[string]bool{}
	w.enter(b, si, st, nil)
	return w.bad, w.badPath
}

func c33IsErr(t types.Type) bool { return IsErrorType(t) }

// c33ErrIndex: index of the error result of a signature (the last result, if it is `error`), else -1.
func c33ErrIndex(sig *types.Signature) int {
	if sig == nil {
		return -1
	}
	n := sig.Results().Len()
	if n == 0 {
		return -1
	}
	if c33IsErr(sig.Results().At(n - 1).Type()) {
		return n - 1
	}
	return -1
}

func (e *c33) instrLine(in ssa.Instruction) string {
	pos := in.Pos()
	if !pos.IsValid() {
		// fall back to an operand's position
		for _, op := range in.Operands(nil) {
			if op != nil && *op != nil && (*op).Pos().IsValid() {
				pos = (*op).Pos()
				break
			}
		}
	}
	s := in.String()
	if v, ok := in.(ssa.Value); ok {
		s = v.Name() + " = " + s
	}
	if len(s) > 100 {
		s = s[:100] + "…"
	}
	return e.c.P.Rel(pos) + ": " + s
}
