package main

import (
	"go/ast"
	"go/token"
	"go/types"

	"golang.org/x/tools/go/cfg"
)

// C23-T1 / C23-T5: the iterators that execute trigger logic.
//
// Executors are enumerated from the build functions: a method of the builder whose node parameter
// is one of nm.execNodes returns &X{…}; X.Next is an executor. For each executor the CFG of Next
// is explored together with a finite protocol state (c23St). The calls that drive the state are
// resolved through go/types:
//
//	child.Next   RowIter.Next on a field of the receiver
//	build        BaseBuilder.buildNodeExec (the logic iterator is its first result, also after
//	             `it = wrap(it)`)
//	logic.Next   RowIter.Next on a logic iterator variable
//	logic.Close  RowIter.Close on a logic iterator variable, also inside a deferred literal
//
// and the branch edges that test the error variable those calls assigned (err != nil, err == io.EOF,
// errors.Is(err, io.EOF)).

type c23Executor struct {
	typeName string
	next     *ast.FuncDecl
	hasChild bool
	via      string // build function it was found through
}

func c23Executors(e *c23Env) []c23Executor {
	var out []c23Executor
	info := e.execPk.TypesInfo
	seen := map[string]bool{}
	for _, f := range e.execPk.Syntax {
		for _, d := range f.Decls {
			fd, ok := d.(*ast.FuncDecl)
			if !ok || fd.Body == nil || fd.Recv == nil || !c23IsNamed(info.TypeOf(fd.Recv.List[0].Type), e.execPk, e.nm.builder) {
				continue
			}
			isExecNode := false
			for _, p := range fd.Type.Params.List {
				for _, n := range e.nm.execNodes {
					if c23IsNamed(info.TypeOf(p.Type), e.planPk, n) {
						isExecNode = true
					}
				}
			}
			if !isExecNode {
				continue
			}
			ast.Inspect(fd.Body, func(n ast.Node) bool {
				lit, ok := n.(*ast.CompositeLit)
				if !ok {
					return true
				}
				nt := c23Deref(info.TypeOf(lit))
				if nt == nil || nt.Obj().Pkg() != e.execPk.Types || seen[nt.Obj().Name()] {
					return true
				}
				next := LookupFunc(e.execPk, nt.Obj().Name()+".Next")
				if next == nil || e.c.P.Decl(next) == nil {
					return true
				}
				seen[nt.Obj().Name()] = true
				x := c23Executor{typeName: nt.Obj().Name(), next: e.c.P.Decl(next), via: fd.Name.Name}
				if st, ok := nt.Underlying().(*types.Struct); ok {
					for i := 0; i < st.NumFields(); i++ {
						if c23IsNamed(st.Field(i).Type(), e.sqlPk, e.nm.rowIter) {
							x.hasChild = true
						}
					}
				}
				out = append(out, x)
				return true
			})
		}
	}
	return out
}

// protocol state ------------------------------------------------------------------------------------

// Status of the error result of the last child.Next / build / logic.Next / logic.Close call: the set of abstract
// values the error variable can still have on this path (bit set over nil, io.EOF, any other error), 0 = no such
// call pending. Branch conditions filter the set (c23Machine.evalCond), so compound and nested tests are understood.
const (
	c23None      uint8 = 0
	c23Good      uint8 = 1 // {nil}
	c23vEOF      uint8 = 2
	c23vOther    uint8 = 4
	c23Unchecked uint8 = 7 // {nil, EOF, other}
)

// c23NotRuledOut: an error is still possible (or certain).
func c23NotRuledOut(x uint8) bool { return x != c23None && x != c23Good }

// c23IsFailed: an error is certain. For the logic iterator io.EOF alone is not an error (it means drained).
func c23IsFailed(kind, x uint8) bool {
	if x == c23None || x&c23Good != 0 {
		return false
	}
	return kind != c23KLogic || x&c23vOther != 0
}

const (
	c23KOther uint8 = iota
	c23KChild
	c23KBuild
	c23KLogic
	c23KClose
)

// violation classes (one exploration per class, so that every class has its own construct key)
const (
	c23VChildOnce = iota + 1
	c23VChildErr
	c23VLogicOnce
	c23VBuildErr
	c23VLogicErr
	c23VClosed
	c23VCloseErr
)

type c23St struct {
	child     uint8 // child.Next calls so far (saturates at 2)
	childErr  uint8
	build     uint8 // builds in the current unit (saturates at 2)
	buildErr  uint8
	logicErr  uint8
	closeErr  uint8
	drained   bool
	needClose bool
	last      uint8 // kind of the call that last assigned the tracked error variable
	errObj    int8  // index of that variable
	failObj   int8  // variable holding the error that must be returned (-1: none)
	failKind  uint8
	inUnit    bool // range unit: inside an iteration
	loopDone  bool // range unit: the loop ran to completion (left through its head, not by break)
	skipped   bool // range unit: an iteration ended without exactly one drained execution
}

type c23Machine struct {
	e        *c23Env
	info     *types.Info
	x        c23Executor
	recv     types.Object
	g        *cfg.CFG
	logicIts map[types.Object]bool
	unit     *ast.RangeStmt // nil: the unit is the whole call
	objs     []types.Object
	eofObj   types.Object
	errorsIs *types.Func
}

func (m *c23Machine) objIdx(o types.Object) int8 {
	for i, x := range m.objs {
		if x == o {
			return int8(i)
		}
	}
	m.objs = append(m.objs, o)
	return int8(len(m.objs) - 1)
}

func (m *c23Machine) callKind(call *ast.CallExpr) uint8 {
	fn := Callee(m.info, call)
	if fn == nil {
		return c23KOther
	}
	switch fn.Origin() {
	case m.e.buildFn:
		return c23KBuild
	case m.e.iterNext, m.e.iterClose:
		se, ok := ast.Unparen(call.Fun).(*ast.SelectorExpr)
		if !ok {
			return c23KOther
		}
		if fn.Origin() == m.e.iterNext && c23FieldOfRecv(m.info, se.X, m.recv) {
			return c23KChild
		}
		if o := c23Obj(m.info, se.X); o != nil && m.logicIts[o] {
			if fn.Origin() == m.e.iterNext {
				return c23KLogic
			}
			return c23KClose
		}
	}
	return c23KOther
}

// prepare finds the logic iterator variables and the unit of execution.
func (m *c23Machine) prepare() {
	m.logicIts = map[types.Object]bool{}
	body := m.x.next.Body
	ast.Inspect(body, func(n ast.Node) bool {
		as, ok := n.(*ast.AssignStmt)
		if !ok || len(as.Rhs) != 1 {
			return true
		}
		if call, ok := ast.Unparen(as.Rhs[0]).(*ast.CallExpr); ok {
			if fn := Callee(m.info, call); fn != nil && fn.Origin() == m.e.buildFn {
				if o := c23Obj(m.info, as.Lhs[0]); o != nil {
					m.logicIts[o] = true
				}
				// the unit: is the node argument the value variable of a range over a receiver field?
				if len(call.Args) >= 2 {
					if no := c23Obj(m.info, call.Args[1]); no != nil {
						ast.Inspect(body, func(k ast.Node) bool {
							if rs, ok := k.(*ast.RangeStmt); ok && rs.Value != nil && c23Obj(m.info, rs.Value) == no && c23FieldOfRecv(m.info, rs.X, m.recv) {
								m.unit = rs
							}
							return true
						})
					}
				}
			}
		}
		return true
	})
	// it = wrap(it): a call with a logic iterator among its arguments whose single result is a RowIter
	for changed := true; changed; {
		changed = false
		ast.Inspect(body, func(n ast.Node) bool {
			as, ok := n.(*ast.AssignStmt)
			if !ok || len(as.Rhs) != 1 || len(as.Lhs) != 1 {
				return true
			}
			call, ok := ast.Unparen(as.Rhs[0]).(*ast.CallExpr)
			if !ok {
				return true
			}
			lo := c23Obj(m.info, as.Lhs[0])
			if lo == nil || m.logicIts[lo] || !c23IsNamed(lo.Type(), m.e.sqlPk, m.e.nm.rowIter) {
				return true
			}
			for _, a := range call.Args {
				if o := c23Obj(m.info, a); o != nil && m.logicIts[o] {
					m.logicIts[lo] = true
					changed = true
				}
			}
			return true
		})
	}
	if iop := m.e.c.P.ByPath["io"]; iop != nil {
		m.eofObj = iop.Types.Scope().Lookup("EOF")
	}
	if ep := m.e.c.P.ByPath["errors"]; ep != nil {
		m.errorsIs, _ = ep.Types.Scope().Lookup("Is").(*types.Func)
	}
}

func (m *c23Machine) fail(s c23St, kind uint8) c23St {
	if s.failObj < 0 {
		s.failObj, s.failKind = s.errObj, kind
	}
	return s
}

// errLhs returns the error-typed left-hand side object of an assignment whose right side is call.
func (m *c23Machine) errLhs(n ast.Node, call *ast.CallExpr) (types.Object, bool) {
	as, ok := n.(*ast.AssignStmt)
	if !ok || len(as.Rhs) != 1 || ast.Unparen(as.Rhs[0]) != ast.Expr(call) {
		return nil, false
	}
	last := as.Lhs[len(as.Lhs)-1]
	if id, ok := last.(*ast.Ident); ok && id.Name == "_" {
		return nil, true // explicitly discarded
	}
	o := c23Obj(m.info, last)
	if o == nil || !IsErrorType(o.Type()) {
		return nil, true
	}
	return o, true
}

// node advances the state over one CFG node. class selects which violations end the path.
func (m *c23Machine) node(n ast.Node, s c23St, class int) (c23St, pathAct) {
	bad := func(cl int) bool { return cl == class }
	if ds, ok := n.(*ast.DeferStmt); ok {
		closes := false
		if lit, ok := ds.Call.Fun.(*ast.FuncLit); ok {
			ast.Inspect(lit.Body, func(k ast.Node) bool {
				if c, ok := k.(*ast.CallExpr); ok && m.callKind(c) == c23KClose {
					closes = true
				}
				return true
			})
		} else if m.callKind(ds.Call) == c23KClose {
			closes = true
		}
		if closes {
			s.needClose = false
		}
		return s, pathGo
	}
	if _, ok := n.(*ast.ReturnStmt); ok {
		return s, pathGo // judged by exit()
	}
	for _, call := range c23Calls(n) {
		k := m.callKind(call)
		if k == c23KOther {
			continue
		}
		eo, assigned := m.errLhs(n, call)
		switch k {
		case c23KChild:
			if s.child < 2 {
				s.child++
			}
			s.childErr = c23Unchecked
			if s.child > 1 && bad(c23VChildOnce) {
				return s, pathBad
			}
		case c23KBuild:
			if m.x.hasChild && s.childErr != c23Good && bad(c23VChildErr) {
				return s, pathBad
			}
			if s.failObj >= 0 && bad(int(c23VClassOf(s.failKind))) {
				return s, pathBad
			}
			if s.build < 2 {
				s.build++
			}
			s.drained = false
			s.buildErr = c23Unchecked
			s.needClose = true
			s.logicErr, s.closeErr = c23None, c23None
			if s.build > 1 && bad(c23VLogicOnce) {
				return s, pathBad
			}
		case c23KLogic:
			if c23NotRuledOut(s.logicErr) && bad(c23VLogicErr) {
				return s, pathBad // the previous Next's error was never ruled out
			}
			if s.buildErr != c23Good && bad(c23VBuildErr) {
				return s, pathBad
			}
			s.logicErr = c23Unchecked
		case c23KClose:
			s.needClose = false
			if eo == nil {
				// result discarded: fine only while another error is already on its way out
				if s.failObj < 0 && bad(c23VCloseErr) {
					return s, pathBad
				}
				s.closeErr = c23None
			} else {
				s.closeErr = c23Unchecked
			}
		}
		if !assigned || eo == nil {
			if k != c23KClose {
				// error result not bound to a variable: it can never be ruled out
				s.last = c23KOther
			}
			continue
		}
		s.last, s.errObj = k, m.objIdx(eo)
	}
	// any other assignment to the tracked error variable ends the attribution
	if as, ok := n.(*ast.AssignStmt); ok && s.last != c23KOther {
		interesting := false
		for _, call := range c23Calls(n) {
			if m.callKind(call) != c23KOther {
				interesting = true
			}
		}
		if !interesting {
			for _, l := range as.Lhs {
				if o := c23Obj(m.info, l); o != nil && int(s.errObj) < len(m.objs) && o == m.objs[s.errObj] {
					s.last = c23KOther
				}
			}
		}
	}
	return s, pathGo
}

func c23VClassOf(kind uint8) uint8 {
	switch kind {
	case c23KChild:
		return c23VChildErr
	case c23KBuild:
		return c23VBuildErr
	case c23KLogic:
		return c23VLogicErr
	case c23KClose:
		return c23VCloseErr
	}
	return 0
}

// tri-state truth
const (
	c23F = iota
	c23T
	c23U
)

func c23Not(t int) int {
	switch t {
	case c23T:
		return c23F
	case c23F:
		return c23T
	}
	return c23U
}

// evalCond evaluates a branch condition under the assumption that the tracked error variable obj has the abstract
// value v (c23Good = nil, c23vEOF, c23vOther). Atoms that do not test obj are unknown.
func (m *c23Machine) evalCond(e ast.Expr, obj types.Object, v uint8) int {
	isEOF := func(x ast.Expr) bool {
		se, ok := ast.Unparen(x).(*ast.SelectorExpr)
		return ok && m.eofObj != nil && m.info.Uses[se.Sel] == m.eofObj
	}
	truth := func(b bool) int {
		if b {
			return c23T
		}
		return c23F
	}
	switch x := ast.Unparen(e).(type) {
	case *ast.UnaryExpr:
		if x.Op == token.NOT {
			return c23Not(m.evalCond(x.X, obj, v))
		}
	case *ast.BinaryExpr:
		switch x.Op {
		case token.LAND:
			l, r := m.evalCond(x.X, obj, v), m.evalCond(x.Y, obj, v)
			if l == c23F || r == c23F {
				return c23F
			}
			if l == c23T && r == c23T {
				return c23T
			}
			return c23U
		case token.LOR:
			l, r := m.evalCond(x.X, obj, v), m.evalCond(x.Y, obj, v)
			if l == c23T || r == c23T {
				return c23T
			}
			if l == c23F && r == c23F {
				return c23F
			}
			return c23U
		case token.EQL, token.NEQ:
			var other ast.Expr
			if c23Obj(m.info, x.X) == obj {
				other = x.Y
			} else if c23Obj(m.info, x.Y) == obj {
				other = x.X
			} else {
				return c23U
			}
			var r int
			switch {
			case isNilIdent(m.info, other):
				r = truth(v == c23Good)
			case isEOF(other):
				r = truth(v == c23vEOF)
			default:
				return c23U
			}
			if x.Op == token.NEQ {
				r = c23Not(r)
			}
			return r
		}
	case *ast.CallExpr:
		if fn := Callee(m.info, x); fn != nil && m.errorsIs != nil && fn == m.errorsIs && len(x.Args) == 2 && c23Obj(m.info, x.Args[0]) == obj && isEOF(x.Args[1]) {
			// errors.Is(err, io.EOF) is read like err == io.EOF: "EOF" in the abstraction is whatever the code tests as EOF
			return truth(v == c23vEOF)
		}
	}
	return c23U
}

func (m *c23Machine) edge(b *cfg.Block, succ int, s c23St) (c23St, bool) {
	// range unit bookkeeping
	if m.unit != nil && b.Kind == cfg.KindRangeLoop && b.Stmt == ast.Stmt(m.unit) {
		if s.inUnit && !(s.build == 1 && s.drained) {
			s.skipped = true
		}
		s.build, s.drained = 0, false
		if succ == 0 {
			s.inUnit = true
		} else {
			s.inUnit, s.loopDone = false, true
		}
		return s, true
	}
	if len(b.Succs) != 2 || len(b.Nodes) == 0 || s.last == c23KOther || int(s.errObj) >= len(m.objs) {
		return s, true
	}
	cond, isExpr := b.Nodes[len(b.Nodes)-1].(ast.Expr)
	if !isExpr {
		return s, true
	}
	var p *uint8
	switch s.last {
	case c23KChild:
		p = &s.childErr
	case c23KBuild:
		p = &s.buildErr
	case c23KLogic:
		p = &s.logicErr
	case c23KClose:
		p = &s.closeErr
	}
	if p == nil || *p == c23None {
		return s, true
	}
	obj := m.objs[s.errObj]
	var nw uint8
	for _, v := range []uint8{c23Good, c23vEOF, c23vOther} {
		if *p&v == 0 {
			continue
		}
		if r := m.evalCond(cond, obj, v); r == c23U || (r == c23T) == (succ == 0) {
			nw |= v
		}
	}
	if nw == 0 {
		return s, false // infeasible edge
	}
	kind := s.last
	*p = nw
	switch {
	case kind == c23KLogic && nw == c23vEOF:
		// the logic iterator is drained
		*p = c23None
		s.drained = true
		if s.failObj >= 0 && s.failKind == c23KLogic {
			s.failObj = -1
		}
	case c23IsFailed(kind, nw):
		s = m.fail(s, kind)
		if kind == c23KBuild {
			s.needClose = false // nothing was built
		}
	default:
		if s.failObj >= 0 && s.failKind == kind && s.failObj == s.errObj {
			s.failObj = -1
		}
	}
	return s, true
}

// exit judges a return statement (or the implicit end) in state s.
func (m *c23Machine) exit(s c23St, ret *ast.ReturnStmt, class int) bool {
	if ret == nil || len(ret.Results) < 2 {
		// bare return / fall off the end of a (Row, error) function: not readable
		return true
	}
	last := ret.Results[len(ret.Results)-1]
	rowReturn := !c23IsNilLit(m.info, ret.Results[0])
	// an error that was seen must leave through this return
	if s.failObj >= 0 {
		returnsIt := c23Obj(m.info, last) != nil && c23Obj(m.info, last) == m.objs[s.failObj]
		if !returnsIt && int(c23VClassOf(s.failKind)) == class {
			return true
		}
	}
	if class == c23VClosed && s.needClose {
		return true
	}
	if !rowReturn {
		return false
	}
	switch class {
	case c23VChildOnce:
		return m.x.hasChild && s.child != 1
	case c23VChildErr:
		return m.x.hasChild && s.childErr != c23Good
	case c23VLogicOnce:
		if m.unit != nil {
			return !s.loopDone || s.skipped || s.inUnit
		}
		return !(s.build == 1 && s.drained)
	case c23VBuildErr:
		return s.build > 0 && s.buildErr != c23Good
	case c23VLogicErr:
		return c23NotRuledOut(s.logicErr)
	case c23VCloseErr:
		return c23NotRuledOut(s.closeErr)
	}
	return false
}

func (m *c23Machine) explore(class int) []ast.Node {
	s0 := c23St{failObj: -1}
	return pathExplore(m.g, EntryPoint(m.g), s0,
		func(n ast.Node, s c23St) (c23St, pathAct) { return m.node(n, s, class) },
		func(b *cfg.Block, succ int, s c23St) (c23St, bool) { return m.edge(b, succ, s) },
		func(s c23St, ret *ast.ReturnStmt) bool { return m.exit(s, ret, class) })
}

// deferredCloseOK checks a deferred literal that closes the logic iterator: the Close result is bound to a
// variable that is assigned to a named error result of the enclosing function.
func (m *c23Machine) deferredCloseOK() (found bool, ok bool, pos token.Pos) {
	var named []types.Object
	if res := m.x.next.Type.Results; res != nil {
		for _, f := range res.List {
			for _, nm := range f.Names {
				if o := m.info.Defs[nm]; o != nil && IsErrorType(o.Type()) {
					named = append(named, o)
				}
			}
		}
	}
	ok = true
	ast.Inspect(m.x.next.Body, func(n ast.Node) bool {
		ds, isDefer := n.(*ast.DeferStmt)
		if !isDefer {
			return true
		}
		lit, isLit := ds.Call.Fun.(*ast.FuncLit)
		if !isLit {
			if m.callKind(ds.Call) == c23KClose {
				found, ok, pos = true, false, ds.Pos() // defer it.Close(ctx): error discarded
			}
			return false
		}
		ast.Inspect(lit.Body, func(k ast.Node) bool {
			call, isCall := k.(*ast.CallExpr)
			if !isCall || m.callKind(call) != c23KClose {
				return true
			}
			found, pos = true, call.Pos()
			// find the statement binding the result
			var bound types.Object
			ast.Inspect(lit.Body, func(a ast.Node) bool {
				if as, isAs := a.(*ast.AssignStmt); isAs && len(as.Rhs) == 1 && ast.Unparen(as.Rhs[0]) == ast.Expr(call) {
					bound = c23Obj(m.info, as.Lhs[len(as.Lhs)-1])
				}
				return true
			})
			isNamed := func(o types.Object) bool {
				for _, n := range named {
					if n == o {
						return true
					}
				}
				return false
			}
			reaches := bound != nil && isNamed(bound)
			if bound != nil && !reaches {
				ast.Inspect(lit.Body, func(a ast.Node) bool {
					if as, isAs := a.(*ast.AssignStmt); isAs && len(as.Lhs) == 1 && len(as.Rhs) == 1 {
						if lo := c23Obj(m.info, as.Lhs[0]); lo != nil && isNamed(lo) && c23Obj(m.info, as.Rhs[0]) == bound {
							reaches = true
						}
					}
					return true
				})
			}
			if !reaches {
				ok = false
			}
			return true
		})
		return false
	})
	return
}

func c23RunExec(e *c23Env) {
	c := e.c
	xs := c23Executors(e)
	if len(xs) == 0 {
		c.Undecided("C23-T1", "executors", 0, "no iterator that executes trigger logic found through the build functions of "+e.nm.builder)
		return
	}
	info := e.execPk.TypesInfo
	for _, x := range xs {
		m := &c23Machine{e: e, info: info, x: x, recv: c23RecvObj(info, x.next)}
		m.g = c.P.CFG(info, x.next.Body)
		m.prepare()
		name := x.typeName + ".Next"
		if len(m.logicIts) == 0 {
			c.Undecided("C23-T1", name+"/logic-once-drained", x.next.Pos(), "no call of "+e.nm.builder+"."+e.nm.buildFn+" whose result is bound to a variable: the logic execution is not readable")
			continue
		}
		unitTxt := "per call"
		if m.unit != nil {
			unitTxt = "per element of the range over " + types.ExprString(m.unit.X)
		}
		run := func(rule, key string, class int, okMsg, badMsg string) {
			if p := m.explore(class); p != nil {
				c.Bad(rule, name+"/"+key, x.next.Pos(), badMsg, c.P.DescribePath(p)...)
			} else {
				c.Ok(rule, name+"/"+key, x.next.Pos(), okMsg)
			}
		}
		if x.hasChild {
			run("C23-T1", "child-next-once", c23VChildOnce, "every returned row follows exactly one child.Next", "a row is returned on a path with no or more than one child.Next (trigger would run for a row that was not pulled, or a row is skipped)")
			run("C23-T1", "child-error-propagated", c23VChildErr, "the child's error/EOF is ruled out before the logic is built and returned unchanged", "the logic runs, or a row is returned, although the child's error/EOF was not ruled out — or that error is not what the function returns")
		}
		run("C23-T1", "logic-once-drained", c23VLogicOnce, "logic built exactly once "+unitTxt+" and drained to io.EOF before a row is returned", "a row is returned on a path where the trigger logic was not built exactly once "+unitTxt+" and drained to io.EOF")
		run("C23-T5", "build-error-propagated", c23VBuildErr, "a failed build of the logic is returned", "the logic iterator is used, or a row returned, although the build error was not ruled out / is not returned")
		run("C23-T5", "logic-error-propagated", c23VLogicErr, "an error of the logic iterator's Next is returned on every path", "an error from the trigger logic's Next is not ruled out before the next step, or is not what the function returns (swallowed: the statement would succeed)")
		run("C23-T5", "logic-iter-closed", c23VClosed, "the built logic iterator is closed (or its Close deferred) before every exit", "an exit is reachable with the logic iterator still open (DML inside the trigger body is completed/discarded by Close)")
		// Close error
		found, dok, dpos := m.deferredCloseOK()
		if found && !dok {
			c.Bad("C23-T5", name+"/close-error-propagated", dpos, "the deferred Close of the logic iterator discards its error (not assigned to the named error result)")
		} else {
			run("C23-T5", "close-error-propagated", c23VCloseErr, "the error of closing the logic iterator reaches the caller", "the error of closing the logic iterator is discarded on a path where nothing else failed, or is not returned")
		}
	}
}
