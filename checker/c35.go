package main

import (
	"fmt"
	"go/ast"
	"go/constant"
	"go/token"
	"go/types"
	"os"
	"sort"
	"strings"

	"golang.org/x/tools/go/cfg"
	"golang.org/x/tools/go/packages"
)

// C35 — clients receive exactly the engine's results over the wire.
//
// The behaviour is produced by one dispatcher (Handler.doQuery) that hands the engine's row
// iterator to one of five resultFor* siblings; two of them are three-stage goroutine pipelines
// (iterator -> rowChan -> batcher -> resChan -> client callback) plus a fourth goroutine that
// closes the iterator. Every rule below is a clause whose violation loses, duplicates, reorders
// or corrupts rows, loses an error, or hangs the statement. All roles (iterator, callback,
// errgroup, group context, WaitGroup, channels, stages, batch variable) are found through types
// and def-use, never by identifier text; the model is rebuilt from the source on every run.
//
// Files: c35.go (anchors, model, shape rules P1 P2 P3 P5 B1), c35_flow.go (three-valued branch
// evaluation, error propagation E1, row flow P4, delivery P6/W1).

type c35Anchors struct {
	pkgRel        string
	dispatcher    string   // "Type.Method" of the function that dispatches on the result kind
	spawn         string   // full name of the goroutine spawn helper (group, func() error)
	newGroup      string   // full name of the method returning (group, group context)
	confinedTypes []string // full names of unsynchronised buffer types whose pointers must stay in one stage
	floors        map[string]int
	exceptions    map[string]string // "RULE:construct" -> reason (named exceptions)
}

func c35Real() c35Anchors {
	return c35Anchors{
		pkgRel: "server", dispatcher: "Handler.doQuery",
		spawn:         modPath + "/errguard.Go",
		newGroup:      modPath + "/sql.Context.NewErrgroup",
		confinedTypes: []string{modPath + "/sql.ByteBuffer"},
		floors: map[string]int{"C35-F0": 4, "C35-P1": 16, "C35-P2": 12, "C35-P3": 20, "C35-P4": 15, "C35-P5": 1,
			"C35-P6": 6, "C35-W1": 2, "C35-C1": 4, "C35-B1": 2, "C35-B2": 3, "C35-E1": 22},
		exceptions: map[string]string{
			"C35-P4:resultForDefaultIter/batch/assign res = resultFromOkResult(…)": "the batch is replaced by the OkResult's result only after `if res.RowsAffected > 0 { panic }` on the same path: the discarded batch holds no rows (rows and OkResults never mix in one result set)",
		},
	}
}

func init() {
	register(&Property{
		ID:       "C35",
		Patterns: []string{"./server"},
		Thorough: []string{"./server"}, // every anchored function lives in package server; nothing is gained by loading more
		Explanation: "Decided on the syntax trees, types and control-flow graphs of server.Handler.doQuery and the resultFor* functions it dispatches the engine's row iterator to (the family is discovered from the calls that pass the iterator, F0). " +
			"For the two goroutine pipelines (resultForDefaultIter, resultForValueRowIter): (P1) every channel has all its sends in exactly one spawned stage, that stage closes it exactly once on every exit path and never sends after the close, " +
			"all receives are in exactly one other stage, and the channel does not escape (single producer/single consumer: FIFO, no loss, no send on a closed channel, the consumer always learns about the end); " +
			"(P2) the constant of the single wg.Add, executed before any spawn, equals the number of stages with `defer wg.Done()` on every path, every stage other than the closing stage has one, and iter.Close is called in one stage only and only after wg.Wait() on every path " +
			"(the iterator is closed exactly when every other stage has finished: neither concurrently with Next nor never); (P3) every channel send/receive in a stage is a case of a select that also has a `<-groupCtx.Done()` case (or a default), groupCtx being the context " +
			"returned with the errgroup, and every Done case leaves the stage (a failing stage always terminates the others, so the error reaches the client instead of a hang); (P4) row flow: the value sent by the reading stage is exactly the row bound by the successful " +
			"iterator call, sent exactly once per call; in the batching stage every received row is converted by a call taking that row and the converted row itself is stored exactly once — `rows = append(rows, out)` at the end or `rows[counter] = out` — with exactly one counter increment (after an index store), " +
			"the batch allocation agrees with the store discipline (append ⇒ length 0; index store ⇒ length = flush constant and the result is truncated to the counter before it is returned), the batch is flushed under `counter ==/>= K`, no assignment to the batch variable is reachable from a row store " +
			"without passing through the select case that sends the batch (a batch is never reset or replaced while it holds unsent rows; one named exception), and the function's success return — reachable only after group.Wait() — returns that batch variable (the final partial batch is delivered); " +
			"(P5) the two pipelines have the same stage/channel topology; (B1) the unsynchronised *sql.ByteBuffer that backs the encoded rows is touched by one stage only (and by the function itself only where no stage is running). " +
			"(B2) pooled buffer life time, for every variable acquired as sync.Pool.Get().(*sql.ByteBuffer) in the loaded packages (today doQuery's buf): the values that may alias it are the variables assigned from calls that received it (the result r of the resultFor* calls); " +
			"after an explicit Put no CFG path reaches a mention of the buffer or a hand-over of an alias (argument of a call such as the final callback, return, send, copy); a deferred Put is accepted when no alias is returned or a named result, nothing touches the buffer after the Put inside the deferred literal, " +
			"and no earlier-registered defer (which runs later) mentions the buffer or an alias; the buffer is Put at most once on every path (never a deferred plus an explicit Put, two defers, a Put that can reach a Put, or a Put in a non-deferred closure); " +
			"and every Put of such a buffer releases a variable acquired in the same function (a helper never releases its caller's buffer). Otherwise another connection obtains the buffer and encodes its rows over bytes that are still unsent. " +
			"For the whole family and the dispatcher: (E1) the error result of every call of an iterator method, the client callback, the errgroup Wait, a function variable or a function of package server is either returned directly, or bound to a variable that, on every path on " +
			"which it is non-nil and not io.EOF (branch conditions evaluated three-valued), reaches a return carrying it or a freshly constructed error before it is overwritten (deferred closures: stored into the function's named error result); a discarded error is a violation when a nil-error " +
			"return is reachable afterwards. (P6) delivery: in doQuery, on every path after a successful resultFor* call, the caller's callback is invoked at most once, with the returned result, and a nil-error return without it is infeasible both when result.RowsAffected != 0 and when the processed flag is false (the paths are explored in those two worlds, conditions evaluated three-valued); that flag is " +
			"written only from the pipelines' second result; inside a pipeline the flag is set only together with a callback call, and every batch the delivering stage receives is passed to the callback exactly once before the next receive (or the stage returns an error); (C1) every result struct literal built by a family " +
			"function that was handed the column metadata sets its Fields from that parameter; (W1) the callback variable the delivering stage invokes is the caller's callback: it is never reassigned, or only to a wrapper that forwards its own arguments " +
			"exactly once on every path to a copy saved before the assignment (a wrapper that refers to the variable it is stored in calls itself).",
		NotCovered: "value encoding (RowToSQL / Type.SQL: C28), field metadata, the MySQL protocol writer in vitess (callback implementations), errgroup/context/channel semantics (trusted), concurrency across connections other than the pooled-buffer life time (B2), a missing Put on some path (only a note: the buffer is garbage-collected, no result difference), aliases of the pooled buffer that are not results of a call receiving it (fields, globals) and goroutines that outlive the acquiring function, affected-row counts of OkResults, " +
			"prepared-statement paths other than through doQuery, what the iterator itself produces",
		Technique: "pooled-buffer release ordering (CFG reachability from every Put to uses of the buffer / hand-overs of call results that received it; defer ordering); role discovery by types + def-use; AST shape of channel/WaitGroup operations; go/cfg must-pass-through and saturating path counters with three-valued branch evaluation (nil / io.EOF facts)",
		Run:       func(c *Ctx) { runC35(c, c35Real()) },
		Fixture: func(c *Ctx, fx *Prog) {
			fa := func(rel string) c35Anchors {
				pp := "vchk/" + rel
				return c35Anchors{pkgRel: rel, dispatcher: "Handler.doQuery", spawn: pp + ".Go", newGroup: pp + ".Ctx.NewErrgroup",
					confinedTypes: []string{pp + ".ByteBuffer"}, floors: map[string]int{}, exceptions: map[string]string{}}
			}
			expectFixture(c, fx, "c35 good: a reference pipeline (append and indexed batches, forwarding wrapper, deferred Close error) is accepted", nil,
				func(fc *Ctx) { runC35(fc, fa("testdata/c35/good")) })
			expectFixture(c, fx, "c35 bad: one planted defect per clause",
				[]string{
					"C35-P1:resultForRows/rowChan/closed-by-sender",
					"C35-P1:resultForRows/resChan/single-receiver",
					"C35-P2:resultForRows/wg.Add",
					"C35-P2:resultForRows/iter.Close-after-wg.Wait",
					"C35-P3:resultForRows/stage(->rowChan)/send rowChan",
					"C35-P3:resultForRows/stage(rowChan->resChan)/ctx.Done-arm",
					"C35-P4:resultForRows/stage(rowChan->resChan)/row-stored-once",
					"C35-P4:resultForRows/batch/assign res = nil",
					"C35-P4:resultForRows/batch/final-returned",
					"C35-B1:resultForRows/confined buf",
					"C35-E1:resultForRows/stage(->rowChan)/iter.Next",
					"C35-E1:resultForOne/iter.Close",
					"C35-P6:doQuery/final-callback",
					"C35-P6:resultForRows/processed-flag",
					"C35-W1:resultForRows/callback-target",
				},
				func(fc *Ctx) { runC35(fc, fa("testdata/c35/bad")) })
			expectFixture(c, fx, "c35 bad2: closing stage counted in the WaitGroup (waits for itself), sibling topologies differ, result without columns, dropped batch",
				[]string{
					"C35-P2:resultForValues/stage(wait)/wg.Done",
					"C35-P2:resultForValues/wg.Add",
					"C35-P5:resultForRows~resultForValues",
					"C35-C1:resultForOne/Result{Fields}",
					"C35-P6:resultForRows/stage(resChan->)/batch-delivered-once",
					"C35-P6:resultForRows/processed-flag",
				},
				func(fc *Ctx) { runC35(fc, fa("testdata/c35/bad2")) })
		},
		FixturePkgs: []string{"./testdata/c35/good", "./testdata/c35/bad", "./testdata/c35/bad2"},
	})
}

// ---- model -----------------------------------------------------------------------------------

type c35Fn struct {
	c       *Ctx
	a       *c35Anchors
	pk      *packages.Package
	info    *types.Info
	fd      *ast.FuncDecl
	name    string
	parents map[ast.Node]ast.Node

	iterVars []*types.Var
	cbVar    *types.Var   // the client callback: the function value doQuery hands to the family
	cbCands  []*types.Var // parameters of func type with an error result

	// pipeline roles (nil/empty for the non-pipeline siblings)
	groupVar, gctxVar *types.Var
	groupAssign       *ast.AssignStmt
	wgVar             *types.Var
	chans             []*c35Chan
	stages            []*c35Stage
	spawnCalls        []*ast.CallExpr
	batchVar          *types.Var // set by P4
	foreignSpawn      ast.Node   // a goroutine started other than through the spawn helper
	opaqueSpawn       ast.Node   // a spawn whose stage function is not a function literal
}

type c35Stage struct {
	lit          *ast.FuncLit
	spawn        *ast.CallExpr
	name         string
	sends, recvs []*types.Var
}

type c35Chan struct {
	v                *types.Var
	sender, receiver *c35Stage
}

func (f *c35Fn) exc(rule, key string, pos token.Pos) bool {
	if r, ok := f.a.exceptions[rule+":"+key]; ok {
		f.c.Exc(rule, key, pos, r)
		return true
	}
	return false
}

func c35Obj(info *types.Info, e ast.Expr) types.Object {
	id, ok := ast.Unparen(e).(*ast.Ident)
	if !ok {
		return nil
	}
	if o := info.Uses[id]; o != nil {
		return o
	}
	return info.Defs[id]
}

func c35Parents(root ast.Node) map[ast.Node]ast.Node {
	m := map[ast.Node]ast.Node{}
	var stack []ast.Node
	ast.Inspect(root, func(n ast.Node) bool {
		if n == nil {
			stack = stack[:len(stack)-1]
			return false
		}
		if len(stack) > 0 {
			m[n] = stack[len(stack)-1]
		}
		stack = append(stack, n)
		return true
	})
	return m
}

// parent skipping parentheses
func (f *c35Fn) parent(n ast.Node) ast.Node {
	p := f.parents[n]
	for {
		if pe, ok := p.(*ast.ParenExpr); ok {
			p = f.parents[pe]
			continue
		}
		return p
	}
}

// unitOf: nearest enclosing function literal (nil = the declaration's own body).
func (f *c35Fn) unitOf(n ast.Node) *ast.FuncLit {
	for p := f.parents[n]; p != nil; p = f.parents[p] {
		if l, ok := p.(*ast.FuncLit); ok {
			return l
		}
	}
	return nil
}

// stageOf: the spawned stage whose literal encloses n (nil if none).
func (f *c35Fn) stageOf(n ast.Node) *c35Stage {
	for p := ast.Node(n); p != nil; p = f.parents[p] {
		if l, ok := p.(*ast.FuncLit); ok {
			for _, s := range f.stages {
				if s.lit == l {
					return s
				}
			}
		}
	}
	return nil
}

func (f *c35Fn) uses(v *types.Var, within ast.Node) []*ast.Ident {
	var out []*ast.Ident
	if v == nil {
		return nil
	}
	ast.Inspect(within, func(n ast.Node) bool {
		if id, ok := n.(*ast.Ident); ok && f.info.Uses[id] == v {
			out = append(out, id)
		}
		return true
	})
	return out
}

// c35IsIterType: an interface with Close(...) error and at least one (T, error) method.
func c35IsIterType(t types.Type) bool {
	if t == nil {
		return false
	}
	it, ok := t.Underlying().(*types.Interface)
	if !ok {
		return false
	}
	hasClose, hasNext := false, false
	for i := 0; i < it.NumMethods(); i++ {
		m := it.Method(i)
		sig := m.Type().(*types.Signature)
		r := sig.Results()
		if r.Len() == 0 || !IsErrorType(r.At(r.Len()-1).Type()) {
			continue
		}
		if m.Name() == "Close" && r.Len() == 1 {
			hasClose = true
		}
		if r.Len() == 2 {
			hasNext = true
		}
	}
	return hasClose && hasNext
}

func c35LastIsError(t types.Type) bool {
	switch x := t.(type) {
	case *types.Tuple:
		return x.Len() > 0 && IsErrorType(x.At(x.Len()-1).Type())
	case nil:
		return false
	}
	return IsErrorType(t)
}

func c35FuncVarWithErr(v *types.Var) bool {
	if v == nil {
		return false
	}
	sig, ok := v.Type().Underlying().(*types.Signature)
	return ok && sig.Results().Len() > 0 && IsErrorType(sig.Results().At(sig.Results().Len()-1).Type())
}

func (f *c35Fn) isIterVar(o types.Object) bool {
	for _, v := range f.iterVars {
		if v == o {
			return true
		}
	}
	return false
}

// iterMethodCall: call of a method on one of the iterator variables; returns the method name.
func (f *c35Fn) iterMethodCall(call *ast.CallExpr) (string, bool) {
	sel, ok := ast.Unparen(call.Fun).(*ast.SelectorExpr)
	if !ok || !f.isIterVar(c35Obj(f.info, sel.X)) {
		return "", false
	}
	return sel.Sel.Name, true
}

func (f *c35Fn) isMethodCallOn(call *ast.CallExpr, v *types.Var, name string) bool {
	if v == nil {
		return false
	}
	sel, ok := ast.Unparen(call.Fun).(*ast.SelectorExpr)
	return ok && sel.Sel.Name == name && c35Obj(f.info, sel.X) == v
}

func (f *c35Fn) isCallbackCall(call *ast.CallExpr) bool {
	return f.cbVar != nil && c35Obj(f.info, call.Fun) == f.cbVar
}

// isDoneRecv: `<-X.Done()`; returns the variable X.
func (f *c35Fn) doneRecvVar(e ast.Expr) (types.Object, bool) {
	u, ok := ast.Unparen(e).(*ast.UnaryExpr)
	if !ok || u.Op != token.ARROW {
		return nil, false
	}
	call, ok := ast.Unparen(u.X).(*ast.CallExpr)
	if !ok || len(call.Args) != 0 {
		return nil, false
	}
	sel, ok := ast.Unparen(call.Fun).(*ast.SelectorExpr)
	if !ok || sel.Sel.Name != "Done" {
		return nil, false
	}
	o := c35Obj(f.info, sel.X)
	if o == nil {
		return nil, false
	}
	return o, true
}

// commRecv: the receive expression of a select case's communication statement, if it is a receive.
func c35CommRecv(s ast.Stmt) ast.Expr {
	switch x := s.(type) {
	case *ast.ExprStmt:
		if u, ok := ast.Unparen(x.X).(*ast.UnaryExpr); ok && u.Op == token.ARROW {
			return u
		}
	case *ast.AssignStmt:
		if len(x.Rhs) == 1 {
			if u, ok := ast.Unparen(x.Rhs[0]).(*ast.UnaryExpr); ok && u.Op == token.ARROW {
				return u
			}
		}
	}
	return nil
}

func (f *c35Fn) isGroupDoneClause(cc *ast.CommClause) bool {
	if cc.Comm == nil {
		return false
	}
	r := c35CommRecv(cc.Comm)
	if r == nil {
		return false
	}
	o, ok := f.doneRecvVar(r)
	return ok && f.gctxVar != nil && o == f.gctxVar
}

func c35NewFn(c *Ctx, a *c35Anchors, pk *packages.Package, fd *ast.FuncDecl) *c35Fn {
	f := &c35Fn{c: c, a: a, pk: pk, info: pk.TypesInfo, fd: fd, name: fd.Name.Name, parents: c35Parents(fd)}
	for _, fl := range fd.Type.Params.List {
		for _, n := range fl.Names {
			v, _ := f.info.Defs[n].(*types.Var)
			if v == nil {
				continue
			}
			if c35IsIterType(v.Type()) {
				f.iterVars = append(f.iterVars, v)
			}
			if c35FuncVarWithErr(v) {
				f.cbCands = append(f.cbCands, v)
			}
		}
	}
	// stages
	inspectAll := func(fn func(n ast.Node) bool) { ast.Inspect(fd.Body, fn) }
	inspectAll(func(n ast.Node) bool {
		if g, ok := n.(*ast.GoStmt); ok && f.foreignSpawn == nil {
			f.foreignSpawn = g
		}
		call, ok := n.(*ast.CallExpr)
		if !ok {
			return true
		}
		fn := Callee(f.info, call)
		if fn == nil {
			return true
		}
		if sig, ok := fn.Type().(*types.Signature); ok && sig.Recv() != nil && fn.Name() == "Go" && FullName(fn.Origin()) != a.spawn && f.foreignSpawn == nil {
			f.foreignSpawn = call // errgroup.Group.Go (or any Go method) called directly
		}
		switch FullName(fn.Origin()) {
		case a.spawn:
			f.spawnCalls = append(f.spawnCalls, call)
			nlit := 0
			for _, arg := range call.Args {
				if lit, ok := ast.Unparen(arg).(*ast.FuncLit); ok {
					f.stages = append(f.stages, &c35Stage{lit: lit, spawn: call})
					nlit++
				}
			}
			if nlit != 1 && f.opaqueSpawn == nil {
				f.opaqueSpawn = call
			}
		case a.newGroup:
			if as, ok := f.parent(call).(*ast.AssignStmt); ok && len(as.Lhs) == 2 && len(as.Rhs) == 1 {
				f.groupAssign = as
				f.groupVar, _ = c35Obj(f.info, as.Lhs[0]).(*types.Var)
				f.gctxVar, _ = c35Obj(f.info, as.Lhs[1]).(*types.Var)
			}
		}
		return true
	})
	if len(f.spawnCalls) == 0 {
		return f
	}
	// local channels and the WaitGroup
	inspectAll(func(n ast.Node) bool {
		id, ok := n.(*ast.Ident)
		if !ok {
			return true
		}
		v, _ := f.info.Defs[id].(*types.Var)
		if v == nil || v.IsField() {
			return true
		}
		if _, isChan := v.Type().Underlying().(*types.Chan); isChan {
			f.chans = append(f.chans, &c35Chan{v: v})
		}
		t := v.Type()
		if pt, ok := t.(*types.Pointer); ok {
			t = pt.Elem()
		}
		if nt, ok := t.(*types.Named); ok && nt.Obj().Pkg() != nil && nt.Obj().Pkg().Path() == "sync" && nt.Obj().Name() == "WaitGroup" && f.wgVar == nil {
			f.wgVar = v
		}
		return true
	})
	// per-stage channel use, names
	for _, s := range f.stages {
		ast.Inspect(s.lit.Body, func(n ast.Node) bool {
			switch x := n.(type) {
			case *ast.SendStmt:
				if v, ok := c35Obj(f.info, x.Chan).(*types.Var); ok && f.chanOf(v) != nil {
					s.sends = c35AddVar(s.sends, v)
				}
			case *ast.UnaryExpr:
				if x.Op == token.ARROW {
					if v, ok := c35Obj(f.info, x.X).(*types.Var); ok && f.chanOf(v) != nil {
						s.recvs = c35AddVar(s.recvs, v)
					}
				}
			case *ast.RangeStmt:
				if v, ok := c35Obj(f.info, x.X).(*types.Var); ok && f.chanOf(v) != nil {
					s.recvs = c35AddVar(s.recvs, v)
				}
			}
			return true
		})
		nm := func(vs []*types.Var) string {
			var out []string
			for _, v := range vs {
				out = append(out, v.Name())
			}
			return strings.Join(out, ",")
		}
		switch {
		case len(s.sends)+len(s.recvs) > 0:
			s.name = "stage(" + nm(s.recvs) + "->" + nm(s.sends) + ")"
		case f.wgVar != nil && f.containsCall(s.lit.Body, func(call *ast.CallExpr) bool { return f.isMethodCallOn(call, f.wgVar, "Wait") }):
			s.name = "stage(wait)"
		default:
			s.name = "stage()"
		}
	}
	seen := map[string]int{}
	for _, s := range f.stages {
		seen[s.name]++
		if seen[s.name] > 1 {
			s.name = fmt.Sprintf("%s#%d", s.name, seen[s.name])
		}
	}
	return f
}

func c35AddVar(vs []*types.Var, v *types.Var) []*types.Var {
	for _, x := range vs {
		if x == v {
			return vs
		}
	}
	return append(vs, v)
}

func (f *c35Fn) chanOf(v *types.Var) *c35Chan {
	for _, ch := range f.chans {
		if ch.v == v {
			return ch
		}
	}
	return nil
}

func (f *c35Fn) containsCall(n ast.Node, pred func(call *ast.CallExpr) bool) bool {
	found := false
	ast.Inspect(n, func(m ast.Node) bool {
		if call, ok := m.(*ast.CallExpr); ok && pred(call) {
			found = true
		}
		return !found
	})
	return found
}

// containsCallNoLit: like containsCall but does not descend into function literals.
func (f *c35Fn) containsCallNoLit(n ast.Node, pred func(call *ast.CallExpr) bool) bool {
	found := false
	inspectNoLit(n, func(m ast.Node) bool {
		if call, ok := m.(*ast.CallExpr); ok && pred(call) {
			found = true
		}
		return !found
	})
	return found
}

func (f *c35Fn) stageName(s *c35Stage) string {
	if s == nil {
		return "function body"
	}
	return s.name
}

// ---- driver ----------------------------------------------------------------------------------

func runC35(c *Ctx, a c35Anchors) {
	fl := func(id string) int { return a.floors[id] }
	c.Rule("C35-F0", "the resultFor* family is the set of same-package functions doQuery passes the engine's row iterator to; at least one is a goroutine pipeline", fl("C35-F0"))
	c.Rule("C35-P1", "every pipeline channel: all sends in one stage, closed exactly once by that stage on every exit path (no send after close), all receives in one other stage, no escape", fl("C35-P1"))
	c.Rule("C35-P2", "wg.Add(n) before any spawn with n = number of stages that `defer wg.Done()` on every path; every stage but the closing one has it; iter.Close only in one stage and only after wg.Wait()", fl("C35-P2"))
	c.Rule("C35-P3", "every channel operation of a stage is a case of a select with a `<-groupCtx.Done()` case or a default; every Done case leaves the stage", fl("C35-P3"))
	c.Rule("C35-P4", "row flow: each iterator row is sent once unchanged; each received row is converted and stored once with one counter increment; allocation/store/truncate discipline; flush under counter==K; batch overwritten only after being sent; final batch returned after Wait", fl("C35-P4"))
	c.Rule("C35-P5", "the sibling pipelines have the same stage/channel topology", fl("C35-P5"))
	c.Rule("C35-P6", "doQuery invokes the caller's callback at most once after the resultFor* call, with its result, and returns nil without it only under `RowsAffected == 0 && processedFlag`; the flag is set only together with a callback call", fl("C35-P6"))
	c.Rule("C35-W1", "the callback variable invoked by the delivering stage is the caller's callback, or a wrapper that forwards its arguments exactly once to a copy saved before the reassignment", fl("C35-W1"))
	c.Rule("C35-C1", "every result struct a resultFor* function builds sets its column-metadata field from the fields parameter it was given", fl("C35-C1"))
	c.Rule("C35-B1", "an unsynchronised row buffer is used by one stage only (and by the function body only where no stage can be running)", fl("C35-B1"))
	c.Rule("C35-E1", "the error of every iterator/callback/group/function-variable/same-package call reaches the returned error on every path on which it is non-nil and not io.EOF; a discarded error is followed by error returns only", fl("C35-E1"))

	if !c.fixtureMode && a.pkgRel == "server" {
		c35MetaFlags(c)
	}
	c35PoolRelease(c, &a, fl("C35-B2"))
	pk := c.P.Pkg(a.pkgRel)
	if pk == nil {
		c.Undecided("C35-F0", "package", 0, "package "+a.pkgRel+" not loaded")
		return
	}
	dfn := LookupFunc(pk, a.dispatcher)
	dfd := c.P.Decl(dfn)
	if dfd == nil || dfd.Body == nil {
		c.Undecided("C35-F0", "dispatcher", 0, a.dispatcher+" not found")
		return
	}
	disp := c35NewFn(c, &a, pk, dfd)

	// F0: family discovery
	var family []*c35Fn
	famCalls := map[*types.Func][]*ast.CallExpr{}
	var order []*types.Func
	ast.Inspect(dfd.Body, func(n ast.Node) bool {
		call, ok := n.(*ast.CallExpr)
		if !ok {
			return true
		}
		fn := Callee(pk.TypesInfo, call)
		if fn == nil || fn.Pkg() != pk.Types || c.P.Decl(fn) == nil || !c35LastIsError(pk.TypesInfo.TypeOf(call)) {
			return true
		}
		for _, arg := range call.Args {
			if v, ok := c35Obj(pk.TypesInfo, arg).(*types.Var); ok && c35IsIterType(v.Type()) {
				if famCalls[fn.Origin()] == nil {
					order = append(order, fn.Origin())
				}
				famCalls[fn.Origin()] = append(famCalls[fn.Origin()], call)
				break
			}
		}
		return true
	})
	var pipes []*c35Fn
	for _, fn := range order {
		fd := c.P.Decl(fn)
		f := c35NewFn(c, &a, pk, fd)
		// the callback: the dispatcher's function-typed argument and the parameter that receives it
		for _, call := range famCalls[fn] {
			for i, arg := range call.Args {
				v, ok := c35Obj(pk.TypesInfo, arg).(*types.Var)
				if !ok || !c35FuncVarWithErr(v) {
					continue
				}
				isCand := false
				for _, cv := range disp.cbCands {
					isCand = isCand || cv == v
				}
				if !isCand {
					continue
				}
				if disp.cbVar == nil {
					disp.cbVar = v
				}
				if sig, ok := fn.Type().(*types.Signature); ok && i < sig.Params().Len() {
					pv := sig.Params().At(i)
					for _, cv := range f.cbCands {
						if cv == pv {
							f.cbVar = cv
						}
					}
				}
			}
		}
		family = append(family, f)
		kind := "sequential"
		if len(f.spawnCalls) > 0 {
			kind = fmt.Sprintf("pipeline of %d stages, %d channels", len(f.stages), len(f.chans))
			pipes = append(pipes, f)
		}
		if len(f.iterVars) == 0 {
			c.Undecided("C35-F0", f.name, fd.Pos(), "no iterator-typed parameter found")
			continue
		}
		if f.opaqueSpawn != nil {
			c.Undecided("C35-F0", f.name, f.opaqueSpawn.Pos(), fmt.Sprintf("%s spawns a stage whose function is not a literal at the spawn site: its body cannot be attributed to the pipeline", f.name))
			continue
		}
		if f.foreignSpawn != nil {
			c.Bad("C35-F0", f.name, f.foreignSpawn.Pos(), fmt.Sprintf("%s starts a goroutine other than through %s: that goroutine is not a stage the pipeline rules can see (and is outside the errgroup's panic/cancel handling)", f.name, a.spawn))
			continue
		}
		c.Ok("C35-F0", f.name, fd.Pos(), kind)
	}
	if len(family) == 0 {
		c.Undecided("C35-F0", "family", dfd.Pos(), "doQuery passes its row iterator to no same-package function")
		return
	}
	if len(pipes) == 0 {
		c.Undecided("C35-F0", "pipelines", dfd.Pos(), "no member of the family spawns stages through "+a.spawn)
	}

	for _, f := range pipes {
		if f.groupVar == nil || f.gctxVar == nil {
			c.Undecided("C35-P3", f.name+"/group", f.fd.Pos(), "the errgroup and its context (results of "+a.newGroup+") were not found")
			continue
		}
		f.ruleP1()
		f.ruleP2()
		f.ruleP3()
		f.ruleP4()
		f.ruleB1()
		f.ruleW1()
		f.ruleFlag()
		f.ruleDeliver()
	}
	c35RuleP5(c, pipes)
	for _, f := range family {
		f.ruleE1()
		f.ruleColumns()
	}
	disp.ruleE1()
	disp.ruleP6(famCalls)
	if os.Getenv("VCHK_DUMP") != "" && !c.fixtureMode {
		for _, o := range c.Obs {
			fmt.Printf("OBS %-7s %-9s %-70s %s  %s\n", o.Rule, o.Status, o.Key, o.Pos, o.Msg)
		}
	}
}

// ---- P1 ----------------------------------------------------------------------------------------

func (f *c35Fn) ruleP1() {
	c := f.c
	for _, ch := range f.chans {
		key := f.name + "/" + ch.v.Name()
		var sends, recvs []ast.Node
		var closes []*ast.CallExpr
		var escapes []*ast.Ident
		for _, id := range f.uses(ch.v, f.fd.Body) {
			switch p := f.parent(id).(type) {
			case *ast.SendStmt:
				if ast.Unparen(p.Chan) == ast.Expr(id) {
					sends = append(sends, p)
				} else {
					escapes = append(escapes, id)
				}
			case *ast.UnaryExpr:
				if p.Op == token.ARROW {
					recvs = append(recvs, p)
				} else {
					escapes = append(escapes, id)
				}
			case *ast.RangeStmt:
				if ast.Unparen(p.X) == ast.Expr(id) {
					recvs = append(recvs, p)
				} else {
					escapes = append(escapes, id)
				}
			case *ast.CallExpr:
				switch {
				case IsBuiltinCall(f.info, p, "close"):
					closes = append(closes, p)
				case IsBuiltinCall(f.info, p, "len"), IsBuiltinCall(f.info, p, "cap"):
				default:
					escapes = append(escapes, id)
				}
			default:
				escapes = append(escapes, id)
			}
		}
		stagesOf := func(ns []ast.Node) (set []*c35Stage, outside ast.Node) {
			for _, n := range ns {
				s := f.stageOf(n)
				if s == nil {
					outside = n
					continue
				}
				dup := false
				for _, x := range set {
					dup = dup || x == s
				}
				if !dup {
					set = append(set, s)
				}
			}
			return
		}
		// confined
		if len(escapes) > 0 {
			c.Bad("C35-P1", key+"/confined", escapes[0].Pos(), fmt.Sprintf("%s: channel %s is used other than by send/receive/close/len/cap (passed on, stored or aliased): its producers and consumers can no longer be enumerated", f.name, ch.v.Name()))
		} else {
			c.Ok("C35-P1", key+"/confined", ch.v.Pos(), "only send/receive/close/len/cap")
		}
		// single sender
		ss, out := stagesOf(sends)
		switch {
		case out != nil:
			c.Bad("C35-P1", key+"/single-sender", out.Pos(), fmt.Sprintf("%s: send on %s outside a spawned stage", f.name, ch.v.Name()))
		case len(ss) != 1:
			c.Bad("C35-P1", key+"/single-sender", ch.v.Pos(), fmt.Sprintf("%s: channel %s is sent on by %d stages (want exactly one: rows of two producers interleave)", f.name, ch.v.Name(), len(ss)))
		default:
			ch.sender = ss[0]
			c.Ok("C35-P1", key+"/single-sender", sends[0].Pos(), "all sends in "+ss[0].name)
		}
		// single receiver
		rs, out := stagesOf(recvs)
		switch {
		case out != nil:
			c.Bad("C35-P1", key+"/single-receiver", out.Pos(), fmt.Sprintf("%s: receive from %s outside a spawned stage", f.name, ch.v.Name()))
		case len(rs) != 1:
			c.Bad("C35-P1", key+"/single-receiver", ch.v.Pos(), fmt.Sprintf("%s: channel %s is received from by %d stages (want exactly one: with two consumers each sees only part of the rows, in no defined order)", f.name, ch.v.Name(), len(rs)))
		case ch.sender != nil && rs[0] == ch.sender:
			c.Bad("C35-P1", key+"/single-receiver", recvs[0].Pos(), fmt.Sprintf("%s: channel %s is received from by the stage that sends on it", f.name, ch.v.Name()))
		default:
			ch.receiver = rs[0]
			c.Ok("C35-P1", key+"/single-receiver", recvs[0].Pos(), "all receives in "+rs[0].name)
		}
		// closed by the sender, exactly once, on every exit path, never before a send
		ckey := key + "/closed-by-sender"
		f.p1Close(ch, ckey, closes)
	}
}

func (f *c35Fn) p1Close(ch *c35Chan, ckey string, closes []*ast.CallExpr) {
	c := f.c
	if ch.sender == nil {
		c.Bad("C35-P1", ckey, ch.v.Pos(), fmt.Sprintf("%s: channel %s has no unique sending stage, so no stage is entitled to close it", f.name, ch.v.Name()))
		return
	}
	if len(closes) == 0 {
		c.Bad("C35-P1", ckey, ch.v.Pos(), fmt.Sprintf("%s: channel %s is never closed (want: by %s, on every exit path): the receiving stage never learns that the rows are complete and the statement hangs", f.name, ch.v.Name(), ch.sender.name))
		return
	}
	sites := map[ast.Node]bool{}
	anyDeferred := false
	for _, cl := range closes {
		if f.stageOf(cl) != ch.sender {
			c.Bad("C35-P1", ckey, cl.Pos(), fmt.Sprintf("%s: channel %s is closed outside its sending stage %s (send on a closed channel panics; close before the last send loses rows)", f.name, ch.v.Name(), ch.sender.name))
			return
		}
		st, deferred, ok := f.siteOf(ch.sender, cl)
		if !ok {
			c.Bad("C35-P1", ckey, cl.Pos(), f.name+": close of "+ch.v.Name()+" is neither a statement of the sending stage nor deferred by it on every path")
			return
		}
		sites[st] = true
		anyDeferred = anyDeferred || deferred
	}
	if anyDeferred && len(closes) > 1 {
		c.Bad("C35-P1", ckey, closes[1].Pos(), fmt.Sprintf("%s/%s: %s is closed by a defer and at %d further places: closing a closed channel panics", f.name, ch.sender.name, ch.v.Name(), len(closes)-1))
		return
	}
	g := c.P.CFG(f.info, ch.sender.lit.Body)
	isClose := func(n ast.Node) bool { return sites[n] }
	if p := PathAvoiding(g, EntryPoint(g), isClose, nil, nil); p != nil {
		c.Bad("C35-P1", ckey, closes[0].Pos(), fmt.Sprintf("%s/%s: an exit of the sending stage is reachable without closing %s: the receiving stage blocks forever on a channel nobody will close", f.name, ch.sender.name, ch.v.Name()), c.P.DescribePath(p)...)
		return
	}
	for st := range sites {
		pt, ok := FindNode(g, st)
		if !ok {
			continue
		}
		for _, n := range ReachableNodes(g, pt, nil, nil) {
			bad := ""
			if sites[n] {
				bad = "a close is reachable after a close (loop or second close on the same path): closing a closed channel panics"
			}
			if !anyDeferred && f.nodeSendsOn(n, ch.v) {
				bad = "a send on the channel is reachable after the close"
			}
			if bad != "" {
				c.Bad("C35-P1", ckey, st.Pos(), fmt.Sprintf("%s/%s: %s", f.name, ch.sender.name, bad))
				return
			}
		}
	}
	how := "close(" + ch.v.Name() + ") on every exit path of " + ch.sender.name
	if anyDeferred {
		how = "defer " + how
	}
	c.Ok("C35-P1", ckey, closes[0].Pos(), how)
}

// siteOf: the statement of stage s that executes `call` — the call's own statement when it stands
// directly in the stage literal (deferred or not), or the stage's `defer func(){ … }()` statement when
// the call is inside such a deferred literal and is executed on every path of it.
func (f *c35Fn) siteOf(s *c35Stage, call *ast.CallExpr) (st ast.Node, deferred, ok bool) {
	own := func(c *ast.CallExpr) (ast.Node, bool, bool) {
		switch p := f.parent(c).(type) {
		case *ast.DeferStmt:
			return p, true, true
		case *ast.ExprStmt:
			return p, false, true
		}
		return nil, false, false
	}
	u := f.unitOf(call)
	if u == s.lit {
		return own(call)
	}
	if u == nil {
		return nil, false, false
	}
	outer, isCall := f.parent(u).(*ast.CallExpr)
	if !isCall || ast.Unparen(outer.Fun) != ast.Expr(u) {
		return nil, false, false
	}
	ds, isDefer := f.parent(outer).(*ast.DeferStmt)
	if !isDefer || f.unitOf(ds) != s.lit {
		return nil, false, false
	}
	inner, _, ok := own(call)
	if !ok {
		return nil, false, false
	}
	lg := f.c.P.CFG(f.info, u.Body)
	if PathAvoiding(lg, EntryPoint(lg), func(n ast.Node) bool { return n == inner }, nil, nil) != nil {
		return nil, false, false
	}
	if pt, found := FindNode(lg, inner); found {
		for _, n := range ReachableNodes(lg, pt, nil, nil) {
			if n == inner {
				return nil, false, false
			}
		}
	}
	return ds, true, true
}

func (f *c35Fn) nodeSendsOn(n ast.Node, ch *types.Var) bool {
	found := false
	inspectNoLit(n, func(m ast.Node) bool {
		if s, ok := m.(*ast.SendStmt); ok && c35Obj(f.info, s.Chan) == ch {
			found = true
		}
		return !found
	})
	return found
}

// ---- P2 ----------------------------------------------------------------------------------------

func (f *c35Fn) ruleP2() {
	c := f.c
	if f.wgVar == nil {
		c.Undecided("C35-P2", f.name+"/wg.Add", f.fd.Pos(), "no sync.WaitGroup variable in the pipeline function")
		return
	}
	var adds, dones, waits []*ast.CallExpr
	var other []*ast.Ident
	for _, id := range f.uses(f.wgVar, f.fd.Body) {
		sel, ok := f.parent(id).(*ast.SelectorExpr)
		var call *ast.CallExpr
		if ok {
			call, _ = f.parent(sel).(*ast.CallExpr)
		}
		if call == nil || ast.Unparen(call.Fun) != ast.Expr(sel) {
			other = append(other, id)
			continue
		}
		switch sel.Sel.Name {
		case "Add":
			adds = append(adds, call)
		case "Done":
			dones = append(dones, call)
		case "Wait":
			waits = append(waits, call)
		default:
			other = append(other, id)
		}
	}
	g := c.P.CFG(f.info, f.fd.Body)
	// per-stage Done
	withDone := 0
	var closer *c35Stage
	var closeCalls []*ast.CallExpr
	ast.Inspect(f.fd.Body, func(n ast.Node) bool {
		if call, ok := n.(*ast.CallExpr); ok {
			if m, ok := f.iterMethodCall(call); ok && m == "Close" {
				closeCalls = append(closeCalls, call)
			}
		}
		return true
	})
	closeStages := map[*c35Stage]bool{}
	for _, cc := range closeCalls {
		closeStages[f.stageOf(cc)] = true
	}
	if len(closeStages) == 1 {
		for s := range closeStages {
			closer = s
		}
	}
	for _, s := range f.stages {
		var mine []*ast.CallExpr
		for _, d := range dones {
			if f.stageOf(d) == s {
				mine = append(mine, d)
			}
		}
		key := f.name + "/" + s.name + "/wg.Done"
		if len(mine) == 0 {
			if s == closer {
				continue // the closing stage waits for the others; it is not counted
			}
			c.Bad("C35-P2", key, s.lit.Pos(), fmt.Sprintf("%s/%s: the stage does not `defer wg.Done()`: the closing stage's wg.Wait() does not wait for it, so iter.Close can run while the stage still uses the iterator/rows (or, if Add counts it, Wait never returns)", f.name, s.name))
			continue
		}
		if s == closer || (closer == nil && f.containsCall(s.lit.Body, func(call *ast.CallExpr) bool { return f.isMethodCallOn(call, f.wgVar, "Wait") })) {
			c.Bad("C35-P2", key, mine[0].Pos(), fmt.Sprintf("%s/%s: the stage that calls wg.Wait() is itself counted in the WaitGroup: it waits for its own Done and never proceeds to iter.Close", f.name, s.name))
			continue
		}
		dsn, isDeferred, ok := f.siteOf(s, mine[0])
		ok = ok && isDeferred && len(mine) == 1
		var path []ast.Node
		if ok {
			sg := c.P.CFG(f.info, s.lit.Body)
			path = PathAvoiding(sg, EntryPoint(sg), func(n ast.Node) bool { return n == dsn }, nil, nil)
			if path == nil {
				if pt, found := FindNode(sg, dsn); found {
					for _, n := range ReachableNodes(sg, pt, nil, nil) {
						if n == dsn {
							ok = false
						}
					}
				}
			}
		}
		if !ok || path != nil {
			c.Bad("C35-P2", key, mine[0].Pos(), fmt.Sprintf("%s/%s: wg.Done must be deferred exactly once on every path of the stage (a panic recovered by the spawn helper, or an early return, would otherwise leave wg.Wait blocked forever, or a second Done makes the counter negative)", f.name, s.name), c.P.DescribePath(path)...)
			continue
		}
		withDone++
		c.Ok("C35-P2", key, mine[0].Pos(), "defer wg.Done() on every path, once")
	}
	// Add: constant Add calls in the function body, all before any spawn, none in a loop; their sum
	// is the number of counted stages
	akey := f.name + "/wg.Add"
	{
		sum, bad := int64(0), ""
		var pos token.Pos = f.wgVar.Pos()
		if len(adds) == 0 {
			bad = "no wg.Add call"
		}
		for _, ad := range adds {
			pos = ad.Pos()
			if f.unitOf(ad) != nil || len(ad.Args) != 1 {
				bad = "wg.Add must be called by the pipeline function itself, before the stages are spawned"
				break
			}
			tv := f.info.Types[ad.Args[0]]
			if tv.Value == nil {
				bad = "the argument of wg.Add is not a constant"
				break
			}
			n, exact := constant.Int64Val(constant.ToInt(tv.Value))
			pt, found := FindNode(g, ad)
			if !exact || !found {
				bad = "wg.Add is unreachable or its argument is not an integer constant"
				break
			}
			sum += n
			self := pt.B.Nodes[pt.I]
			for _, sp := range f.spawnCalls {
				if f.unitOf(sp) != nil {
					continue
				}
				if spt, ok := FindNode(g, sp); ok {
					for _, x := range ReachableNodes(g, spt, nil, nil) {
						if x == self {
							bad = "wg.Add is reachable after a stage has been spawned (the stage's Done, or the closing stage's Wait, can run before the Add)"
						}
					}
				}
			}
			for _, x := range ReachableNodes(g, pt, nil, nil) {
				if x == self {
					bad = "wg.Add is inside a loop"
				}
			}
			if bad != "" {
				break
			}
		}
		if bad == "" && int(sum) != withDone {
			bad = fmt.Sprintf("wg.Add(%d) but %d stages `defer wg.Done()`: %s", sum, withDone,
				map[bool]string{true: "wg.Wait() never returns, the iterator is never closed and the statement hangs", false: "wg.Wait() returns (or the counter goes negative and panics) while a stage is still running, so iter.Close races with it"}[int(sum) > withDone])
		}
		if bad != "" {
			c.Bad("C35-P2", akey, pos, f.name+": "+bad)
		} else {
			c.Ok("C35-P2", akey, pos, fmt.Sprintf("wg.Add(%d) = %d stages with defer wg.Done(), before every spawn", sum, withDone))
		}
	}
	// Close after Wait
	ckey := f.name + "/iter.Close-after-wg.Wait"
	switch {
	case len(closeCalls) == 0:
		c.Bad("C35-P2", ckey, f.fd.Pos(), f.name+": the iterator is never closed (Close commits the autocommit transaction and ends the query in the process list)")
	case closer == nil:
		c.Bad("C35-P2", ckey, closeCalls[0].Pos(), f.name+": iter.Close must be called in exactly one spawned stage")
	default:
		sg := c.P.CFG(f.info, closer.lit.Body)
		isWait := func(n ast.Node) bool {
			return f.containsCallNoLit(n, func(call *ast.CallExpr) bool { return f.isMethodCallOn(call, f.wgVar, "Wait") })
		}
		var bad []ast.Node
		for _, cc := range closeCalls {
			if f.unitOf(cc) != closer.lit {
				bad = []ast.Node{cc}
				break
			}
			cc := cc
			if p := PathAvoiding(sg, EntryPoint(sg), isWait, func(n ast.Node) bool { return c48Contains(n, cc) }, nil); p != nil {
				bad = p
				break
			}
		}
		waitOutside := false
		for _, w := range waits {
			if f.stageOf(w) != closer {
				waitOutside = true
			}
		}
		switch {
		case bad != nil:
			c.Bad("C35-P2", ckey, closeCalls[0].Pos(), fmt.Sprintf("%s/%s: iter.Close is reachable without a preceding wg.Wait(): the iterator is closed while the reading stage may be inside iter.Next and before the rows have been sent", f.name, closer.name), c.P.DescribePath(bad)...)
		case waitOutside:
			c.Bad("C35-P2", ckey, waits[0].Pos(), f.name+": wg.Wait is called outside the closing stage")
		default:
			c.Ok("C35-P2", ckey, closeCalls[0].Pos(), "iter.Close only in "+closer.name+", after wg.Wait() on every path")
		}
	}
	if len(other) > 0 {
		c.Bad("C35-P2", f.name+"/wg-confined", other[0].Pos(), f.name+": the WaitGroup is used other than through Add/Done/Wait (its counter can no longer be accounted for)")
	} else {
		c.Ok("C35-P2", f.name+"/wg-confined", f.wgVar.Pos(), "only Add/Done/Wait")
	}
}

// ---- P3 ----------------------------------------------------------------------------------------

type c35Op struct {
	node ast.Node
	stmt ast.Stmt // the statement that has to be the communication of a select case
	ch   ast.Expr
	kind string
}

func (f *c35Fn) stageOps(s *c35Stage) []c35Op {
	var ops []c35Op
	ast.Inspect(s.lit.Body, func(n ast.Node) bool {
		switch x := n.(type) {
		case *ast.SendStmt:
			ops = append(ops, c35Op{x, x, x.Chan, "send"})
		case *ast.UnaryExpr:
			if x.Op != token.ARROW {
				return true
			}
			if o, ok := f.doneRecvVar(x); ok && o == f.gctxVar {
				return true // the cancellation case itself
			}
			op := c35Op{node: x, ch: x.X, kind: "recv"}
			switch p := f.parent(x).(type) {
			case *ast.ExprStmt:
				op.stmt = p
			case *ast.AssignStmt:
				op.stmt = p
			}
			ops = append(ops, op)
		case *ast.RangeStmt:
			if _, ok := f.info.TypeOf(x.X).Underlying().(*types.Chan); ok {
				ops = append(ops, c35Op{x, nil, x.X, "range"})
			}
		}
		return true
	})
	return ops
}

func (f *c35Fn) ruleP3() {
	c := f.c
	// the group context must not be rebound after it was obtained
	for _, id := range f.uses(f.gctxVar, f.fd.Body) {
		if as, ok := f.parent(id).(*ast.AssignStmt); ok && as != f.groupAssign {
			for _, l := range as.Lhs {
				if ast.Unparen(l) == ast.Expr(id) {
					c.Bad("C35-P3", f.name+"/group-context-rebound", id.Pos(), f.name+": the errgroup's context variable is assigned again: the stages' Done cases no longer watch the group")
				}
			}
		}
	}
	for _, s := range f.stages {
		for _, op := range f.stageOps(s) {
			key := f.name + "/" + s.name + "/" + op.kind + " " + types.ExprString(op.ch)
			var sel *ast.SelectStmt
			if op.stmt != nil {
				if cc, ok := f.parents[op.stmt].(*ast.CommClause); ok && cc.Comm == op.stmt {
					if blk, ok := f.parents[cc].(*ast.BlockStmt); ok {
						sel, _ = f.parents[blk].(*ast.SelectStmt)
					}
				}
			}
			if sel == nil {
				c.Bad("C35-P3", key, op.node.Pos(), fmt.Sprintf("%s/%s: blocking %s on %s outside a select: when another stage fails (client gone, conversion error) this stage stays blocked, group.Wait() never returns and the error never reaches the client", f.name, s.name, op.kind, types.ExprString(op.ch)))
				continue
			}
			ok := false
			for _, cl := range sel.Body.List {
				cc := cl.(*ast.CommClause)
				if cc.Comm == nil || f.isGroupDoneClause(cc) {
					ok = true
				}
			}
			if !ok {
				c.Bad("C35-P3", key, op.node.Pos(), fmt.Sprintf("%s/%s: the select around the %s on %s has no `<-%s.Done()` case (%s being the errgroup's context) and no default: the stage cannot be cancelled while blocked here", f.name, s.name, op.kind, types.ExprString(op.ch), f.gctxVar.Name(), f.gctxVar.Name()))
				continue
			}
			c.Ok("C35-P3", key, op.node.Pos(), "case of a select with a group-context Done case or default")
		}
		// every Done case leaves the stage
		sg := c.P.CFG(f.info, s.lit.Body)
		comms := c35CommStmts(s.lit.Body)
		ast.Inspect(s.lit.Body, func(n ast.Node) bool {
			cc, ok := n.(*ast.CommClause)
			if !ok || !f.isGroupDoneClause(cc) {
				return true
			}
			key := f.name + "/" + s.name + "/ctx.Done-arm"
			var blk *cfg.Block
			for _, b := range sg.Blocks {
				if b.Kind == cfg.KindSelectCaseBody && b.Stmt == ast.Node(cc) {
					blk = b
				}
			}
			if blk == nil {
				c.Undecided("C35-P3", key, cc.Pos(), "select case not found in the control-flow graph")
				return true
			}
			var again ast.Node
			for _, m := range ReachableNodes(sg, CFGPoint{blk, -1}, nil, nil) {
				if st, ok := m.(ast.Stmt); ok && comms[st] != nil {
					again = m
				}
				if _, ok := m.(*ast.SendStmt); ok {
					again = m
				}
			}
			if again != nil {
				c.Bad("C35-P3", key, cc.Pos(), fmt.Sprintf("%s/%s: after `<-%s.Done()` fired the stage does not return: it reaches %s again (it spins or blocks instead of terminating, so group.Wait() can hang)", f.name, s.name, f.gctxVar.Name(), c.P.Rel(again.Pos())))
			} else {
				c.Ok("C35-P3", key, cc.Pos(), "the Done case leaves the stage")
			}
			return true
		})
	}
}

// c35CommStmts maps the communication statements of every select in body (not in nested literals'
// own selects — they are included too, which is harmless) to their clause. go/cfg evaluates all of a
// select's communication statements as plain nodes before branching; path rules skip those nodes and
// take the event on the edge into the case body instead.
func c35CommStmts(body ast.Node) map[ast.Stmt]*ast.CommClause {
	m := map[ast.Stmt]*ast.CommClause{}
	ast.Inspect(body, func(n ast.Node) bool {
		if cc, ok := n.(*ast.CommClause); ok && cc.Comm != nil {
			m[cc.Comm] = cc
		}
		return true
	})
	return m
}

// ---- P5 ----------------------------------------------------------------------------------------

func (f *c35Fn) topology() string {
	idx := func(s *c35Stage) int {
		for i, x := range f.stages {
			if x == s {
				return i
			}
		}
		return -1
	}
	var parts []string
	for i, s := range f.stages {
		var roles []string
		if f.containsCall(s.lit.Body, func(call *ast.CallExpr) bool { m, ok := f.iterMethodCall(call); return ok && m != "Close" }) {
			roles = append(roles, "reads-iterator")
		}
		if f.containsCall(s.lit.Body, f.isCallbackCall) {
			roles = append(roles, "calls-callback")
		}
		if f.containsCall(s.lit.Body, func(call *ast.CallExpr) bool { m, ok := f.iterMethodCall(call); return ok && m == "Close" }) {
			roles = append(roles, "closes-iterator")
		}
		if f.wgVar != nil && f.containsCall(s.lit.Body, func(call *ast.CallExpr) bool { return f.isMethodCallOn(call, f.wgVar, "Wait") }) {
			roles = append(roles, "waits")
		}
		if f.wgVar != nil && f.containsCall(s.lit.Body, func(call *ast.CallExpr) bool { return f.isMethodCallOn(call, f.wgVar, "Done") }) {
			roles = append(roles, "counted")
		}
		parts = append(parts, fmt.Sprintf("stage%d[%s]", i, strings.Join(roles, " ")))
	}
	var chs []string
	for _, ch := range f.chans {
		chs = append(chs, fmt.Sprintf("chan(stage%d->stage%d)", idx(ch.sender), idx(ch.receiver)))
	}
	sort.Strings(chs)
	return strings.Join(parts, " ") + " | " + strings.Join(chs, " ")
}

func c35RuleP5(c *Ctx, pipes []*c35Fn) {
	if len(pipes) < 2 {
		return
	}
	pipes = append([]*c35Fn{}, pipes...)
	sort.Slice(pipes, func(i, j int) bool { return pipes[i].name < pipes[j].name })
	ref := pipes[0]
	rt := ref.topology()
	for _, f := range pipes[1:] {
		key := ref.name + "~" + f.name
		if t := f.topology(); t != rt {
			c.Bad("C35-P5", key, f.fd.Pos(), fmt.Sprintf("the sibling pipelines differ stage by stage: %s is {%s}, %s is {%s}; the two deliver the same statement kinds and must order, count and close alike", ref.name, rt, f.name, t))
		} else {
			c.Ok("C35-P5", key, f.fd.Pos(), rt)
		}
	}
}

// ---- B1 ----------------------------------------------------------------------------------------

func (f *c35Fn) ruleB1() {
	c := f.c
	isConfined := func(t types.Type) bool {
		pt, ok := t.(*types.Pointer)
		if !ok {
			return false
		}
		nt, ok := pt.Elem().(*types.Named)
		if !ok || nt.Obj().Pkg() == nil {
			return false
		}
		full := nt.Obj().Pkg().Path() + "." + nt.Obj().Name()
		for _, x := range f.a.confinedTypes {
			if x == full {
				return true
			}
		}
		return false
	}
	var vars []*types.Var
	ast.Inspect(f.fd, func(n ast.Node) bool {
		if id, ok := n.(*ast.Ident); ok {
			if v, ok := f.info.Defs[id].(*types.Var); ok && !v.IsField() && isConfined(v.Type()) {
				vars = append(vars, v)
			}
		}
		return true
	})
	if len(vars) == 0 {
		return
	}
	g := c.P.CFG(f.info, f.fd.Body)
	concurrent := map[ast.Node]bool{}
	isWait := func(n ast.Node) bool {
		return f.containsCallNoLit(n, func(call *ast.CallExpr) bool { return f.isMethodCallOn(call, f.groupVar, "Wait") })
	}
	for _, sp := range f.spawnCalls {
		if pt, ok := FindNode(g, sp); ok {
			for _, n := range ReachableNodes(g, pt, isWait, nil) {
				concurrent[n] = true
			}
		}
	}
	for _, v := range vars {
		key := f.name + "/confined " + v.Name()
		owners := map[*c35Stage]bool{}
		bad := ""
		var badPos token.Pos
		for _, id := range f.uses(v, f.fd.Body) {
			s := f.stageOf(id)
			switch {
			case s != nil:
				owners[s] = true
			case f.unitOf(id) != nil:
				bad = fmt.Sprintf("it is used in a function literal that is not a stage (stored in %s): the literal runs on whichever goroutine calls it, concurrently with the stage that fills the buffer", f.litHolder(f.unitOf(id)))
				badPos = id.Pos()
			default:
				if pt, ok := FindNode(g, id); ok && concurrent[pt.B.Nodes[pt.I]] {
					bad = "the function body uses it while the stages are running"
					badPos = id.Pos()
				}
			}
		}
		if bad == "" && len(owners) > 1 {
			var ns []string
			for s := range owners {
				ns = append(ns, s.name)
			}
			sort.Strings(ns)
			bad = "it is used by " + strings.Join(ns, " and ") + " concurrently"
			badPos = v.Pos()
		}
		if bad != "" {
			c.Bad("C35-B1", key, badPos, fmt.Sprintf("%s: %s %s has no lock and backs the encoded bytes of every row that is batched but not yet delivered; %s (a Reset/Grow from a second goroutine overwrites rows in flight)", f.name, types.TypeString(v.Type(), nil), v.Name(), bad))
			continue
		}
		c.Ok("C35-B1", key, v.Pos(), "used by one stage only")
	}
}

// litHolder: the variable a literal is assigned to, for messages.
func (f *c35Fn) litHolder(l *ast.FuncLit) string {
	if as, ok := f.parent(l).(*ast.AssignStmt); ok {
		for i, r := range as.Rhs {
			if ast.Unparen(r) == ast.Expr(l) && i < len(as.Lhs) {
				return types.ExprString(as.Lhs[i])
			}
		}
	}
	return "a closure"
}
