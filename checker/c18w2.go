package main

import (
	"fmt"
	"go/ast"
	"go/token"
	"go/types"
	"sort"
	"strings"

	"golang.org/x/tools/go/packages"
)

// C18-W2 — node MODES that delete or update existing rows get the parent-side editor.
//
// Executor side (read from rowexec): a DML iterator type has "destructive" fields: fields of an
// sql.EditOpenerCloser type through which one of its methods calls Delete or Update
// (insertIter.replacer.Delete, insertIter.updater.Update). The builder of a plan node kind
// (function with a *plan.T parameter that contains the iterator's composite literal) fills such a
// field from a local that is assigned only under conditions on the node (ii.IsReplace,
// ii.OnDupExprs.HasUpdates()): the node's mode atoms.
// Analyzer side: the *plan.T arm of applyForeignKeysToNodes reaches a parent-side installer
// (a function that, transitively inside the package, writes a non-nil ForeignKeyEditor.RefActions)
// under conditions on the same atoms.
// Obligation: for every assignment of truth values to the atoms under which the executor may fill
// the destructive field, the analyzer's arm may reach a parent-side installer (branches on the atoms
// are decided by the assignment, all other branches may go either way). Otherwise the statement
// deletes/updates parent rows with no RESTRICT / CASCADE / SET NULL handling at all.

type c18w2Env struct {
	info *types.Info
	root types.Object
}

// atom renders a boolean expression rooted at the node variable as a path ("IsReplace", "OnDupExprs.HasUpdates()").
func (e c18w2Env) atom(x ast.Expr) (string, bool) {
	switch v := ast.Unparen(x).(type) {
	case *ast.Ident:
		if e.root != nil && e.info.Uses[v] == e.root {
			return "", true
		}
	case *ast.SelectorExpr:
		if p, ok := e.atom(v.X); ok {
			if o := e.info.Uses[v.Sel]; o != nil {
				if _, isVar := o.(*types.Var); isVar {
					return strings.TrimPrefix(p+"."+v.Sel.Name, "."), true
				}
				if _, isFn := o.(*types.Func); isFn {
					return strings.TrimPrefix(p+"."+v.Sel.Name, "."), true
				}
			}
		}
	case *ast.CallExpr:
		if len(v.Args) == 0 {
			if p, ok := e.atom(v.Fun); ok && p != "" {
				return p + "()", true
			}
		}
	}
	return "", false
}

func (e c18w2Env) isBool(x ast.Expr) bool {
	t := e.info.TypeOf(x)
	if t == nil {
		return false
	}
	b, ok := t.Underlying().(*types.Basic)
	return ok && b.Info()&types.IsBoolean != 0
}

// collectAtoms: the node-rooted boolean atoms of the if-conditions under n.
func (e c18w2Env) collectAtoms(n ast.Node, into map[string]bool) {
	var walk func(x ast.Expr)
	walk = func(x ast.Expr) {
		switch v := ast.Unparen(x).(type) {
		case *ast.UnaryExpr:
			if v.Op == token.NOT {
				walk(v.X)
			}
		case *ast.BinaryExpr:
			if v.Op == token.LAND || v.Op == token.LOR {
				walk(v.X)
				walk(v.Y)
			}
		default:
			if a, ok := e.atom(x); ok && a != "" && e.isBool(x) {
				into[a] = true
			}
		}
	}
	ast.Inspect(n, func(m ast.Node) bool {
		if is, ok := m.(*ast.IfStmt); ok {
			walk(is.Cond)
		}
		return true
	})
}

// eval: 1 true, 0 false, -1 unknown.
func (e c18w2Env) eval(x ast.Expr, sigma map[string]bool) int {
	switch v := ast.Unparen(x).(type) {
	case *ast.UnaryExpr:
		if v.Op == token.NOT {
			if r := e.eval(v.X, sigma); r >= 0 {
				return 1 - r
			}
			return -1
		}
	case *ast.BinaryExpr:
		if v.Op == token.LAND || v.Op == token.LOR {
			a, b := e.eval(v.X, sigma), e.eval(v.Y, sigma)
			if v.Op == token.LAND {
				if a == 0 || b == 0 {
					return 0
				}
				if a == 1 && b == 1 {
					return 1
				}
				return -1
			}
			if a == 1 || b == 1 {
				return 1
			}
			if a == 0 && b == 0 {
				return 0
			}
			return -1
		}
	}
	if tv := e.info.Types[x]; tv.Value != nil {
		if tv.Value.ExactString() == "true" {
			return 1
		} else if tv.Value.ExactString() == "false" {
			return 0
		}
	}
	if a, ok := e.atom(x); ok && a != "" {
		if val, have := sigma[a]; have {
			if val {
				return 1
			}
			return 0
		}
	}
	return -1
}

// mayReach: can a statement satisfying target be executed when the list is run under sigma?
// Branches whose condition is decided by sigma take one edge; every other construct is over-approximated.
func (e c18w2Env) mayReach(list []ast.Stmt, sigma map[string]bool, target func(ast.Node) bool) (found, terminated bool) {
	contains := func(n ast.Node) bool {
		if n == nil {
			return false
		}
		hit := false
		ast.Inspect(n, func(m ast.Node) bool {
			if m != nil && !hit && target(m) {
				hit = true
			}
			return !hit
		})
		return hit
	}
	for _, s := range list {
		switch x := s.(type) {
		case *ast.ReturnStmt:
			return contains(x), true
		case *ast.BlockStmt:
			f, t := e.mayReach(x.List, sigma, target)
			if f {
				return true, false
			}
			if t {
				return false, true
			}
		case *ast.LabeledStmt:
			f, t := e.mayReach([]ast.Stmt{x.Stmt}, sigma, target)
			if f {
				return true, false
			}
			if t {
				return false, true
			}
		case *ast.IfStmt:
			if (x.Init != nil && contains(x.Init)) || contains(x.Cond) {
				return true, false
			}
			r := e.eval(x.Cond, sigma)
			tThen, tElse := true, false // terminated flags of the edges that can be taken
			takeThen, takeElse := r != 0, r != 1
			if takeThen {
				f, t := e.mayReach(x.Body.List, sigma, target)
				if f {
					return true, false
				}
				tThen = t
			}
			if takeElse {
				if x.Else != nil {
					f, t := e.mayReach([]ast.Stmt{x.Else}, sigma, target)
					if f {
						return true, false
					}
					tElse = t
				}
			} else {
				tElse = true
			}
			if tThen && tElse {
				return false, true
			}
		case *ast.ForStmt, *ast.RangeStmt, *ast.SwitchStmt, *ast.TypeSwitchStmt, *ast.SelectStmt:
			if contains(x) {
				return true, false
			}
		default:
			if contains(s) {
				return true, false
			}
			if es, ok := s.(*ast.ExprStmt); ok {
				if call, ok := es.X.(*ast.CallExpr); ok {
					if id, ok := call.Fun.(*ast.Ident); ok && id.Name == "panic" && e.info.Uses[id] == types.Universe.Lookup("panic") {
						return false, true
					}
				}
			}
		}
	}
	return false, false
}

func c18ModeWiring(c *Ctx, p c18Params, oc *types.Interface, floor int) {
	c.Rule("C18-W2", "every mode of a DML plan node under which its executor may delete or update existing rows (an sql.EditOpenerCloser field of the row-editing iterator through which Delete/Update is called, filled by the builder under conditions on the node) reaches, in the node's arm of applyForeignKeysToNodes, a function that installs the parent-side referential actions (writes ForeignKeyEditor.RefActions)", floor)
	ex, an, planPk := c.P.Pkg(p.execRel), c.P.Pkg(p.analyzerRel), c.P.Pkg(p.planRel)
	ri := dmlLookupIface(c.P, p.sqlRel, p.iterIface)
	if ex == nil || an == nil || planPk == nil || ri == nil || oc == nil {
		c.Undecided("C18-W2", "packages", 0, "rowexec / analyzer / plan not loaded")
		return
	}
	einfo, ainfo := ex.TypesInfo, an.TypesInfo
	// 1. destructive fields of the row-editing iterators
	type dfield struct {
		fld *types.Var
		ops map[string]bool
	}
	destr := map[*types.Named]map[*types.Var]*dfield{}
	for _, nt := range dmlNamedTypes(ex) {
		if !dmlImplements(nt, ri) {
			continue
		}
		for _, fd := range dmlMethodDecls(ex, nt) {
			recv := dmlRecvObj(einfo, fd)
			if recv == nil {
				continue
			}
			ast.Inspect(fd.Body, func(n ast.Node) bool {
				call, ok := n.(*ast.CallExpr)
				if !ok {
					return true
				}
				sel, ok := ast.Unparen(call.Fun).(*ast.SelectorExpr)
				if !ok || !dmlImplements(einfo.TypeOf(sel.X), oc) {
					return true
				}
				op := ""
				for _, o := range p.ops {
					if sel.Sel.Name == o {
						op = o
					}
				}
				if op == "" {
					return true
				}
				fs, ok := ast.Unparen(sel.X).(*ast.SelectorExpr)
				if !ok {
					return true
				}
				id, ok := ast.Unparen(fs.X).(*ast.Ident)
				if !ok || einfo.Uses[id] != recv {
					return true
				}
				fv, _ := einfo.Uses[fs.Sel].(*types.Var)
				if fv == nil || !fv.IsField() {
					return true
				}
				if destr[nt] == nil {
					destr[nt] = map[*types.Var]*dfield{}
				}
				if destr[nt][fv] == nil {
					destr[nt][fv] = &dfield{fv, map[string]bool{}}
				}
				destr[nt][fv].ops[op] = true
				return true
			})
		}
	}
	if len(destr) == 0 {
		c.Undecided("C18-W2", "destructive-fields", 0, "no row-editing iterator of "+p.execRel+" calls Delete/Update through an editor field")
		return
	}
	// 2. parent-side installers of the analyzer
	editorTN, _ := planPk.Types.Scope().Lookup(p.editorType).(*types.TypeName)
	if editorTN == nil {
		c.Undecided("C18-W2", "anchors", 0, "plan."+p.editorType+" not found")
		return
	}
	var refField *types.Var
	if st, ok := editorTN.Type().Underlying().(*types.Struct); ok {
		for i := 0; i < st.NumFields(); i++ {
			if st.Field(i).Name() == "RefActions" {
				refField = st.Field(i)
			}
		}
	}
	if refField == nil {
		c.Undecided("C18-W2", "anchors", 0, "plan."+p.editorType+" has no RefActions field: the parent-side half of the editor cannot be identified")
		return
	}
	isNil := func(info *types.Info, x ast.Expr) bool {
		id, ok := ast.Unparen(x).(*ast.Ident)
		return ok && info.Uses[id] == types.Universe.Lookup("nil")
	}
	installers := map[*types.Func]bool{}
	acalls := map[*types.Func][]*types.Func{}
	c.P.EachFuncDecl([]string{p.analyzerRel}, func(_ *packages.Package, fd *ast.FuncDecl) {
		fn, _ := ainfo.Defs[fd.Name].(*types.Func)
		if fn == nil || fd.Body == nil {
			return
		}
		ast.Inspect(fd.Body, func(n ast.Node) bool {
			switch x := n.(type) {
			case *ast.KeyValueExpr:
				if id, ok := x.Key.(*ast.Ident); ok && ainfo.Uses[id] == refField && !isNil(ainfo, x.Value) {
					installers[fn] = true
				}
			case *ast.AssignStmt:
				for i, l := range x.Lhs {
					base := ast.Unparen(l)
					if ix, ok := base.(*ast.IndexExpr); ok {
						base = ast.Unparen(ix.X)
					}
					if sel, ok := base.(*ast.SelectorExpr); ok && ainfo.Uses[sel.Sel] == refField {
						if len(x.Rhs) != len(x.Lhs) || !isNil(ainfo, x.Rhs[i]) {
							installers[fn] = true
						}
					}
				}
			case *ast.CallExpr:
				if cf := Callee(ainfo, x); cf != nil && cf.Pkg() == an.Types {
					acalls[fn] = append(acalls[fn], cf.Origin())
				}
			}
			return true
		})
	})
	for changed := true; changed; {
		changed = false
		for fn, cs := range acalls {
			if installers[fn] {
				continue
			}
			for _, cf := range cs {
				if installers[cf] {
					installers[fn] = true
					changed = true
				}
			}
		}
	}
	_, afd := c.P.FuncDecl(p.analyzerRel, p.applyFn)
	if afd == nil {
		c.Undecided("C18-W2", p.applyFn, 0, "function not found")
		return
	}
	afn, _ := ainfo.Defs[afd.Name].(*types.Func)
	delete(installers, afn)
	if len(installers) == 0 {
		c.Undecided("C18-W2", p.applyFn, afd.Pos(), "no function of "+p.analyzerRel+" writes a non-nil "+p.editorType+".RefActions")
		return
	}
	var ts *ast.TypeSwitchStmt
	for _, st := range afd.Body.List {
		if x, ok := st.(*ast.TypeSwitchStmt); ok {
			ts = x
		}
	}
	if ts == nil {
		c.Undecided("C18-W2", p.applyFn, afd.Pos(), "no type switch over the node")
		return
	}
	isInstallerCall := func(n ast.Node) bool {
		call, ok := n.(*ast.CallExpr)
		if !ok {
			return false
		}
		cf := Callee(ainfo, call)
		return cf != nil && installers[cf.Origin()]
	}
	// 3. builders: functions of rowexec with a *plan.T parameter that contain the iterator literal
	type inst struct {
		key  string
		pos  token.Pos
		run  func()
		sort string
	}
	var insts []inst
	c.P.EachFuncDecl([]string{p.execRel}, func(_ *packages.Package, fd *ast.FuncDecl) {
		fn, _ := einfo.Defs[fd.Name].(*types.Func)
		if fn == nil || fd.Body == nil {
			return
		}
		sig := fn.Type().(*types.Signature)
		var nodeParam *types.Var
		var nodeNT *types.Named
		for i := 0; i < sig.Params().Len(); i++ {
			pt := sig.Params().At(i).Type()
			if _, isPtr := pt.(*types.Pointer); isPtr {
				if nt := dmlNamedOf(pt); nt != nil && nt.Obj().Pkg() == planPk.Types {
					nodeParam, nodeNT = sig.Params().At(i), nt
				}
			}
		}
		if nodeParam == nil {
			return
		}
		ast.Inspect(fd.Body, func(n ast.Node) bool {
			cl, ok := n.(*ast.CompositeLit)
			if !ok {
				return true
			}
			nt := dmlNamedOf(einfo.TypeOf(cl))
			if nt == nil || destr[nt] == nil {
				return true
			}
			for _, el := range cl.Elts {
				kv, ok := el.(*ast.KeyValueExpr)
				if !ok {
					continue
				}
				kid, ok := kv.Key.(*ast.Ident)
				if !ok {
					continue
				}
				fv, _ := einfo.Uses[kid].(*types.Var)
				df := destr[nt][fv]
				if df == nil {
					continue
				}
				var ops []string
				for o := range df.ops {
					ops = append(ops, o)
				}
				sort.Strings(ops)
				key := fmt.Sprintf("%s/plan.%s/%s.%s", p.applyFn, nodeNT.Obj().Name(), fv.Name(), strings.Join(ops, "+"))
				val := kv.Value
				nodeName := nodeNT.Obj().Name()
				insts = append(insts, inst{key: key, pos: kv.Pos(), sort: key, run: func() {
					c18w2Decide(c, p, key, nodeName, fv.Name(), ops, fd, fn, nodeParam, val, einfo, ainfo, ts, planPk, isInstallerCall)
				}})
			}
			return true
		})
	})
	if len(insts) == 0 {
		c.Undecided("C18-W2", "builders", 0, "no builder of "+p.execRel+" fills a destructive iterator field from a plan node")
		return
	}
	sort.Slice(insts, func(i, j int) bool { return insts[i].sort < insts[j].sort })
	for _, in := range insts {
		in.run()
	}
}

func c18w2Decide(c *Ctx, p c18Params, key, nodeName, fieldName string, ops []string, bfd *ast.FuncDecl, bfn *types.Func, nodeParam *types.Var, val ast.Expr,
	einfo, ainfo *types.Info, ts *ast.TypeSwitchStmt, planPk *packages.Package, isInstallerCall func(ast.Node) bool) {
	eenv := c18w2Env{einfo, nodeParam}
	// the analyzer's arm
	var arm *ast.CaseClause
	for _, st := range ts.Body.List {
		cc := st.(*ast.CaseClause)
		for _, e := range cc.List {
			if nt := dmlNamedOf(ainfo.TypeOf(e)); nt != nil && nt.Obj().Pkg() == planPk.Types && nt.Obj().Name() == nodeName {
				arm = cc
			}
		}
	}
	if arm == nil {
		c.Note("C18-W2", key, bfd.Pos(), "no arm for plan."+nodeName+" in "+p.applyFn+": reported by C18-W")
		return
	}
	aenv := c18w2Env{ainfo, ainfo.Implicits[arm]}
	if aenv.root == nil {
		if as, ok := ts.Assign.(*ast.ExprStmt); ok {
			if ta, ok := as.X.(*ast.TypeAssertExpr); ok {
				if id, ok := ast.Unparen(ta.X).(*ast.Ident); ok {
					aenv.root = ainfo.Uses[id]
				}
			}
		}
	}
	// executor: when is the field filled?
	var execTarget func(ast.Node) bool
	isNilE := func(x ast.Expr) bool {
		id, ok := ast.Unparen(x).(*ast.Ident)
		return ok && einfo.Uses[id] == types.Universe.Lookup("nil")
	}
	unconditional := false
	if id, ok := ast.Unparen(val).(*ast.Ident); ok {
		lv, _ := einfo.Uses[id].(*types.Var)
		if lv == nil || lv.Parent() == nil || lv.Pkg() == nil || lv.Parent() == lv.Pkg().Scope() || lv == nodeParam {
			unconditional = true
		} else {
			execTarget = func(n ast.Node) bool {
				switch x := n.(type) {
				case *ast.AssignStmt:
					for i, l := range x.Lhs {
						if lid, ok := ast.Unparen(l).(*ast.Ident); ok && (einfo.Uses[lid] == lv || einfo.Defs[lid] == lv) {
							if len(x.Rhs) == len(x.Lhs) && isNilE(x.Rhs[i]) {
								continue
							}
							return true
						}
					}
				case *ast.ValueSpec:
					for i, nm := range x.Names {
						if einfo.Defs[nm] == lv && len(x.Values) > 0 {
							if len(x.Values) == len(x.Names) && isNilE(x.Values[i]) {
								continue
							}
							return true
						}
					}
				}
				return false
			}
		}
	} else if isNilE(val) {
		c.Note("C18-W2", key, val.Pos(), "the builder leaves the field nil")
		return
	} else {
		unconditional = true
	}
	atoms := map[string]bool{}
	eenv.collectAtoms(bfd.Body, atoms)
	aenv.collectAtoms(&ast.BlockStmt{List: arm.Body}, atoms)
	var names []string
	for a := range atoms {
		names = append(names, a)
	}
	sort.Strings(names)
	if len(names) > 10 {
		c.Undecided("C18-W2", key, bfd.Pos(), fmt.Sprintf("%d mode atoms: the assignment space is not enumerated", len(names)))
		return
	}
	var uncovered []string
	nExec := 0
	for m := 0; m < 1<<len(names); m++ {
		sigma := map[string]bool{}
		var desc []string
		for i, a := range names {
			sigma[a] = m&(1<<i) != 0
			if sigma[a] {
				desc = append(desc, a)
			} else {
				desc = append(desc, "!"+a)
			}
		}
		filled := unconditional
		if !filled {
			filled, _ = eenv.mayReach(bfd.Body.List, sigma, execTarget)
		}
		if !filled {
			continue
		}
		nExec++
		if ok, _ := aenv.mayReach(arm.Body, sigma, isInstallerCall); !ok {
			uncovered = append(uncovered, strings.Join(desc, " && "))
		}
	}
	if nExec == 0 {
		c.Note("C18-W2", key, val.Pos(), "the builder never fills the field")
		return
	}
	what := fmt.Sprintf("%s.%s (field %s of the iterator built by %s)", fieldName, strings.Join(ops, "/"), fieldName, ngFuncKey(bfn))
	if len(uncovered) == 0 {
		c.Ok("C18-W2", key, arm.Pos(), fmt.Sprintf("every one of the %d node modes (over atoms %v) under which the executor may call %s reaches a parent-side installer in the plan.%s arm", nExec, names, what, nodeName))
		return
	}
	c.Bad("C18-W2", key, arm.Pos(), fmt.Sprintf("%s: the executor may call %s on existing rows of a *plan.%s in the mode(s) [%s], but under these modes the plan.%s arm of %s reaches no function that installs the parent-side referential actions (%s.RefActions): rows of a parent table are deleted/updated without RESTRICT / CASCADE / SET NULL handling",
		c.P.Rel(arm.Pos()), what, nodeName, strings.Join(uncovered, " | "), nodeName, p.applyFn, p.editorType))
}
