package main

// E7 bounds engine: proves that index and slice operations cannot go out of range.
//
// Technique: a forward abstract interpretation of one function's go/ssa form over the *zone*
// domain (difference-bound matrices): the abstract state is a small set of "worlds", each a
// conjunction of constraints  a - b <= k  over the function's integer SSA values, the constant
// 0 and one node len(X) per distinct container value X (slice / string; arrays and constant
// strings have constant length). Facts come only from
//   - branch conditions that dominate the use (if / for headers / switch arms, with && and ||
//     already lowered to control flow by go/ssa): <, <=, >, >=, ==, != between integer terms,
//   - definitions: x+c, x-c, x+y (one-shot sum approximation), conversions that preserve the
//     value, x%c, x&c, x>>c, len(), make([]T, n), s[a:b] (length of the result), []byte(s),
//     append, copy, the value ranges of the integer types (a byte indexes a [256]T safely),
//   - a successful earlier index/slice operation (the program would have panicked otherwise),
//   - return summaries of callees in the analysed module: an interval per result and, per string /
//     slice parameter, the largest "result - len(parameter)" (n <= len(str) for a rune scanner); a
//     call through an interface declared in the module uses the join over every concrete method of
//     the loaded program with that name and signature (none outside the module, else nothing);
//   - a short table of standard-library results (utf8.RuneLen, utf8.DecodeRune, strings.Index,
//     io.Reader.Read, ...) and of result lengths (strconv.FormatInt, time.Time.String, fmt.Sprintf
//     with a constant format), string concatenation, negation,
//   - exact sums: z = x + y and z = x - y are re-applied at every branch and after every successful
//     index operation that their definition dominates (an SSA value is immutable, so a bound learnt
//     later applies to the earlier sum), and two sums that share an addend are related:
//     s1 = p1 + q, s2 = p2 + q  =>  s1 - s2 = p1 - p2  (start+n <= end  =>  start <= end-n),
//   - v.(T) evaluated twice on one interface value is one value.
// Worlds reaching a join that is not a loop head are kept apart (bounded), so that a guard
// followed by `break` and the loop's own exit condition are not confused (the shape of
// RangeMap.Decode); at loop heads worlds are joined and widened, and after the fixpoint a fixed
// number of narrowing passes (plain joins, no widening) recovers bounds widening gave up. Loads of
// struct fields through a pointer are identified across instructions only when no function of the
// loaded module assigns that field or takes its address outside a composite literal, or every
// such store goes through a different enclosing object type (chains of by-value fields: a store to
// nl.ChildExpressions with nl *Lag cannot touch the NaryExpression embedded in a *Locate).
//
// Two modes. Default: int/uint/int64/uint64 index arithmetic is assumed not to wrap (byte kernels:
// every quantity is a length). Strict (BoundsOpts.Strict, used where the operands are client-chosen
// 64-bit integers): x+c, x-c, x+y, x-y, -x, x*c and uint64->int64 conversions relate the result to
// the operands only in worlds where the operation provably does not overflow (operands bounded by
// constants, lengths <= 2^40, or each other: i < n  =>  i+1 does not wrap); otherwise the result is
// an unknown value.
//
// Obligation (one per distinct source expression per function, all of its worlds must agree):
//   x[i]      : 0 <= i < len(x)
//   x[a:b]    : 0 <= a <= b <= len(x)      (missing a = 0, missing b = len(x); for slices the
//               language allows b <= cap(x): reslicing into spare capacity is reported, the
//               kernels this engine is used on must not read beyond len)
// Whatever cannot be derived is reported; nothing from the analysed repository is executed.
//
// Assumptions (recorded in the evidence): in the default mode int/uint/int64/uint64 arithmetic on
// indices does not wrap around (lengths are far below 2^62); in strict mode no string or slice is
// longer than 2^40 elements; narrower integer arithmetic is treated as opaque; standard-library
// contracts are taken as stated.

import (
	"fmt"
	"go/ast"
	"go/constant"
	"go/token"
	"go/types"
	"math"
	"os"
	"sort"
	"strings"

	"golang.org/x/tools/go/ssa"
	"golang.org/x/tools/go/ssa/ssautil"
)

const bndInf = int64(1) << 50
const bndBig = int64(1) << 40
const bndMaxWorlds = 8

// bndLenMax: strict mode's bound on the length of any string or slice (2^40 elements: far beyond
// max_allowed_packet and addressable memory of a query; recorded as an assumption).
const bndLenMax = int64(1) << 40

// bndExceptions: operations that are in range for a reason outside this (intraprocedural,
// table-blind) analysis. Keyed by FuncName + "/" + source expression; one symbol each.
var bndExceptions = map[string]string{
	"sql/encodings.rangeBounds.contains/data[i]":             "contains is called only with data of the bucket's length: entries of inputEntries[k]/outputEntries[k] have ranges of length k+1 = len(data) (table-shape invariant C30-R1, checked on every RangeMap literal)",
	"sql/encodings.RangeMap.DecodeRune/r[i]":                 "i < len(entry.inputRange) = len(r) for entries of bucket len(r)-1 (table-shape invariant C30-R1)",
	"sql/encodings.RangeMap.DecodeRune/entry.inputMults[i]":  "len(inputMults) = len(inputRange) for every table entry (table-shape invariant C30-R1)",
	"sql/encodings.RangeMap.DecodeRune/entry.outputMults[i]": "len(outputMults) = len(outputRange) for every table entry (table-shape invariant C30-R1)",
	"sql/encodings.RangeMap.EncodeRune/r[i]":                 "i < len(entry.outputRange) = len(r) for entries of bucket len(r)-1 (table-shape invariant C30-R1)",
	"sql/encodings.RangeMap.EncodeRune/entry.outputMults[i]": "len(outputMults) = len(outputRange) for every table entry (table-shape invariant C30-R1)",
	"sql/encodings.RangeMap.EncodeRune/entry.inputMults[i]":  "len(inputMults) = len(inputRange) for every table entry (table-shape invariant C30-R1)",
}

// ---------------------------------------------------------------------------------------
// difference-bound matrix

type bndDBM struct {
	n int
	m []int64
}

func bndNew(n int) *bndDBM {
	d := &bndDBM{n: n, m: make([]int64, n*n)}
	for i := range d.m {
		d.m[i] = bndInf
	}
	for i := 0; i < n; i++ {
		d.m[i*n+i] = 0
	}
	return d
}

func (d *bndDBM) clone() *bndDBM {
	c := &bndDBM{n: d.n, m: make([]int64, len(d.m))}
	copy(c.m, d.m)
	return c
}

func (d *bndDBM) get(i, j int) int64 { return d.m[i*d.n+j] }

func bndAdd(a, b int64) int64 {
	if a >= bndInf || b >= bndInf {
		return bndInf
	}
	s := a + b
	if s >= bndInf {
		return bndInf
	}
	if s < -bndInf {
		return -bndInf
	}
	return s
}

// add records x_i - x_j <= k on a closed matrix and restores closure. It returns false if the
// world became infeasible.
func (d *bndDBM) add(i, j int, k int64) bool {
	if i == j {
		return k >= 0
	}
	n := d.n
	if k >= d.m[i*n+j] {
		return true
	}
	if bndAdd(d.m[j*n+i], k) < 0 {
		return false
	}
	for a := 0; a < n; a++ {
		ai := d.m[a*n+i]
		if ai >= bndInf {
			continue
		}
		for b := 0; b < n; b++ {
			jb := d.m[j*n+b]
			if jb >= bndInf {
				continue
			}
			if v := bndAdd(bndAdd(ai, k), jb); v < d.m[a*n+b] {
				d.m[a*n+b] = v
			}
		}
	}
	for a := 0; a < n; a++ {
		if d.m[a*n+a] < 0 {
			return false
		}
	}
	return true
}

func (d *bndDBM) forget(i int) {
	n := d.n
	for a := 0; a < n; a++ {
		if a != i {
			d.m[a*n+i] = bndInf
			d.m[i*n+a] = bndInf
		}
	}
}

// closeAll: Floyd–Warshall (used after widening). Returns false if infeasible.
func (d *bndDBM) closeAll() bool {
	n := d.n
	for k := 0; k < n; k++ {
		for i := 0; i < n; i++ {
			ik := d.m[i*n+k]
			if ik >= bndInf {
				continue
			}
			for j := 0; j < n; j++ {
				if v := bndAdd(ik, d.m[k*n+j]); v < d.m[i*n+j] {
					d.m[i*n+j] = v
				}
			}
		}
	}
	for i := 0; i < n; i++ {
		if d.m[i*n+i] < 0 {
			return false
		}
	}
	return true
}

func bndJoin(a, b *bndDBM) *bndDBM {
	c := a.clone()
	for i := range c.m {
		if b.m[i] > c.m[i] {
			c.m[i] = b.m[i]
		}
	}
	return c
}

func (d *bndDBM) equal(o *bndDBM) bool {
	for i := range d.m {
		if d.m[i] != o.m[i] {
			return false
		}
	}
	return true
}

func bndWorldsEqual(a, b []*bndDBM) bool {
	if len(a) != len(b) {
		return false
	}
	for i := range a {
		if !a[i].equal(b[i]) {
			return false
		}
	}
	return true
}

// ---------------------------------------------------------------------------------------
// engine (per loaded program)

type bndEngine struct {
	p         *Prog
	results   map[*ssa.Function]*bndAn
	busy      map[*ssa.Function]bool
	mutFields map[*types.Var]bool      // fields assigned / address-taken outside composite literals
	mutStruct map[*types.TypeName]bool // struct types overwritten as a whole through a pointer/element
	scanned   bool
	debug     bool
	prog      *ssa.Program // own lazily-built SSA program (only the packages that are needed)
	// strict: machine-integer semantics. Arithmetic on int/int64/uint/uint64 values relates the
	// result to its operands only where the operation provably does not wrap around (operands
	// bounded by lengths / constants / each other); lengths are bounded by bndLenMax. Used where the
	// operands are attacker-chosen 64-bit integers (SQL function arguments), not lengths.
	strict    bool
	mutChains map[*types.Var][][]*types.Var // last field -> by-value selector chains that are stored to / address-taken
	impls     map[string][]*ssa.Function    // interface method -> module implementations (nil entry: not closed)
}

// ssaFunc returns the SSA form of fn, building only fn's package (whole-engine loads would
// otherwise pay for SSA of every module package). If the framework's program exists, it is used.
func (e *bndEngine) ssaFunc(fn *types.Func) *ssa.Function {
	if e.p.ssaProg != nil {
		return e.p.SSAFunc(fn)
	}
	prog := e.ssaProgram()
	if fn.Pkg() == nil {
		return nil
	}
	sp := prog.Package(fn.Pkg())
	if sp == nil {
		return nil
	}
	sp.Build()
	return prog.FuncValue(fn)
}

// bndProgs: the lazily created SSA program per loaded program (shared by the engine modes).
var bndProgs = map[*Prog]*ssa.Program{}

func (e *bndEngine) ssaProgram() *ssa.Program {
	if e.p.ssaProg != nil {
		return e.p.ssaProg
	}
	if bndProgs[e.p] == nil {
		bndProgs[e.p], _ = ssautil.AllPackages(e.p.Roots, ssa.InstantiateGenerics)
	}
	e.prog = bndProgs[e.p]
	return e.prog
}

// moduleFunc: the callee belongs to the analysed module (its body may be summarised); its package
// is built on demand.
func (e *bndEngine) moduleFunc(f *ssa.Function) bool {
	if f.Pkg == nil || f.Pkg.Pkg == nil {
		return false
	}
	pk := e.p.ByPath[f.Pkg.Pkg.Path()]
	if pk == nil || pk.Module == nil || !pk.Module.Main {
		return false
	}
	f.Pkg.Build()
	return len(f.Blocks) > 0
}

type bndEngineKey struct {
	p      *Prog
	strict bool
}

var bndEngines = map[bndEngineKey]*bndEngine{}

func bndEngineFor(p *Prog) *bndEngine { return bndEngineForMode(p, false) }

func bndEngineForMode(p *Prog, strict bool) *bndEngine {
	k := bndEngineKey{p, strict}
	if e := bndEngines[k]; e != nil {
		return e
	}
	e := &bndEngine{p: p, results: map[*ssa.Function]*bndAn{}, busy: map[*ssa.Function]bool{},
		mutFields: map[*types.Var]bool{}, mutStruct: map[*types.TypeName]bool{}, debug: os.Getenv("VCHK_BND_DEBUG") != "",
		strict: strict, mutChains: map[*types.Var][][]*types.Var{}, impls: map[string][]*ssa.Function{}}
	bndEngines[k] = e
	return e
}

// scanMutations finds every field that is assigned, inc/decremented or address-taken and every
// named struct type that is overwritten as a whole, anywhere in the loaded module packages.
func (e *bndEngine) scanMutations() {
	if e.scanned {
		return
	}
	e.scanned = true
	for _, pk := range e.p.Module {
		info := pk.TypesInfo
		fieldOf := func(x ast.Expr) *types.Var {
			sel, ok := ast.Unparen(x).(*ast.SelectorExpr)
			if !ok {
				return nil
			}
			if s := info.Selections[sel]; s != nil && s.Kind() == types.FieldVal {
				if v, ok := s.Obj().(*types.Var); ok {
					return v.Origin()
				}
			}
			return nil
		}
		markField := func(x ast.Expr) {
			if v := fieldOf(x); v != nil {
				e.mutFields[v] = true
				ch := bndSelChain(info, x)
				if len(ch) == 0 || ch[len(ch)-1] != v {
					ch = []*types.Var{v}
				}
				e.mutChains[v] = append(e.mutChains[v], ch)
			}
		}
		markLHS := func(x ast.Expr) {
			x = ast.Unparen(x)
			markField(x)
			switch x.(type) {
			case *ast.StarExpr, *ast.IndexExpr, *ast.SelectorExpr:
				if tv, ok := info.Types[x]; ok && tv.Type != nil {
					if nt, ok := types.Unalias(tv.Type).(*types.Named); ok {
						if _, isStruct := nt.Underlying().(*types.Struct); isStruct {
							e.mutStruct[nt.Origin().Obj()] = true
						}
					}
				}
			}
		}
		for _, f := range pk.Syntax {
			ast.Inspect(f, func(n ast.Node) bool {
				switch x := n.(type) {
				case *ast.AssignStmt:
					if x.Tok != token.DEFINE {
						for _, l := range x.Lhs {
							markLHS(l)
						}
					}
				case *ast.IncDecStmt:
					markLHS(x.X)
				case *ast.UnaryExpr:
					if x.Op == token.AND {
						markField(x.X)
					}
				case *ast.RangeStmt:
					if x.Tok == token.ASSIGN {
						if x.Key != nil {
							markLHS(x.Key)
						}
						if x.Value != nil {
							markLHS(x.Value)
						}
					}
				}
				return true
			})
		}
	}
}

// bndSelChain: the chain of fields, embedded by value, that a field selector expression walks from
// the last pointer dereference (or from its root variable) down to the selected field:
// nl.ChildExpressions with nl *Lag is [Lag.NaryExpression, NaryExpression.ChildExpressions].
// A sub-object has exactly one parent object, so two chains can name the same memory only if one
// is a suffix of the other (bndChainConflict): a store through *Lag cannot touch the
// NaryExpression embedded in a Locate. Shorter chains are the conservative direction.
func bndSelChain(info *types.Info, x ast.Expr) []*types.Var {
	sel, ok := ast.Unparen(x).(*ast.SelectorExpr)
	if !ok {
		return nil
	}
	s := info.Selections[sel]
	if s == nil || s.Kind() != types.FieldVal {
		return nil
	}
	t := s.Recv()
	var chain []*types.Var
	restarted := false
	for _, idx := range s.Index() {
		if pt, ok := t.Underlying().(*types.Pointer); ok {
			t = pt.Elem()
			chain = nil
			restarted = true
		}
		st, ok := t.Underlying().(*types.Struct)
		if !ok || idx >= st.NumFields() {
			return nil
		}
		f := st.Field(idx)
		chain = append(chain, f.Origin())
		t = f.Type()
	}
	if !restarted {
		if parent := bndSelChain(info, sel.X); parent != nil {
			chain = append(append([]*types.Var{}, parent...), chain...)
		}
	}
	return chain
}

// bndFAChain: the same chain for an SSA field address (nested FieldAddr = by-value nesting).
func bndFAChain(fa *ssa.FieldAddr) []*types.Var {
	pt, ok := fa.X.Type().Underlying().(*types.Pointer)
	if !ok {
		return nil
	}
	st, ok := pt.Elem().Underlying().(*types.Struct)
	if !ok || fa.Field >= st.NumFields() {
		return nil
	}
	fv := st.Field(fa.Field).Origin()
	if inner, ok := fa.X.(*ssa.FieldAddr); ok {
		if ch := bndFAChain(inner); ch != nil {
			return append(ch, fv)
		}
	}
	return []*types.Var{fv}
}

func bndChainConflict(load, store []*types.Var) bool {
	if len(load) == 0 || len(store) == 0 {
		return true
	}
	n := len(load)
	if len(store) < n {
		n = len(store)
	}
	for i := 1; i <= n; i++ {
		if load[len(load)-i] != store[len(store)-i] {
			return false
		}
	}
	return true
}

// stableField: loads of this field through the same pointer value yield the same value for the
// duration of a call (no store to it exists in the loaded module outside object construction).
func (e *bndEngine) stableField(fa *ssa.FieldAddr) bool {
	e.scanMutations()
	pt, ok := fa.X.Type().Underlying().(*types.Pointer)
	if !ok {
		return false
	}
	st, ok := pt.Elem().Underlying().(*types.Struct)
	if !ok || fa.Field >= st.NumFields() {
		return false
	}
	fv := st.Field(fa.Field).Origin()
	if e.mutFields[fv] {
		// some store to this field exists: it is harmless only if it cannot address the same object
		load := bndFAChain(fa)
		for _, store := range e.mutChains[fv] {
			if bndChainConflict(load, store) {
				return false
			}
		}
	}
	if nt, ok := types.Unalias(pt.Elem()).(*types.Named); ok {
		if e.mutStruct[nt.Origin().Obj()] {
			return false
		}
	} else {
		return false // anonymous struct: not tracked
	}
	return true
}

// ---------------------------------------------------------------------------------------
// per-function analysis

type bndTerm struct {
	n  int
	k  int64
	ok bool
}

type bndOb struct {
	expr  string
	pos   token.Pos
	fails []string
	count int
}

type bndAn struct {
	e        *bndEngine
	fn       *ssa.Function
	frozen   bool
	nNodes   int
	names    []string // node -> readable name
	nodeS    []bool   // node holds a value <= MaxInt64 (signed integer or a length)
	axLo     []int64  // node >= axLo (or -bndInf)
	axHi     []int64  // node <= axHi (or bndInf)
	valNode  map[ssa.Value]int
	keyNode  map[string]int
	valID    map[ssa.Value]int
	deps     map[ssa.Value][]int // value -> nodes to forget when the value is (re)defined
	phiTmp   map[ssa.Value]int   // int phi -> temp node
	phiLenT  map[ssa.Value]int   // container phi -> temp node for its length
	relevant map[ssa.Value]bool
	loopHead map[*ssa.BasicBlock]bool
	in       map[*ssa.BasicBlock][]*bndDBM
	edge     map[[2]int][]*bndDBM
	visits   map[*ssa.BasicBlock]int
	diverged bool
	// results
	retLo, retHi []int64 // per result index (bndInf = unknown)
	retSeen      bool
	obs          map[string]*bndOb
	obOrder      []string
	exprAt       map[token.Pos]ast.Expr
	recording    bool
	narrowing    bool
	nMin, nMax   int                     // strict mode: nodes of the constants MinInt64 and MaxInt64 (0 otherwise)
	sig64        []bool                  // node is a signed 64-bit value: MinInt64 <= node <= MaxInt64
	order        map[ssa.Instruction]int // index of an instruction in its block
	sums         []*ssa.BinOp            // ADD/SUB instructions on wide integers (exact sums when they do not wrap)
	// relational return summary: retLen[r][j] = the largest ret_r - len(param_j) over all returns
	retLen [][]int64
}

func (e *bndEngine) analyse(fn *ssa.Function) *bndAn {
	if a, ok := e.results[fn]; ok {
		return a
	}
	if e.busy[fn] || len(fn.Blocks) == 0 {
		return nil
	}
	e.busy[fn] = true
	defer delete(e.busy, fn)
	a := &bndAn{e: e, fn: fn, valNode: map[ssa.Value]int{}, keyNode: map[string]int{}, valID: map[ssa.Value]int{},
		deps: map[ssa.Value][]int{}, phiTmp: map[ssa.Value]int{}, phiLenT: map[ssa.Value]int{}, relevant: map[ssa.Value]bool{},
		loopHead: map[*ssa.BasicBlock]bool{}, in: map[*ssa.BasicBlock][]*bndDBM{}, edge: map[[2]int][]*bndDBM{},
		visits: map[*ssa.BasicBlock]int{}, obs: map[string]*bndOb{}, exprAt: map[token.Pos]ast.Expr{}}
	a.newNode("0", 0, 0) // node 0 = the constant zero
	if e.strict {
		// the two extreme int64 values as nodes: their numeric value is outside the matrix's range,
		// but relations to them are ordinary difference constraints (x != MinInt64 is
		// x - MinInt64 >= 1, which is what makes -x exact)
		a.nMin = a.newNode("MinInt64", -bndInf, -bndBig)
		a.nMax = a.newNode("MaxInt64", bndBig, bndInf)
		a.nodeS[a.nMin], a.nodeS[a.nMax] = true, true
	}
	a.computeRelevant()
	a.discover()
	a.frozen = true
	a.indexSyntax()
	a.run()
	e.results[fn] = a
	return a
}

func (a *bndAn) newNode(name string, lo, hi int64) int {
	a.names = append(a.names, name)
	a.axLo = append(a.axLo, lo)
	a.axHi = append(a.axHi, hi)
	a.nodeS = append(a.nodeS, false)
	a.sig64 = append(a.sig64, false)
	a.nNodes++
	return a.nNodes - 1
}

func bndIntRange(t types.Type) (lo, hi int64, isInt, wide bool) {
	b, ok := t.Underlying().(*types.Basic)
	if !ok || b.Info()&types.IsInteger == 0 {
		return 0, 0, false, false
	}
	switch b.Kind() {
	case types.Int8:
		return -128, 127, true, false
	case types.Int16:
		return -32768, 32767, true, false
	case types.Int32:
		return -(1 << 31), 1<<31 - 1, true, false
	case types.Uint8:
		return 0, 255, true, false
	case types.Uint16:
		return 0, 65535, true, false
	case types.Uint32:
		return 0, 1<<32 - 1, true, false
	case types.Uint, types.Uint64, types.Uintptr:
		return 0, bndInf, true, true
	case types.Int, types.Int64, types.UntypedInt:
		return -bndInf, bndInf, true, true
	}
	return -bndInf, bndInf, true, false
}

func bndUnsigned(t types.Type) bool {
	b, ok := t.Underlying().(*types.Basic)
	return ok && b.Info()&types.IsUnsigned != 0
}

func (a *bndAn) id(v ssa.Value) int {
	if i, ok := a.valID[v]; ok {
		return i
	}
	i := len(a.valID) + 1
	a.valID[v] = i
	return i
}

// intNode returns the node of an integer-typed SSA value (allocated during discovery only).
func (a *bndAn) intNode(v ssa.Value) (int, bool) {
	if n, ok := a.valNode[v]; ok {
		return n, n >= 0
	}
	if a.frozen {
		return -1, false
	}
	lo, hi, isInt, _ := bndIntRange(v.Type())
	if !isInt || !a.relevant[v] {
		a.valNode[v] = -1
		return -1, false
	}
	n := a.newNode(a.valName(v), lo, hi)
	a.nodeS[n] = !bndUnsigned(v.Type())
	if _, _, _, wide := bndIntRange(v.Type()); wide && a.nodeS[n] {
		a.sig64[n] = true
	}
	a.valNode[v] = n
	a.deps[v] = append(a.deps[v], n)
	return n, true
}

func (a *bndAn) valName(v ssa.Value) string {
	switch x := v.(type) {
	case *ssa.Parameter:
		return x.Name()
	case *ssa.Phi:
		if x.Comment != "" {
			return x.Comment + "@" + x.Name()
		}
	}
	return v.Name()
}

// ckey: value-numbering key of a container / aggregate value, and the SSA values it depends on.
func (a *bndAn) ckey(v ssa.Value) (string, []ssa.Value) {
	switch x := v.(type) {
	case *ssa.ChangeType:
		return a.ckey(x.X)
	case *ssa.Field:
		k, d := a.ckey(x.X)
		return fmt.Sprintf("F(%s.%d)", k, x.Field), d
	case *ssa.UnOp:
		if x.Op == token.MUL {
			if fa, ok := x.X.(*ssa.FieldAddr); ok {
				if al, isAlloc := fa.X.(*ssa.Alloc); isAlloc && bndSimpleLocal(al) {
					// a local struct variable that is only stored as a whole and read field-wise:
					// its fields are stable between two whole stores (forgotten at each store)
					return fmt.Sprintf("S(v%d.%d)", a.id(al), fa.Field), []ssa.Value{al}
				}
				if k, d, ok := a.akey(fa); ok {
					return "L" + k, d
				}
			}
		}
	case *ssa.Const:
		if x.Value != nil && x.Value.Kind() == constant.String {
			return fmt.Sprintf("K%q", constant.StringVal(x.Value)), nil
		}
	case *ssa.TypeAssert:
		// val.(T) evaluated twice on the same interface value yields the same value (an
		// interface value is immutable; the comma-ok form agrees whenever the plain form returns)
		k, d := a.ckey(x.X)
		return fmt.Sprintf("A(%s:%s)", k, x.AssertedType.String()), d
	case *ssa.Extract:
		if ta, ok := x.Tuple.(*ssa.TypeAssert); ok && x.Index == 0 {
			return a.ckey(ta)
		}
	}
	return fmt.Sprintf("v%d", a.id(v)), []ssa.Value{v}
}

// bndSimpleLocal: a non-escaping local variable that is written only by whole-value stores and
// read only directly or through loads of its fields.
func bndSimpleLocal(al *ssa.Alloc) bool {
	if al.Heap || al.Referrers() == nil {
		return false
	}
	for _, r := range *al.Referrers() {
		switch x := r.(type) {
		case *ssa.Store:
			if x.Addr != al || x.Val == al {
				return false
			}
		case *ssa.UnOp:
			if x.Op != token.MUL {
				return false
			}
		case *ssa.FieldAddr:
			if x.Referrers() == nil {
				return false
			}
			for _, rr := range *x.Referrers() {
				if u, ok := rr.(*ssa.UnOp); !ok || u.Op != token.MUL {
					return false
				}
			}
		case *ssa.DebugRef:
		default:
			return false
		}
	}
	return true
}

// akey: key of a stable field address (pointer value + immutable-after-construction fields).
func (a *bndAn) akey(fa *ssa.FieldAddr) (string, []ssa.Value, bool) {
	if !a.e.stableField(fa) {
		return "", nil, false
	}
	switch b := fa.X.(type) {
	case *ssa.Alloc:
		return "", nil, false
	case *ssa.FieldAddr:
		k, d, ok := a.akey(b)
		if !ok {
			return "", nil, false
		}
		return fmt.Sprintf("(%s.%d)", k, fa.Field), d, true
	default:
		return fmt.Sprintf("(v%d.%d)", a.id(fa.X), fa.Field), []ssa.Value{fa.X}, true
	}
}

func (a *bndAn) srcName(v ssa.Value) string {
	switch x := v.(type) {
	case *ssa.ChangeType:
		return a.srcName(x.X)
	case *ssa.Parameter:
		return x.Name()
	case *ssa.Field:
		if st, ok := x.X.Type().Underlying().(*types.Struct); ok {
			return a.srcName(x.X) + "." + st.Field(x.Field).Name()
		}
	case *ssa.UnOp:
		if fa, ok := x.X.(*ssa.FieldAddr); ok && x.Op == token.MUL {
			if pt, ok := fa.X.Type().Underlying().(*types.Pointer); ok {
				if st, ok := pt.Elem().Underlying().(*types.Struct); ok {
					return a.srcName(fa.X) + "." + st.Field(fa.Field).Name()
				}
			}
		}
	case *ssa.Phi:
		if x.Comment != "" {
			return x.Comment
		}
	}
	return v.Name()
}

// lenTerm: the length of a container value as a term.
func (a *bndAn) lenTerm(v ssa.Value) bndTerm {
	t := v.Type().Underlying()
	if p, ok := t.(*types.Pointer); ok {
		if arr, ok := p.Elem().Underlying().(*types.Array); ok {
			return bndTerm{0, arr.Len(), true}
		}
		return bndTerm{}
	}
	if arr, ok := t.(*types.Array); ok {
		return bndTerm{0, arr.Len(), true}
	}
	if c, ok := v.(*ssa.Const); ok {
		if c.Value != nil && c.Value.Kind() == constant.String {
			return bndTerm{0, int64(len(constant.StringVal(c.Value))), true}
		}
	}
	isStr := false
	if b, ok := t.(*types.Basic); ok && b.Info()&types.IsString != 0 {
		isStr = true
	}
	if _, ok := t.(*types.Slice); !ok && !isStr {
		return bndTerm{}
	}
	if c, ok := v.(*ssa.Const); ok && c.Value == nil && !isStr { // nil slice
		return bndTerm{0, 0, true}
	}
	key, deps := a.ckey(v)
	key = "len:" + key
	if n, ok := a.keyNode[key]; ok {
		return bndTerm{n, 0, true}
	}
	if a.frozen {
		return bndTerm{}
	}
	lenHi := bndInf
	if a.e.strict {
		lenHi = bndLenMax
	}
	n := a.newNode("len("+a.srcName(v)+")", 0, lenHi)
	a.nodeS[n] = true
	a.keyNode[key] = n
	for _, d := range deps {
		a.deps[d] = append(a.deps[d], n)
	}
	return bndTerm{n, 0, true}
}

func bndIsLen(v ssa.Value) (ssa.Value, bool) {
	if c, ok := v.(*ssa.Call); ok {
		if b, ok := c.Call.Value.(*ssa.Builtin); ok && b.Name() == "len" && len(c.Call.Args) == 1 {
			return c.Call.Args[0], true
		}
	}
	return nil, false
}

func (a *bndAn) term(v ssa.Value) bndTerm {
	if v == nil {
		return bndTerm{}
	}
	if c, ok := v.(*ssa.Const); ok {
		if c.Value != nil && c.Value.Kind() == constant.Int {
			if i, exact := constant.Int64Val(c.Value); exact && i < bndBig && i > -bndBig {
				return bndTerm{0, i, true}
			} else if exact && a.nMin != 0 {
				// a constant near one end of the int64 range, relative to that end
				if i < 0 && i-math.MinInt64 < bndBig {
					return bndTerm{a.nMin, i - math.MinInt64, true}
				}
				if i > 0 && math.MaxInt64-i < bndBig {
					return bndTerm{a.nMax, -(math.MaxInt64 - i), true}
				}
			}
		}
		return bndTerm{}
	}
	if x, ok := bndIsLen(v); ok {
		if t := a.lenTerm(x); t.ok {
			return t
		}
	}
	if n, ok := a.intNode(v); ok {
		return bndTerm{n, 0, true}
	}
	return bndTerm{}
}

// computeRelevant: the integer values that can matter for an index: backward slice from index
// operands, lengths and integer results through arithmetic, conversions, phis and comparisons.
func (a *bndAn) computeRelevant() {
	var work []ssa.Value
	mark := func(v ssa.Value) {
		if v == nil || a.relevant[v] {
			return
		}
		if _, _, isInt, _ := bndIntRange(v.Type()); !isInt {
			return
		}
		if _, isConst := v.(*ssa.Const); isConst {
			return
		}
		a.relevant[v] = true
		work = append(work, v)
	}
	var cmps []*ssa.BinOp
	for _, b := range a.fn.Blocks {
		for _, ins := range b.Instrs {
			switch x := ins.(type) {
			case *ssa.IndexAddr:
				mark(x.Index)
			case *ssa.Index:
				mark(x.Index)
			case *ssa.Slice:
				mark(x.Low)
				mark(x.High)
				mark(x.Max)
			case *ssa.MakeSlice:
				mark(x.Len)
			case *ssa.Return:
				for _, r := range x.Results {
					mark(r)
				}
			case *ssa.Call:
				if _, ok := bndIsLen(x); ok {
					mark(x)
				}
			case *ssa.BinOp:
				switch x.Op {
				case token.LSS, token.LEQ, token.GTR, token.GEQ, token.EQL, token.NEQ:
					cmps = append(cmps, x)
				}
			}
		}
	}
	for {
		for len(work) > 0 {
			v := work[len(work)-1]
			work = work[:len(work)-1]
			switch x := v.(type) {
			case *ssa.BinOp:
				mark(x.X)
				mark(x.Y)
			case *ssa.Convert:
				mark(x.X)
			case *ssa.ChangeType:
				mark(x.X)
			case *ssa.Phi:
				for _, e := range x.Edges {
					mark(e)
				}
			case *ssa.UnOp:
				if x.Op == token.SUB {
					mark(x.X)
				}
			case *ssa.Call:
				if b, ok := x.Call.Value.(*ssa.Builtin); ok && (b.Name() == "min" || b.Name() == "max") {
					for _, arg := range x.Call.Args {
						mark(arg)
					}
				}
			}
		}
		n := len(a.relevant)
		for _, c := range cmps {
			if a.relevant[c.X] || a.relevant[c.Y] {
				mark(c.X)
				mark(c.Y)
			}
		}
		if len(a.relevant) == n && len(work) == 0 {
			break
		}
	}
}

// discover allocates every node the transfer functions will ask for.
func (a *bndAn) discover() {
	for _, p := range a.fn.Params {
		a.term(p)
		a.lenTerm(p)
	}
	for _, fv := range a.fn.FreeVars {
		a.term(fv)
		a.lenTerm(fv)
	}
	for _, b := range a.fn.Blocks {
		for _, ins := range b.Instrs {
			if v, ok := ins.(ssa.Value); ok {
				a.term(v)
				a.lenTerm(v)
			}
			for _, op := range ins.Operands(nil) {
				if *op != nil {
					a.term(*op)
					a.lenTerm(*op)
				}
			}
			if phi, ok := ins.(*ssa.Phi); ok {
				if _, ok := a.intNode(phi); ok {
					a.phiTmp[phi] = a.newNode("tmp:"+phi.Name(), -bndInf, bndInf)
				}
				if t := a.lenTerm(phi); t.ok && t.n != 0 {
					a.phiLenT[phi] = a.newNode("tmplen:"+phi.Name(), 0, bndInf)
				}
			}
		}
	}
	a.order = map[ssa.Instruction]int{}
	for _, b := range a.fn.Blocks {
		for i, ins := range b.Instrs {
			a.order[ins] = i
			if bo, ok := ins.(*ssa.BinOp); ok && (bo.Op == token.ADD || bo.Op == token.SUB) {
				if _, _, isInt, wide := bndIntRange(bo.Type()); isInt && wide {
					if n, has := a.valNode[bo]; has && n >= 0 {
						a.sums = append(a.sums, bo)
					}
				}
			}
		}
	}
	// loop heads: targets of back edges (the target dominates the source)
	for _, b := range a.fn.Blocks {
		for _, s := range b.Succs {
			if s.Dominates(b) {
				a.loopHead[s] = true
			}
		}
	}
}

func (a *bndAn) indexSyntax() {
	syn := a.fn.Syntax()
	if syn == nil {
		return
	}
	ast.Inspect(syn, func(n ast.Node) bool {
		switch x := n.(type) {
		case *ast.IndexExpr:
			a.exprAt[x.Lbrack] = x
		case *ast.SliceExpr:
			a.exprAt[x.Lbrack] = x
		}
		return true
	})
}

// ---- world helpers

func (a *bndAn) axioms(w *bndDBM, n int) bool {
	ok := true
	if a.axLo[n] > -bndInf {
		ok = w.add(0, n, -a.axLo[n]) && ok
	}
	if a.axHi[n] < bndInf {
		ok = w.add(n, 0, a.axHi[n]) && ok
	}
	if a.nMin != 0 && a.sig64[n] {
		ok = w.add(a.nMin, n, 0) && w.add(n, a.nMax, 0) && ok
	}
	return ok
}

func (a *bndAn) initial() *bndDBM {
	w := bndNew(a.nNodes)
	for n := 1; n < a.nNodes; n++ {
		a.axioms(w, n)
	}
	return w
}

func (a *bndAn) forgetVal(w *bndDBM, v ssa.Value) {
	for _, n := range a.deps[v] {
		w.forget(n)
		a.axioms(w, n)
	}
}

// le records  x - y <= c.
func (a *bndAn) le(w *bndDBM, x, y bndTerm, c int64) bool {
	if !x.ok || !y.ok {
		return true
	}
	return w.add(x.n, y.n, c+y.k-x.k)
}

func (a *bndAn) eq(w *bndDBM, x, y bndTerm) bool {
	return a.le(w, x, y, 0) && a.le(w, y, x, 0)
}

// ub returns the best upper bound of x - y (bndInf if none).
func (a *bndAn) ub(w *bndDBM, x, y bndTerm) int64 {
	if !x.ok || !y.ok {
		return bndInf
	}
	return bndAdd(w.get(x.n, y.n), x.k-y.k)
}

var bndZero = bndTerm{0, 0, true}

// ---- transfer functions

// define: the instruction (re)defines value v: drop what was known about the previous value of
// v and record what the definition says.
func (a *bndAn) define(w *bndDBM, ins ssa.Instruction) bool {
	v, isVal := ins.(ssa.Value)
	if !isVal {
		return true
	}
	if _, isPhi := v.(*ssa.Phi); isPhi {
		return true // handled on edges
	}
	a.forgetVal(w, v)
	ok := true
	self := bndTerm{}
	if n, has := a.valNode[v]; has && n >= 0 {
		self = bndTerm{n, 0, true}
	}
	_, _, _, wide := bndIntRange(v.Type())
	switch x := v.(type) {
	case *ssa.BinOp:
		if !self.ok {
			break
		}
		tx, ty := a.term(x.X), a.term(x.Y)
		cx, cy := tx.ok && tx.n == 0, ty.ok && ty.n == 0
		uns := bndUnsigned(v.Type())
		switch x.Op {
		case token.ADD:
			if !wide {
				break
			}
			switch {
			case cy && tx.ok:
				if a.constAddExact(w, tx, ty.k, uns) {
					ok = a.eq(w, self, bndTerm{tx.n, tx.k + ty.k, true})
				}
			case cx && ty.ok:
				if a.constAddExact(w, ty, tx.k, uns) {
					ok = a.eq(w, self, bndTerm{ty.n, ty.k + tx.k, true})
				}
			case tx.ok && ty.ok:
				// z = x + y: z - n <= ub(x - n) + ub(y - 0) and the symmetric forms
				if a.sumExact(w, tx, ty, uns) {
					ok = a.sumApprox(w, self, tx, ty)
				}
			}
		case token.SUB:
			if !wide {
				break
			}
			if cy && tx.ok {
				if uns && a.ub(w, bndZero, tx) > -ty.k { // cannot show x >= c: may wrap
					break
				}
				if !uns && !a.constAddExact(w, tx, -ty.k, false) {
					break
				}
				ok = a.eq(w, self, bndTerm{tx.n, tx.k - ty.k, true})
			} else if tx.ok && ty.ok {
				if uns && a.ub(w, ty, tx) > 0 {
					break
				}
				if !uns && !a.diffExact(w, tx, ty) {
					break
				}
				ok = a.applyDiff(w, self, tx, ty)
			}
		case token.REM:
			if cy && ty.k > 0 && tx.ok {
				if a.ub(w, bndZero, tx) <= 0 { // x >= 0
					ok = a.le(w, bndZero, self, 0) && a.le(w, self, bndZero, ty.k-1)
				} else {
					ok = a.le(w, bndTerm{0, -(ty.k - 1), true}, self, 0) && a.le(w, self, bndZero, ty.k-1)
				}
			}
		case token.AND:
			if cy && ty.k >= 0 {
				ok = a.le(w, bndZero, self, 0) && a.le(w, self, bndZero, ty.k)
			} else if cx && tx.k >= 0 {
				ok = a.le(w, bndZero, self, 0) && a.le(w, self, bndZero, tx.k)
			}
		case token.SHR:
			if cy && ty.k >= 0 && ty.k < 62 && tx.ok && a.ub(w, bndZero, tx) <= 0 {
				ok = a.le(w, bndZero, self, 0)
				if u := a.ub(w, tx, bndZero); u < bndInf {
					ok = a.le(w, self, bndZero, u>>uint(ty.k)) && ok
				}
			}
		case token.QUO:
			if cy && ty.k > 0 && tx.ok && a.ub(w, bndZero, tx) <= 0 {
				ok = a.le(w, bndZero, self, 0) && a.le(w, self, tx, 0)
				if u := a.ub(w, tx, bndZero); u < bndInf {
					ok = a.le(w, self, bndZero, u/ty.k) && ok
				}
			}
		case token.MUL:
			// x * c with c >= 1 and x >= 0: result >= x
			if cy && ty.k >= 1 && tx.ok && wide && a.ub(w, bndZero, tx) <= 0 && a.mulExact(w, tx, ty.k) {
				ok = a.le(w, tx, self, 0)
			} else if cx && tx.k >= 1 && ty.ok && wide && a.ub(w, bndZero, ty) <= 0 && a.mulExact(w, ty, tx.k) {
				ok = a.le(w, ty, self, 0)
			}
		}
	case *ssa.Convert:
		if !self.ok {
			break
		}
		tx := a.term(x.X)
		if !tx.ok {
			break
		}
		lo, hi, isInt, _ := bndIntRange(v.Type())
		if !isInt {
			break
		}
		// the conversion preserves the value iff the operand is known to lie in the target range
		okLo := lo <= -bndInf || a.ub(w, bndZero, tx) <= -lo
		okHi := hi >= bndInf || a.ub(w, tx, bndZero) <= hi
		if a.e.strict && okHi && hi >= bndInf && !bndUnsigned(v.Type()) && bndUnsigned(x.X.Type()) {
			okHi = a.ub(w, tx, bndZero) < bndInf
		}
		if okLo && okHi {
			ok = a.eq(w, self, tx)
		}
	case *ssa.ChangeType:
		if self.ok {
			if tx := a.term(x.X); tx.ok {
				ok = a.eq(w, self, tx)
			}
		}
	case *ssa.Call:
		ok = a.defineCall(w, x, self)
	case *ssa.Extract:
		if call, isCall := x.Tuple.(*ssa.Call); isCall && self.ok {
			ok = a.applyResult(w, call, x.Index, self)
		}
		if nx, isNext := x.Tuple.(*ssa.Next); isNext && nx.IsString && x.Index == 1 && self.ok {
			if rng, isRange := nx.Iter.(*ssa.Range); isRange {
				if lt := a.lenTerm(rng.X); lt.ok {
					ok = a.le(w, bndZero, self, 0) && a.le(w, self, lt, -1)
				}
			}
		}
	case *ssa.MakeSlice:
		if lt := a.lenTerm(v); lt.ok {
			if tl := a.term(x.Len); tl.ok {
				ok = a.eq(w, lt, tl)
			}
		}
	case *ssa.Slice:
		ok = a.defineSlice(w, x)
	case *ssa.UnOp:
		// z = -x: exact unless x is the minimum value, i.e. whenever x has a (finite) lower bound
		if x.Op == token.SUB && self.ok && wide && !bndUnsigned(v.Type()) {
			if tx := a.term(x.X); tx.ok {
				l, u := a.ub(w, bndZero, tx), a.ub(w, tx, bndZero)                                // -x <= l, x <= u
				exact := !a.e.strict || l < bndInf || a.ub(w, bndTerm{a.nMin, 0, true}, tx) <= -1 // x > MinInt64
				if l < bndInf {
					ok = a.le(w, self, bndZero, l)
				}
				if u < bndInf && exact {
					ok = a.le(w, bndZero, self, u) && ok
				}
			}
		}
	}
	if bo, isBin := v.(*ssa.BinOp); isBin {
		switch {
		case bo.Op == token.ADD && bndBytesOrString(v.Type()):
			// string concatenation
			if lt, lx, ly := a.lenTerm(v), a.lenTerm(bo.X), a.lenTerm(bo.Y); lt.ok && lt.n != 0 && lx.ok && ly.ok {
				ok = a.sumApprox(w, lt, lx, ly) && ok
			}
		case (bo.Op == token.ADD || bo.Op == token.SUB) && self.ok && wide && ok:
			ok = a.rederive(w, bo.Block(), a.order[bo]+1)
		}
	}
	if call, isCall := v.(*ssa.Call); isCall {
		ok = a.defineCallLen(w, call) && ok
	}
	// string <-> []byte conversions keep the length; string -> []rune yields between 1 (if the
	// string is not empty) and len(s) runes; []rune -> string yields at least one byte per rune
	if cv, isConv := v.(*ssa.Convert); isConv {
		if lt := a.lenTerm(v); lt.ok && lt.n != 0 {
			switch {
			case bndBytesOrString(cv.X.Type()) && bndBytesOrString(v.Type()):
				if lx := a.lenTerm(cv.X); lx.ok {
					ok = a.eq(w, lt, lx) && ok
				}
			case bndBytesOrString(cv.X.Type()) && bndRunes(v.Type()):
				if lx := a.lenTerm(cv.X); lx.ok {
					ok = a.le(w, lt, lx, 0) && ok
					if a.ub(w, bndZero, lx) <= -1 {
						ok = a.le(w, bndTerm{0, 1, true}, lt, 0) && ok
					}
				}
			case bndRunes(cv.X.Type()) && bndBytesOrString(v.Type()):
				if lx := a.lenTerm(cv.X); lx.ok {
					ok = a.le(w, lx, lt, 0) && ok
				}
			}
		}
	}
	return ok
}

func bndBytesOrString(t types.Type) bool {
	switch u := t.Underlying().(type) {
	case *types.Basic:
		return u.Info()&types.IsString != 0
	case *types.Slice:
		if b, ok := u.Elem().Underlying().(*types.Basic); ok {
			return b.Kind() == types.Uint8
		}
	}
	return false
}

func bndRunes(t types.Type) bool {
	if u, ok := t.Underlying().(*types.Slice); ok {
		if b, ok := u.Elem().Underlying().(*types.Basic); ok {
			return b.Kind() == types.Int32
		}
	}
	return false
}

func (a *bndAn) sumApprox(w *bndDBM, z, x, y bndTerm) bool {
	ok := true
	yHi, yLo := a.ub(w, y, bndZero), a.ub(w, bndZero, y) // y <= yHi, -y <= yLo
	xHi, xLo := a.ub(w, x, bndZero), a.ub(w, bndZero, x)
	type c struct {
		i, j int
		k    int64
	}
	var cs []c
	for n := 0; n < a.nNodes; n++ {
		if n == z.n {
			continue
		}
		nt := bndTerm{n, 0, true}
		// z - n <= (x - n) + y, (y - n) + x
		best := bndAdd(a.ub(w, x, nt), yHi)
		if b2 := bndAdd(a.ub(w, y, nt), xHi); b2 < best {
			best = b2
		}
		if best < bndInf {
			cs = append(cs, c{z.n, n, best})
		}
		// n - z <= (n - x) - y, (n - y) - x
		best = bndAdd(a.ub(w, nt, x), yLo)
		if b2 := bndAdd(a.ub(w, nt, y), xLo); b2 < best {
			best = b2
		}
		if best < bndInf {
			cs = append(cs, c{n, z.n, best})
		}
	}
	for _, k := range cs {
		ok = w.add(k.i, k.j, k.k) && ok
	}
	return ok
}

// ---- exactness of machine arithmetic (strict mode; always true otherwise)

func (a *bndAn) hasUB(w *bndDBM, t bndTerm) bool { return a.ub(w, t, bndZero) < bndInf }
func (a *bndAn) hasLB(w *bndDBM, t bndTerm) bool { return a.ub(w, bndZero, t) < bndInf }

// constAddExact: x + c does not wrap: x is bounded on the side it moves to, by a constant or by
// another 64-bit value it stays below/above (i < n  =>  i+1 <= n).
func (a *bndAn) constAddExact(w *bndDBM, x bndTerm, c int64, uns bool) bool {
	if !a.e.strict || c == 0 {
		return true
	}
	if c > 0 {
		if a.hasUB(w, x) {
			return true
		}
		for m := 1; m < a.nNodes; m++ {
			if m != x.n && (a.nodeS[m] || uns) && bndAdd(w.get(x.n, m), x.k+c) <= 0 {
				return true
			}
		}
		return false
	}
	if uns {
		return a.ub(w, bndZero, x) <= c // x >= -c
	}
	if a.hasLB(w, x) {
		return true
	}
	for m := 1; m < a.nNodes; m++ {
		if m != x.n && bndAdd(w.get(m, x.n), -(x.k+c)) <= 0 { // m <= x + c
			return true
		}
	}
	return false
}

// sumExact: x + y does not wrap.
func (a *bndAn) sumExact(w *bndDBM, x, y bndTerm, uns bool) bool {
	if !a.e.strict {
		return true
	}
	up := (a.hasUB(w, x) && a.hasUB(w, y)) || (!uns && (a.ub(w, x, bndZero) <= 0 || a.ub(w, y, bndZero) <= 0))
	down := uns || (a.hasLB(w, x) && a.hasLB(w, y)) || a.ub(w, bndZero, x) <= 0 || a.ub(w, bndZero, y) <= 0
	return up && down
}

// diffExact: the signed difference x - y does not wrap.
func (a *bndAn) diffExact(w *bndDBM, x, y bndTerm) bool {
	if !a.e.strict {
		return true
	}
	up := a.ub(w, bndZero, y) <= 0 || a.ub(w, x, bndZero) <= -1 || (a.hasUB(w, x) && a.hasLB(w, y))
	down := a.ub(w, y, bndZero) <= 0 || a.ub(w, bndZero, x) <= 0 || (a.hasLB(w, x) && a.hasUB(w, y))
	return up && down
}

func (a *bndAn) mulExact(w *bndDBM, x bndTerm, c int64) bool {
	if !a.e.strict {
		return true
	}
	u := a.ub(w, x, bndZero)
	return u < bndInf && c >= 1 && c < bndBig && u < bndBig && (u <= 0 || u < bndInf/c)
}

// applyDiff: z = x - y (exact): z - x <= -lb(y), x - z <= ub(y), z <= ub(x - y), z >= -ub(y - x).
func (a *bndAn) applyDiff(w *bndDBM, self, tx, ty bndTerm) bool {
	ok := true
	if u := a.ub(w, bndZero, ty); u < bndInf {
		ok = a.le(w, self, tx, u)
	}
	if u := a.ub(w, ty, bndZero); u < bndInf {
		ok = a.le(w, tx, self, u) && ok
	}
	if u := a.ub(w, tx, ty); u < bndInf {
		ok = a.le(w, self, bndZero, u) && ok
	}
	if u := a.ub(w, ty, tx); u < bndInf {
		ok = a.le(w, bndZero, self, u) && ok
	}
	return ok
}

// domPoint: the instruction's definition dominates the point (blk, idx = number of instructions
// of blk already executed), so its current value is the one its operands' current values define.
func (a *bndAn) domPoint(def ssa.Instruction, blk *ssa.BasicBlock, idx int) bool {
	db := def.Block()
	if db == blk {
		return a.order[def] < idx
	}
	return db.Dominates(blk)
}

// rederive re-applies, at a program point, what the definitions of the ADD/SUB values that
// dominate it say under the constraints known now (SSA values are immutable: a bound learnt later
// shows just as well that the earlier operation did not wrap), and relates pairs of exact sums that
// share an addend:  s1 = p1 + q, s2 = p2 + q  =>  s1 - s2 = p1 - p2  (start+n <= end gives
// start <= end-n; length <= count-start gives start+length <= count).
func (a *bndAn) rederive(w *bndDBM, blk *ssa.BasicBlock, idx int) bool {
	type fact struct{ s, p, q bndTerm }
	var facts []fact
	ok := true
	for _, bo := range a.sums {
		if !a.domPoint(bo, blk, idx) {
			continue
		}
		self := bndTerm{a.valNode[bo], 0, true}
		tx, ty := a.term(bo.X), a.term(bo.Y)
		if !tx.ok || !ty.ok {
			continue
		}
		uns := bndUnsigned(bo.Type())
		if bo.Op == token.ADD {
			if (tx.n == 0 && !a.constAddExact(w, ty, tx.k, uns)) || (ty.n == 0 && !a.constAddExact(w, tx, ty.k, uns)) {
				continue
			}
			if tx.n != 0 && ty.n != 0 && !a.sumExact(w, tx, ty, uns) {
				continue
			}
			if tx.n != 0 && ty.n != 0 {
				ok = a.sumApprox(w, self, tx, ty) && ok
				facts = append(facts, fact{self, tx, ty})
			} else if ty.n == 0 {
				ok = a.eq(w, self, bndTerm{tx.n, tx.k + ty.k, true}) && ok
			} else {
				ok = a.eq(w, self, bndTerm{ty.n, ty.k + tx.k, true}) && ok
			}
			continue
		}
		// z = x - y  <=>  x = z + y
		if uns {
			if a.ub(w, ty, tx) > 0 {
				continue
			}
		} else if ty.n == 0 {
			if !a.constAddExact(w, tx, -ty.k, false) {
				continue
			}
		} else if !a.diffExact(w, tx, ty) {
			continue
		}
		if ty.n == 0 {
			ok = a.eq(w, self, bndTerm{tx.n, tx.k - ty.k, true}) && ok
			continue
		}
		ok = a.applyDiff(w, self, tx, ty) && ok
		if tx.n != 0 && tx.k == 0 {
			ok = a.sumApprox(w, tx, self, ty) && ok
		}
		facts = append(facts, fact{tx, self, ty})
	}
	// two exact sums f.s = f.p + f.q and g.s = g.p + g.q:
	//   f.s - g.s = (f.p - g.p) + (f.q - g.q) = (f.p - g.q) + (f.q - g.p)
	// so a bound on two of the three differences bounds the third (a shared addend makes one of
	// them 0: start+n <= end => start <= end-n; i <= lt-ls and j < ls => i+j < lt).
	for i := 0; i < len(facts) && ok; i++ {
		for j := i + 1; j < len(facts) && ok; j++ {
			f, g := facts[i], facts[j]
			for _, m := range [2][2]bndTerm{{g.p, g.q}, {g.q, g.p}} {
				gp, gq := m[0], m[1] // f.p pairs with gp, f.q with gq
				sfg, sgf := a.ub(w, f.s, g.s), a.ub(w, g.s, f.s)
				pfg, pgf := a.ub(w, f.p, gp), a.ub(w, gp, f.p)
				qfg, qgf := a.ub(w, f.q, gq), a.ub(w, gq, f.q)
				if k := bndAdd(pfg, qfg); k < bndInf {
					ok = a.le(w, f.s, g.s, k) && ok
				}
				if k := bndAdd(pgf, qgf); k < bndInf {
					ok = a.le(w, g.s, f.s, k) && ok
				}
				// f.p - gp = (f.s - g.s) - (f.q - gq)
				if k := bndAdd(sfg, qgf); k < bndInf {
					ok = a.le(w, f.p, gp, k) && ok
				}
				if k := bndAdd(sgf, qfg); k < bndInf {
					ok = a.le(w, gp, f.p, k) && ok
				}
				if k := bndAdd(sfg, pgf); k < bndInf {
					ok = a.le(w, f.q, gq, k) && ok
				}
				if k := bndAdd(sgf, pfg); k < bndInf {
					ok = a.le(w, gq, f.q, k) && ok
				}
			}
		}
	}
	return ok
}

func (a *bndAn) defineSlice(w *bndDBM, x *ssa.Slice) bool {
	lt := a.lenTerm(x)
	if !lt.ok || lt.n == 0 {
		return true
	}
	lx := a.lenTerm(x.X)
	lo := bndZero
	if x.Low != nil {
		lo = a.term(x.Low)
	}
	hi := lx
	if x.High != nil {
		hi = a.term(x.High)
	}
	ok := true
	if hi.ok {
		ok = a.le(w, lt, hi, 0) // len(result) = hi - lo <= hi (lo >= 0 after a successful slice)
		if lo.ok {
			if lo.n == 0 {
				ok = a.eq(w, lt, bndTerm{hi.n, hi.k - lo.k, true}) && ok
			} else {
				u, l := a.ub(w, hi, lo), a.ub(w, lo, hi)
				if u < bndInf {
					ok = a.le(w, lt, bndZero, u) && ok
				}
				if l < bndInf {
					ok = a.le(w, bndZero, lt, l) && ok
				}
			}
		}
	}
	return ok
}

// bndStdModels: integer results of standard-library functions, as [lo, hi] per result index, plus
// (optionally) "result <= len(argument k)".
type bndModel struct {
	res       int
	lo, hi    int64
	leLenArg  int  // -1: none
	posIfArg1 bool // result >= 1 when len(arg) >= 1
}

var bndStdModels = map[string][]bndModel{
	"unicode/utf8.RuneLen":                {{0, -1, 4, -1, false}},
	"unicode/utf8.EncodeRune":             {{0, 1, 4, -1, false}},
	"unicode/utf8.DecodeRune":             {{1, 0, 4, 0, true}},
	"unicode/utf8.DecodeRuneInString":     {{1, 0, 4, 0, true}},
	"unicode/utf8.DecodeLastRune":         {{1, 0, 4, 0, true}},
	"unicode/utf8.DecodeLastRuneInString": {{1, 0, 4, 0, true}},
	"unicode/utf8.RuneCount":              {{0, 0, bndInf, 0, false}},
	"unicode/utf8.RuneCountInString":      {{0, 0, bndInf, 0, false}},
	"encoding/hex.Decode":                 {{0, 0, bndInf, 1, false}},
	"bytes.IndexByte":                     {{0, -1, bndInf, -2, false}},
	"strings.IndexByte":                   {{0, -1, bndInf, -2, false}},
	"bytes.Index":                         {{0, -1, bndInf, -3, false}},
	"strings.Index":                       {{0, -1, bndInf, -3, false}},
	"bytes.LastIndex":                     {{0, -1, bndInf, -3, false}},
	"strings.LastIndex":                   {{0, -1, bndInf, -3, false}},
	"bytes.LastIndexByte":                 {{0, -1, bndInf, -2, false}},
	"strings.LastIndexByte":               {{0, -1, bndInf, -2, false}},
	"strings.IndexRune":                   {{0, -1, bndInf, -2, false}},
	"bytes.IndexRune":                     {{0, -1, bndInf, -2, false}},
	"strings.IndexAny":                    {{0, -1, bndInf, -2, false}},
	"strings.IndexFunc":                   {{0, -1, bndInf, -2, false}},
	"io.ReadFull":                         {{0, 0, bndInf, 1, false}},
}

// bndStdLenMin: lower bounds on the length of the string returned by a standard-library function.
var bndStdLenMin = map[string]int64{
	"strconv.Itoa":       1,
	"strconv.FormatInt":  1, // at least one digit
	"strconv.FormatUint": 1,
	"time.Time.String":   19, // Format("2006-01-02 15:04:05.999999999 -0700 MST"): the year is padded to >= 4 digits, every other field of "2006-01-02 15:04:05" has a fixed width
}

// bndSprintfMinLen: a lower bound on len(fmt.Sprintf(format, ...)) read off a constant format:
// literal bytes count, a verb with an explicit width yields at least that many bytes (%09d).
// Anything unusual ('*', argument indexes) stops the scan.
func bndSprintfMinLen(f string) int64 {
	var n int64
	for i := 0; i < len(f); {
		if f[i] != '%' {
			n++
			i++
			continue
		}
		i++
		if i >= len(f) {
			return n
		}
		if f[i] == '%' {
			n++
			i++
			continue
		}
		for i < len(f) && strings.IndexByte("+-# 0", f[i]) >= 0 {
			i++
		}
		width := int64(0)
		for i < len(f) && f[i] >= '0' && f[i] <= '9' {
			if width < 1<<20 {
				width = width*10 + int64(f[i]-'0')
			}
			i++
		}
		if i < len(f) && f[i] == '.' {
			i++
			for i < len(f) && f[i] >= '0' && f[i] <= '9' {
				i++
			}
		}
		if i >= len(f) || f[i] == '*' || f[i] == '[' {
			return n
		}
		verb := f[i]
		i++
		_ = verb // a verb without a width may render as nothing (%s, %x of an empty string, %v)
		n += width
	}
	return n
}

// defineCallLen: what is known about the length of a call's string/slice result.
func (a *bndAn) defineCallLen(w *bndDBM, call *ssa.Call) bool {
	lt := a.lenTerm(call)
	if !lt.ok || lt.n == 0 {
		return true
	}
	callee := call.Call.StaticCallee()
	if callee == nil || callee.Object() == nil {
		return true
	}
	f, isF := callee.Object().(*types.Func)
	if !isF {
		return true
	}
	name := FullName(f)
	min := int64(0)
	if m, has := bndStdLenMin[name]; has {
		min = m
	}
	if name == "fmt.Sprintf" && len(call.Call.Args) > 0 {
		if c, isC := call.Call.Args[0].(*ssa.Const); isC && c.Value != nil && c.Value.Kind() == constant.String {
			min = bndSprintfMinLen(constant.StringVal(c.Value))
		}
	}
	if min > 0 {
		return a.le(w, bndTerm{0, min, true}, lt, 0)
	}
	return true
}

func (a *bndAn) defineCall(w *bndDBM, x *ssa.Call, self bndTerm) bool {
	ok := true
	if b, isB := x.Call.Value.(*ssa.Builtin); isB {
		switch b.Name() {
		case "append":
			if lt := a.lenTerm(x); lt.ok && len(x.Call.Args) > 0 {
				if l0 := a.lenTerm(x.Call.Args[0]); l0.ok {
					ok = a.le(w, l0, lt, 0)
				}
			}
		case "copy":
			if self.ok && len(x.Call.Args) == 2 {
				ok = a.le(w, bndZero, self, 0)
				for _, arg := range x.Call.Args {
					if l := a.lenTerm(arg); l.ok {
						ok = a.le(w, self, l, 0) && ok
					}
				}
			}
		case "cap":
			if self.ok {
				if l := a.lenTerm(x.Call.Args[0]); l.ok {
					ok = a.le(w, l, self, 0)
				}
			}
		case "min":
			if self.ok {
				for _, arg := range x.Call.Args {
					if t := a.term(arg); t.ok {
						ok = a.le(w, self, t, 0) && ok
					}
				}
			}
		case "max":
			if self.ok {
				for _, arg := range x.Call.Args {
					if t := a.term(arg); t.ok {
						ok = a.le(w, t, self, 0) && ok
					}
				}
			}
		}
		return ok
	}
	if self.ok {
		ok = a.applyResult(w, x, 0, self)
	}
	return ok
}

// applyResult constrains the idx-th result of a call from a library model or a callee summary.
func (a *bndAn) applyResult(w *bndDBM, call *ssa.Call, idx int, self bndTerm) bool {
	callee := call.Call.StaticCallee()
	if callee == nil {
		if call.Call.IsInvoke() {
			return a.applyInvoke(w, call, idx, self)
		}
		return true
	}
	ok := true
	name := ""
	if callee.Object() != nil {
		if f, isF := callee.Object().(*types.Func); isF {
			name = FullName(f)
		}
	}
	if ms, has := bndStdModels[name]; has {
		for _, m := range ms {
			if m.res != idx {
				continue
			}
			if m.lo > -bndInf {
				ok = a.le(w, bndTerm{0, m.lo, true}, self, 0) && ok
			}
			if m.hi < bndInf {
				ok = a.le(w, self, bndTerm{0, m.hi, true}, 0) && ok
			}
			if m.leLenArg >= 0 && m.leLenArg < len(call.Call.Args) {
				if l := a.lenTerm(call.Call.Args[m.leLenArg]); l.ok {
					ok = a.le(w, self, l, 0) && ok
					if m.posIfArg1 && a.ub(w, bndZero, l) <= -1 {
						ok = a.le(w, bndTerm{0, 1, true}, self, 0) && ok
					}
				}
			}
			if m.leLenArg == -2 && len(call.Call.Args) > 0 { // index-of: result < len(arg0)
				if l := a.lenTerm(call.Call.Args[0]); l.ok {
					ok = a.le(w, self, l, -1) && ok
				}
			}
			if m.leLenArg == -3 && len(call.Call.Args) > 1 { // index of a substring: result + len(arg1) <= len(arg0) (an empty needle is found at 0 even in an empty haystack)
				if l := a.lenTerm(call.Call.Args[0]); l.ok {
					need := int64(0)
					if l1 := a.lenTerm(call.Call.Args[1]); l1.ok {
						if lb := a.ub(w, bndZero, l1); lb < bndInf && lb <= 0 {
							need = -lb
						}
					}
					ok = a.le(w, self, l, -need) && ok
				}
			}
		}
		return ok
	}
	if a.e.moduleFunc(callee) {
		if r := a.e.analyse(callee); r != nil && r.retSeen && !r.diverged && idx < len(r.retLo) {
			ok = a.applySummary(w, self, r.retLo[idx], r.retHi[idx], r.retLen[idx], call.Call.Args) && ok
		}
	}
	return ok
}

// applySummary: lo <= self <= hi and self <= len(args[j]) + relLen[j].
func (a *bndAn) applySummary(w *bndDBM, self bndTerm, lo, hi int64, relLen []int64, args []ssa.Value) bool {
	ok := true
	if lo > -bndInf {
		ok = a.le(w, bndTerm{0, lo, true}, self, 0) && ok
	}
	if hi < bndInf {
		ok = a.le(w, self, bndTerm{0, hi, true}, 0) && ok
	}
	for j, k := range relLen {
		if k < bndInf && j < len(args) {
			if l := a.lenTerm(args[j]); l.ok {
				ok = a.le(w, self, l, k) && ok
			}
		}
	}
	return ok
}

// applyInvoke: the result of a call through an interface. io.Reader's contract (0 <= n <= len(p))
// is a model; for an interface method whose every possible implementation is a function of the
// analysed module, the join of their summaries.
func (a *bndAn) applyInvoke(w *bndDBM, call *ssa.Call, idx int, self bndTerm) bool {
	m := call.Call.Method
	if m == nil {
		return true
	}
	if FullName(m) == "io.Reader.Read" {
		if idx != 0 || len(call.Call.Args) != 1 {
			return true
		}
		ok := a.le(w, bndZero, self, 0)
		if l := a.lenTerm(call.Call.Args[0]); l.ok {
			ok = a.le(w, self, l, 0) && ok
		}
		return ok
	}
	impls := a.e.implementations(m)
	if len(impls) == 0 {
		return true
	}
	lo, hi := bndInf, -bndInf
	var rel []int64
	any := false
	for _, f := range impls {
		r := a.e.analyse(f)
		if r == nil || r.diverged {
			return true
		}
		if !r.retSeen {
			continue // never returns
		}
		if idx >= len(r.retLo) {
			return true
		}
		if r.retLo[idx] < lo {
			lo = r.retLo[idx]
		}
		if r.retHi[idx] > hi {
			hi = r.retHi[idx]
		}
		// parameter j+1 of the implementation (0 is the receiver) is argument j of the call
		rl := make([]int64, len(call.Call.Args))
		for j := range rl {
			rl[j] = bndInf
			if j+1 < len(r.retLen[idx]) {
				rl[j] = r.retLen[idx][j+1]
			}
		}
		if !any {
			rel, any = rl, true
		} else {
			for j := range rel {
				if rl[j] > rel[j] {
					rel[j] = rl[j]
				}
			}
		}
	}
	if !any {
		return true
	}
	return a.applySummary(w, self, lo, hi, rel, call.Call.Args)
}

// implementations: every function that a call of interface method m can reach, or nil when that
// set is not closed over the analysed module: all concrete methods of the loaded program with m's
// name and signature are candidates (a superset of the method sets that satisfy the interface,
// promotion through embedding included); one outside the module, an abstract one or one of a
// generic type makes the set open.
func (e *bndEngine) implementations(m *types.Func) []*ssa.Function {
	key := FullName(m)
	if fs, done := e.impls[key]; done {
		return fs
	}
	e.impls[key] = nil
	msig, _ := m.Type().(*types.Signature)
	if msig == nil || m.Pkg() == nil {
		return nil
	}
	if pk := e.p.ByPath[m.Pkg().Path()]; pk == nil || pk.Module == nil || !pk.Module.Main {
		return nil // only interfaces declared in the module
	}
	sameSig := func(f *types.Func) bool {
		fs, _ := f.Type().(*types.Signature)
		return fs != nil && types.Identical(types.NewSignatureType(nil, nil, nil, fs.Params(), fs.Results(), fs.Variadic()),
			types.NewSignatureType(nil, nil, nil, msig.Params(), msig.Results(), msig.Variadic()))
	}
	var out []*ssa.Function
	for _, pk := range e.p.ByPath {
		if pk.Types == nil {
			continue
		}
		inModule := pk.Module != nil && pk.Module.Main
		var tns []*types.TypeName
		if pk.TypesInfo != nil && len(pk.TypesInfo.Defs) > 0 {
			for _, obj := range pk.TypesInfo.Defs {
				if tn, ok := obj.(*types.TypeName); ok {
					tns = append(tns, tn)
				}
			}
		} else {
			sc := pk.Types.Scope()
			for _, n := range sc.Names() {
				if tn, ok := sc.Lookup(n).(*types.TypeName); ok {
					tns = append(tns, tn)
				}
			}
		}
		for _, tn := range tns {
			nt, ok := tn.Type().(*types.Named)
			if !ok {
				continue
			}
			if _, isIface := nt.Underlying().(*types.Interface); isIface {
				continue
			}
			for i := 0; i < nt.NumMethods(); i++ {
				f := nt.Method(i)
				if f.Name() != m.Name() || (!f.Exported() && f.Pkg() != m.Pkg()) || !sameSig(f) {
					continue
				}
				if !inModule || nt.TypeParams().Len() > 0 {
					return nil
				}
				sf := e.ssaFunc(f)
				if sf == nil || !e.moduleFunc(sf) {
					return nil
				}
				out = append(out, sf)
			}
		}
	}
	sort.Slice(out, func(i, j int) bool { return out[i].String() < out[j].String() })
	e.impls[key] = out
	return out
}

// refine applies a branch condition to a world; false = the branch is infeasible.
func (a *bndAn) refine(w *bndDBM, cond ssa.Value, truth bool) bool {
	switch x := cond.(type) {
	case *ssa.UnOp:
		if x.Op == token.NOT {
			return a.refine(w, x.X, !truth)
		}
	case *ssa.BinOp:
		op := x.Op
		if !truth {
			switch op {
			case token.LSS:
				op = token.GEQ
			case token.LEQ:
				op = token.GTR
			case token.GTR:
				op = token.LEQ
			case token.GEQ:
				op = token.LSS
			case token.EQL:
				op = token.NEQ
			case token.NEQ:
				op = token.EQL
			default:
				return true
			}
		}
		if _, _, isInt, _ := bndIntRange(x.X.Type()); !isInt {
			return true
		}
		tx, ty := a.term(x.X), a.term(x.Y)
		if !tx.ok || !ty.ok {
			return true
		}
		switch op {
		case token.LSS:
			return a.le(w, tx, ty, -1)
		case token.LEQ:
			return a.le(w, tx, ty, 0)
		case token.GTR:
			return a.le(w, ty, tx, -1)
		case token.GEQ:
			return a.le(w, ty, tx, 0)
		case token.EQL:
			return a.eq(w, tx, ty)
		case token.NEQ:
			u, l := a.ub(w, tx, ty), a.ub(w, ty, tx)
			if u == 0 && l == 0 {
				return false
			}
			if u == 0 {
				return a.le(w, tx, ty, -1)
			}
			if l == 0 {
				return a.le(w, ty, tx, -1)
			}
		}
	}
	return true
}

// obligations of one instruction: each is  x - y <= c  between two terms with a source role.
type bndCheck struct {
	x, y   bndTerm
	c      int64
	xr, yr string // roles: "0", "index", "low", "high", "len"
}

func (a *bndAn) checksOf(ins ssa.Instruction) (checks []bndCheck, post []bndCheck, pos token.Pos, isOb bool) {
	mk := func(x, y bndTerm, c int64, xr, yr string) bndCheck { return bndCheck{x: x, y: y, c: c, xr: xr, yr: yr} }
	switch x := ins.(type) {
	case *ssa.IndexAddr:
		lt, it := a.lenTerm(x.X), a.term(x.Index)
		cs := []bndCheck{mk(bndZero, it, 0, "0", "index"), mk(it, lt, -1, "index", "len")}
		return cs, cs, x.Pos(), true
	case *ssa.Index:
		lt, it := a.lenTerm(x.X), a.term(x.Index)
		cs := []bndCheck{mk(bndZero, it, 0, "0", "index"), mk(it, lt, -1, "index", "len")}
		return cs, cs, x.Pos(), true
	case *ssa.Slice:
		lt := a.lenTerm(x.X)
		lo, hi, hr := bndZero, lt, "len"
		if x.Low != nil {
			lo = a.term(x.Low)
		}
		if x.High != nil {
			hi, hr = a.term(x.High), "high"
		}
		var cs, ps []bndCheck
		if x.Low != nil {
			c := mk(bndZero, lo, 0, "0", "low")
			cs, ps = append(cs, c), append(ps, c)
			// the runtime checks low <= high, with high = len(x) when it is omitted
			c = mk(lo, hi, 0, "low", hr)
			cs, ps = append(cs, c), append(ps, c)
		}
		if x.High != nil {
			c := mk(hi, lt, 0, "high", "len")
			cs = append(cs, c)
			if _, isSlice := x.X.Type().Underlying().(*types.Slice); !isSlice {
				ps = append(ps, c) // strings and arrays: the language checks against len (slices: cap)
			}
			if x.Low == nil {
				c2 := mk(bndZero, hi, 0, "0", "high")
				cs, ps = append(cs, c2), append(ps, c2)
			}
		}
		if x.Max != nil {
			cs = append(cs, mk(bndTerm{}, bndTerm{}, 0, "max", "len"))
		}
		return cs, ps, x.Pos(), len(cs) > 0
	}
	return nil, nil, token.NoPos, false
}

func (a *bndAn) termStr(t bndTerm) string {
	if !t.ok {
		return "?"
	}
	if t.n == 0 {
		return fmt.Sprint(t.k)
	}
	s := a.names[t.n]
	if t.k > 0 {
		return fmt.Sprintf("%s+%d", s, t.k)
	}
	if t.k < 0 {
		return fmt.Sprintf("%s%d", s, t.k)
	}
	return s
}

// step runs one instruction on one world. When recording, obligations are checked first.
func (a *bndAn) step(w *bndDBM, ins ssa.Instruction) bool {
	checks, post, pos, isOb := a.checksOf(ins)
	if isOb && a.recording {
		a.record(w, ins, checks, pos)
	}
	if st, isStore := ins.(*ssa.Store); isStore {
		if al, isAlloc := st.Addr.(*ssa.Alloc); isAlloc {
			a.forgetVal(w, al) // fields of a simple local read after this store belong to the new value
		}
	}
	ok := a.define(w, ins)
	for _, p := range post {
		if p.x.ok && p.y.ok {
			ok = a.le(w, p.x, p.y, p.c) && ok
		}
	}
	if ok && len(post) > 0 && len(a.sums) > 0 {
		ok = a.rederive(w, ins.Block(), a.order[ins]+1)
	}
	return ok
}

func (a *bndAn) record(w *bndDBM, ins ssa.Instruction, checks []bndCheck, pos token.Pos) {
	ex := a.exprAt[pos]
	if ex == nil {
		return // not an index/slice expression of the source (range lowering, variadic packing, literals)
	}
	key := types.ExprString(ex)
	ob := a.obs[key]
	if ob == nil {
		ob = &bndOb{expr: key, pos: pos}
		a.obs[key] = ob
		a.obOrder = append(a.obOrder, key)
	}
	ob.count++
	role := map[string]string{"0": "0"}
	switch e := ex.(type) {
	case *ast.IndexExpr:
		role["index"] = types.ExprString(e.Index)
		role["len"] = "len(" + types.ExprString(e.X) + ")"
	case *ast.SliceExpr:
		if e.Low != nil {
			role["low"] = types.ExprString(e.Low)
		}
		if e.High != nil {
			role["high"] = types.ExprString(e.High)
		}
		if e.Max != nil {
			role["max"] = types.ExprString(e.Max)
		}
		role["len"] = "len(" + types.ExprString(e.X) + ")"
	}
	for _, c := range checks {
		xs, ys := role[c.xr], role[c.yr]
		need := fmt.Sprintf("%s <= %s", xs, ys)
		if c.c == -1 {
			need = fmt.Sprintf("%s < %s", xs, ys)
		}
		if !c.x.ok || !c.y.ok {
			if len(ob.fails) == 0 {
				ob.pos = pos
			}
			ob.addFail(fmt.Sprintf("%s: need %s: an operand is not an integer/length term this analysis follows", a.e.p.Rel(pos), need))
			continue
		}
		u := a.ub(w, c.x, c.y)
		if u <= c.c {
			continue
		}
		best := "nothing relating the two is derivable from the conditions that dominate this point"
		if u == 0 {
			best = fmt.Sprintf("the conditions on this path only give %s <= %s", xs, ys)
		} else if u < bndInf {
			best = fmt.Sprintf("the conditions on this path only give %s <= %s + %d", xs, ys, u)
		}
		if len(ob.fails) == 0 {
			ob.pos = pos
		}
		ob.addFail(fmt.Sprintf("%s: need %s: %s", a.e.p.Rel(pos), need, best))
	}
}

func (o *bndOb) addFail(s string) {
	for _, f := range o.fails {
		if f == s {
			return
		}
	}
	o.fails = append(o.fails, s)
}

// edgeTransfer: branch refinement + phi assignment for edge b -> b.Succs[si].
func (a *bndAn) edgeTransfer(w *bndDBM, b *ssa.BasicBlock, si int) *bndDBM {
	w = w.clone()
	if iff, ok := b.Instrs[len(b.Instrs)-1].(*ssa.If); ok {
		if !a.refine(w, iff.Cond, si == 0) {
			return nil
		}
		if len(a.sums) > 0 && !a.rederive(w, b, len(b.Instrs)) {
			return nil
		}
	}
	succ := b.Succs[si]
	pi := -1
	// b may occur more than once among succ.Preds (if both branches go to the same block): the
	// k-th occurrence of succ in b.Succs corresponds to the k-th occurrence of b in succ.Preds.
	occ := 0
	for i := 0; i < si; i++ {
		if b.Succs[i] == succ {
			occ++
		}
	}
	for i, p := range succ.Preds {
		if p == b {
			if occ == 0 {
				pi = i
				break
			}
			occ--
		}
	}
	if pi < 0 {
		return w
	}
	var phis []*ssa.Phi
	for _, ins := range succ.Instrs {
		phi, ok := ins.(*ssa.Phi)
		if !ok {
			break
		}
		phis = append(phis, phi)
	}
	if len(phis) == 0 {
		return w
	}
	ok := true
	for _, phi := range phis {
		if t, has := a.phiTmp[phi]; has {
			w.forget(t)
			if tv := a.term(phi.Edges[pi]); tv.ok {
				ok = a.eq(w, bndTerm{t, 0, true}, tv) && ok
			}
		}
		if t, has := a.phiLenT[phi]; has {
			w.forget(t)
			a.axioms(w, t)
			if lv := a.lenTerm(phi.Edges[pi]); lv.ok {
				ok = a.eq(w, bndTerm{t, 0, true}, lv) && ok
			}
		}
	}
	for _, phi := range phis {
		a.forgetVal(w, phi)
	}
	for _, phi := range phis {
		if t, has := a.phiTmp[phi]; has {
			ok = a.eq(w, bndTerm{a.valNode[phi], 0, true}, bndTerm{t, 0, true}) && ok
			w.forget(t)
		}
		if t, has := a.phiLenT[phi]; has {
			if lt := a.lenTerm(phi); lt.ok {
				ok = a.eq(w, lt, bndTerm{t, 0, true}) && ok
			}
			w.forget(t)
		}
	}
	if !ok {
		return nil
	}
	return w
}

func bndDedupe(ws []*bndDBM) []*bndDBM {
	var out []*bndDBM
	for _, w := range ws {
		dup := false
		for _, o := range out {
			if o.equal(w) {
				dup = true
				break
			}
		}
		if !dup {
			out = append(out, w)
		}
	}
	if len(out) > bndMaxWorlds {
		j := out[0]
		for _, w := range out[1:] {
			j = bndJoin(j, w)
		}
		out = []*bndDBM{j}
	}
	return out
}

func (a *bndAn) computeIn(b *ssa.BasicBlock) []*bndDBM {
	var ws []*bndDBM
	seen := map[[2]int]bool{}
	for _, p := range b.Preds {
		k := [2]int{p.Index, b.Index}
		if seen[k] {
			continue
		}
		seen[k] = true
		ws = append(ws, a.edge[k]...)
	}
	if len(ws) == 0 {
		return nil
	}
	if a.loopHead[b] {
		j := ws[0]
		for _, w := range ws[1:] {
			j = bndJoin(j, w)
		}
		if old := a.in[b]; len(old) == 1 && a.visits[b] >= 3 && !a.narrowing {
			wd := j.clone()
			for i := range wd.m {
				if j.m[i] > old[0].m[i] {
					wd.m[i] = bndInf
				} else {
					wd.m[i] = old[0].m[i]
				}
			}
			if a.visits[b] < 12 {
				wd.closeAll()
			}
			j = wd
		}
		return []*bndDBM{j}
	}
	return bndDedupe(ws)
}

func (a *bndAn) runBlock(b *ssa.BasicBlock, ws []*bndDBM) []*bndDBM {
	var out []*bndDBM
	for _, w0 := range ws {
		w := w0.clone()
		alive := true
		for _, ins := range b.Instrs {
			if !a.step(w, ins) {
				alive = false
				break
			}
			if ret, ok := ins.(*ssa.Return); ok && a.recording {
				a.noteReturn(w, ret)
			}
		}
		if alive {
			out = append(out, w)
		}
	}
	return out
}

func (a *bndAn) noteReturn(w *bndDBM, ret *ssa.Return) {
	if !a.retSeen {
		a.retSeen = true
		a.retLo = make([]int64, len(ret.Results))
		a.retHi = make([]int64, len(ret.Results))
		a.retLen = make([][]int64, len(ret.Results))
		for i := range a.retLo {
			a.retLo[i], a.retHi[i] = bndInf, -bndInf // empty interval
			a.retLen[i] = make([]int64, len(a.fn.Params))
			for j := range a.retLen[i] {
				a.retLen[i][j] = -bndInf
			}
		}
	}
	for i, r := range ret.Results {
		if i >= len(a.retLo) {
			break
		}
		lo, hi := -bndInf, bndInf
		if t := a.term(r); t.ok {
			if u := a.ub(w, t, bndZero); u < bndInf {
				hi = u
			}
			if l := a.ub(w, bndZero, t); l < bndInf {
				lo = -l
			}
		}
		if lo < a.retLo[i] {
			a.retLo[i] = lo
		}
		if hi > a.retHi[i] {
			a.retHi[i] = hi
		}
		for j, p := range a.fn.Params {
			k := bndInf
			if t := a.term(r); t.ok {
				if lp := a.paramLen(p); lp.ok {
					k = a.ub(w, t, lp)
				}
			}
			if k > a.retLen[i][j] {
				a.retLen[i][j] = k
			}
		}
	}
}

// paramLen: the length node of a string/slice parameter (an SSA parameter is never redefined, so
// at a return it still is the length the caller passed).
func (a *bndAn) paramLen(p *ssa.Parameter) bndTerm {
	switch p.Type().Underlying().(type) {
	case *types.Slice:
	case *types.Basic:
		if !bndBytesOrString(p.Type()) {
			return bndTerm{}
		}
	default:
		return bndTerm{}
	}
	return a.lenTerm(p)
}

func (a *bndAn) run() {
	blocks := a.fn.Blocks
	entry := blocks[0]
	a.in[entry] = []*bndDBM{a.initial()}
	work := map[int]bool{0: true}
	steps := 0
	for len(work) > 0 {
		steps++
		if steps > 4000 {
			a.diverged = true
			break
		}
		bi := -1
		for i := range work {
			if bi < 0 || i < bi {
				bi = i
			}
		}
		delete(work, bi)
		b := blocks[bi]
		a.visits[b]++
		out := a.runBlock(b, a.in[b])
		for si, s := range b.Succs {
			var es []*bndDBM
			for _, w := range out {
				if nw := a.edgeTransfer(w, b, si); nw != nil {
					es = append(es, nw)
				}
			}
			es = bndDedupe(es)
			k := [2]int{b.Index, s.Index}
			if dup := bndSameEdgeEarlier(b, si); dup {
				es = append(append([]*bndDBM{}, a.edge[k]...), es...)
				es = bndDedupe(es)
			}
			if _, had := a.edge[k]; had && bndWorldsEqual(a.edge[k], es) {
				continue
			}
			a.edge[k] = es
			nin := a.computeIn(s)
			if old, had := a.in[s]; had && bndWorldsEqual(old, nin) {
				continue
			}
			a.in[s] = nin
			work[s.Index] = true
		}
	}
	// narrowing: the states reached are a post-fixpoint (every in[b] over-approximates the
	// concrete states at b); recomputing each block's entry as the plain join of its incoming
	// edges, without widening, keeps that property and recovers bounds the widening gave up
	// (for i = 0; i < 3; i++ { ... break ... } leaves i <= 3). A fixed number of descending passes.
	if !a.diverged {
		a.narrowing = true
		for pass := 0; pass < 3; pass++ {
			changed := false
			for _, b := range blocks {
				if b != entry {
					nin := a.computeIn(b)
					if !bndWorldsEqual(a.in[b], nin) {
						changed = true
					}
					a.in[b] = nin
				}
				out := a.runBlock(b, a.in[b])
				done := map[*ssa.BasicBlock]bool{}
				for _, s := range b.Succs {
					if done[s] {
						continue
					}
					done[s] = true
					var es []*bndDBM
					for si, s2 := range b.Succs {
						if s2 != s {
							continue
						}
						for _, w := range out {
							if nw := a.edgeTransfer(w, b, si); nw != nil {
								es = append(es, nw)
							}
						}
					}
					a.edge[[2]int{b.Index, s.Index}] = bndDedupe(es)
				}
			}
			if !changed {
				break
			}
		}
		a.narrowing = false
	}
	if a.e.debug {
		a.dump()
	}
	// final pass: check obligations and collect return intervals on the stable states
	a.recording = true
	for _, b := range blocks {
		a.runBlock(b, a.in[b])
	}
	a.recording = false
}

// bndSameEdgeEarlier: both successors of b are the same block and this is the second one.
func bndSameEdgeEarlier(b *ssa.BasicBlock, si int) bool {
	for i := 0; i < si; i++ {
		if b.Succs[i] == b.Succs[si] {
			return true
		}
	}
	return false
}

func (a *bndAn) dump() {
	fmt.Fprintf(os.Stderr, "==== bounds: %s (%d nodes, diverged=%v)\n", a.fn.String(), a.nNodes, a.diverged)
	a.fn.WriteTo(os.Stderr)
	for _, b := range a.fn.Blocks {
		fmt.Fprintf(os.Stderr, "-- block %d (%s) loopHead=%v worlds=%d\n", b.Index, b.Comment, a.loopHead[b], len(a.in[b]))
		for wi, w := range a.in[b] {
			var cs []string
			for i := 0; i < a.nNodes; i++ {
				for j := 0; j < a.nNodes; j++ {
					if i != j && w.get(i, j) < bndInf && !strings.HasPrefix(a.names[i], "tmp") && !strings.HasPrefix(a.names[j], "tmp") {
						cs = append(cs, fmt.Sprintf("%s-%s<=%d", a.names[i], a.names[j], w.get(i, j)))
					}
				}
			}
			sort.Strings(cs)
			fmt.Fprintf(os.Stderr, "   w%d: %s\n", wi, strings.Join(cs, " "))
		}
	}
}

// ---------------------------------------------------------------------------------------
// rule entry point

// BoundsCheckFuncs decides, for every index and slice expression in the source of the given
// functions, that it is in range on every path (see the file comment). One obligation per
// function and distinct source expression, keyed "<Type.Func>/<expression>".
func BoundsCheckFuncs(c *Ctx, rule string, fns []*types.Func) {
	BoundsCheckFuncsOpt(c, rule, fns, BoundsOpts{})
}

// BoundsOpts: Strict selects machine-integer semantics (see bndEngine.strict); Anon also decides the
// function literals nested in each function (keyed under the enclosing function); Exceptions are
// the rule's own named exceptions (FuncName/expression -> reason) in addition to bndExceptions;
// Unreached, if set, returns a reason when a function cannot be reached at all (dead code): its
// unproven expressions are then recorded as exceptions with that reason.
type BoundsOpts struct {
	Strict     bool
	Anon       bool
	Exceptions map[string]string
	Unreached  func(f *types.Func) string
}

func BoundsCheckFuncsOpt(c *Ctx, rule string, fns []*types.Func, opt BoundsOpts) {
	e := bndEngineForMode(c.P, opt.Strict)
	for _, f := range fns {
		if f == nil {
			c.Undecided(rule, "function", token.NoPos, "a kernel function of the rule's frozen list was not found")
			continue
		}
		name := bndShortName(f)
		sf := e.ssaFunc(f)
		if sf == nil || len(sf.Blocks) == 0 {
			c.Undecided(rule, name, f.Pos(), "no SSA body for "+FullName(f))
			continue
		}
		sfs := []*ssa.Function{sf}
		if opt.Anon {
			for i := 0; i < len(sfs); i++ {
				sfs = append(sfs, sfs[i].AnonFuncs...)
			}
		}
		// one obligation per distinct source expression of the declaration (literals included)
		type merged struct {
			ob    *bndOb
			fails []string
			count int
		}
		obs := map[string]*merged{}
		var order []string
		failed := false
		for _, g := range sfs {
			a := e.analyse(g)
			if a == nil || a.diverged {
				c.Undecided(rule, name, f.Pos(), "bounds analysis did not converge")
				failed = true
				break
			}
			for _, k := range a.obOrder {
				ob := a.obs[k]
				m := obs[k]
				if m == nil {
					m = &merged{ob: ob}
					obs[k] = m
					order = append(order, k)
				}
				m.count += ob.count
				for _, fl := range ob.fails {
					if len(m.fails) == 0 {
						m.ob = ob
					}
					m.fails = append(m.fails, fl)
				}
			}
		}
		if failed {
			continue
		}
		if len(order) == 0 {
			c.Note(rule, name+"/-", f.Pos(), "no index or slice expressions")
		}
		unreached := ""
		if opt.Unreached != nil && !c.fixtureMode {
			unreached = opt.Unreached(f)
		}
		for _, k := range order {
			m := obs[k]
			key := name + "/" + m.ob.expr
			full := FuncName(f) + "/" + m.ob.expr
			switch {
			case len(m.fails) == 0:
				c.Ok(rule, key, m.ob.pos, fmt.Sprintf("in range on every path (%d SSA sites)", m.count))
			case bndExceptions[full] != "" && !c.fixtureMode:
				c.Exc(rule, key, m.ob.pos, bndExceptions[full])
			case opt.Exceptions[full] != "" && !c.fixtureMode:
				c.Exc(rule, key, m.ob.pos, opt.Exceptions[full])
			case unreached != "":
				c.Exc(rule, key, m.ob.pos, unreached)
			default:
				hint := ""
				if opt.Strict {
					hint = " (machine-integer semantics: the operands may be any 64-bit value, so a sum, difference or negation that is not provably free of overflow bounds nothing)"
				}
				c.Bad(rule, key, m.ob.pos, fmt.Sprintf("%s: %s may be out of range: no dominating comparison bounds it by the length of its operand%s", name, m.ob.expr, hint), m.fails...)
			}
		}
	}
	c.Assumptions = bndAppendUnique(c.Assumptions, "bounds engine: struct fields never assigned outside composite literals in the loaded module (or assigned only through a different enclosing object type) are read as stable")
	c.Assumptions = bndAppendUnique(c.Assumptions, "bounds engine: standard-library contracts are taken as stated (io.Reader.Read returns 0 <= n <= len(p); strings.Index results; strconv.FormatInt and time.Time.String lengths); the result of a call through an interface declared in the module is the join over every concrete method of the loaded program with that name and signature")
	if opt.Strict {
		c.Assumptions = bndAppendUnique(c.Assumptions, "bounds engine (strict mode): 64-bit integer arithmetic wraps; a sum, difference or negation is related to its operands only where it provably does not overflow; no string or slice is longer than 2^40 elements")
	} else {
		c.Assumptions = bndAppendUnique(c.Assumptions, "bounds engine: int/uint/int64/uint64 index arithmetic is assumed not to wrap")
	}
}

func bndAppendUnique(ss []string, s string) []string {
	for _, x := range ss {
		if x == s {
			return ss
		}
	}
	return append(ss, s)
}

func bndShortName(f *types.Func) string {
	sig := f.Type().(*types.Signature)
	if r := sig.Recv(); r != nil {
		t := r.Type()
		if pt, ok := t.(*types.Pointer); ok {
			t = pt.Elem()
		}
		if nt, ok := types.Unalias(t).(*types.Named); ok {
			return nt.Obj().Name() + "." + f.Name()
		}
	}
	return f.Name()
}
