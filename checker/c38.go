package main

import (
	"fmt"
	"go/ast"
	"go/constant"
	"go/token"
	"go/types"
	"strings"

	"golang.org/x/tools/go/cfg"
	"golang.org/x/tools/go/packages"
)

// C38 — named locks: atomic-slot discipline of LockSubsystem.
//
// A named lock is a slot `*ownedLock` reached through a `**ownedLock`; all state changes are
// CAS loops on that slot that replace the pointed-to (immutable) ownedLock value.

type c38Anchors struct {
	rel                    string // package of the lock subsystem
	lsType, olType         string
	ownerField, countField string
	sessionID              string   // full name of Session.ID
	addLock, delLock       []string // full names
	handlerRel             string   // package of the connection handler ("" = skip L7)
	closedFn, resetFn      string
	releaseHelper          string // full name of maybeReleaseAllLocks
	releaseAll             string // full name of LockSubsystem.ReleaseAll
	teardown               []string // full names that end the session (must come after the release)
	floors                 map[string]int
	guardedBy              func(c *Ctx)
}

func init() {
	sq := modPath + "/sql."
	sv := modPath + "/server."
	register(&Property{
		ID:       "C38",
		Patterns: []string{".", "./server"},
		Explanation: "Decided for sql.LockSubsystem: (L1) the lock slot (**ownedLock) is never dereferenced directly; the *unsafe.Pointer view of it is used only as the first argument of " +
			"atomic.LoadPointer / atomic.CompareAndSwapPointer (no StorePointer/SwapPointer, no plain load/store); (L2) every CAS is the condition of an `if` inside a `for` loop, its `old` argument is " +
			"the pointer loaded by atomic.LoadPointer from the same slot in the same loop iteration, its `new` argument is a freshly built ownedLock, CAS failure leads back to the load on every path " +
			"and CAS success never does; (L3) on every path from the load to a CAS an ownership test has succeeded (Owner == 0, or Owner == the id of the context's session): a non-owner path performs " +
			"no CAS; (L4) ownedLock values are never mutated after construction (Owner/Count are only read); (L5) LockSubsystem.locks is accessed only under lockLock (write => Lock) and lockLock is " +
			"released on every exit; (L6) Session.AddLock is called exactly on the success edge of a CAS that installs Count = 1 over a free lock (and on every such edge), Session.DelLock exactly on " +
			"the success edge of a counted release that installs the empty value, and nobody else calls them; (L7) Handler.ConnectionClosed and ComResetConnection call the release helper on every path, " +
			"before the session is torn down, and the helper calls ReleaseAll on every path on which it obtained a context; (L8) the value installed by a CAS matches the path: {me, 1} over a free lock, " +
			"{me, Count+1} over my lock, {me, Count-1} only under Count > 1, the empty value only by the owner (and in a counted release only when Count > 1 is false). A violated clause breaks mutual " +
			"exclusion, re-entrancy counting, 'release by a non-holder has no effect', or release on disconnect.",
		NotCovered: "linearizability under arbitrary interleavings (only the per-iteration CAS protocol is decided), timeouts/sleep loop of Lock, the GET_LOCK family's argument handling, ReleaseAll not pruning the session's name set (stale names are harmless: ownership is re-tested)",
		Technique:  "who-may-touch on types + CFG path exploration with ownership/count branch facts and reaching new-value kind",
		Run: func(c *Ctx) {
			runC38(c, c38Anchors{rel: "sql", lsType: "LockSubsystem", olType: "ownedLock", ownerField: "Owner", countField: "Count",
				sessionID: sq + "Session.ID", addLock: []string{sq + "Session.AddLock", sq + "BaseSession.AddLock"}, delLock: []string{sq + "Session.DelLock", sq + "BaseSession.DelLock"},
				handlerRel: "server", closedFn: "Handler.ConnectionClosed", resetFn: "Handler.ComResetConnection", releaseHelper: sv + "Handler.maybeReleaseAllLocks",
				releaseAll: sq + "LockSubsystem.ReleaseAll", teardown: []string{modPath + ".Engine.CloseSession", sv + "SessionManager.RemoveConn", sv + "SessionManager.NewSession"},
				floors: map[string]int{"C38-L1": 8, "C38-L2": 4, "C38-L3": 4, "C38-L4": 10, "C38-L5": 3, "C38-L5x": 2, "C38-L6": 5, "C38-L7": 5, "C38-L8": 4},
				guardedBy: func(c *Ctx) {
					r := gbShared(c)
					for _, e := range gbTable {
						if e.Prop == "C38" {
							gbReportEntry(c, r, e, "C38-L5", "C38-L5c", "C38-L5x", nil, nil)
						}
					}
				}})
		},
		Fixture: func(c *Ctx, fx *Prog) {
			fa := func(rel string) c38Anchors {
				pp := "vchk/" + rel + "."
				return c38Anchors{rel: rel, lsType: "LockSubsystem", olType: "ownedLock", ownerField: "Owner", countField: "Count",
					sessionID: pp + "Session.ID", addLock: []string{pp + "Session.AddLock"}, delLock: []string{pp + "Session.DelLock"},
					handlerRel: rel, closedFn: "Closed", resetFn: "", releaseHelper: pp + "maybeRelease", releaseAll: pp + "LockSubsystem.ReleaseAll", teardown: []string{pp + "closeSession"},
					floors: map[string]int{}}
			}
			expectFixture(c, fx, "c38 good: reference CAS protocol accepted", nil, func(fc *Ctx) { runC38(fc, fa("testdata/c38/good")) })
			expectFixture(c, fx, "c38 bad: plain store to the slot, stale old pointer, CAS without owner test, mutated ownedLock, AddLock on re-entry, DelLock while still held, wrong count, release after teardown",
				[]string{
					"C38-L1:LockSubsystem.Force/*slot",
					"C38-L1:LockSubsystem.Force2/dest→StorePointer",
					"C38-L2:LockSubsystem.StaleCAS/CAS",
					"C38-L3:LockSubsystem.Steal/CAS",
					"C38-L4:LockSubsystem.Bump/Count=",
					"C38-L3:LockSubsystem.StaleCAS/CAS", // undecided after the L2 failure
					"C38-L8:LockSubsystem.StaleCAS/CAS", // undecided after the L2 failure
					"C38-L8:LockSubsystem.Steal/CAS",    // {me,1} installed over a lock not known to be free
					"C38-L6:LockSubsystem.Steal/AddLock", // takes a lock without recording it in the session
					"C38-L6:LockSubsystem.tryLock/lock-set",
					"C38-L6:LockSubsystem.Unlock/DelLock",
					"C38-L6:other/AddLock",
					"C38-L7:Closed/order",
					"C38-L7:maybeRelease/ReleaseAll",
					"C38-L8:LockSubsystem.Unlock/CAS",
				},
				func(fc *Ctx) { runC38(fc, fa("testdata/c38/bad")) })
		},
		FixturePkgs: []string{"./testdata/c38/good", "./testdata/c38/bad"},
	})
}

type c38State struct {
	c                  *Ctx
	a                  c38Anchors
	pk                 *packages.Package
	info               *types.Info
	olTN               *types.TypeName
	ownerVar, countVar *types.Var
	ptrT, pptrT        types.Type
}

func runC38(c *Ctx, a c38Anchors) {
	fl := func(id string) int { return a.floors[id] }
	if !c.fixtureMode {
		c38InsertIfAbsent(c, "sql", "LockSubsystem", "locks")
	}
	c.Rule("C38-L1", "the lock slot is never dereferenced; its *unsafe.Pointer view is used only as first argument of atomic.LoadPointer / CompareAndSwapPointer", fl("C38-L1"))
	c.Rule("C38-L2", "every CAS: `if CAS(dest, old, new)` in a for loop, old = LoadPointer(dest) of the same iteration, new freshly built, failure returns to the load, success leaves the loop", fl("C38-L2"))
	c.Rule("C38-L3", "on every path from the load to a CAS an ownership test succeeded (Owner == 0 or Owner == session id)", fl("C38-L3"))
	c.Rule("C38-L4", "ownedLock.Owner / Count are never written after construction", fl("C38-L4"))
	c.Rule("C38-L6", "AddLock exactly on the success edge of a CAS installing Count=1 over a free lock; DelLock exactly on the success edge of a counted release installing the empty value; no other callers", fl("C38-L6"))
	c.Rule("C38-L7", "ConnectionClosed / ComResetConnection call the release helper on every path before tearing the session down; the helper calls ReleaseAll whenever it obtained a context", fl("C38-L7"))
	c.Rule("C38-L8", "the value installed by each CAS matches the branch facts: {me,1} over free, {me,Count+1} over mine, {me,Count-1} only under Count>1, empty only by the owner (counted release: only when not Count>1)", fl("C38-L8"))
	if a.guardedBy != nil {
		c.Rule("C38-L5", "guarded-by: LockSubsystem.locks only under lockLock (write => Lock)", fl("C38-L5"))
		c.Rule("C38-L5c", "call sites of caller-holds helpers of LockSubsystem hold lockLock", 0)
		c.Rule("C38-L5x", "every function that takes lockLock releases it on every exit", fl("C38-L5x"))
	}
	pk := c.P.Pkg(a.rel)
	if pk == nil {
		c.Undecided("C38-L1", "package", 0, "package "+a.rel+" not loaded")
		return
	}
	s := &c38State{c: c, a: a, pk: pk, info: pk.TypesInfo}
	s.olTN, _ = pk.Types.Scope().Lookup(a.olType).(*types.TypeName)
	if s.olTN == nil {
		c.Undecided("C38-L1", a.olType, 0, "type not found")
		return
	}
	s.ownerVar, s.countVar = c47FieldVar(s.olTN, a.ownerField), c47FieldVar(s.olTN, a.countField)
	if s.ownerVar == nil || s.countVar == nil {
		c.Undecided("C38-L4", a.olType, s.olTN.Pos(), "Owner/Count fields not found")
		return
	}
	s.ptrT = types.NewPointer(s.olTN.Type())
	s.pptrT = types.NewPointer(s.ptrT)

	for _, file := range pk.Syntax {
		for _, d := range file.Decls {
			fd, ok := d.(*ast.FuncDecl)
			if !ok || fd.Body == nil {
				continue
			}
			s.slotDiscipline(fd)
			s.immutability(fd)
			for _, u := range funcUnits(fd) {
				s.casLoops(u)
			}
		}
	}
	s.lockSetCallers()
	if a.handlerRel != "" {
		s.disconnect()
	}
	if a.guardedBy != nil {
		a.guardedBy(c)
	}
}

func (s *c38State) isAtomic(call *ast.CallExpr, name string) bool {
	fn := Callee(s.info, call)
	return fn != nil && fn.Pkg() != nil && fn.Pkg().Path() == "sync/atomic" && fn.Name() == name
}

// destConv: (*unsafe.Pointer)(unsafe.Pointer(x)) with x a **ownedLock.
func (s *c38State) destConv(e ast.Expr) bool {
	call, ok := ast.Unparen(e).(*ast.CallExpr)
	if !ok || len(call.Args) != 1 {
		return false
	}
	if tv, ok := s.info.Types[call.Fun]; !ok || !tv.IsType() {
		return false
	}
	inner, ok := ast.Unparen(call.Args[0]).(*ast.CallExpr)
	if !ok || len(inner.Args) != 1 {
		return false
	}
	if tv, ok := s.info.Types[inner.Fun]; !ok || !tv.IsType() {
		return false
	}
	t := s.info.TypeOf(inner.Args[0])
	return t != nil && types.Identical(t, s.pptrT)
}

// ---- L1 ----------------------------------------------------------------------------------

func (s *c38State) slotDiscipline(fd *ast.FuncDecl) {
	c, info := s.c, s.info
	name := DeclName(fd)
	// dest variables
	dests := map[types.Object]bool{}
	ast.Inspect(fd.Body, func(n ast.Node) bool {
		if as, ok := n.(*ast.AssignStmt); ok && len(as.Lhs) == len(as.Rhs) {
			for i, r := range as.Rhs {
				if s.destConv(r) {
					if id, ok := as.Lhs[i].(*ast.Ident); ok {
						if o := info.Defs[id]; o != nil {
							dests[o] = true
						} else if o := info.Uses[id]; o != nil {
							dests[o] = true
						}
					}
				}
			}
		}
		return true
	})
	c47Walk(fd.Body, func(n ast.Node, stack []ast.Node) {
		switch x := n.(type) {
		case *ast.StarExpr:
			if t := info.TypeOf(x.X); t != nil && types.Identical(t, s.pptrT) {
				if tv, ok := info.Types[x]; ok && tv.IsType() {
					return
				}
				c.Bad("C38-L1", name+"/*slot", x.Pos(), "the lock slot is dereferenced directly (plain load or store): it races with the CAS protocol")
			}
		case *ast.Ident:
			o := info.Uses[x]
			if o == nil || !dests[o] {
				return
			}
			par := c47Parent(stack, 0)
			if as, ok := par.(*ast.AssignStmt); ok {
				for _, l := range as.Lhs {
					if l == ast.Expr(x) {
						return // (re)definition
					}
				}
			}
			how := "plain"
			if call, ok := par.(*ast.CallExpr); ok {
				if fn := Callee(info, call); fn != nil {
					how = fn.Name()
				}
				if len(call.Args) > 0 && ast.Unparen(call.Args[0]) == ast.Expr(x) && (s.isAtomic(call, "LoadPointer") || s.isAtomic(call, "CompareAndSwapPointer")) {
					c.Ok("C38-L1", name+"/dest→"+how, x.Pos(), "slot touched by atomic."+how)
					return
				}
			}
			c.Bad("C38-L1", name+"/dest→"+how, x.Pos(), "the slot's *unsafe.Pointer view is used other than as the first argument of atomic.LoadPointer/CompareAndSwapPointer (StorePointer, SwapPointer or a plain access bypass the ownership test)")
		case *ast.CallExpr:
			// inline conversion used directly as an argument
			if s.destConv(x) {
				par := c47Parent(stack, 0)
				if _, isAssign := par.(*ast.AssignStmt); isAssign {
					return
				}
				how := "plain"
				if call, ok := par.(*ast.CallExpr); ok {
					if fn := Callee(info, call); fn != nil {
						how = fn.Name()
					}
					if len(call.Args) > 0 && ast.Unparen(call.Args[0]) == ast.Expr(x) && (s.isAtomic(call, "LoadPointer") || s.isAtomic(call, "CompareAndSwapPointer")) {
						c.Ok("C38-L1", name+"/dest→"+how, x.Pos(), "slot touched by atomic."+how)
						return
					}
				}
				c.Bad("C38-L1", name+"/dest→"+how, x.Pos(), "the slot's *unsafe.Pointer view is used other than as the first argument of atomic.LoadPointer/CompareAndSwapPointer")
			}
		}
	})
}

// ---- L4 ----------------------------------------------------------------------------------

func (s *c38State) immutability(fd *ast.FuncDecl) {
	c, info := s.c, s.info
	name := DeclName(fd)
	c47Walk(fd.Body, func(n ast.Node, stack []ast.Node) {
		sel, ok := n.(*ast.SelectorExpr)
		if !ok {
			return
		}
		fv := c47SelField(info, sel)
		if fv != s.ownerVar && fv != s.countVar {
			return
		}
		if gbIsWrite(info, sel, stack) {
			c.Bad("C38-L4", name+"/"+fv.Name()+"=", sel.Pos(), "an ownedLock value is mutated in place: readers that loaded the pointer see the owner/count change without a CAS")
		} else {
			c.Ok("C38-L4", name+"/"+fv.Name(), sel.Pos(), "read")
		}
	})
}

// ---- L2 / L3 / L6 / L8: CAS loops ----------------------------------------------------------

type c38Lit int8

const (
	c38None c38Lit = iota
	c38Zero
	c38One
	c38Inc
	c38Dec
	c38Other
)

func (k c38Lit) String() string {
	return [...]string{"none", "{} (free)", "{me, 1}", "{me, Count+1}", "{me, Count-1}", "unrecognised"}[k]
}

// isUserID: an expression equal to the id of the context's session (possibly converted).
func (s *c38State) isUserID(body *ast.BlockStmt, e ast.Expr, depth int) bool {
	e = ast.Unparen(e)
	if depth > 3 {
		return false
	}
	if call, ok := e.(*ast.CallExpr); ok {
		if tv, ok := s.info.Types[call.Fun]; ok && tv.IsType() && len(call.Args) == 1 {
			return s.isUserID(body, call.Args[0], depth+1)
		}
		if fn := Callee(s.info, call); fn != nil && FullName(fn.Origin()) == s.a.sessionID {
			return true
		}
		return false
	}
	if id, ok := e.(*ast.Ident); ok {
		if def := c47UniqueDef(s.info, body, s.info.Uses[id]); def != nil {
			return s.isUserID(body, def, depth+1)
		}
	}
	return false
}

// litKind classifies an &ownedLock{…} expression.
func (s *c38State) litKind(declBody *ast.BlockStmt, e ast.Expr) c38Lit {
	u, ok := ast.Unparen(e).(*ast.UnaryExpr)
	if !ok || u.Op != token.AND {
		return c38None
	}
	cl, ok := ast.Unparen(u.X).(*ast.CompositeLit)
	if !ok || c47NamedOf(s.info.TypeOf(cl)) != s.olTN {
		return c38None
	}
	if len(cl.Elts) == 0 {
		return c38Zero
	}
	var owner, count ast.Expr
	st := s.olTN.Type().Underlying().(*types.Struct)
	for i, el := range cl.Elts {
		if kv, ok := el.(*ast.KeyValueExpr); ok {
			if id, ok := kv.Key.(*ast.Ident); ok {
				switch id.Name {
				case s.a.ownerField:
					owner = kv.Value
				case s.a.countField:
					count = kv.Value
				}
			}
		} else if i < st.NumFields() {
			switch st.Field(i).Name() {
			case s.a.ownerField:
				owner = el
			case s.a.countField:
				count = el
			}
		}
	}
	if owner == nil || count == nil || !s.isUserID(declBody, owner, 0) {
		return c38Other
	}
	if tv, ok := s.info.Types[count]; ok && tv.Value != nil {
		if v, ok := constant.Int64Val(tv.Value); ok && v == 1 {
			return c38One
		}
		return c38Other
	}
	if be, ok := ast.Unparen(count).(*ast.BinaryExpr); ok && c47SelField(s.info, be.X) == s.countVar {
		if tv, ok := s.info.Types[be.Y]; ok && tv.Value != nil {
			if v, ok := constant.Int64Val(tv.Value); ok && v == 1 {
				switch be.Op {
				case token.ADD:
					return c38Inc
				case token.SUB:
					return c38Dec
				}
			}
		}
	}
	return c38Other
}

type c38Path struct {
	owner  int8 // 0 none, 1 free, 2 mine
	cnt    int8 // 0 unknown, 1 Count > 1, 2 not (Count > 1)
	lit    c38Lit
	acq    c38Lit // kind installed by the CAS that succeeded on this path
	called int8   // bit 1 AddLock, bit 2 DelLock
}

func (s *c38State) casLoops(u funcUnit) {
	c, info := s.c, s.info
	var cass []*ast.CallExpr
	inspectNoLit(u.Body, func(n ast.Node) bool {
		if call, ok := n.(*ast.CallExpr); ok && s.isAtomic(call, "CompareAndSwapPointer") && len(call.Args) == 3 {
			if t := info.TypeOf(call.Args[0]); t != nil {
				cass = append(cass, call)
			}
		}
		return true
	})
	if len(cass) == 0 {
		return
	}
	uname := DeclName(u.Decl)
	g := c.P.CFG(info, u.Body)
	hasDec := false
	ast.Inspect(u.Body, func(n ast.Node) bool {
		if e, ok := n.(ast.Expr); ok && s.litKind(u.Decl.Body, e) == c38Dec {
			hasDec = true
		}
		return true
	})
	for _, cas := range cass {
		// only CAS calls on a lock slot
		destID, _ := ast.Unparen(cas.Args[0]).(*ast.Ident)
		var destObj types.Object
		if destID != nil {
			destObj = info.Uses[destID]
			if def := c47UniqueDef(info, u.Decl.Body, destObj); def == nil || !s.destConv(def) {
				continue
			}
		} else if !s.destConv(cas.Args[0]) {
			continue
		}
		// ---- L2 shape
		var loadStmt ast.Node
		var newObj types.Object
		inlineKind := c38None
		l2 := func() string {
			oldID, ok := ast.Unparen(cas.Args[1]).(*ast.Ident)
			if !ok {
				return "the `old` argument is not a variable"
			}
			def := c47UniqueDef(info, u.Decl.Body, info.Uses[oldID])
			lc, ok := ast.Unparen(def).(*ast.CallExpr)
			if def == nil || !ok || !s.isAtomic(lc, "LoadPointer") || len(lc.Args) != 1 {
				return "the `old` argument is not the (single) result of atomic.LoadPointer"
			}
			if lid, ok := ast.Unparen(lc.Args[0]).(*ast.Ident); destObj != nil && (!ok || info.Uses[lid] != destObj) {
				return "the pointer compared was loaded from another slot"
			}
			// same loop iteration
			loopOf := func(target ast.Node) *ast.ForStmt {
				var res *ast.ForStmt
				c47Walk(u.Body, func(n ast.Node, stack []ast.Node) {
					if n != target {
						return
					}
					for i := len(stack) - 1; i >= 0; i-- {
						if _, ok := stack[i].(*ast.FuncLit); ok {
							return
						}
						if f, ok := stack[i].(*ast.ForStmt); ok {
							res = f
							return
						}
					}
				})
				return res
			}
			lf, cf := loopOf(lc), loopOf(cas)
			if cf == nil {
				return "the CAS is not inside a for loop: a lost race is not retried"
			}
			if lf != cf {
				return "the pointer compared was loaded outside the CAS's loop iteration (stale `old`: the ownership decision is not re-made after a lost race)"
			}
			pt, ok := FindNode(g, lc)
			if !ok {
				return "load not reachable"
			}
			loadStmt = pt.B.Nodes[pt.I]
			// CAS must be an if condition
			var ifs *ast.IfStmt
			c47Walk(u.Body, func(n ast.Node, stack []ast.Node) {
				if n == ast.Node(cas) {
					if p, ok := c47Parent(stack, 0).(*ast.IfStmt); ok && ast.Unparen(p.Cond) == ast.Expr(cas) {
						ifs = p
					}
				}
			})
			if ifs == nil {
				return "the CAS result is not tested by an `if`"
			}
			// new value fresh
			nv, ok := ast.Unparen(cas.Args[2]).(*ast.CallExpr)
			if !ok || len(nv.Args) != 1 {
				return "the `new` argument is not unsafe.Pointer(<fresh ownedLock>)"
			}
			if k := s.litKind(u.Decl.Body, nv.Args[0]); k != c38None {
				inlineKind = k
			} else if id, ok := ast.Unparen(nv.Args[0]).(*ast.Ident); ok {
				newObj = info.Uses[id]
				n, bad := 0, false
				ast.Inspect(u.Decl.Body, func(m ast.Node) bool {
					if as, ok := m.(*ast.AssignStmt); ok && len(as.Lhs) == len(as.Rhs) {
						for i, l := range as.Lhs {
							if lid, ok := l.(*ast.Ident); ok && (info.Defs[lid] == newObj || info.Uses[lid] == newObj) {
								n++
								if s.litKind(u.Decl.Body, as.Rhs[i]) == c38None {
									bad = true
								}
							}
						}
					}
					return true
				})
				if n == 0 || bad {
					return "the `new` value is not always a freshly built &ownedLock{…}"
				}
			} else {
				return "the `new` argument is not unsafe.Pointer(<fresh ownedLock>)"
			}
			// failure -> back to the load; success -> never back to the load
			var cb *cfg.Block
			for _, b := range g.Blocks {
				if len(b.Nodes) > 0 && len(b.Succs) == 2 {
					if last, ok := b.Nodes[len(b.Nodes)-1].(ast.Expr); ok && ast.Unparen(last) == ast.Expr(cas) {
						cb = b
					}
				}
			}
			if cb == nil {
				return "CAS condition block not found in the CFG"
			}
			isLoad := func(n ast.Node) bool { return n == loadStmt }
			if p := PathAvoiding(g, CFGPoint{cb.Succs[1], -1}, isLoad, nil, nil); p != nil {
				return "after a failed CAS a path leaves without re-loading the slot (the operation is silently dropped)"
			}
			if p := PathAvoiding(g, CFGPoint{cb.Succs[0], -1}, nil, isLoad, nil); p != nil {
				return "after a successful CAS the loop runs again (the operation is applied twice)"
			}
			return ""
		}()
		key := uname + "/CAS"
		if l2 != "" {
			c.Bad("C38-L2", key, cas.Pos(), uname+": "+l2)
			c.Undecided("C38-L3", key, cas.Pos(), "CAS loop shape not recognised")
			c.Undecided("C38-L8", key, cas.Pos(), "CAS loop shape not recognised")
			continue
		}
		c.Ok("C38-L2", key, cas.Pos(), "load / test / CAS / retry loop")

		// ---- path exploration from the load
		from, _ := FindNode(g, loadStmt)
		lsel := func(e ast.Expr, fv *types.Var) bool { return c47SelField(info, e) == fv }
		explore := func(check string) (string, []ast.Node) {
			msg := ""
			node := func(n ast.Node, st c38Path) (c38Path, pathAct) {
				if n == loadStmt {
					return st, pathStop // next iteration
				}
				// new-value definitions
				if as, ok := n.(*ast.AssignStmt); ok && newObj != nil && len(as.Lhs) == len(as.Rhs) {
					for i, l := range as.Lhs {
						if id, ok := l.(*ast.Ident); ok && (info.Defs[id] == newObj || info.Uses[id] == newObj) {
							st.lit = s.litKind(u.Decl.Body, as.Rhs[i])
						}
					}
				}
				containsCAS := false
				var lockSet []string
				inspectNoLit(n, func(m ast.Node) bool {
					if call, ok := m.(*ast.CallExpr); ok {
						if call == cas {
							containsCAS = true
						}
						if fn := Callee(info, call); fn != nil {
							if c37In(s.a.addLock, FullName(fn.Origin())) {
								lockSet = append(lockSet, "AddLock")
							}
							if c37In(s.a.delLock, FullName(fn.Origin())) {
								lockSet = append(lockSet, "DelLock")
							}
						}
					}
					return true
				})
				if containsCAS {
					kind := st.lit
					if inlineKind != c38None {
						kind = inlineKind
					}
					st.lit = kind
					switch check {
					case "L3":
						if st.owner == 0 {
							msg = "a path reaches the CAS without a successful ownership test (Owner == 0 or Owner == session id): a session that does not hold the lock can change it"
							return st, pathBad
						}
						return st, pathStop
					case "L8":
						bad := ""
						switch kind {
						case c38One:
							if st.owner != 1 {
								bad = "installs {me, 1} although the lock is not known to be free (an existing holder's count is overwritten)"
							}
						case c38Inc:
							if st.owner != 2 {
								bad = "installs {me, Count+1} although the lock is not known to be mine"
							}
						case c38Dec:
							if st.owner != 2 || st.cnt != 1 {
								bad = "installs {me, Count-1} without being on the `Count > 1` branch of an owner path"
							}
						case c38Zero:
							if st.owner != 2 {
								bad = "frees the lock on a path where the session is not known to own it"
							} else if hasDec && st.cnt != 2 {
								bad = "a counted release frees the lock although `Count > 1` is not known to be false: re-entrant holds are dropped"
							}
						default:
							bad = "installs a value that is none of {me,1}, {me,Count+1}, {me,Count-1}, {}"
						}
						if bad != "" {
							msg = bad
							return st, pathBad
						}
						return st, pathStop
					}
				}
				for _, w := range lockSet {
					if check != "L6" {
						continue
					}
					if w == "AddLock" {
						if st.acq != c38One {
							msg = "Session.AddLock is called on a path that did not just take a free lock with Count = 1 (CAS outcome: " + st.acq.String() + ")"
							return st, pathBad
						}
						st.called |= 1
					} else {
						if st.acq != c38Zero {
							msg = "Session.DelLock is called although the session still holds the lock (CAS installed " + st.acq.String() + "): it will not be released on disconnect"
							return st, pathBad
						}
						st.called |= 2
					}
				}
				return st, pathGo
			}
			edge := func(b *cfg.Block, succ int, st c38Path) (c38Path, bool) {
				if len(b.Nodes) == 0 || len(b.Succs) != 2 {
					return st, true
				}
				last, ok := b.Nodes[len(b.Nodes)-1].(ast.Expr)
				if !ok {
					return st, true
				}
				last = ast.Unparen(last)
				if last == ast.Expr(cas) {
					if succ == 0 {
						st.acq = st.lit
						return st, true
					}
					return st, check != "L6" // failure edge: irrelevant for L6
				}
				if oc, ok := last.(*ast.CallExpr); ok && s.isAtomic(oc, "CompareAndSwapPointer") {
					return st, succ == 1 // another CAS of the loop: its success paths are explored for that CAS
				}
				be, ok := last.(*ast.BinaryExpr)
				if !ok {
					return st, true
				}
				isTrue := succ == 0
				x, y := ast.Unparen(be.X), ast.Unparen(be.Y)
				// Owner tests
				if lsel(x, s.ownerVar) || lsel(y, s.ownerVar) {
					other := y
					if lsel(y, s.ownerVar) {
						other = x
					}
					if be.Op == token.EQL || be.Op == token.NEQ {
						eq := (be.Op == token.EQL) == isTrue
						if tv, ok := info.Types[other]; ok && tv.Value != nil && constant.Sign(tv.Value) == 0 {
							if eq {
								st.owner = 1
							}
						} else if s.isUserID(u.Decl.Body, other, 0) && eq {
							st.owner = 2
						}
					}
					return st, true
				}
				// Count tests
				if lsel(x, s.countVar) {
					if tv, ok := info.Types[y]; ok && tv.Value != nil {
						v, _ := constant.Int64Val(tv.Value)
						base := ast.Unparen(x.(*ast.SelectorExpr).X)
						if id, ok := base.(*ast.Ident); ok && newObj != nil && info.Uses[id] == newObj {
							// test on the new value: prune the infeasible edge
							if v == 0 && (be.Op == token.EQL || be.Op == token.NEQ) {
								isZero := st.acq == c38Zero || (st.acq == c38None && st.lit == c38Zero)
								condTrue := (be.Op == token.EQL) == isZero
								return st, condTrue == isTrue
							}
							return st, true
						}
						if be.Op == token.GTR && v == 1 {
							if isTrue {
								st.cnt = 1
							} else {
								st.cnt = 2
							}
						}
					}
				}
				return st, true
			}
			exit := func(st c38Path, ret *ast.ReturnStmt) bool {
				if check != "L6" {
					return false
				}
				if st.acq == c38One && st.called&1 == 0 {
					msg = "a free lock was taken (CAS installed {me, 1}) but the function returns without Session.AddLock: the lock is not released when the session ends"
					return true
				}
				if st.acq == c38Zero && hasDec && st.called&2 == 0 {
					msg = "a counted release freed the lock but the function returns without Session.DelLock"
					return true
				}
				return false
			}
			p := pathExplore(g, from, c38Path{}, node, edge, exit)
			return msg, p
		}
		if msg, p := explore("L3"); p != nil {
			c.Bad("C38-L3", key, cas.Pos(), uname+": "+msg, c.P.DescribePath(p)...)
		} else {
			c.Ok("C38-L3", key, cas.Pos(), "owner test on every path to the CAS")
		}
		if msg, p := explore("L8"); p != nil {
			c.Bad("C38-L8", key, cas.Pos(), uname+": "+msg, c.P.DescribePath(p)...)
		} else {
			c.Ok("C38-L8", key, cas.Pos(), "installed value matches the branch facts")
		}
		// L6 only where the lock set is involved: CAS that can install {me,1} or a counted release
		kinds := map[c38Lit]bool{inlineKind: true}
		if newObj != nil {
			ast.Inspect(u.Decl.Body, func(m ast.Node) bool {
				if as, ok := m.(*ast.AssignStmt); ok && len(as.Lhs) == len(as.Rhs) {
					for i, l := range as.Lhs {
						if lid, ok := l.(*ast.Ident); ok && (info.Defs[lid] == newObj || info.Uses[lid] == newObj) {
							kinds[s.litKind(u.Decl.Body, as.Rhs[i])] = true
						}
					}
				}
				return true
			})
		}
		what := ""
		if kinds[c38One] {
			what = "AddLock"
		} else if kinds[c38Zero] && hasDec {
			what = "DelLock"
		}
		callsSet := false
		inspectNoLit(u.Body, func(m ast.Node) bool {
			if call, ok := m.(*ast.CallExpr); ok {
				if fn := Callee(info, call); fn != nil && (c37In(s.a.addLock, FullName(fn.Origin())) || c37In(s.a.delLock, FullName(fn.Origin()))) {
					callsSet = true
				}
			}
			return true
		})
		if what == "" && !callsSet {
			continue
		}
		if what == "" {
			what = "lock-set"
		}
		k6 := uname + "/" + what
		if msg, p := explore("L6"); p != nil {
			c.Bad("C38-L6", k6, cas.Pos(), uname+": "+msg, c.P.DescribePath(p)...)
		} else {
			c.Ok("C38-L6", k6, cas.Pos(), "session lock set updated exactly on the 0→1 / →0 transition")
		}
	}
}

// ---- L6: who may call AddLock / DelLock -----------------------------------------------------

func (s *c38State) lockSetCallers() {
	c := s.c
	pkgs := c.P.Module
	if c.fixtureMode {
		pkgs = []*packages.Package{s.pk}
	}
	lsTN, _ := s.pk.Types.Scope().Lookup(s.a.lsType).(*types.TypeName)
	for _, pk := range pkgs {
		info := pk.TypesInfo
		for _, file := range pk.Syntax {
			for _, d := range file.Decls {
				fd, ok := d.(*ast.FuncDecl)
				if !ok || fd.Body == nil {
					continue
				}
				inLS := pk == s.pk && fd.Recv != nil && len(fd.Recv.List) == 1 && c47NamedOf(info.TypeOf(fd.Recv.List[0].Type)) == lsTN
				ast.Inspect(fd.Body, func(n ast.Node) bool {
					call, ok := n.(*ast.CallExpr)
					if !ok {
						return true
					}
					fn := Callee(info, call)
					if fn == nil {
						return true
					}
					full := FullName(fn.Origin())
					w := ""
					if c37In(s.a.addLock, full) {
						w = "AddLock"
					} else if c37In(s.a.delLock, full) {
						w = "DelLock"
					}
					if w == "" {
						return true
					}
					name := DeclName(fd)
					if pk != s.pk && !c.fixtureMode {
						name = strings.TrimPrefix(pk.PkgPath, modPath+"/") + "." + name
					}
					if inLS {
						c.Ok("C38-L6", name+"/"+w+"(caller)", call.Pos(), "called from a LockSubsystem method")
					} else {
						c.Bad("C38-L6", name+"/"+w, call.Pos(), "Session."+w+" is called outside LockSubsystem: the session's lock set no longer mirrors the locks it holds")
					}
					return true
				})
			}
		}
	}
}

// ---- L7: release on disconnect ---------------------------------------------------------------

func (s *c38State) disconnect() {
	c := s.c
	for _, fnName := range []string{s.a.closedFn, s.a.resetFn} {
		if fnName == "" {
			continue
		}
		pk, fd := c.P.FuncDecl(s.a.handlerRel, fnName)
		short := fnName[strings.LastIndex(fnName, ".")+1:]
		if fd == nil || fd.Body == nil {
			c.Undecided("C38-L7", short+"/release", 0, "function "+fnName+" not found")
			continue
		}
		info := pk.TypesInfo
		g := c.P.CFG(info, fd.Body)
		// direct (non-deferred) call of the release helper on every path
		isRelease := func(n ast.Node) bool {
			if _, isDefer := n.(*ast.DeferStmt); isDefer {
				return false
			}
			return ContainsCall(info, n, func(fn *types.Func, _ *ast.CallExpr) bool { return FullName(fn.Origin()) == s.a.releaseHelper })
		}
		if p := PathAvoiding(g, EntryPoint(g), isRelease, nil, nil); p != nil {
			c.Bad("C38-L7", short+"/release", fd.Pos(), fnName+" has a path that does not release the session's named locks", c.P.DescribePath(p)...)
		} else {
			c.Ok("C38-L7", short+"/release", fd.Pos(), "release helper called on every path")
		}
		// order: no direct teardown call before the release
		isTeardown := func(n ast.Node) bool {
			if _, isDefer := n.(*ast.DeferStmt); isDefer {
				return false
			}
			return ContainsCall(info, n, func(fn *types.Func, _ *ast.CallExpr) bool { return c37In(s.a.teardown, FullName(fn.Origin())) })
		}
		if p := PathAvoiding(g, EntryPoint(g), isRelease, isTeardown, nil); p != nil {
			c.Bad("C38-L7", short+"/order", fd.Pos(), fnName+" tears the session down before releasing its named locks: the release then runs on a fresh session that owns nothing", c.P.DescribePath(p)...)
		} else {
			c.Ok("C38-L7", short+"/order", fd.Pos(), "locks released before the session is torn down (teardown deferred or later)")
		}
	}
	// the helper itself
	var helper *ast.FuncDecl
	var hpk *packages.Package
	c.P.EachFuncDecl([]string{s.a.handlerRel}, func(pk *packages.Package, fd *ast.FuncDecl) {
		if fn, ok := pk.TypesInfo.Defs[fd.Name].(*types.Func); ok && FullName(fn) == s.a.releaseHelper {
			helper, hpk = fd, pk
		}
	})
	short := s.a.releaseHelper[strings.LastIndex(s.a.releaseHelper, ".")+1:]
	if helper == nil {
		c.Undecided("C38-L7", short+"/ReleaseAll", 0, "release helper not found")
		return
	}
	info := hpk.TypesInfo
	g := c.P.CFG(info, helper.Body)
	hasRA := func(n ast.Node) bool {
		return ContainsCall(info, n, func(fn *types.Func, _ *ast.CallExpr) bool { return FullName(fn.Origin()) == s.a.releaseAll })
	}
	// prune the edges on which building the context failed (err != nil of the first error variable tested)
	edgeOK := func(b *cfg.Block, succ int) bool {
		if o, nonNil, ok := ErrNilEdge(info, b, succ); ok && o != nil && IsErrorType(o.Type()) && nonNil {
			// only the error produced before any ReleaseAll call: the context-construction error
			return false
		}
		return true
	}
	if p := PathAvoiding(g, EntryPoint(g), hasRA, nil, edgeOK); p != nil {
		c.Bad("C38-L7", short+"/ReleaseAll", helper.Pos(), short+" has a path on which a context was obtained but ReleaseAll is not called", c.P.DescribePath(p)...)
	} else {
		c.Ok("C38-L7", short+"/ReleaseAll", helper.Pos(), "ReleaseAll on every path with a context")
	}
	_ = fmt.Sprint
}
