package main

import (
	"fmt"
	"go/ast"
	"go/constant"
	"go/token"
	"go/types"
	"sort"
	"strings"
)

// C26-J (class-precedence table of a dispatched comparison): a comparison that dispatches on the
// dynamic type of its left operand to one kernel per value class, each kernel then switching on
// the dynamic type of the right operand, defines a precedence table between the classes by the
// constant results of the cross-class arms. For Compare to be an order the table must be
// antisymmetric (kernel(X) says "X below Y" iff kernel(Y) says "Y above X") and the precedence
// relation must be transitive. Read from the type switches with go/types; nothing is executed.
//
// Found structurally: the dispatcher is the named function; its kernels are the same-package
// functions called in `return kernel(...)` directly inside the arms of its type switch on a
// parameter; a kernel's right-operand switch is its (only) type switch on a parameter.

type c26jConfig struct {
	Rel        string // package of the dispatcher
	Dispatcher string // function name
	Floor      int
}

type c26jKernel struct {
	fn      *types.Func
	decl    *ast.FuncDecl
	classTs []types.Type // left-operand types dispatched to this kernel
	arms    []c26jArm
	deflt   *c26jArm
}

type c26jArm struct {
	types []types.Type
	sign  int  // -1, 0, +1 when constant
	konst bool // every return of the arm is the same constant with a nil error
	pos   token.Pos
}

func runC26J(c *Ctx, cfg c26jConfig) {
	const rule = "C26-J1"
	pk := c.P.Pkg(cfg.Rel)
	if pk == nil {
		c.Undecided(rule, cfg.Rel, 0, "package not loaded")
		return
	}
	info := pk.TypesInfo
	_, disp := c.P.FuncDecl(cfg.Rel, cfg.Dispatcher)
	if disp == nil || disp.Body == nil {
		c.Undecided(rule, cfg.Dispatcher, 0, "dispatcher not found")
		return
	}
	paramObjs := func(fd *ast.FuncDecl) map[types.Object]bool {
		m := map[types.Object]bool{}
		for _, f := range fd.Type.Params.List {
			for _, n := range f.Names {
				if o := info.Defs[n]; o != nil {
					m[o] = true
				}
			}
		}
		return m
	}
	// type switches of fd whose subject is a parameter
	paramSwitches := func(fd *ast.FuncDecl) []*ast.TypeSwitchStmt {
		ps := paramObjs(fd)
		var out []*ast.TypeSwitchStmt
		ast.Inspect(fd.Body, func(n ast.Node) bool {
			if _, ok := n.(*ast.FuncLit); ok {
				return false
			}
			ts, ok := n.(*ast.TypeSwitchStmt)
			if !ok {
				return true
			}
			var x ast.Expr
			switch a := ts.Assign.(type) {
			case *ast.AssignStmt:
				x = a.Rhs[0]
			case *ast.ExprStmt:
				x = a.X
			}
			if ta, ok := ast.Unparen(x).(*ast.TypeAssertExpr); ok {
				if id := identOf(ta.X); id != nil && ps[info.Uses[id]] {
					out = append(out, ts)
				}
			}
			return true
		})
		return out
	}
	dsw := paramSwitches(disp)
	if len(dsw) != 1 {
		c.Undecided(rule, cfg.Dispatcher, disp.Pos(), fmt.Sprintf("expected one type switch on a parameter in the dispatcher, found %d", len(dsw)))
		return
	}
	kernels := map[*types.Func]*c26jKernel{}
	var order []*c26jKernel
	for _, cl := range dsw[0].Body.List {
		cc := cl.(*ast.CaseClause)
		if cc.List == nil {
			continue
		}
		// the kernel this arm returns through
		var k *types.Func
		for _, st := range cc.Body {
			ast.Inspect(st, func(n ast.Node) bool {
				rs, ok := n.(*ast.ReturnStmt)
				if !ok || len(rs.Results) == 0 {
					return true
				}
				if call, ok := ast.Unparen(rs.Results[0]).(*ast.CallExpr); ok {
					if fn := Callee(info, call); fn != nil && fn.Pkg() == pk.Types && fn.Name() != cfg.Dispatcher && fn.Type().(*types.Signature).Recv() == nil {
						k = fn
					}
				}
				return true
			})
		}
		if k == nil {
			continue
		}
		kn := kernels[k]
		if kn == nil {
			kd := c.P.Decl(k)
			if kd == nil || kd.Body == nil {
				c.Undecided(rule, k.Name(), cc.Pos(), "kernel has no body")
				continue
			}
			kn = &c26jKernel{fn: k, decl: kd}
			kernels[k] = kn
			order = append(order, kn)
		}
		for _, x := range cc.List {
			if tv, ok := info.Types[x]; ok && tv.IsType() {
				kn.classTs = append(kn.classTs, tv.Type)
			}
		}
	}
	if len(order) < 2 {
		c.Undecided(rule, cfg.Dispatcher, disp.Pos(), "fewer than two kernels found behind the dispatcher's type switch")
		return
	}
	// read each kernel's right-operand switch
	for _, kn := range order {
		sws := paramSwitches(kn.decl)
		if len(sws) != 1 {
			c.Undecided(rule, kn.fn.Name(), kn.decl.Pos(), fmt.Sprintf("expected one type switch on a parameter in the kernel, found %d", len(sws)))
			return
		}
		for _, cl := range sws[0].Body.List {
			cc := cl.(*ast.CaseClause)
			arm := c26jArm{pos: cc.Pos(), konst: true}
			first := true
			nret := 0
			for _, st := range cc.Body {
				ast.Inspect(st, func(n ast.Node) bool {
					if _, ok := n.(*ast.FuncLit); ok {
						return false
					}
					rs, ok := n.(*ast.ReturnStmt)
					if !ok {
						return true
					}
					nret++
					v := 0
					isK := false
					if len(rs.Results) >= 1 {
						if tv, ok := info.Types[rs.Results[0]]; ok && tv.Value != nil && tv.Value.Kind() == constant.Int {
							if i, exact := constant.Int64Val(tv.Value); exact {
								isK = true
								switch {
								case i < 0:
									v = -1
								case i > 0:
									v = 1
								}
							}
						}
					}
					if len(rs.Results) >= 2 {
						if tv, ok := info.Types[rs.Results[1]]; !ok || !tv.IsNil() {
							isK = false
						}
					}
					if !isK || (!first && v != arm.sign) {
						arm.konst = false
					}
					if first {
						arm.sign = v
						first = false
					}
					return true
				})
			}
			if nret == 0 {
				arm.konst = false
			}
			if cc.List == nil {
				a := arm
				kn.deflt = &a
				continue
			}
			for _, x := range cc.List {
				if tv, ok := info.Types[x]; ok && tv.IsType() {
					arm.types = append(arm.types, tv.Type)
				}
			}
			kn.arms = append(kn.arms, arm)
		}
	}
	armFor := func(kn *c26jKernel, t types.Type) *c26jArm {
		for i := range kn.arms {
			for _, at := range kn.arms[i].types {
				if types.Identical(at, t) {
					return &kn.arms[i]
				}
			}
		}
		return kn.deflt
	}
	className := func(kn *c26jKernel) string { return kn.fn.Name() }
	// cross-class verdict of kernel x about class y: one constant for every type of y
	verdict := func(x, y *c26jKernel) (sign int, ok bool, why string, pos token.Pos) {
		have := false
		for _, t := range y.classTs {
			a := armFor(x, t)
			if a == nil {
				return 0, false, fmt.Sprintf("no arm and no default for %s", types.TypeString(t, nil)), x.decl.Pos()
			}
			if !a.konst || a.sign == 0 {
				return 0, false, fmt.Sprintf("the arm for %s does not return one non-zero constant", types.TypeString(t, nil)), a.pos
			}
			if have && a.sign != sign {
				return 0, false, fmt.Sprintf("the types of class %s are ranked differently (%s differs)", className(y), types.TypeString(t, nil)), a.pos
			}
			sign, have, pos = a.sign, true, a.pos
		}
		return sign, have, "", pos
	}
	below := map[[2]*c26jKernel]bool{} // x ranks below y
	for i, x := range order {
		for _, y := range order[i+1:] {
			key := className(x) + " vs " + className(y)
			sx, okx, whyx, posx := verdict(x, y)
			sy, oky, whyy, posy := verdict(y, x)
			switch {
			case !okx:
				c.Undecided(rule, key, posx, className(x)+": "+whyx)
			case !oky:
				c.Undecided(rule, key, posy, className(y)+": "+whyy)
			case sx != -sy:
				c.Bad(rule, key, posx, fmt.Sprintf("%s returns %+d for a right operand of class %s (%s) but %s returns %+d for a right operand of class %s: Compare(a,b) and Compare(b,a) have the same sign, the order is not antisymmetric and sorting depends on operand order",
					className(x), sx, className(y), c.P.Fset.Position(posx), className(y), sy, className(x)))
			default:
				c.Ok(rule, key, posx, fmt.Sprintf("antisymmetric: %+d / %+d", sx, sy))
				if sx < 0 {
					below[[2]*c26jKernel{x, y}] = true
				} else {
					below[[2]*c26jKernel{y, x}] = true
				}
			}
		}
	}
	// transitivity of the precedence relation
	var bad []string
	for _, x := range order {
		for _, y := range order {
			for _, z := range order {
				if x != y && y != z && x != z && below[[2]*c26jKernel{x, y}] && below[[2]*c26jKernel{y, z}] && below[[2]*c26jKernel{z, x}] {
					bad = append(bad, className(x)+" < "+className(y)+" < "+className(z)+" < "+className(x))
				}
			}
		}
	}
	sort.Strings(bad)
	if len(bad) > 0 {
		c.Bad(rule, cfg.Dispatcher+"/transitive", disp.Pos(), "the class precedence has a cycle: "+strings.Join(bad, "; "))
	} else {
		c.Ok(rule, cfg.Dispatcher+"/transitive", disp.Pos(), fmt.Sprintf("%d classes, precedence acyclic", len(order)))
	}
}
