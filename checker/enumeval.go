package main

import (
	"fmt"
	"go/ast"
	"go/constant"
	"go/token"
	"go/types"
	"sort"

	"golang.org/x/tools/go/packages"
)

// E5: finite tables read out of small functions over an enum type.
//
// An enum is a named integer (or string) type with package-level constants. A "table
// function" is a method or function whose result depends only on one enum-typed input and
// whose body consists of switch/if/return over constant comparisons and calls to other
// table functions. Such a function is *read* as a finite relation by folding it for each
// constant of the enum (go/constant arithmetic only; nothing from /repo is executed).

type EnumConst struct {
	Obj *types.Const
	Val constant.Value
}

// EnumConsts lists the package-level constants of the named type, in value order.
func EnumConsts(pk *packages.Package, typeName string) ([]EnumConst, types.Type) {
	tn, _ := pk.Types.Scope().Lookup(typeName).(*types.TypeName)
	if tn == nil {
		return nil, nil
	}
	var out []EnumConst
	for _, name := range pk.Types.Scope().Names() {
		if c, ok := pk.Types.Scope().Lookup(name).(*types.Const); ok && types.Identical(c.Type(), tn.Type()) {
			out = append(out, EnumConst{c, c.Val()})
		}
	}
	sort.SliceStable(out, func(i, j int) bool {
		if out[i].Val.Kind() == constant.Int && out[j].Val.Kind() == constant.Int {
			return constant.Compare(out[i].Val, token.LSS, out[j].Val)
		}
		return out[i].Obj.Name() < out[j].Obj.Name()
	})
	return out, tn.Type()
}

// EnumConstsOfType is EnumConsts for a type that may live in any loaded package.
func (p *Prog) EnumConstsOfType(t types.Type) []EnumConst {
	nt, ok := types.Unalias(t).(*types.Named)
	if !ok || nt.Obj().Pkg() == nil {
		return nil
	}
	pk := p.ByPath[nt.Obj().Pkg().Path()]
	if pk == nil {
		return nil
	}
	cs, _ := EnumConsts(pk, nt.Obj().Name())
	return cs
}

type evalErr struct{ msg string }

func (e evalErr) Error() string { return e.msg }

// Folder folds table functions.
type Folder struct {
	P     *Prog
	depth int
}

type env map[types.Object]constant.Value

type panicResult struct{}

// CallMethod folds fn with its receiver bound to recv (and parameters to args).
// The result is the constant returned; panicked reports that the path ends in panic().
func (f *Folder) Call(fn *types.Func, recv constant.Value, args ...constant.Value) (res constant.Value, panicked bool, err error) {
	fd := f.P.Decl(fn)
	if fd == nil || fd.Body == nil {
		return nil, false, evalErr{"no body for " + FullName(fn)}
	}
	pk := f.P.PkgOf(fn)
	if f.depth > 20 {
		return nil, false, evalErr{"recursion too deep in " + FullName(fn)}
	}
	f.depth++
	defer func() { f.depth-- }()
	e := env{}
	if fd.Recv != nil && len(fd.Recv.List) > 0 && len(fd.Recv.List[0].Names) > 0 {
		e[pk.TypesInfo.Defs[fd.Recv.List[0].Names[0]]] = recv
	}
	i := 0
	for _, fl := range fd.Type.Params.List {
		for _, n := range fl.Names {
			if i < len(args) {
				e[pk.TypesInfo.Defs[n]] = args[i]
			}
			i++
		}
	}
	r, done, err := f.block(pk.TypesInfo, fd.Body.List, e)
	if err != nil {
		return nil, false, err
	}
	if !done {
		return nil, false, evalErr{"fell off the end of " + FullName(fn)}
	}
	if _, ok := r.(panicResult); ok {
		return nil, true, nil
	}
	return r.(constant.Value), false, nil
}

// block returns (result, returned?, error). result is constant.Value or panicResult.
func (f *Folder) block(info *types.Info, list []ast.Stmt, e env) (any, bool, error) {
	for _, s := range list {
		r, done, err := f.stmt(info, s, e)
		if err != nil || done {
			return r, done, err
		}
	}
	return nil, false, nil
}

func (f *Folder) stmt(info *types.Info, s ast.Stmt, e env) (any, bool, error) {
	switch s := s.(type) {
	case *ast.ReturnStmt:
		if len(s.Results) != 1 {
			return nil, false, evalErr{"return with != 1 result"}
		}
		v, err := f.expr(info, s.Results[0], e)
		return v, true, err
	case *ast.BlockStmt:
		return f.block(info, s.List, e)
	case *ast.IfStmt:
		if s.Init != nil {
			return nil, false, evalErr{"if with init"}
		}
		c, err := f.expr(info, s.Cond, e)
		if err != nil {
			return nil, false, err
		}
		if c.Kind() != constant.Bool {
			return nil, false, evalErr{"non-bool condition"}
		}
		if constant.BoolVal(c) {
			return f.block(info, s.Body.List, e)
		}
		if s.Else != nil {
			return f.stmt(info, s.Else, e)
		}
		return nil, false, nil
	case *ast.SwitchStmt:
		if s.Init != nil {
			return nil, false, evalErr{"switch with init"}
		}
		var tag constant.Value
		if s.Tag != nil {
			t, err := f.expr(info, s.Tag, e)
			if err != nil {
				return nil, false, err
			}
			tag = t
		}
		var deflt *ast.CaseClause
		for _, cs := range s.Body.List {
			cc := cs.(*ast.CaseClause)
			if cc.List == nil {
				deflt = cc
				continue
			}
			for _, x := range cc.List {
				v, err := f.expr(info, x, e)
				if err != nil {
					return nil, false, err
				}
				match := false
				if tag != nil {
					match = constant.Compare(tag, token.EQL, v)
				} else {
					match = v.Kind() == constant.Bool && constant.BoolVal(v)
				}
				if match {
					return f.caseBody(info, cc, e)
				}
			}
		}
		if deflt != nil {
			return f.caseBody(info, deflt, e)
		}
		return nil, false, nil
	case *ast.ExprStmt:
		if call, ok := s.X.(*ast.CallExpr); ok && IsBuiltinCall(info, call, "panic") {
			return panicResult{}, true, nil
		}
		return nil, false, evalErr{fmt.Sprintf("unsupported expression statement at %s", f.P.Rel(s.Pos()))}
	case *ast.EmptyStmt:
		return nil, false, nil
	}
	return nil, false, evalErr{fmt.Sprintf("unsupported statement %T at %s", s, f.P.Rel(s.Pos()))}
}

func (f *Folder) caseBody(info *types.Info, cc *ast.CaseClause, e env) (any, bool, error) {
	for _, s := range cc.Body {
		if b, ok := s.(*ast.BranchStmt); ok {
			if b.Tok == token.BREAK && b.Label == nil {
				return nil, false, nil
			}
			return nil, false, evalErr{"unsupported branch in case body"}
		}
		r, done, err := f.stmt(info, s, e)
		if err != nil || done {
			return r, done, err
		}
	}
	return nil, false, nil
}

func (f *Folder) expr(info *types.Info, x ast.Expr, e env) (constant.Value, error) {
	if tv, ok := info.Types[x]; ok && tv.Value != nil {
		return tv.Value, nil
	}
	switch x := x.(type) {
	case *ast.ParenExpr:
		return f.expr(info, x.X, e)
	case *ast.Ident:
		if v, ok := e[info.Uses[x]]; ok {
			return v, nil
		}
		return nil, evalErr{"free identifier " + x.Name + " at " + f.P.Rel(x.Pos())}
	case *ast.UnaryExpr:
		v, err := f.expr(info, x.X, e)
		if err != nil {
			return nil, err
		}
		if x.Op == token.NOT && v.Kind() == constant.Bool {
			return constant.MakeBool(!constant.BoolVal(v)), nil
		}
		return constant.UnaryOp(x.Op, v, 0), nil
	case *ast.BinaryExpr:
		l, err := f.expr(info, x.X, e)
		if err != nil {
			return nil, err
		}
		switch x.Op {
		case token.LAND:
			if !constant.BoolVal(l) {
				return l, nil
			}
			return f.expr(info, x.Y, e)
		case token.LOR:
			if constant.BoolVal(l) {
				return l, nil
			}
			return f.expr(info, x.Y, e)
		}
		r, err := f.expr(info, x.Y, e)
		if err != nil {
			return nil, err
		}
		switch x.Op {
		case token.EQL, token.NEQ, token.LSS, token.LEQ, token.GTR, token.GEQ:
			return constant.MakeBool(constant.Compare(l, x.Op, r)), nil
		}
		return constant.BinaryOp(l, x.Op, r), nil
	case *ast.CallExpr:
		// conversion T(x)
		if tv, ok := info.Types[x.Fun]; ok && tv.IsType() && len(x.Args) == 1 {
			return f.expr(info, x.Args[0], e)
		}
		fn := Callee(info, x)
		if fn == nil {
			return nil, evalErr{"dynamic call at " + f.P.Rel(x.Pos())}
		}
		var recv constant.Value
		if sel, ok := ast.Unparen(x.Fun).(*ast.SelectorExpr); ok {
			if s := info.Selections[sel]; s != nil {
				v, err := f.expr(info, sel.X, e)
				if err != nil {
					return nil, err
				}
				recv = v
			}
		}
		var args []constant.Value
		for _, a := range x.Args {
			v, err := f.expr(info, a, e)
			if err != nil {
				return nil, err
			}
			args = append(args, v)
		}
		r, panicked, err := f.Call(fn, recv, args...)
		if err != nil {
			return nil, err
		}
		if panicked {
			return nil, evalErr{"callee panics: " + FullName(fn)}
		}
		return r, nil
	}
	return nil, evalErr{fmt.Sprintf("unsupported expression %T at %s", x, f.P.Rel(x.Pos()))}
}

// PredicateSet folds a boolean table function over every constant of the enum and returns
// the names of the constants it accepts.
func (f *Folder) PredicateSet(fn *types.Func, consts []EnumConst) (map[string]bool, error) {
	out := map[string]bool{}
	for _, c := range consts {
		v, panicked, err := f.Call(fn, c.Val)
		if err != nil {
			return nil, err
		}
		if panicked || v.Kind() != constant.Bool {
			return nil, evalErr{"non-boolean result"}
		}
		out[c.Obj.Name()] = constant.BoolVal(v)
	}
	return out, nil
}

// nameOf maps a constant value back to the (first) enum constant name.
func nameOf(consts []EnumConst, v constant.Value) string {
	for _, c := range consts {
		if constant.Compare(c.Val, token.EQL, v) {
			return c.Obj.Name()
		}
	}
	return v.ExactString()
}

// MethodsOf lists the methods declared on the named type (value and pointer receivers).
func MethodsOf(pk *packages.Package, typeName string) []*types.Func {
	tn, _ := pk.Types.Scope().Lookup(typeName).(*types.TypeName)
	if tn == nil {
		return nil
	}
	nt, ok := tn.Type().(*types.Named)
	if !ok {
		return nil
	}
	var out []*types.Func
	for i := 0; i < nt.NumMethods(); i++ {
		out = append(out, nt.Method(i))
	}
	return out
}
