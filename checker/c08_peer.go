package main

import (
	"fmt"
	"go/ast"
	"go/token"
	"go/types"

	"golang.org/x/tools/go/packages"
)

// C08-W1 (a new partition / peer group starts when ANY key differs): the window machinery decides
// partition and peer-group boundaries with change detectors - functions taking the key expressions
// and two rows and returning (bool, error), which compare the rows key by key with Type.Compare.
// Ranking functions (RANK, DENSE_RANK, PERCENT_RANK, CUME_DIST) and RANGE frames take their ties
// from these boundaries. The detector must answer true at the first key whose comparison is
// non-zero and false after the loop over all keys: any other polarity (true only when every key
// differs, or the early return on an equal key) merges rows that differ in one key into one group.
//
// Detectors are found by shape in the given package: result (bool, error), a parameter that is a
// slice of the expression interface and two row parameters, and a loop whose body calls a method
// named Compare.

func ruleChangeDetectorPolarity(c *Ctx, rule string, rel string) {
	c.P.EachFuncDecl([]string{rel}, func(pk *packages.Package, fd *ast.FuncDecl) {
		if fd.Body == nil {
			return
		}
		info := pk.TypesInfo
		fn, _ := info.Defs[fd.Name].(*types.Func)
		if fn == nil {
			return
		}
		sig := fn.Type().(*types.Signature)
		if sig.Recv() != nil || sig.Results().Len() != 2 || !types.Identical(sig.Results().At(0).Type(), types.Typ[types.Bool]) {
			return
		}
		nSlice, nRow := 0, 0
		for i := 0; i < sig.Params().Len(); i++ {
			t := sig.Params().At(i).Type()
			if n, ok := types.Unalias(t).(*types.Named); ok && n.Obj().Name() == "Row" {
				nRow++
			} else if sl, ok := t.Underlying().(*types.Slice); ok {
				if n, ok := types.Unalias(sl.Elem()).(*types.Named); ok && n.Obj().Name() == "Expression" {
					nSlice++
				}
			}
		}
		if nSlice != 1 || nRow != 2 {
			return
		}
		// the key loop: the last top-level loop whose body calls Compare
		var loop ast.Stmt
		var loopBody *ast.BlockStmt
		loopIdx := -1
		for i, st := range fd.Body.List {
			var body *ast.BlockStmt
			switch l := st.(type) {
			case *ast.RangeStmt:
				body = l.Body
			case *ast.ForStmt:
				body = l.Body
			}
			if body == nil {
				continue
			}
			calls := false
			ast.Inspect(body, func(n ast.Node) bool {
				if call, ok := n.(*ast.CallExpr); ok {
					if f := Callee(info, call); f != nil && f.Name() == "Compare" {
						calls = true
					}
				}
				return !calls
			})
			if calls {
				loop, loopBody, loopIdx = st, body, i
			}
		}
		if loop == nil {
			return
		}
		key := DeclName(fd)
		boolConst := func(e ast.Expr) (bool, bool) {
			tv, ok := info.Types[e]
			if !ok || tv.Value == nil {
				return false, false
			}
			return tv.Value.String() == "true", true
		}
		// in the loop: `if <v> != 0 { return true, nil }` must be the only constant non-error return
		okIn, why := false, ""
		for _, st := range loopBody.List {
			ifs, isIf := st.(*ast.IfStmt)
			if !isIf || len(ifs.Body.List) != 1 {
				continue
			}
			rs, isRet := ifs.Body.List[0].(*ast.ReturnStmt)
			if !isRet || len(rs.Results) != 2 {
				continue
			}
			if tv, ok := info.Types[rs.Results[1]]; !ok || !tv.IsNil() {
				continue // an error return
			}
			be, isBin := ast.Unparen(ifs.Cond).(*ast.BinaryExpr)
			k, isK := boolConst(rs.Results[0])
			if !isBin || !isK {
				why = "the early return of the key loop is not a constant under a comparison with zero"
				continue
			}
			zero := func(e ast.Expr) bool {
				tv, ok := info.Types[e]
				return ok && tv.Value != nil && tv.Value.String() == "0"
			}
			if !(zero(be.X) || zero(be.Y)) {
				continue
			}
			switch {
			case be.Op == token.NEQ && k:
				okIn = true
			case be.Op == token.NEQ && !k:
				why = "a differing key answers false"
			case be.Op == token.EQL:
				why = fmt.Sprintf("the loop returns %v at the first key that compares EQUAL: keys that differ no longer decide alone", k)
			default:
				why = "the key comparison is not an (in)equality with zero"
			}
		}
		// after the loop: the next return must be (false, nil)
		okAfter := false
		for _, st := range fd.Body.List[loopIdx+1:] {
			if rs, ok := st.(*ast.ReturnStmt); ok && len(rs.Results) == 2 {
				if k, isK := boolConst(rs.Results[0]); isK && !k {
					okAfter = true
				} else if why == "" {
					why = "after all keys compared equal the detector does not answer false"
				}
				break
			}
		}
		if okIn && okAfter && why == "" {
			c.Ok(rule, key, loop.Pos(), "true at the first differing key, false when every key is equal")
		} else {
			if why == "" {
				why = "no `if cmp != 0 { return true, nil }` in the key loop"
			}
			c.Bad(rule, key, loop.Pos(), fmt.Sprintf("%s: %s - a boundary must start when ANY key differs; with this polarity rows that differ in one key but tie in another fall into one partition / peer group, and RANK, DENSE_RANK, PERCENT_RANK and RANGE frames return the values of the wrong group", key, why))
		}
	})
}
