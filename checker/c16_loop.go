package main

import (
	"fmt"
	"go/ast"
	"go/constant"
	"go/token"
	"go/types"
	"strings"

	"golang.org/x/tools/go/cfg"
	"golang.org/x/tools/go/packages"
)

// C16-L — per-index independence of index maintenance.
//
// An *all-index loop* is a `range` statement over the index definitions (the defField of the table struct) or
// over a value of the index-storage type that derives from a struct field (td.secondaryIndexStorage,
// partitionssort.indexes, a local alias of either), whose body writes index storage: a store into the storage
// map, an element store into a []Row or a cell store into a Row deriving from the storage, an assignment to a
// local []Row deriving from it, delete(storage, k), or a call of a maintenance function.
//
// Clause: inside the body of an all-index loop L, every *controlling expression* — the condition of an if / for,
// the tag and case expressions of a switch, the operand of an inner range — that lexically encloses an index
// write or an exit statement (break, continue, goto, return) may read a local variable v that is declared outside
// L and assigned somewhere inside L's body only if every control-flow path from the entry of L's body to that read
// passes an assignment of v whose right-hand side does not read v (a per-index re-initialisation). Otherwise what
// is done for one index depends on what happened for the indexes visited before it: state carried across the
// iteration over the indexes makes later indexes partially maintained. Variables declared inside L's body, L's
// own range variables, and variables never assigned inside L's body (loop invariants) satisfy the clause trivially.

type c16LoopEnv struct {
	c          *Ctx
	p          c16Params
	info       *types.Info
	idxF, defF *types.Var
	idxT, rowT types.Type
	isT        func(e ast.Expr, t types.Type) bool
	isFieldSel func(e ast.Expr, f *types.Var) bool
	fromField  func(fd *ast.FuncDecl, e ast.Expr, t types.Type, depth int) bool
	maint      map[*types.Func]*ast.FuncDecl
}

// indexWrite reports whether statement/expression n (itself, not its children) writes index storage.
func (e *c16LoopEnv) indexWrite(fd *ast.FuncDecl, n ast.Node) bool {
	info := e.info
	switch x := n.(type) {
	case *ast.AssignStmt:
		for _, l := range x.Lhs {
			switch lx := ast.Unparen(l).(type) {
			case *ast.IndexExpr:
				if e.isFieldSel(lx.X, e.idxF) {
					return true
				}
				if e.isT(lx.X, e.idxT) && e.fromField(fd, lx.X, e.idxT, 0) {
					return true
				}
				if e.isT(lx.X, e.rowT) && e.fromField(fd, lx.X, e.idxT, 0) {
					return true
				}
				if t := info.TypeOf(lx.X); t != nil {
					if sl, ok := t.Underlying().(*types.Slice); ok && types.Identical(sl.Elem(), e.rowT) && !e.isT(lx.X, e.rowT) && e.fromField(fd, lx.X, e.idxT, 0) {
						return true
					}
				}
			case *ast.Ident:
				if lx.Name == "_" {
					continue
				}
				if t := info.TypeOf(lx); t != nil {
					if sl, ok := t.Underlying().(*types.Slice); ok && types.Identical(sl.Elem(), e.rowT) && !types.Identical(t, e.rowT) && e.fromField(fd, lx, e.idxT, 0) {
						return true
					}
				}
			}
		}
	case *ast.CallExpr:
		if IsBuiltinCall(info, x, "delete") && len(x.Args) == 2 && (e.isFieldSel(x.Args[0], e.idxF) || (e.isT(x.Args[0], e.idxT) && e.fromField(fd, x.Args[0], e.idxT, 0))) {
			return true
		}
		if fn := Callee(info, x); fn != nil && e.maint[fn.Origin()] != nil {
			return true
		}
	}
	return false
}

func c16Within(n ast.Node, outer ast.Node) bool {
	return n != nil && outer != nil && outer.Pos() <= n.Pos() && n.End() <= outer.End()
}

type c16Ctrl struct {
	expr ast.Expr
	what string // "if", "for", "switch", "range"
	why  string // what it controls: "an index write" / "break" / …
	pos  token.Pos
}

// controlling lists the controlling expressions (see the clause) found in the body of loop L.
func (e *c16LoopEnv) controlling(fd *ast.FuncDecl, L *ast.RangeStmt) (ctrls []c16Ctrl, writes int) {
	seen := map[ast.Expr]bool{}
	add := func(x ast.Expr, what, why string, pos token.Pos) {
		if x == nil || seen[x] {
			return
		}
		seen[x] = true
		ctrls = append(ctrls, c16Ctrl{x, what, why, pos})
	}
	var stack []ast.Node
	ast.Inspect(L.Body, func(n ast.Node) bool {
		if n == nil {
			stack = stack[:len(stack)-1]
			return false
		}
		if _, ok := n.(*ast.FuncLit); ok {
			return false // a separate function: its branches do not steer L's body
		}
		why := ""
		switch x := n.(type) {
		case *ast.BranchStmt:
			if x.Tok != token.FALLTHROUGH {
				why = "`" + x.Tok.String() + "`"
			}
		case *ast.ReturnStmt:
			why = "`return`"
		default:
			if e.indexWrite(fd, n) {
				why = "an index write"
				writes++
			}
		}
		if why != "" {
			for _, anc := range stack {
				switch a := anc.(type) {
				case *ast.IfStmt:
					if c16Within(n, a.Body) || (a.Else != nil && c16Within(n, a.Else)) {
						add(a.Cond, "if", why, n.Pos())
					}
				case *ast.ForStmt:
					if c16Within(n, a.Body) || (a.Post != nil && c16Within(n, a.Post)) {
						add(a.Cond, "for", why, n.Pos())
					}
				case *ast.RangeStmt:
					if c16Within(n, a.Body) {
						add(a.X, "range", why, n.Pos())
					}
				case *ast.SwitchStmt:
					if c16Within(n, a.Body) {
						add(a.Tag, "switch", why, n.Pos())
						for _, cl := range a.Body.List {
							if cc, ok := cl.(*ast.CaseClause); ok {
								for _, ce := range cc.List {
									add(ce, "switch", why, n.Pos())
								}
							}
						}
					}
				case *ast.TypeSwitchStmt:
					if c16Within(n, a.Body) {
						switch as := a.Assign.(type) {
						case *ast.ExprStmt:
							add(as.X, "switch", why, n.Pos())
						case *ast.AssignStmt:
							if len(as.Rhs) == 1 {
								add(as.Rhs[0], "switch", why, n.Pos())
							}
						}
					}
				}
			}
		}
		stack = append(stack, n)
		return true
	})
	return
}

type c16VarWrites struct {
	any    bool              // some assignment to v inside L's body (function literals included)
	kills  map[ast.Node]bool // top-level CFG statements that re-initialise v (rhs does not read v)
	others []ast.Node        // the other writes that are CFG statements (v++, v += x, v = f(v))
	opaque bool              // a write with no place in the CFG of the function: in a closure, `for v = range`, &v
}

// varWrites classifies the assignments to v inside body.
func (e *c16LoopEnv) varWrites(body *ast.BlockStmt, v types.Object) c16VarWrites {
	info := e.info
	w := c16VarWrites{kills: map[ast.Node]bool{}}
	reads := func(x ast.Node) bool {
		hit := false
		ast.Inspect(x, func(m ast.Node) bool {
			if id, ok := m.(*ast.Ident); ok && info.Uses[id] == v {
				hit = true
			}
			return !hit
		})
		return hit
	}
	isV := func(x ast.Expr) bool {
		id, ok := ast.Unparen(x).(*ast.Ident)
		return ok && (info.Uses[id] == v || info.Defs[id] == v)
	}
	litDepth := 0
	var visit func(n ast.Node) bool
	visit = func(n ast.Node) bool {
		switch x := n.(type) {
		case *ast.FuncLit:
			litDepth++
			ast.Inspect(x.Body, visit)
			litDepth--
			return false
		case *ast.AssignStmt:
			for _, l := range x.Lhs {
				if !isV(l) {
					continue
				}
				w.any = true
				if litDepth > 0 {
					w.opaque = true // a closure's write has no place in this CFG
					continue
				}
				readsV := x.Tok != token.ASSIGN // an op-assignment reads v
				for _, r := range x.Rhs {
					if reads(r) {
						readsV = true
					}
				}
				if len(x.Lhs) == 1 && len(x.Rhs) == 1 && x.Tok == token.ASSIGN {
					// v = v[:0]: the emptying idiom re-initialises a slice although it mentions v
					if sl, ok := ast.Unparen(x.Rhs[0]).(*ast.SliceExpr); ok && isV(sl.X) && sl.High != nil && !sl.Slice3 {
						lowZero := sl.Low == nil
						if tv, ok := info.Types[sl.Low]; sl.Low != nil && ok && tv.Value != nil && constant.Sign(tv.Value) == 0 {
							lowZero = true
						}
						if tv, ok := info.Types[sl.High]; ok && tv.Value != nil && constant.Sign(tv.Value) == 0 && lowZero {
							readsV = false
						}
					}
				}
				if !readsV {
					w.kills[x] = true
				} else {
					w.others = append(w.others, x)
				}
			}
		case *ast.IncDecStmt:
			if isV(x.X) {
				w.any = true
				if litDepth > 0 {
					w.opaque = true
				} else {
					w.others = append(w.others, x)
				}
			}
		case *ast.RangeStmt:
			// `for v = range xs`: assigned only when xs is non-empty — a write, never a re-initialisation
			if (x.Key != nil && isV(x.Key)) || (x.Value != nil && isV(x.Value)) {
				w.any, w.opaque = true, true
			}
		case *ast.UnaryExpr:
			if x.Op == token.AND && isV(x.X) {
				w.any, w.opaque = true, true
			}
		}
		return true
	}
	ast.Inspect(body, visit)
	return w
}

// resetBeforeNextIndex decides the second accepted shape of per-index state: v enters every iteration of L with
// the same constant K — its declaration (the only write outside L's body) gives it K, every re-initialisation in
// L's body assigns K, and from every other write of v in L's body every path back to L's loop head passes a
// re-initialisation (`n := 0; for … range indexes { …n++…; n = 0 }`).
func (e *c16LoopEnv) resetBeforeNextIndex(fd *ast.FuncDecl, g *cfg.CFG, L *ast.RangeStmt, v types.Object, w c16VarWrites) bool {
	info := e.info
	if w.opaque || len(w.kills) == 0 {
		return false
	}
	var K constant.Value
	same := func(val constant.Value) bool {
		if val == nil {
			return false
		}
		if K == nil {
			K = val
			return true
		}
		return K.Kind() == val.Kind() && constant.Compare(K, token.EQL, val)
	}
	for k := range w.kills {
		as := k.(*ast.AssignStmt)
		if len(as.Lhs) != len(as.Rhs) {
			return false
		}
		for i, l := range as.Lhs {
			if id, ok := ast.Unparen(l).(*ast.Ident); ok && info.Uses[id] == v {
				if !same(info.Types[as.Rhs[i]].Value) {
					return false
				}
			}
		}
	}
	// writes outside L's body: only the declaration, with value K
	declOK, otherOutside := false, false
	ast.Inspect(fd.Body, func(n ast.Node) bool {
		if n == ast.Node(L.Body) {
			return false
		}
		switch x := n.(type) {
		case *ast.AssignStmt:
			for i, l := range x.Lhs {
				id, ok := ast.Unparen(l).(*ast.Ident)
				if !ok {
					continue
				}
				switch {
				case info.Defs[id] == v:
					if len(x.Lhs) == len(x.Rhs) && same(info.Types[x.Rhs[i]].Value) {
						declOK = true
					} else {
						otherOutside = true
					}
				case info.Uses[id] == v:
					otherOutside = true
				}
			}
		case *ast.ValueSpec:
			for i, nm := range x.Names {
				if info.Defs[nm] != v {
					continue
				}
				switch {
				case len(x.Values) == len(x.Names):
					if same(info.Types[x.Values[i]].Value) {
						declOK = true
					} else {
						otherOutside = true
					}
				case len(x.Values) == 0:
					if b, ok := v.Type().Underlying().(*types.Basic); ok && K != nil {
						switch {
						case b.Info()&types.IsBoolean != 0 && K.Kind() == constant.Bool:
							declOK = !constant.BoolVal(K)
						case b.Info()&types.IsString != 0 && K.Kind() == constant.String:
							declOK = constant.StringVal(K) == ""
						case b.Info()&types.IsNumeric != 0 && (K.Kind() == constant.Int || K.Kind() == constant.Float):
							declOK = constant.Sign(K) == 0
						}
					}
					if !declOK {
						otherOutside = true
					}
				default:
					otherOutside = true
				}
			}
		case *ast.IncDecStmt:
			if id, ok := ast.Unparen(x.X).(*ast.Ident); ok && info.Uses[id] == v {
				otherOutside = true
			}
		case *ast.UnaryExpr:
			if id, ok := ast.Unparen(x.X).(*ast.Ident); ok && x.Op == token.AND && info.Uses[id] == v {
				otherOutside = true
			}
		case *ast.RangeStmt:
			for _, kv := range []ast.Expr{x.Key, x.Value} {
				if kv == nil {
					continue
				}
				if id, ok := ast.Unparen(kv).(*ast.Ident); ok && info.Uses[id] == v {
					otherOutside = true
				}
			}
		}
		return true
	})
	if !declOK || otherOutside {
		return false
	}
	var head *cfg.Block
	for _, b := range g.Blocks {
		if b.Kind == cfg.KindRangeLoop && b.Stmt == ast.Stmt(L) {
			head = b
		}
	}
	if head == nil {
		return false
	}
	for _, wr := range w.others {
		var wb *cfg.Block
		wi := -1
		for _, b := range g.Blocks {
			for i, n := range b.Nodes {
				if n == wr {
					wb, wi = b, i
				}
			}
		}
		if wb == nil {
			return false
		}
		seen := map[*cfg.Block]bool{}
		var reach func(b *cfg.Block, i int) bool
		reach = func(b *cfg.Block, i int) bool {
			for ; i < len(b.Nodes); i++ {
				if w.kills[b.Nodes[i]] {
					return false
				}
			}
			for _, s := range b.Succs {
				if s == head {
					return true
				}
				if !seen[s] {
					seen[s] = true
					if reach(s, 0) {
						return true
					}
				}
			}
			return false
		}
		if reach(wb, wi+1) {
			return false
		}
	}
	return true
}

func c16LoopCarried(e *c16LoopEnv, pk *packages.Package) {
	c, info := e.c, e.info
	c.P.EachFuncDecl([]string{e.p.rel}, func(_ *packages.Package, fd *ast.FuncDecl) {
		name := DeclName(fd)
		var loops []*ast.RangeStmt
		inspectNoLit(fd.Body, func(n ast.Node) bool {
			rs, ok := n.(*ast.RangeStmt)
			if !ok {
				return true
			}
			if e.isFieldSel(rs.X, e.defF) || (e.isT(rs.X, e.idxT) && e.fromField(fd, rs.X, e.idxT, 0)) {
				loops = append(loops, rs)
			}
			return true
		})
		if len(loops) == 0 {
			return
		}
		var g *cfg.CFG
		used := map[string]int{}
		for _, L := range loops {
			ctrls, writes := e.controlling(fd, L)
			if writes == 0 {
				continue // a read-only loop over the indexes: not maintenance
			}
			over := types.ExprString(L.X)
			if sel, ok := ast.Unparen(L.X).(*ast.SelectorExpr); ok {
				over = "." + sel.Sel.Name
			}
			key := name + "/range " + over
			used[key]++
			if used[key] > 1 {
				key = fmt.Sprintf("%s#%d", key, used[key])
			}
			if g == nil {
				g = c.P.CFG(info, fd.Body)
			}
			var bodyBlock *cfg.Block
			for _, b := range g.Blocks {
				if b.Kind == cfg.KindRangeBody && b.Stmt == ast.Stmt(L) {
					bodyBlock = b
				}
			}
			if bodyBlock == nil {
				c.Undecided("C16-L", key, L.Pos(), "body block of the loop over the indexes not found in the CFG")
				continue
			}
			ownVars := map[types.Object]bool{}
			for _, kv := range []ast.Expr{L.Key, L.Value} {
				if id, ok := kv.(*ast.Ident); ok {
					if o := info.Defs[id]; o != nil {
						ownVars[o] = true
					} else if o := info.Uses[id]; o != nil {
						ownVars[o] = true
					}
				}
			}
			nvars := 0
			bad := false
			for _, ct := range ctrls {
				if bad {
					break
				}
				var ids []*ast.Ident
				inspectNoLit(ct.expr, func(m ast.Node) bool {
					if id, ok := m.(*ast.Ident); ok {
						ids = append(ids, id)
					}
					return true
				})
				for _, id := range ids {
					v, _ := info.Uses[id].(*types.Var)
					if v == nil || v.IsField() || ownVars[v] {
						continue
					}
					if v.Parent() == nil || v.Parent() == v.Pkg().Scope() {
						continue // package-level state: not decided here
					}
					if L.Pos() <= v.Pos() && v.Pos() < L.End() {
						continue // declared inside the loop: fresh for every index (Go ≥ 1.22 range variables, := in the body)
					}
					w := e.varWrites(L.Body, v)
					if !w.any {
						continue // loop invariant
					}
					nvars++
					use := id
					path := PathAvoiding(g, CFGPoint{bodyBlock, -1},
						func(n ast.Node) bool { return w.kills[n] },
						func(n ast.Node) bool { return c16HasNode(n, use) }, nil)
					if path != nil && e.resetBeforeNextIndex(fd, g, L, v, w) {
						path = nil // the variable enters every iteration with the same constant
					}
					if path != nil {
						bad = true
						c.Bad("C16-L", key, ct.expr.Pos(), fmt.Sprintf("%s: inside the loop over all indexes (`range %s`), the %s condition `%s`, which controls %s, reads `%s`: that variable is declared outside the loop over the indexes and modified inside it, and it is not re-initialised on every path from the start of an index's iteration to this read — what is done for one index depends on the indexes handled before it, so later indexes are maintained partially",
							name, types.ExprString(L.X), ct.what, c16Short(types.ExprString(ct.expr)), ct.why, v.Name()), c.P.DescribePath(path)...)
						break
					}
				}
			}
			if !bad {
				c.Ok("C16-L", key, L.Pos(), fmt.Sprintf("%d index write(s), %d controlling expression(s), %d read(s) of outer variables assigned in the loop, all re-initialised per index", writes, len(ctrls), nvars))
			}
		}
	})
	_ = strings.TrimSpace
	_ = pk
}

// c16HasNode: the syntax tree n contains exactly the node x (pointer identity; go/cfg synthesises `tag == case`
// expressions whose position range covers unrelated statements, so positions are not used).
func c16HasNode(n ast.Node, x ast.Node) bool {
	hit := false
	ast.Inspect(n, func(m ast.Node) bool {
		if m == x {
			hit = true
		}
		return !hit
	})
	return hit
}

func c16Short(s string) string {
	if len(s) > 80 {
		return s[:80] + "…"
	}
	return s
}
