package main

import (
	"fmt"
	"go/ast"
	"go/token"
	"go/types"
	"strings"

	"golang.org/x/tools/go/cfg"
	"golang.org/x/tools/go/packages"
)

// C19-G*: every generated column is recomputed AFTER the user's assignments on every
// UPDATE-like path (UPDATE, UPDATE … JOIN, INSERT … ON DUPLICATE KEY UPDATE).
//
// The mechanism, as read from the tree:
//   planbuilder: assignmentExprsToUpdateExprs builds one SetField per assignment, hands the slice to
//     addDependentUpdateExprs, which appends one SetField per generated column (always) and per
//     ON UPDATE column (unless the statement assigns that column), and wraps the result in
//     plan.NewUpdateExprs(all, len(assignments)): a slice split into explicit | derived.
//   plan: UpdateExprs.ExplicitUpdateExprs() / DerivedUpdateExprs() are the two halves.
//   rowexec: applyUpdateExpressionsWithIgnore (UPDATE) and insertIter.handleOnDuplicateKeyUpdate
//     (ODKU, through insertIter.applyUpdates) evaluate the explicit half, then – when there are
//     derived expressions and the row changed – the derived half, each expression over the row
//     produced by the previous one.
// Nothing below is anchored on those names except the constructor/type names in c19gParams; the
// functions are discovered by shape.

type c19gParams struct {
	sqlRel    string // Column, Schema, Row, Expression, EditOpenerCloser
	exprRel   string // package of the SetField constructor
	setField  string // "NewSetField"
	planRel   string // package of the update-expression container
	ueType    string // "UpdateExprs"
	ueCtor    string // "NewUpdateExprs"
	ocIface   string // "EditOpenerCloser"
	buildPkgs []string
	execPkgs  []string
	floors    map[string]int
}

var c19gRepo = c19gParams{sqlRel: "sql", exprRel: "sql/expression", setField: "NewSetField", planRel: "sql/plan",
	ueType: "UpdateExprs", ueCtor: "NewUpdateExprs", ocIface: "EditOpenerCloser",
	buildPkgs: []string{"sql/planbuilder"}, execPkgs: []string{"sql/rowexec"},
	floors: map[string]int{"C19-G1": 5, "C19-G2": 6, "C19-G3": 11, "C19-G4": 4}}

// c19gFixture: the G clauses must fire on the broken builders / construction sites / appliers of
// testdata/c19/{build,plan,gexec} and stay silent on the correct ones next to them.
func c19gFixture(c *Ctx, fx *Prog) {
	p := c19gParams{sqlRel: "testdata/c19/sql", exprRel: "testdata/c19/expr", setField: "NewSetField", planRel: "testdata/c19/plan",
		ueType: "UpdateExprs", ueCtor: "NewUpdateExprs", ocIface: "EditOpenerCloser",
		buildPkgs: []string{"testdata/c19/build"}, execPkgs: []string{"testdata/c19/gexec"}, floors: map[string]int{}}
	expectFixture(c, fx, "c19g: broken recomputation of generated columns must be reported", []string{
		"C19-G1:addDependentHoisted/generated-recompute",
		"C19-G1:addDependentSwapped/generated-recompute",
		"C19-G1:addDependentSwapped/on-update-yields-to-assignment",
		"C19-G1:addDependentSwapped/loop-unconditional",
		"C19-G1:assigned-predicate(neverAssigned)",
		"C19-G1:addDependentBlind/on-update-applied",
		"C19-G1:addDependentBlind/on-update-yields-to-assignment",
		"C19-G2:addDependentSwapped/appends-after-assignments",
		"C19-G2:ToUpdateExprsNoDerived/NewUpdateExprs",
		"C19-G2:ToUpdateExprsWrongSplit/NewUpdateExprs",
		"C19-G2:UpdateExprs.Tail/partition",
		"C19-G2:UpdateExprs/split-index-written@UpdateExprs.Reset",
		"C19-G3:applyStale/derived-loop",
		"C19-G3:applyFlat/reads-unsplit-expressions",
		"C19-G3:upserter.applyLenient/loop/repair-from-accumulator",
		"C19-G3:upserter.upsertRestart/derived-after-explicit",
		"C19-G3:upserter.upsertBad/result-is-last-application",
		"C19-G4:upserter.upsertBad/change-test-operands",
		"C19-G4:upserter.upsertBad/derived-applied-when-changed",
	}, func(fc *Ctx) { runC19G(fc, p) })
}

type c19g struct {
	c *Ctx
	p c19gParams

	colT                 *types.Named
	genF, onUpdF, nameF  *types.Var
	schT, rowT, exprT    types.Type
	exprSliceT           types.Type
	setFieldF            *types.Func
	ueT                  *types.Named
	ueExprsF, ueNumF     *types.Var
	ueCtorF              *types.Func
	rowEqualsF, exprEval *types.Func
	oc                   *types.Interface

	builders     map[*types.Func]*c19gBuilder
	accExplicit  *types.Func
	accDerived   *types.Func
	hasDerived   map[*types.Func]bool
	predVerdicts map[*types.Func]bool
}

type c19gBuilder struct {
	fn     *types.Func
	fd     *ast.FuncDecl
	rParam int // index of the []Expression parameter that carries the user's assignments
}

func runC19G(c *Ctx, p c19gParams) {
	c.Rule("C19-G1", "dependent-expression builder: for every schema column with a Generated expression the recomputation SetField is appended on every path through the column loop (no guard over the assignment list); the ON UPDATE arm is appended exactly when the column is not explicitly assigned; the loop is reached unconditionally; the \"assigned\" predicate means what its name says", p.floors["C19-G1"])
	c.Rule("C19-G2", "ordering and construction: the builder only appends to the end of the assignment slice and returns it; every UpdateExprs value is built by the constructor from the builder's result with numExplicit = the number of user assignments; the explicit/derived accessors partition the slice at that index", p.floors["C19-G2"])
	c.Rule("C19-G3", "executor: each half is applied as a loop that evaluates every expression over the row produced by the previous one; the derived half is applied after the explicit half to its result; the row that is stored/returned is the result of the last application on every path", p.floors["C19-G3"])
	c.Rule("C19-G4", "executor: after the explicit half, whenever there are derived expressions and the row changed, the derived half is applied on every non-error path; the change test compares the row before the explicit half with the row after it", p.floors["C19-G4"])
	a := &c19g{c: c, p: p, builders: map[*types.Func]*c19gBuilder{}, hasDerived: map[*types.Func]bool{}, predVerdicts: map[*types.Func]bool{}}
	if !a.anchors() {
		return
	}
	for _, rel := range p.buildPkgs {
		pk := c.P.Pkg(rel)
		if pk == nil {
			c.Undecided("C19-G1", "package "+rel, 0, "package not loaded")
			continue
		}
		a.findBuilders(pk)
	}
	if len(a.builders) == 0 {
		c.Undecided("C19-G1", "builders", 0, "no function that ranges over a Schema, reads Column.Generated and appends a SetField was found in "+strings.Join(p.buildPkgs, ","))
	}
	a.constructorSites()
	a.accessors()
	for _, rel := range p.execPkgs {
		pk := c.P.Pkg(rel)
		if pk == nil {
			c.Undecided("C19-G3", "package "+rel, 0, "package not loaded")
			continue
		}
		a.appliers(pk)
	}
	dumpObsIfAsked(c)
}

func (a *c19g) anchors() bool {
	c, p := a.c, a.p
	sqlPk, exPk, plPk := c.P.Pkg(p.sqlRel), c.P.Pkg(p.exprRel), c.P.Pkg(p.planRel)
	if sqlPk == nil || exPk == nil || plPk == nil {
		c.Undecided("C19-G1", "packages", 0, fmt.Sprintf("packages %s / %s / %s not all loaded", p.sqlRel, p.exprRel, p.planRel))
		return false
	}
	named := func(pk *packages.Package, n string) *types.Named {
		tn, _ := pk.Types.Scope().Lookup(n).(*types.TypeName)
		if tn == nil {
			return nil
		}
		nt, _ := tn.Type().(*types.Named)
		return nt
	}
	a.colT = named(sqlPk, "Column")
	if sch := named(sqlPk, "Schema"); sch != nil {
		a.schT = sch
	}
	if row := named(sqlPk, "Row"); row != nil {
		a.rowT = row
		for i := 0; i < row.NumMethods(); i++ {
			if row.Method(i).Name() == "Equals" {
				a.rowEqualsF = row.Method(i)
			}
		}
	}
	if ex := named(sqlPk, "Expression"); ex != nil {
		a.exprT = ex
		a.exprSliceT = types.NewSlice(ex)
		if obj, _, _ := types.LookupFieldOrMethod(ex, false, sqlPk.Types, "Eval"); obj != nil {
			a.exprEval, _ = obj.(*types.Func)
		}
	}
	if a.colT != nil {
		if st, ok := a.colT.Underlying().(*types.Struct); ok {
			for i := 0; i < st.NumFields(); i++ {
				switch st.Field(i).Name() {
				case "Generated":
					a.genF = st.Field(i)
				case "OnUpdate":
					a.onUpdF = st.Field(i)
				case "Name":
					a.nameF = st.Field(i)
				}
			}
		}
	}
	a.setFieldF, _ = exPk.Types.Scope().Lookup(p.setField).(*types.Func)
	a.ueT = named(plPk, p.ueType)
	a.ueCtorF, _ = plPk.Types.Scope().Lookup(p.ueCtor).(*types.Func)
	a.oc = dmlLookupIface(c.P, p.sqlRel, p.ocIface)
	if a.ueT != nil {
		if st, ok := a.ueT.Underlying().(*types.Struct); ok {
			nSlice, nInt := 0, 0
			for i := 0; i < st.NumFields(); i++ {
				f := st.Field(i)
				if a.exprSliceT != nil && types.Identical(f.Type(), a.exprSliceT) {
					a.ueExprsF = f
					nSlice++
				}
				if b, ok := f.Type().Underlying().(*types.Basic); ok && b.Info()&types.IsInteger != 0 {
					a.ueNumF = f
					nInt++
				}
			}
			if nSlice != 1 || nInt != 1 {
				c.Undecided("C19-G2", p.ueType+"/fields", a.ueT.Obj().Pos(), fmt.Sprintf("%s is expected to hold exactly one []Expression field and one integer split index, found %d and %d", p.ueType, nSlice, nInt))
				return false
			}
		}
	}
	if a.colT == nil || a.schT == nil || a.rowT == nil || a.exprT == nil || a.genF == nil || a.onUpdF == nil || a.nameF == nil ||
		a.setFieldF == nil || a.ueT == nil || a.ueCtorF == nil || a.ueExprsF == nil || a.ueNumF == nil || a.rowEqualsF == nil || a.exprEval == nil || a.oc == nil {
		c.Undecided("C19-G1", "anchors", 0, fmt.Sprintf("one of %s.{Column(.Generated,.OnUpdate,.Name),Schema,Row(.Equals),Expression(.Eval),%s}, %s.%s, %s.{%s,%s} not found", p.sqlRel, p.ocIface, p.exprRel, p.setField, p.planRel, p.ueType, p.ueCtor))
		return false
	}
	return true
}

func (a *c19g) isExprSlice(t types.Type) bool { return t != nil && types.Identical(t, a.exprSliceT) }

func (a *c19g) isSetFieldCall(info *types.Info, e ast.Expr) (*ast.CallExpr, bool) {
	call, ok := ast.Unparen(e).(*ast.CallExpr)
	if !ok {
		return nil, false
	}
	fn := Callee(info, call)
	return call, fn != nil && fn.Origin() == a.setFieldF && len(call.Args) == 2
}

// ---- G1 / G2a: the dependent-expression builder ------------------------------------------------

func (a *c19g) findBuilders(pk *packages.Package) {
	info := pk.TypesInfo
	a.c.P.EachFuncDecl([]string{dmlRelOfPkg(pk.PkgPath)}, func(_ *packages.Package, fd *ast.FuncDecl) {
		var loops []*ast.RangeStmt
		ast.Inspect(fd.Body, func(n ast.Node) bool {
			if _, ok := n.(*ast.FuncLit); ok {
				return false
			}
			rs, ok := n.(*ast.RangeStmt)
			if !ok || rs.Value == nil || !types.Identical(info.TypeOf(rs.X), a.schT) {
				return true
			}
			lv := c19gObjOf(info, rs.Value)
			if lv == nil || !c19gMentionsField(info, rs.Body, lv, a.genF) {
				return true
			}
			hasSet := false
			for _, call := range dmlCallsIn(rs.Body, false) {
				if _, ok := a.isSetFieldCall(info, call); ok {
					hasSet = true
				}
			}
			if hasSet {
				loops = append(loops, rs)
			}
			return true
		})
		if len(loops) == 0 {
			return
		}
		fn, _ := info.Defs[fd.Name].(*types.Func)
		name := DeclName(fd)
		if fn == nil {
			return
		}
		if len(loops) > 1 {
			a.c.Undecided("C19-G1", name+"/generated-recompute", fd.Pos(), name+" has more than one schema loop that appends SetField expressions for generated columns: which one is the recomputation cannot be told apart")
			return
		}
		sig := fn.Type().(*types.Signature)
		rParam := -1
		for i := 0; i < sig.Params().Len(); i++ {
			if a.isExprSlice(sig.Params().At(i).Type()) {
				if rParam >= 0 {
					rParam = -2
				} else {
					rParam = i
				}
			}
		}
		if rParam < 0 {
			a.c.Undecided("C19-G1", name+"/generated-recompute", fd.Pos(), name+" appends SetField expressions for generated columns but does not take exactly one []Expression parameter (the user's assignments)")
			return
		}
		a.builders[fn] = &c19gBuilder{fn: fn, fd: fd, rParam: rParam}
		a.builderBody(pk, fd, fn, loops[0], sig.Params().At(rParam))
	})
}

const (
	c19gAbsNil = iota + 1
	c19gAbsG
	c19gAbsU
	c19gAbsUnknown
)

const (
	c19gTagG  = 1
	c19gTagU  = 2
	c19gTagSF = 4
)

func (a *c19g) builderBody(pk *packages.Package, fd *ast.FuncDecl, fn *types.Func, rs *ast.RangeStmt, rParam *types.Var) {
	c, info := a.c, pk.TypesInfo
	name := DeclName(fd)
	g := c.P.CFG(info, fd.Body)
	loopVar := c19gObjOf(info, rs.Value)
	tagless := c19gTaglessCases(fd.Body)

	// R: the variables that hold the (running) assignment slice
	rset := map[types.Object]bool{rParam: true}
	for changed := true; changed; {
		changed = false
		ast.Inspect(fd.Body, func(n ast.Node) bool {
			as, ok := n.(*ast.AssignStmt)
			if !ok || len(as.Lhs) != len(as.Rhs) {
				return true
			}
			for i, l := range as.Lhs {
				lo, ro := c19gObjOf(info, l), c19gObjOf(info, as.Rhs[i])
				if lo != nil && ro != nil && rset[ro] && !rset[lo] && a.isExprSlice(lo.Type()) {
					rset[lo] = true
					changed = true
				}
			}
			return true
		})
	}
	inR := func(o types.Object) bool { return rset[o] }

	var body *cfg.Block
	for _, b := range g.Blocks {
		if b.Stmt == ast.Stmt(rs) && b.Kind == cfg.KindRangeBody {
			body = b
		}
	}
	if body == nil {
		c.Undecided("C19-G1", name+"/generated-recompute", rs.Pos(), "column loop not found in the CFG")
		return
	}

	tagOf := func(p *c19gPath, e ast.Expr) int {
		t := 0
		ast.Inspect(e, func(m ast.Node) bool {
			x, ok := m.(ast.Expr)
			if !ok {
				return true
			}
			if c19gFieldSel(info, x, loopVar, a.genF) {
				t |= c19gTagG
			}
			if c19gFieldSel(info, x, loopVar, a.onUpdF) {
				t |= c19gTagU
			}
			if id, ok := x.(*ast.Ident); ok {
				if o := info.Uses[id]; o != nil {
					switch p.ptr[o] {
					case c19gAbsG:
						t |= c19gTagG
					case c19gAbsU:
						t |= c19gTagU
					}
					t |= p.tags[o] & (c19gTagG | c19gTagU)
				}
			}
			return true
		})
		return t
	}

	type verdict struct {
		path []ast.Node
		msg  string
	}
	bad := map[string]*verdict{}
	predSeen := false
	var predFn *types.Func
	var predPos token.Pos

	for _, vG := range []int{c19gT, c19gF} {
		for _, vU := range []int{c19gT, c19gF} {
			for _, vA := range []int{c19gT, c19gF} {
				vG, vU, vA := vG, vU, vA
				nonnil := func(p *c19gPath, e ast.Expr) (int, bool) {
					e = ast.Unparen(e)
					if c19gFieldSel(info, e, loopVar, a.genF) {
						return vG, true
					}
					if c19gFieldSel(info, e, loopVar, a.onUpdF) {
						return vU, true
					}
					if o := c19gObjOf(info, e); o != nil {
						switch p.ptr[o] {
						case c19gAbsNil:
							return c19gF, true
						case c19gAbsG:
							return vG, true
						case c19gAbsU:
							return vU, true
						case c19gAbsUnknown:
							return c19gU, true
						}
					}
					return c19gU, false
				}
				w := &c19gWalker{info: info, budget: 200000, tagless: tagless}
				w.atom = func(p *c19gPath, e ast.Expr) (int, bool) {
					switch x := e.(type) {
					case *ast.BinaryExpr:
						if x.Op == token.EQL || x.Op == token.NEQ {
							var other ast.Expr
							if isNilIdent(info, x.Y) {
								other = x.X
							} else if isNilIdent(info, x.X) {
								other = x.Y
							}
							if other != nil {
								if nn, ok := nonnil(p, other); ok {
									if x.Op == token.EQL {
										nn = c19gNot(nn)
									}
									return nn, true
								}
							}
						}
					case *ast.CallExpr:
						if pf := a.assignedPredCall(pk, x, loopVar, inR); pf != nil {
							predSeen, predFn, predPos = true, pf, x.Pos()
							if a.predVerdicts[pf] {
								return vA, true
							}
							return c19gU, true
						}
					}
					return c19gU, false
				}
				w.node = func(p *c19gPath, n ast.Node) {
					setPtr := func(o types.Object, rhs ast.Expr) {
						if o == nil {
							return
						}
						switch o.Type().Underlying().(type) {
						case *types.Pointer, *types.Interface:
						default:
							return
						}
						if rhs == nil {
							p.ptr[o] = c19gAbsNil
							return
						}
						if isNilIdent(info, rhs) {
							p.ptr[o] = c19gAbsNil
							return
						}
						if call, ok := a.isSetFieldCall(info, rhs); ok {
							p.tags[o] = c19gTagSF | tagOf(p, call.Args[1])
							p.ptr[o] = c19gAbsUnknown
							return
						}
						if ro := c19gObjOf(info, rhs); ro != nil && p.ptr[ro] != 0 {
							p.ptr[o] = p.ptr[ro]
							p.tags[o] = p.tags[ro]
							return
						}
						switch tagOf(p, rhs) {
						case c19gTagG:
							p.ptr[o] = c19gAbsG
						case c19gTagU:
							p.ptr[o] = c19gAbsU
						default:
							p.ptr[o] = c19gAbsUnknown
						}
					}
					switch x := n.(type) {
					case *ast.ValueSpec:
						for i, id := range x.Names {
							var rhs ast.Expr
							if len(x.Values) == len(x.Names) {
								rhs = x.Values[i]
							} else if len(x.Values) != 0 {
								rhs = x.Values[0]
							}
							setPtr(info.Defs[id], rhs)
						}
					case *ast.AssignStmt:
						if len(x.Lhs) == len(x.Rhs) {
							for i, l := range x.Lhs {
								lo := c19gObjOf(info, l)
								if lo == nil {
									continue
								}
								if a.isExprSlice(lo.Type()) {
									// every SetField that enters the slice (wherever it is put: G2 decides the position)
									ast.Inspect(x.Rhs[i], func(m ast.Node) bool {
										arg, ok := m.(ast.Expr)
										if !ok {
											return true
										}
										t := 0
										if sf, ok := a.isSetFieldCall(info, arg); ok {
											t = c19gTagSF | tagOf(p, sf.Args[1])
										} else if id, ok := arg.(*ast.Ident); ok {
											if ao := info.Uses[id]; ao != nil && p.tags[ao]&c19gTagSF != 0 {
												t = p.tags[ao]
											}
										}
										if t&c19gTagSF == 0 {
											return true
										}
										switch t & (c19gTagG | c19gTagU) {
										case c19gTagG:
											p.marks["emitG"] = true
										case c19gTagU:
											p.marks["emitU"] = true
										default:
											p.marks["emitOther"] = true
										}
										return false
									})
									continue
								}
								setPtr(lo, x.Rhs[i])
							}
						} else {
							for _, l := range x.Lhs {
								if lo := c19gObjOf(info, l); lo != nil {
									if _, isPtr := lo.Type().Underlying().(*types.Pointer); isPtr {
										p.ptr[lo] = c19gAbsUnknown
									}
								}
							}
						}
					}
				}
				w.stop = func(b *cfg.Block) (string, bool) {
					if b.Stmt == ast.Stmt(rs) {
						switch b.Kind {
						case cfg.KindRangeLoop:
							return "next column", true
						case cfg.KindRangeDone:
							return "break", true
						}
					}
					return "", false
				}
				w.end = func(p *c19gPath, how string, _ *ast.ReturnStmt) {
					report := func(key, msg string) {
						if bad[key] == nil {
							bad[key] = &verdict{path: append([]ast.Node(nil), p.trail...), msg: msg + " (the iteration ends with: " + how + ")"}
						}
					}
					switch {
					case vG == c19gT:
						if !p.marks["emitG"] {
							extra := ""
							if vA == c19gT && predSeen {
								extra = "; on this path the column is named in the statement's assignment list (e.g. `g = DEFAULT`), so it keeps a value computed before the later assignments were applied"
							}
							report("generated-recompute", "a column with a Generated expression goes through the column loop without its recomputation SetField being appended"+extra)
						}
					case vU == c19gT && vA == c19gF:
						if !p.marks["emitU"] {
							report("on-update-applied", "a column with an ON UPDATE expression that the statement does not assign gets no ON UPDATE SetField")
						}
					case vU == c19gT && vA == c19gT:
						if p.marks["emitU"] {
							report("on-update-yields-to-assignment", "a column with an ON UPDATE expression that the statement assigns explicitly still gets its ON UPDATE SetField appended after the assignment: the explicit value is overwritten")
						}
					}
				}
				w.walk(body, c19gNewPath())
				if w.exceeded {
					c.Undecided("C19-G1", name+"/generated-recompute", rs.Pos(), "path budget exceeded in the column loop")
					return
				}
			}
		}
	}
	emit := func(key, okMsg string) {
		if v := bad[key]; v != nil {
			c.Bad("C19-G1", name+"/"+key, rs.Pos(), name+": "+v.msg, c.P.DescribePath(v.path)...)
		} else {
			c.Ok("C19-G1", name+"/"+key, rs.Pos(), okMsg)
		}
	}
	emit("generated-recompute", "every path of the column loop with col.Generated != nil appends SetField(col, <Generated>)")
	if !predSeen {
		for _, k := range []string{"on-update-applied", "on-update-yields-to-assignment"} {
			c.Undecided("C19-G1", name+"/"+k, rs.Pos(), name+": no call of an \"is this column assigned\" predicate over the assignment slice was recognised in the column loop; the ON UPDATE arm cannot be decided")
		}
	} else if !a.predVerdicts[predFn] {
		for _, k := range []string{"on-update-applied", "on-update-yields-to-assignment"} {
			c.Undecided("C19-G1", name+"/"+k, predPos, name+": the meaning of the predicate "+predFn.Name()+" could not be confirmed (see its own report); the ON UPDATE arm cannot be decided")
		}
	} else {
		emit("on-update-applied", "ON UPDATE SetField appended when the column is not assigned")
		emit("on-update-yields-to-assignment", "no ON UPDATE SetField when the column is assigned")
	}

	// loop reached unconditionally: the conditions guarding the loop (enclosing ifs, and ifs with a
	// return in front of it) may read only the ranged schema
	schObj := c19gObjOf(info, rs.X)
	guardBad := ""
	var guardPos token.Pos
	condOK := func(e ast.Expr) bool {
		ok := true
		ast.Inspect(e, func(m ast.Node) bool {
			id, isId := m.(*ast.Ident)
			if !isId {
				return true
			}
			switch o := info.Uses[id].(type) {
			case *types.Builtin, *types.Const, *types.Nil:
			case *types.Var:
				if schObj == nil || o != schObj {
					ok = false
				}
			default:
				ok = false
			}
			return true
		})
		return ok
	}
	var visit func(list []ast.Stmt) bool
	visit = func(list []ast.Stmt) bool {
		for _, s := range list {
			if s.Pos() <= rs.Pos() && rs.End() <= s.End() {
				switch x := s.(type) {
				case *ast.RangeStmt:
					if x == rs {
						return true
					}
					guardBad, guardPos = "the column loop is nested in another loop", x.Pos()
					return true
				case *ast.IfStmt:
					if !condOK(x.Cond) {
						guardBad, guardPos = "the column loop is guarded by `"+types.ExprString(x.Cond)+"`", x.Pos()
					}
					if x.Body.Pos() <= rs.Pos() && rs.End() <= x.Body.End() {
						return visit(x.Body.List)
					}
					if blk, ok := x.Else.(*ast.BlockStmt); ok {
						return visit(blk.List)
					}
					guardBad, guardPos = "the column loop sits in an else-if chain", x.Pos()
					return true
				case *ast.BlockStmt:
					return visit(x.List)
				default:
					guardBad, guardPos = fmt.Sprintf("the column loop is nested in a %T", s), s.Pos()
					return true
				}
			}
			// a statement before the loop: an early return under a condition that reads more than the schema
			if ifs, ok := s.(*ast.IfStmt); ok {
				hasRet := false
				ast.Inspect(ifs, func(m ast.Node) bool {
					if _, ok := m.(*ast.ReturnStmt); ok {
						hasRet = true
					}
					return true
				})
				if hasRet && !condOK(ifs.Cond) {
					guardBad, guardPos = "an early return under `"+types.ExprString(ifs.Cond)+"` precedes the column loop", ifs.Pos()
				}
			} else if _, ok := s.(*ast.ReturnStmt); ok {
				guardBad, guardPos = "a return precedes the column loop", s.Pos()
			}
		}
		return false
	}
	visit(fd.Body.List)
	if guardBad != "" {
		c.Bad("C19-G1", name+"/loop-unconditional", guardPos, name+": "+guardBad+"; only the emptiness of the ranged schema may decide whether the columns are visited")
	} else {
		c.Ok("C19-G1", name+"/loop-unconditional", rs.Pos(), "the column loop is reached on every path (guards read only the ranged schema)")
	}

	// G2a: only appends to the end of R, returns R
	why := ""
	var whyPos token.Pos
	ast.Inspect(fd.Body, func(n ast.Node) bool {
		switch x := n.(type) {
		case *ast.FuncLit:
			return false
		case *ast.AssignStmt:
			for i, l := range x.Lhs {
				if ix, ok := ast.Unparen(l).(*ast.IndexExpr); ok {
					if o := c19gObjOf(info, ix.X); o != nil && rset[o] {
						why, whyPos = "an element of the assignment slice is overwritten: `"+types.ExprString(l)+" = …`", x.Pos()
					}
					continue
				}
				lo := c19gObjOf(info, l)
				if lo == nil || !rset[lo] {
					continue
				}
				if len(x.Lhs) != len(x.Rhs) {
					why, whyPos = "the assignment slice is assigned from a multi-value expression", x.Pos()
					continue
				}
				r := ast.Unparen(x.Rhs[i])
				if ro := c19gObjOf(info, r); ro != nil && rset[ro] {
					continue
				}
				call, ok := r.(*ast.CallExpr)
				if !ok || !IsBuiltinCall(info, call, "append") || len(call.Args) < 2 || call.Ellipsis.IsValid() {
					why, whyPos = "the assignment slice is rebuilt by `"+types.ExprString(r)+"` instead of being extended with append(slice, expr)", x.Pos()
					continue
				}
				if so := c19gObjOf(info, call.Args[0]); so == nil || !rset[so] {
					why, whyPos = "`"+types.ExprString(r)+"` does not append to the assignment slice: the derived expressions would not follow the user's assignments", x.Pos()
				}
			}
		case *ast.ReturnStmt:
			for _, r := range x.Results {
				if !a.isExprSlice(info.TypeOf(r)) {
					continue
				}
				if ro := c19gObjOf(info, r); ro == nil || !rset[ro] {
					why, whyPos = "the function returns `"+types.ExprString(r)+"`, not the extended assignment slice", x.Pos()
				}
			}
		}
		return true
	})
	_ = inR
	if why != "" {
		c.Bad("C19-G2", name+"/appends-after-assignments", whyPos, name+": "+why)
	} else {
		c.Ok("C19-G2", name+"/appends-after-assignments", fd.Pos(), "the assignment slice is only extended at its end and is what the function returns")
	}
}

// assignedPredCall recognises `pred(col, R)`: a call to a module function with a bool result that
// receives the loop variable and the assignment slice. The predicate's meaning (true iff a
// SetField of the slice names the column) is decided once per callee and reported under G1.
func (a *c19g) assignedPredCall(pk *packages.Package, call *ast.CallExpr, loopVar types.Object, inR func(types.Object) bool) *types.Func {
	info := pk.TypesInfo
	fn := Callee(info, call)
	if fn == nil {
		return nil
	}
	fn = fn.Origin()
	sig, _ := fn.Type().(*types.Signature)
	if sig == nil || sig.Results().Len() != 1 {
		return nil
	}
	if b, ok := sig.Results().At(0).Type().Underlying().(*types.Basic); !ok || b.Info()&types.IsBoolean == 0 {
		return nil
	}
	colIdx, listIdx := -1, -1
	for i, arg := range call.Args {
		if o := c19gObjOf(info, arg); o != nil {
			if o == loopVar {
				colIdx = i
			} else if inR(o) {
				listIdx = i
			}
		}
	}
	if colIdx < 0 || listIdx < 0 {
		return nil
	}
	if _, done := a.predVerdicts[fn]; !done {
		a.predVerdicts[fn] = a.predShape(fn, colIdx, listIdx)
	}
	return fn
}

// predShape decides that the predicate returns true exactly on the paths that passed a successful
// comparison of the column's Name with a value derived from an element of the list.
func (a *c19g) predShape(fn *types.Func, colIdx, listIdx int) bool {
	c := a.c
	key := "assigned-predicate(" + fn.Name() + ")"
	fd := c.P.Decl(fn)
	pk := c.P.PkgOf(fn)
	if fd == nil || pk == nil || fd.Body == nil {
		c.Undecided("C19-G1", key, fn.Pos(), "source of the predicate not loaded")
		return false
	}
	info := pk.TypesInfo
	sig := fn.Type().(*types.Signature)
	colP, listP := sig.Params().At(colIdx), sig.Params().At(listIdx)
	// D: values derived from the elements of the list
	derived := map[types.Object]bool{}
	ast.Inspect(fd.Body, func(n ast.Node) bool {
		if rs, ok := n.(*ast.RangeStmt); ok && c19gObjOf(info, rs.X) == types.Object(listP) && rs.Value != nil {
			if o := c19gObjOf(info, rs.Value); o != nil {
				derived[o] = true
			}
		}
		return true
	})
	for changed := true; changed; {
		changed = false
		ast.Inspect(fd.Body, func(n ast.Node) bool {
			as, ok := n.(*ast.AssignStmt)
			if !ok {
				return true
			}
			mentions := false
			for _, r := range as.Rhs {
				if c19gMentionsAny(info, r, func(o types.Object) bool { return derived[o] }) {
					mentions = true
				}
			}
			if mentions {
				for _, l := range as.Lhs {
					if o := c19gObjOf(info, l); o != nil && !derived[o] {
						if b, ok := o.Type().Underlying().(*types.Basic); ok && b.Info()&types.IsBoolean != 0 {
							continue // `ok` of a type assertion is not a derived value
						}
						derived[o] = true
						changed = true
					}
				}
			}
			return true
		})
	}
	// the name comparison: an atomic sub-expression mentioning colP.Name and a derived value
	isNameCmp := func(e ast.Expr) (bool, bool) { // (is comparison, true means equal)
		e = ast.Unparen(e)
		if !c19gMentionsField(info, e, colP, a.nameF) || !c19gMentionsAny(info, e, func(o types.Object) bool { return derived[o] }) {
			return false, false
		}
		switch x := e.(type) {
		case *ast.BinaryExpr:
			if x.Op == token.EQL {
				return true, true
			}
			if x.Op == token.NEQ {
				return true, false
			}
		case *ast.CallExpr:
			if f := Callee(info, x); f != nil && f.Pkg() != nil && f.Pkg().Path() == "strings" && f.Name() == "EqualFold" {
				return true, true
			}
		}
		return false, false
	}
	g := c.P.CFG(info, fd.Body)
	anyTrue := false
	problem := ""
	var problemPath []ast.Node
	w := &c19gWalker{info: info, budget: 200000, tagless: c19gTaglessCases(fd.Body)}
	w.cond = func(p *c19gPath, e ast.Expr, taken bool) {
		// does taking this edge imply the name comparison held?
		hasCmp := false
		evalWith := func(v int) int {
			return c19gEval(info, e, func(x ast.Expr) (int, bool) {
				if is, eq := isNameCmp(x); is {
					hasCmp = true
					if eq {
						return v, true
					}
					return c19gNot(v), true
				}
				if id, ok := x.(*ast.Ident); ok {
					if bv, ok := p.bl[info.Uses[id]]; ok {
						return bv, true
					}
				}
				return c19gU, false
			})
		}
		want := c19gF
		if taken {
			want = c19gT
		}
		eqV, neV := evalWith(c19gT), evalWith(c19gF)
		if !hasCmp {
			return
		}
		if eqV != c19gNot(want) && neV == c19gNot(want) {
			p.marks["matched"] = true // this edge is impossible unless the names are equal
		}
	}
	w.end = func(p *c19gPath, how string, r *ast.ReturnStmt) {
		if problem != "" {
			return
		}
		if r == nil || len(r.Results) != 1 {
			problem, problemPath = "a path leaves the predicate without an explicit boolean result", p.trail
			return
		}
		v := w.evalIn(p, r.Results[0])
		switch {
		case v == c19gU:
			problem, problemPath = "the result `"+types.ExprString(r.Results[0])+"` could not be evaluated", p.trail
		case v == c19gT && !p.marks["matched"]:
			problem, problemPath = "the predicate answers \"assigned\" on a path that never found an assignment whose column name equals the column's Name", p.trail
		case v == c19gF && p.marks["matched"]:
			problem, problemPath = "the predicate answers \"not assigned\" although an assignment to a column of that Name was found on the path", p.trail
		case v == c19gT:
			anyTrue = true
		}
	}
	w.walk(g.Blocks[0], c19gNewPath())
	if w.exceeded {
		c.Undecided("C19-G1", key, fd.Pos(), "path budget exceeded")
		return false
	}
	if problem == "" && !anyTrue {
		problem = "no path answers \"assigned\""
	}
	if problem != "" {
		c.Bad("C19-G1", key, fd.Pos(), DeclName(fd)+": "+problem+"; the ON UPDATE arm of the dependent-expression builder relies on this predicate to let an explicit assignment win", c.P.DescribePath(problemPath)...)
		return false
	}
	c.Ok("C19-G1", key, fd.Pos(), "returns true exactly when an element of the assignment slice names the column")
	return true
}

// ---- G2b: construction sites ------------------------------------------------------------------

func (a *c19g) constructorSites() {
	c := a.c
	ctorDecl := c.P.Decl(a.ueCtorF)
	// composite literals of the container type: only inside the constructor, fields from its parameters
	for _, mpk := range c.P.Module {
		info := mpk.TypesInfo
		for _, file := range mpk.Syntax {
			ast.Inspect(file, func(n ast.Node) bool {
				cl, ok := n.(*ast.CompositeLit)
				if !ok || dmlNamedOf(info.TypeOf(cl)) != a.ueT {
					return true
				}
				fd := dmlEnclosingDecl(mpk, cl.Pos())
				where := "?"
				if fd != nil {
					where = DeclName(fd)
				}
				key := a.p.ueType + "/literal@" + where
				if fd == nil || fd != ctorDecl {
					c.Bad("C19-G2", key, cl.Pos(), fmt.Sprintf("%s is built by a composite literal in %s, outside %s: the explicit/derived split of that value is not tied to a dependent-expression builder", a.p.ueType, where, a.p.ueCtor))
					return true
				}
				sig := a.ueCtorF.Type().(*types.Signature)
				var sliceP, numP types.Object
				for i := 0; i < sig.Params().Len(); i++ {
					if a.isExprSlice(sig.Params().At(i).Type()) {
						sliceP = sig.Params().At(i)
					} else if b, ok := sig.Params().At(i).Type().Underlying().(*types.Basic); ok && b.Info()&types.IsInteger != 0 {
						numP = sig.Params().At(i)
					}
				}
				okE, okN := false, false
				for i, el := range cl.Elts {
					var fld types.Object
					val := el
					if kv, ok := el.(*ast.KeyValueExpr); ok {
						if id, ok := kv.Key.(*ast.Ident); ok {
							fld = info.Uses[id]
						}
						val = kv.Value
					} else if st, ok := a.ueT.Underlying().(*types.Struct); ok && i < st.NumFields() {
						fld = st.Field(i)
					}
					vo := c19gObjOf(info, val)
					if fld == types.Object(a.ueExprsF) && vo != nil && vo == sliceP {
						okE = true
					}
					if fld == types.Object(a.ueNumF) && vo != nil && vo == numP {
						okN = true
					}
				}
				if okE && okN {
					c.Ok("C19-G2", key, cl.Pos(), "constructor stores its slice and its split index unchanged")
				} else {
					c.Bad("C19-G2", key, cl.Pos(), fmt.Sprintf("%s does not store its []Expression parameter in %s and its integer parameter in %s unchanged", a.p.ueCtor, a.ueExprsF.Name(), a.ueNumF.Name()))
				}
				return true
			})
		}
		// stores to the split index outside the constructor
		for _, file := range mpk.Syntax {
			ast.Inspect(file, func(n ast.Node) bool {
				var lhs []ast.Expr
				switch x := n.(type) {
				case *ast.AssignStmt:
					lhs = x.Lhs
				case *ast.IncDecStmt:
					lhs = []ast.Expr{x.X}
				}
				for _, l := range lhs {
					if sel, ok := ast.Unparen(l).(*ast.SelectorExpr); ok && info.Uses[sel.Sel] == types.Object(a.ueNumF) {
						where := "?"
						if fd := dmlEnclosingDecl(mpk, l.Pos()); fd != nil {
							where = DeclName(fd)
						}
						c.Bad("C19-G2", a.p.ueType+"/split-index-written@"+where, l.Pos(), fmt.Sprintf("%s writes %s.%s after construction: the boundary between the user's assignments and the derived expressions moves", where, a.p.ueType, a.ueNumF.Name()))
					}
				}
				return true
			})
		}
	}
	// every call of the constructor
	nCalls := 0
	for _, mpk := range c.P.Module {
		info := mpk.TypesInfo
		for _, file := range mpk.Syntax {
			for _, d := range file.Decls {
				fd, ok := d.(*ast.FuncDecl)
				if !ok || fd.Body == nil {
					continue
				}
				for _, call := range dmlCallsIn(fd.Body, true) {
					if fn := Callee(info, call); fn == nil || fn.Origin() != a.ueCtorF || len(call.Args) != 2 {
						continue
					}
					nCalls++
					a.ctorCall(mpk, fd, call)
				}
			}
		}
	}
	if nCalls == 0 {
		c.Undecided("C19-G2", a.p.ueCtor+"/callers", a.ueCtorF.Pos(), "no call of "+a.p.ueCtor+" found in the loaded packages")
	}
}

// singleDef returns the only right-hand side ever assigned to a local variable in fd (nil if it is
// a parameter, assigned more than once, or assigned from a multi-value expression).
func c19gSingleDef(info *types.Info, fd *ast.FuncDecl, obj types.Object) ast.Expr {
	var def ast.Expr
	n := 0
	ast.Inspect(fd.Body, func(m ast.Node) bool {
		switch x := m.(type) {
		case *ast.AssignStmt:
			for i, l := range x.Lhs {
				if c19gObjOf(info, l) == obj {
					n++
					if len(x.Lhs) == len(x.Rhs) {
						def = x.Rhs[i]
					} else {
						n++
					}
				}
			}
		case *ast.ValueSpec:
			for i, id := range x.Names {
				if info.Defs[id] == obj {
					n++
					if len(x.Values) == len(x.Names) {
						def = x.Values[i]
					} else {
						n++
					}
				}
			}
		case *ast.RangeStmt:
			if c19gObjOf(info, x.Key) == obj || c19gObjOf(info, x.Value) == obj {
				n += 2
			}
		}
		return true
	})
	if n != 1 {
		return nil
	}
	return def
}

func c19gObjOfNilSafe(info *types.Info, e ast.Expr) types.Object {
	if e == nil {
		return nil
	}
	return c19gObjOf(info, e)
}

func (a *c19g) ctorCall(pk *packages.Package, fd *ast.FuncDecl, call *ast.CallExpr) {
	c, info := a.c, pk.TypesInfo
	name := DeclName(fd)
	key := name + "/" + a.p.ueCtor
	// argument 0: the result of a dependent-expression builder
	arg0 := ast.Unparen(call.Args[0])
	if o := c19gObjOf(info, arg0); o != nil {
		if def := c19gSingleDef(info, fd, o); def != nil {
			arg0 = ast.Unparen(def)
		}
	}
	bcall, ok := arg0.(*ast.CallExpr)
	var b *c19gBuilder
	if ok {
		if fn := Callee(info, bcall); fn != nil {
			b = a.builders[fn.Origin()]
		}
	}
	if b == nil {
		c.Bad("C19-G2", key, call.Pos(), fmt.Sprintf("%s builds an %s from `%s`, which is not the result of a dependent-expression builder: generated columns of the target table get no recomputation after the assignments", name, a.p.ueType, types.ExprString(call.Args[0])))
		return
	}
	if len(bcall.Args) <= b.rParam {
		c.Undecided("C19-G2", key, call.Pos(), "builder call has too few arguments")
		return
	}
	s := c19gObjOf(info, bcall.Args[b.rParam])
	if s == nil {
		c.Undecided("C19-G2", key, call.Pos(), "the assignment slice handed to the builder is not a plain variable: `"+types.ExprString(bcall.Args[b.rParam])+"`")
		return
	}
	// argument 1: len(S), or len(E) with S := make([]Expression, len(E)) as S's only definition
	okNum := false
	arg1 := ast.Unparen(call.Args[1])
	if o := c19gObjOf(info, arg1); o != nil {
		if def := c19gSingleDef(info, fd, o); def != nil {
			arg1 = ast.Unparen(def)
		}
	}
	if lc, ok := arg1.(*ast.CallExpr); ok && IsBuiltinCall(info, lc, "len") && len(lc.Args) == 1 {
		x := c19gObjOf(info, lc.Args[0])
		if x != nil && x == s {
			// S must not grow between its definition and this call other than by index stores
			okNum = !c19gReassignedSlice(info, fd, s, true)
		} else if x != nil {
			if def := c19gSingleDef(info, fd, s); def != nil {
				if mk, ok := ast.Unparen(def).(*ast.CallExpr); ok && IsBuiltinCall(info, mk, "make") && len(mk.Args) == 2 {
					if l2, ok := ast.Unparen(mk.Args[1]).(*ast.CallExpr); ok && IsBuiltinCall(info, l2, "len") && len(l2.Args) == 1 && c19gObjOf(info, l2.Args[0]) == x {
						okNum = !c19gReassignedSlice(info, fd, x, false)
					}
				}
			}
		}
	}
	if !okNum {
		c.Bad("C19-G2", key, call.Pos(), fmt.Sprintf("%s: the split index `%s` is not the number of user assignments handed to the builder (len of `%s`): derived expressions would be treated as explicit ones or the other way round", name, types.ExprString(call.Args[1]), s.Name()))
		return
	}
	c.Ok("C19-G2", key, call.Pos(), fmt.Sprintf("%s(%s(… %s …), %s)", a.p.ueCtor, b.fn.Name(), s.Name(), types.ExprString(call.Args[1])))
}

// c19gReassignedSlice: the variable is assigned (as a whole) anywhere in fd besides its definition;
// with allowOneDef the single defining assignment is tolerated.
func c19gReassignedSlice(info *types.Info, fd *ast.FuncDecl, obj types.Object, allowOneDef bool) bool {
	n := 0
	ast.Inspect(fd.Body, func(m ast.Node) bool {
		if as, ok := m.(*ast.AssignStmt); ok {
			for _, l := range as.Lhs {
				if c19gObjOf(info, l) == obj {
					n++
				}
			}
		}
		return true
	})
	if allowOneDef {
		return n > 1
	}
	return n > 0
}

// ---- G2c: the accessors -----------------------------------------------------------------------

func (a *c19g) accessors() {
	c := a.c
	pk := c.P.Pkg(a.p.planRel)
	info := pk.TypesInfo
	isField := func(e ast.Expr, recv types.Object, f *types.Var) bool { return c19gFieldSel(info, e, recv, f) }
	var prefix, suffix []*ast.FuncDecl
	for _, fd := range dmlMethodDecls(pk, a.ueT) {
		fn, _ := info.Defs[fd.Name].(*types.Func)
		if fn == nil {
			continue
		}
		sig := fn.Type().(*types.Signature)
		recv := dmlRecvObj(info, fd)
		if sig.Results().Len() == 1 && a.isExprSlice(sig.Results().At(0).Type()) && sig.Params().Len() == 0 {
			kind := ""
			mixed := false
			ast.Inspect(fd.Body, func(n ast.Node) bool {
				r, ok := n.(*ast.ReturnStmt)
				if !ok || len(r.Results) != 1 {
					return true
				}
				k := "other"
				if se, ok := ast.Unparen(r.Results[0]).(*ast.SliceExpr); ok && isField(se.X, recv, a.ueExprsF) && se.Max == nil {
					lowZero := se.Low == nil
					if bl, ok := se.Low.(*ast.BasicLit); ok && bl.Value == "0" {
						lowZero = true
					}
					highEnd := se.High == nil
					if hc, ok := se.High.(*ast.CallExpr); ok && IsBuiltinCall(info, hc, "len") && len(hc.Args) == 1 && isField(hc.Args[0], recv, a.ueExprsF) {
						highEnd = true
					}
					switch {
					case lowZero && se.High != nil && isField(se.High, recv, a.ueNumF):
						k = "prefix"
					case highEnd && se.Low != nil && isField(se.Low, recv, a.ueNumF):
						k = "suffix"
					default:
						k = "slice"
					}
				}
				if kind != "" && kind != k {
					mixed = true
				}
				kind = k
				return true
			})
			if mixed {
				kind = "slice"
			}
			switch kind {
			case "prefix":
				prefix = append(prefix, fd)
			case "suffix":
				suffix = append(suffix, fd)
			case "slice":
				c.Bad("C19-G2", a.p.ueType+"."+fd.Name.Name+"/partition", fd.Pos(), fmt.Sprintf("%s.%s returns a part of %s that is neither [:%s] nor [%s:]: the explicit and derived halves no longer partition the expressions", a.p.ueType, fd.Name.Name, a.ueExprsF.Name(), a.ueNumF.Name(), a.ueNumF.Name()))
			}
		}
	}
	if len(prefix) != 1 || len(suffix) != 1 {
		c.Undecided("C19-G2", a.p.ueType+"/partition", a.ueT.Obj().Pos(), fmt.Sprintf("expected exactly one accessor returning %s[:%s] and one returning %s[%s:], found %d and %d", a.ueExprsF.Name(), a.ueNumF.Name(), a.ueExprsF.Name(), a.ueNumF.Name(), len(prefix), len(suffix)))
		return
	}
	a.accExplicit, _ = info.Defs[prefix[0].Name].(*types.Func)
	a.accDerived, _ = info.Defs[suffix[0].Name].(*types.Func)
	c.Ok("C19-G2", a.p.ueType+"."+prefix[0].Name.Name+"/partition", prefix[0].Pos(), "explicit half = "+a.ueExprsF.Name()+"[:"+a.ueNumF.Name()+"]")
	c.Ok("C19-G2", a.p.ueType+"."+suffix[0].Name.Name+"/partition", suffix[0].Pos(), "derived half = "+a.ueExprsF.Name()+"["+a.ueNumF.Name()+":]")

	// "has derived" tests: bool methods whose result is (recv != nil &&) len(exprs) > num
	for _, fd := range dmlMethodDecls(pk, a.ueT) {
		fn, _ := info.Defs[fd.Name].(*types.Func)
		if fn == nil {
			continue
		}
		sig := fn.Type().(*types.Signature)
		if sig.Results().Len() != 1 || sig.Params().Len() != 0 {
			continue
		}
		if b, ok := sig.Results().At(0).Type().Underlying().(*types.Basic); !ok || b.Info()&types.IsBoolean == 0 {
			continue
		}
		if !c19gMentionsField(info, fd.Body, nil, a.ueNumF) {
			continue
		}
		recv := dmlRecvObj(info, fd)
		okShape := len(fd.Body.List) == 1
		if okShape {
			r, isRet := fd.Body.List[0].(*ast.ReturnStmt)
			okShape = isRet && len(r.Results) == 1
			if okShape {
				sawCmp := false
				v := c19gEval(info, r.Results[0], func(x ast.Expr) (int, bool) {
					be, ok := x.(*ast.BinaryExpr)
					if !ok {
						return c19gU, false
					}
					if be.Op == token.NEQ && (isNilIdent(info, be.Y) || isNilIdent(info, be.X)) {
						return c19gT, true // receiver non-nil
					}
					isLen := func(e ast.Expr) bool {
						lc, ok := ast.Unparen(e).(*ast.CallExpr)
						return ok && IsBuiltinCall(info, lc, "len") && len(lc.Args) == 1 && isField(lc.Args[0], recv, a.ueExprsF)
					}
					isNum := func(e ast.Expr) bool { return isField(e, recv, a.ueNumF) }
					if (be.Op == token.GTR && isLen(be.X) && isNum(be.Y)) || (be.Op == token.LSS && isNum(be.X) && isLen(be.Y)) {
						sawCmp = true
						return c19gT, true
					}
					return c19gU, false
				})
				okShape = sawCmp && v == c19gT
			}
		}
		key := a.p.ueType + "." + fd.Name.Name + "/derived-nonempty-test"
		if okShape {
			a.hasDerived[fn] = true
			c.Ok("C19-G2", key, fd.Pos(), "true iff the derived half is non-empty")
		} else {
			c.Bad("C19-G2", key, fd.Pos(), fmt.Sprintf("%s.%s reads the split index but is not `len(%s) > %s` (optionally with a nil-receiver test): the executors use it to decide whether the derived half is applied", a.p.ueType, fd.Name.Name, a.ueExprsF.Name(), a.ueNumF.Name()))
		}
	}
}
