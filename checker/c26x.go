package main

import (
	"fmt"
	"go/token"
	"go/types"
	"math"
	"math/big"
	"sort"
	"strings"

	"golang.org/x/tools/go/ssa"
)

// C26-X — exact-conversion clause of "comparison is a consistent total order".
//
// A comparison of two numbers of different Go kinds has to bring them to a common kind first.
// Comparing the *converted* operands orders the *original* values only when the conversion is
// exact for every value that can reach it:
//
//	X1  a conversion to an integer type that cannot hold every value of its source type
//	    (uint64 -> int64, int64 -> uint64, float -> integer: wrap-around resp. an
//	    implementation-defined result outside the target range) is exact under the branch
//	    conditions that dominate it: lower and upper bound of the operand's interval lie inside the
//	    target type (two obligations per conversion signature, so a missing upper guard does not
//	    hide a dropped lower guard);
//	X2  every numeric operand of a mixed-kind kernel reaches at least one comparison against a
//	    non-constant value (or a call: cmp.Compare, another kernel) through value-preserving steps
//	    only. An operand whose every use passes a rounding (integer -> float beyond 2^53, float64
//	    -> float32) or truncating (float -> integer) conversion is compared as a function of the
//	    rounded value: two different numbers with the same image compare alike against everything,
//	    which no order that agrees with the numeric order can do.
//
// Domain: the *order-valued* functions of the loaded module packages - first result `int`, every
// returned value a -1/0/1 constant, a negation or another comparator's result (the C26-N3 shape),
// at least two operands. The *mixed kernels* among them are the ones with two operands (receiver
// included) of basic numeric types of different Go kinds (compareIntToUint(int64number,
// uint64number) ...): enumerated by signature, never by name.

type c26XConfig struct {
	Rels   []string
	Floors [2]int
}

// c26XExceptions: named exceptions (one symbol each); none on today's tree.
var c26XExceptions = map[string]string{}

type c26xKernel struct {
	fn    *types.Func
	sf    *ssa.Function
	name  string
	mixed bool
	opnds []*ssa.Parameter // numeric operands (mixed kernels)
}

func c26xShortType(t types.Type) string {
	return types.TypeString(t, func(*types.Package) string { return "" })
}

func c26xShortFunc(fn *types.Func) string {
	sig := fn.Type().(*types.Signature)
	if r := sig.Recv(); r != nil {
		return c26xShortType(r.Type()) + "." + fn.Name()
	}
	return fn.Name()
}

func c26xBasicKind(t types.Type) (types.BasicKind, bool) {
	b, ok := t.Underlying().(*types.Basic)
	if !ok || b.Info()&types.IsNumeric == 0 || b.Info()&types.IsComplex != 0 {
		return 0, false
	}
	return b.Kind(), true
}

// c26xKernels enumerates the order-valued functions of the given packages.
func c26xKernels(c *Ctx, rels []string) []*c26xKernel {
	inRel := map[*types.Package]bool{}
	for _, rel := range rels {
		if pk := c.P.Pkg(rel); pk != nil {
			inRel[pk.Types] = true
		}
	}
	c.P.SSA()
	n3 := &c26N3{c: c, memo: map[c26N3Key]string{}}
	var out []*c26xKernel
	for fn := range c.P.decls {
		if !inRel[fn.Pkg()] {
			continue
		}
		sig := fn.Type().(*types.Signature)
		if sig.Results().Len() < 1 || sig.Results().Len() > 2 {
			continue
		}
		if b, ok := sig.Results().At(0).Type().(*types.Basic); !ok || b.Kind() != types.Int {
			continue
		}
		if sig.Results().Len() == 2 && !IsErrorType(sig.Results().At(1).Type()) {
			continue
		}
		sf := c.P.SSAFunc(fn)
		if sf == nil || len(sf.Blocks) == 0 || len(sf.Params) < 2 {
			continue
		}
		if n3.funcBad(sf, 0, 0) != "" || !c26xReturnsOrder(sf) {
			continue
		}
		k := &c26xKernel{fn: fn, sf: sf, name: c26xShortFunc(fn)}
		kinds := map[types.BasicKind]bool{}
		for _, p := range sf.Params {
			if kd, ok := c26xBasicKind(p.Type()); ok {
				kinds[kd] = true
				k.opnds = append(k.opnds, p)
			}
		}
		k.mixed = len(kinds) >= 2
		out = append(out, k)
	}
	sort.Slice(out, func(i, j int) bool { return FuncName(out[i].fn) < FuncName(out[j].fn) })
	return out
}

// c26xReturnsOrder: some return yields a non-zero constant, a negation or a call result (a
// function that only ever returns the constant 0 is not a comparator).
func c26xReturnsOrder(sf *ssa.Function) bool {
	for _, b := range sf.Blocks {
		if len(b.Instrs) == 0 {
			continue
		}
		ret, ok := b.Instrs[len(b.Instrs)-1].(*ssa.Return)
		if !ok || len(ret.Results) == 0 {
			continue
		}
		var nonzero func(v ssa.Value, d int) bool
		nonzero = func(v ssa.Value, d int) bool {
			if d > 6 {
				return false
			}
			switch x := v.(type) {
			case *ssa.Const:
				return x.Value != nil && x.Value.ExactString() != "0"
			case *ssa.Phi:
				for _, e := range x.Edges {
					if nonzero(e, d+1) {
						return true
					}
				}
				return false
			case *ssa.UnOp:
				return x.Op == token.SUB
			case *ssa.Call, *ssa.Extract:
				return true
			}
			return false
		}
		if nonzero(ret.Results[0], 0) {
			return true
		}
	}
	return false
}

// ---- ranges -------------------------------------------------------------------------------------

var c26xTwo53 = new(big.Float).SetPrec(ivPrec).SetMantExp(big.NewFloat(1), 53)

// c26xOuterFloat rounds an interval outward to float64 values (the image of an integer interval
// under int -> float64 conversion lies between the outward roundings of its bounds).
func c26xOuterFloat(r ivInterval) ivInterval {
	out := r
	if !r.Lo.IsInf() {
		f, acc := r.Lo.Float64()
		if acc == big.Above {
			f = math.Nextafter(f, math.Inf(-1))
		}
		out.Lo = ivF(f)
	}
	if !r.Hi.IsInf() {
		f, acc := r.Hi.Float64()
		if acc == big.Below {
			f = math.Nextafter(f, math.Inf(1))
		}
		out.Hi = ivF(f)
	}
	return out
}

// c26xValueRange bounds w at block `at` for use as the *other side* of a comparison: the interval
// engine's range, except that an integer -> float conversion is rounded outward (float64(MaxInt64)
// is 2^63, above the integer interval's upper bound).
func c26xValueRange(eng *ivEngine, w ssa.Value, at *ssa.BasicBlock) (ivInterval, bool) {
	for i := 0; i < 4; i++ {
		ct, ok := w.(*ssa.ChangeType)
		if !ok {
			break
		}
		w = ct.X
	}
	if cv, ok := w.(*ssa.Convert); ok {
		_, sInt, ok1 := ivTypeRange(cv.X.Type())
		_, dInt, ok2 := ivTypeRange(cv.Type())
		if ok1 && ok2 && sInt && !dInt {
			r, ok := eng.Range(cv.X, at)
			if !ok {
				return ivInterval{}, false
			}
			return c26xOuterFloat(r), true
		}
	}
	return eng.Range(w, at)
}

// c26xRange is the interval engine's range of v at block `at`, intersected with the facts
// `v op w` of the branch edges that dominate `at` where w is a *different* value with a known
// interval (the engine itself only reads comparisons against constant expressions):
// v < w, v <= w  =>  v <= hi(w);  v > w, v >= w  =>  v >= lo(w). Dominance only, no path merging.
func c26xRange(eng *ivEngine, v ssa.Value, at *ssa.BasicBlock) (ivInterval, bool) {
	r, ok := eng.Range(v, at)
	if !ok {
		return r, false
	}
	for x := at; x != nil; x = x.Idom() {
		if len(x.Preds) != 1 {
			continue
		}
		p := x.Preds[0]
		if len(p.Instrs) == 0 || len(p.Succs) != 2 || p.Succs[0] == p.Succs[1] {
			continue
		}
		iff, ok := p.Instrs[len(p.Instrs)-1].(*ssa.If)
		if !ok {
			continue
		}
		taken := p.Succs[0] == x
		cond := iff.Cond
		if u, ok := cond.(*ssa.UnOp); ok && u.Op == token.NOT {
			cond, taken = u.X, !taken
		}
		bo, ok := cond.(*ssa.BinOp)
		if !ok {
			continue
		}
		op := bo.Op
		switch op {
		case token.LSS, token.LEQ, token.GTR, token.GEQ:
		default:
			continue
		}
		var w ssa.Value
		if eng.ivSameVar(bo.X, v) {
			w = bo.Y
		} else if eng.ivSameVar(bo.Y, v) {
			w = bo.X
			op = ivFlip(op)
		} else {
			continue
		}
		if ivIsConstExpr(w) || ivDerives(w, v, 0) {
			continue // constants are the engine's business; w must not depend on v
		}
		if !taken {
			op = ivNegate(op)
		}
		wr, ok := c26xValueRange(eng, w, p)
		if !ok {
			continue
		}
		switch op {
		case token.LSS, token.LEQ:
			r = ivMeet(r, ivInterval{ivInf(true), wr.Hi})
		case token.GTR, token.GEQ:
			r = ivMeet(r, ivInterval{wr.Lo, ivInf(false)})
		}
	}
	return r, true
}

// ---- conversion classes -------------------------------------------------------------------------

// c26xWraps: a conversion to an integer type that cannot hold every value of the source type.
func c26xWraps(cv *ssa.Convert) bool {
	dst, dInt, ok1 := ivTypeRange(cv.Type())
	src, _, ok2 := ivTypeRange(cv.X.Type())
	if !ok1 || !ok2 || !dInt {
		return false
	}
	if _, isConst := cv.X.(*ssa.Const); isConst {
		return false
	}
	return !src.Within(dst)
}

// c26xLossless: the conversion maps different operand values (of the interval known at its
// program point) to different results (it merges no two values).
func c26xLossless(eng *ivEngine, cv *ssa.Convert) bool {
	dst, dInt, ok1 := ivTypeRange(cv.Type())
	src, sInt, ok2 := ivTypeRange(cv.X.Type())
	if !ok1 || !ok2 {
		return false
	}
	r, ok := c26xRange(eng, cv.X, cv.Block())
	if !ok {
		return false
	}
	switch {
	case sInt && dInt:
		// a sign change between integer types of the same width is a bijection: no two values are merged
		// (whether the *order* survives is X1's question); a narrowing merges values unless the operand fits
		sw := new(big.Float).SetPrec(ivPrec).Sub(src.Hi, src.Lo)
		dw := new(big.Float).SetPrec(ivPrec).Sub(dst.Hi, dst.Lo)
		return sw.Cmp(dw) == 0 || r.Within(dst)
	case sInt && !dInt: // integer -> float: exact up to 2^53 (float64) / 2^24 (float32)
		lim := c26xTwo53
		if b, ok := cv.Type().Underlying().(*types.Basic); ok && b.Kind() == types.Float32 {
			lim = new(big.Float).SetPrec(ivPrec).SetMantExp(big.NewFloat(1), 24)
		}
		neg := new(big.Float).SetPrec(ivPrec).Neg(lim)
		return r.Lo.Cmp(neg) >= 0 && r.Hi.Cmp(lim) <= 0
	case !sInt && dInt: // float -> integer truncates the fraction
		return false
	default: // float -> float: widening only
		sb, _ := cv.X.Type().Underlying().(*types.Basic)
		db, _ := cv.Type().Underlying().(*types.Basic)
		return sb != nil && db != nil && !(sb.Kind() == types.Float64 && db.Kind() == types.Float32)
	}
}

// c26xOnlyConstTests: every use of v (through ChangeType) is a comparison against a constant
// expression: a sign/bit test of the converted value (`int64(u) < 0`), not an operand comparison.
func c26xOnlyConstTests(v ssa.Value, depth int) bool {
	refs := v.Referrers()
	if refs == nil || depth > 3 {
		return false
	}
	n := 0
	for _, r := range *refs {
		switch x := r.(type) {
		case *ssa.DebugRef:
			continue
		case *ssa.ChangeType:
			if !c26xOnlyConstTests(x, depth+1) {
				return false
			}
			n++
		case *ssa.BinOp:
			switch x.Op {
			case token.LSS, token.LEQ, token.GTR, token.GEQ, token.EQL, token.NEQ:
			default:
				return false
			}
			other := x.Y
			if x.Y == v {
				other = x.X
			}
			if !ivIsConstExpr(other) {
				return false
			}
			n++
		default:
			return false
		}
	}
	return n > 0
}

// c26xReachesComparison: v flows, through value-preserving steps only, into a comparison whose
// other side is not a constant expression, or into a call argument.
func c26xReachesComparison(eng *ivEngine, v ssa.Value, seen map[ssa.Value]bool) bool {
	if seen[v] || v.Referrers() == nil {
		return false
	}
	seen[v] = true
	for _, r := range *v.Referrers() {
		switch x := r.(type) {
		case *ssa.BinOp:
			switch x.Op {
			case token.LSS, token.LEQ, token.GTR, token.GEQ, token.EQL, token.NEQ:
				other := x.Y
				if x.Y == v {
					other = x.X
				}
				if !ivIsConstExpr(other) {
					return true
				}
			}
		case *ssa.Call:
			for _, a := range x.Call.Args {
				if a == v {
					return true
				}
			}
		case *ssa.ChangeType:
			if c26xReachesComparison(eng, x, seen) {
				return true
			}
		case *ssa.MakeInterface:
			if c26xReachesComparison(eng, x, seen) {
				return true
			}
		case *ssa.Phi:
			if c26xReachesComparison(eng, x, seen) {
				return true
			}
		case *ssa.Convert:
			if c26xLossless(eng, x) && c26xReachesComparison(eng, x, seen) {
				return true
			}
		}
	}
	return false
}

// ---- the rules ------------------------------------------------------------------------------------

func runC26X(c *Ctx, cfg c26XConfig) {
	c.Rule("C26-X1", "order-valued functions (int result built from -1/0/1, negations and comparator results): every conversion to an integer type that cannot hold all values of its source type (sign change, narrowing, float->integer) and whose result is compared with the other operand is exact - lower and upper bound of its operand, under the dominating branch conditions, lie inside the target type", cfg.Floors[0])
	c.Rule("C26-X2", "mixed-kind comparison kernels (two operands of different Go numeric kinds): every numeric operand reaches a comparison against a non-constant value, or a comparator call, through value-preserving steps only (not solely through integer->float rounding beyond 2^53 or float->integer truncation)", cfg.Floors[1])
	kernels := c26xKernels(c, cfg.Rels)
	nMixed := 0
	for _, k := range kernels {
		eng := newIvEngine(k.sf)
		// ---- X1 ----
		type grp struct {
			pos          token.Pos
			loBad, hiBad []string
			n            int
		}
		groups := map[string]*grp{}
		var order []string
		for _, b := range k.sf.Blocks {
			for _, in := range b.Instrs {
				cv, ok := in.(*ssa.Convert)
				if !ok || !c26xWraps(cv) {
					continue
				}
				key := fmt.Sprintf("%s/%s(%s)", k.name, c26xShortType(cv.Type()), c26xShortType(cv.X.Type()))
				if c26xOnlyConstTests(cv, 0) {
					c.Note("C26-X1", key+"/bit-test", cv.Pos(), "the converted value is only tested against constants (sign/bit test), it is not compared with the other operand")
					continue
				}
				g := groups[key]
				if g == nil {
					g = &grp{pos: cv.Pos()}
					groups[key] = g
					order = append(order, key)
				}
				g.n++
				dst, _, _ := ivTypeRange(cv.Type())
				r, ok := c26xRange(eng, cv.X, b)
				if !ok {
					g.loBad = append(g.loBad, c.P.Rel(cv.Pos())+": operand range unknown")
					g.hiBad = append(g.hiBad, c.P.Rel(cv.Pos())+": operand range unknown")
					continue
				}
				if r.Lo.Cmp(dst.Lo) < 0 {
					g.loBad = append(g.loBad, fmt.Sprintf("%s: operand can be as low as %s, below the minimum %s of %s", c.P.Rel(cv.Pos()), r.Lo.Text('g', 22), dst.Lo.Text('g', 22), c26xShortType(cv.Type())))
				}
				if r.Hi.Cmp(dst.Hi) > 0 {
					g.hiBad = append(g.hiBad, fmt.Sprintf("%s: operand can be as high as %s, above the maximum %s of %s", c.P.Rel(cv.Pos()), r.Hi.Text('g', 22), dst.Hi.Text('g', 22), c26xShortType(cv.Type())))
				}
			}
		}
		for _, key := range order {
			g := groups[key]
			for _, side := range []struct {
				s   string
				bad []string
			}{{"lo", g.loBad}, {"hi", g.hiBad}} {
				kk := key + "/" + side.s
				if len(side.bad) == 0 {
					c.Ok("C26-X1", kk, g.pos, fmt.Sprintf("%d conversion(s), operand confined on this side by the dominating branch conditions", g.n))
				} else if why, ok := c26XExceptions[kk]; ok && !c.fixtureMode {
					c.Exc("C26-X1", kk, g.pos, why)
				} else {
					c.Bad("C26-X1", kk, g.pos, fmt.Sprintf("%s: in the comparison function %s the operand is converted with %s before it is compared, but no dominating guard confines it to the target type on the %s side: for such values the conversion wraps (or is implementation-defined for floats), the converted operands are ordered differently from the original numbers and the order stops being transitive", c.P.Rel(g.pos), k.name, key[len(k.name)+1:], map[string]string{"lo": "lower", "hi": "upper"}[side.s]), side.bad...)
				}
			}
		}
		if !k.mixed {
			continue
		}
		nMixed++
		if len(order) == 0 {
			c.Ok("C26-X1", k.name+"/no-wrapping-conversion", k.fn.Pos(), "mixed-kind kernel without a value-changing integer conversion")
		}
		// ---- X2 ----
		for _, p := range k.opnds {
			kk := fmt.Sprintf("%s/operand %s", k.name, c26xShortType(p.Type()))
			v := ngTrack(p)
			ok := false
			if v == ssa.Value(p) {
				ok = c26xReachesComparison(eng, p, map[ssa.Value]bool{})
			} else if refs := v.Referrers(); refs != nil { // spilled parameter: follow its loads
				for _, r := range *refs {
					if ld, isLd := r.(*ssa.UnOp); isLd && ld.Op == token.MUL && c26xReachesComparison(eng, ld, map[ssa.Value]bool{}) {
						ok = true
					}
				}
			}
			if ok {
				c.Ok("C26-X2", kk, p.Pos(), "reaches a comparison / comparator call through value-preserving steps")
			} else if why, exc := c26XExceptions[kk]; exc && !c.fixtureMode {
				c.Exc("C26-X2", kk, p.Pos(), why)
			} else {
				c.Bad("C26-X2", kk, p.Pos(), fmt.Sprintf("%s: every use of operand %s (%s) of the mixed-kind kernel %s passes a rounding or truncating conversion (integer->float beyond 2^53, float->integer, float64->float32) before it is compared: the result is a function of the rounded value, so two different numbers with the same image (2^53 and 2^53+1 as float64; 5.0 and 5.5 as int64) compare alike against every other number and equality is no longer transitive", c.P.Rel(p.Pos()), p.Name(), c26xShortType(p.Type()), k.name))
			}
		}
	}
	names := []string{}
	for _, k := range kernels {
		if k.mixed {
			names = append(names, k.name)
		}
	}
	c.Notef("C26-X: %d order-valued functions scanned, %d mixed-kind kernels: %s", len(kernels), nMixed, strings.Join(names, ", "))
}
