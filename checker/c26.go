package main

import (
	"fmt"
	"go/constant"
	"go/token"
	"go/types"
	"strings"

	"golang.org/x/tools/go/ssa"
)

// C26 — comparison is a consistent order: NULL clause + sibling discipline.

type c26Config struct {
	Rels        []string // packages whose types are the sibling set
	IfaceRel    string   // package of the interface ("sql")
	Iface       string   // "Type"
	Method      string   // "Compare": Compare(ctx, a, b) (int, error); a and b are parameters 1 and 2
	HelperRel   string   // package of the NULL-ordering helper
	Helper      string   // "CompareNulls"
	ValueIface  string   // "ValueType" ("" = none)
	ValueMethod string   // "CompareValue"
	ValueHelper string   // "CompareNullValues"
	NilPredRel  string   // "sql"
	NilPred     string   // "Value.IsNull"
	Floors      [3]int
}

func init() {
	register(&Property{
		ID:       "C26",
		Patterns: []string{"./sql/types"},
		Explanation: "NULL clause of 'comparison is a consistent total order with NULL first'. Decided: (N1) every implementation of sql.Type.Compare / sql.ValueType.CompareValue " +
			"decides NULLs before anything else: every use of the operands a/b that is not itself a nil test lies in a block dominated by the non-NULL edge of a branch on " +
			"types.CompareNulls(a,b) / CompareNullValues(a,b) (or an explicit a == nil test), and every return that is not inside that region returns the helper's own result " +
			"(or hands a and b unchanged to a sibling Compare); (N2) the helper's table, read by abstract interpretation of its SSA over {NULL, value}^2: has-null flag true iff " +
			"an operand is NULL, sign negative for (NULL,value), positive for (value,NULL), zero for (NULL,NULL) wherever the flag makes the sign observable; (N3) every value " +
			"returned as the comparison result is one of the constants -1/0/1, a negation of such, or another comparator's result - never raw integer arithmetic (a-b can overflow and flip sign). " +
			"A violated N1/N2 entry means some Type orders NULL inconsistently with the others (or after non-NULL), N3 means antisymmetry can break at the integer boundaries. " +
			"Exact-conversion clause for numbers of different Go kinds (the JSON number order, sql/types/compare_numbers.go): the order-valued functions (int result of the N3 shape, two or more operands) are " +
			"enumerated structurally, the mixed-kind kernels among them by signature (two operands of different basic numeric kinds). (X1) every conversion to an integer type that cannot hold all values of its " +
			"source type (uint64->int64, int64->uint64, float->integer) and whose result is compared with the other operand is exact under the dominating branch conditions - lower and upper side are separate " +
			"obligations; besides comparisons against constants, a dominating comparison against another value with a known interval is used (float64(i) > f false => f >= -2^63); (X2) every numeric operand of a " +
			"mixed-kind kernel reaches a comparison against a non-constant value, or a comparator call, through value-preserving steps only: an operand that is only ever compared as its float64 rounding (beyond 2^53) " +
			"or its integer truncation makes two different numbers indistinguishable. A violated X1/X2 instance makes the number order intransitive (5 > 2^64-1 > 7 > 5). " +
			"Class-precedence clause (J1): CompareJSON dispatches on the left operand's dynamic type to one kernel per JSON value class and each kernel switches on the right operand's dynamic type; the constant " +
			"results of the cross-class arms form a precedence table, read from the type switches, which must be antisymmetric (kernel(X) on class Y and kernel(Y) on class X return opposite non-zero constants) and acyclic.",
		NotCovered: "transitivity/antisymmetry over non-NULL values beyond the exact-conversion clause (that the guards of a kernel return the right sign, that a strict comparison of rounded values is used only in its sound direction), coherence of Compare with Convert (Type.Compare converts both operands with the type's own Convert and drops the range flag), collation order (C29), float NaN ordering",
		Technique:  "SSA dominance (sibling nil-guard engine) + abstract interpretation of the NULL helper over a 4-point domain + interval engine over dominating branch conditions for the conversion clause; class-precedence table read from the type switches of the dispatched JSON comparison (go/types)",
		Run: func(c *Ctx) {
			rels := []string{}
			for _, pk := range c.P.Module {
				rels = append(rels, strings.TrimPrefix(strings.TrimPrefix(pk.PkgPath, modPath), "/"))
			}
			runC26(c, c26Config{Rels: rels, IfaceRel: "sql", Iface: "Type", Method: "Compare", HelperRel: "sql/types", Helper: "CompareNulls",
				ValueIface: "ValueType", ValueMethod: "CompareValue", ValueHelper: "CompareNullValues", NilPredRel: "sql", NilPred: "Value.IsNull",
				Floors: [3]int{74, 8, 37}})
			runC26X(c, c26XConfig{Rels: rels, Floors: [2]int{6, 8}})
			c.Rule("C26-J1", "class-precedence table of the dispatched JSON comparison (CompareJSON -> one kernel per value class, each switching on the right operand's dynamic type): for every pair of classes the two kernels return opposite non-zero constants, and the precedence relation is acyclic", 11)
			runC26J(c, c26jConfig{Rel: "sql/types", Dispatcher: "CompareJSON"})
		},
		Fixture: func(c *Ctx, fx *Prog) {
			expectFixture(c, fx, "c26: unguarded Compare, wrong null return, wrong helper sign/flag, raw subtraction",
				[]string{
					"C26-N1:testdata/c26/cmp.NoGuard.Compare/uses",
					"C26-N1:testdata/c26/cmp.NoGuard.Compare/null-return",
					"C26-N1:testdata/c26/cmp.WrongReturn.Compare/null-return",
					"C26-N1:testdata/c26/cmp.LateGuard.Compare/uses",
					"C26-N2:CompareNulls(NULL,value)/sign",
					"C26-N2:CompareNulls(value,NULL)/flag",
					"C26-N3:testdata/c26/cmp.Subtract.Compare",
				},
				func(fc *Ctx) {
					runC26(fc, c26Config{Rels: []string{"testdata/c26/cmp"}, IfaceRel: "testdata/c26/cmp", Iface: "Type", Method: "Compare",
						HelperRel: "testdata/c26/cmp", Helper: "CompareNulls"})
				})
			expectFixture(c, fx, "c26x: unguarded uint64->int64, int64->uint64 without the sign guard, float->uint64 with the 2^64 boundary, operands compared only as rounded / truncated images",
				[]string{
					"C26-X1:BadIntUint/int64(u64)/hi",
					"C26-X1:BadIntUnsigned/uint64(i64)/lo",
					"C26-X1:BadUintFloat/uint64(f64)/hi",
					"C26-X2:BadRounded/operand i64",
					"C26-X2:BadTruncated/operand f64",
				},
				func(fc *Ctx) { runC26X(fc, c26XConfig{Rels: []string{"testdata/c26/numcmp"}}) })
			expectFixture(c, fx, "c26j: the string kernel ranks strings above objects while the object kernel ranks objects above strings",
				[]string{"C26-J1:cmpObj vs cmpStr"},
				func(fc *Ctx) { runC26J(fc, c26jConfig{Rel: "testdata/c26/classes", Dispatcher: "Compare"}) })
		},
		FixturePkgs: []string{"./testdata/c26/cmp", "./testdata/c26/numcmp", "./testdata/c26/classes"},
	})
}

// c26N1Exceptions: implementations that legitimately do not order NULLs (one symbol each).
var c26N1Exceptions = map[string]string{
	"sql.FakeExtendedType.Compare/null-return":       "test double for an external engine's type system (sql/testutils.go), never the type of a column or expression in this engine; the operands are never read",
	"sql/types.nullType.Compare/null-return":         "the NULL type has NULL as its only value: (NULL,NULL) -> 0 is the whole table, the operands are never read",
	"sql/types.deferredType.Compare/null-return":     "placeholder type of an unbound bind variable, replaced by the bound value's type before any comparison; the operands are never read",
	"sql/types.SystemBoolType.Compare/uses":          "system-variable type, not a column data type of the property: NULL is rejected by Convert with an error, never ordered",
	"sql/types.SystemBoolType.Compare/null-return":   "system-variable type (see /uses)",
	"sql/types.systemDoubleType.Compare/uses":        "system-variable type, not a column data type of the property: NULL is rejected by Convert with an error, never ordered",
	"sql/types.systemDoubleType.Compare/null-return": "system-variable type (see /uses)",
	"sql/types.systemEnumType.Compare/uses":          "system-variable type, not a column data type of the property: NULL is rejected by Convert with an error, never ordered",
	"sql/types.systemEnumType.Compare/null-return":   "system-variable type (see /uses)",
	"sql/types.systemIntType.Compare/uses":           "system-variable type, not a column data type of the property: NULL is rejected by Convert with an error, never ordered",
	"sql/types.systemIntType.Compare/null-return":    "system-variable type (see /uses)",
	"sql/types.systemStringType.Compare/uses":        "system-variable type, not a column data type of the property: NULL is rejected by Convert with an error, never ordered",
	"sql/types.systemStringType.Compare/null-return": "system-variable type (see /uses)",
	"sql/types.systemUintType.Compare/uses":          "system-variable type, not a column data type of the property: NULL is rejected by Convert with an error, never ordered",
	"sql/types.systemUintType.Compare/null-return":   "system-variable type (see /uses)",
	"sql/types.systemSetType.Compare/null-return":    "system-variable type: an explicit a == nil || b == nil test returns ErrInvalidSystemVariableValue instead of an order",
}

func runC26(c *Ctx, cfg c26Config) {
	c.Rule("C26-N1", "every Type.Compare / ValueType.CompareValue implementation: each non-test use of a/b is dominated by the non-NULL edge of the NULL helper (or explicit nil tests), and each return outside that region returns the helper's result or delegates a,b unchanged to a sibling", cfg.Floors[0])
	c.Rule("C26-N2", "NULL helper table over {NULL,value}^2: flag <=> some operand NULL; where the flag is true the sign is <0 for (NULL,value), >0 for (value,NULL), 0 for (NULL,NULL)", cfg.Floors[1])
	c.Rule("C26-N3", "comparison results are -1/0/1 constants, negations, or other comparators' results (followed through same-package int-returning callees); never integer arithmetic", cfg.Floors[2])

	iface := ngLookupIface(c.P, cfg.IfaceRel, cfg.Iface)
	helperPk := c.P.Pkg(cfg.HelperRel)
	helper := LookupFunc(helperPk, cfg.Helper)
	if iface == nil || helper == nil {
		c.Undecided("C26-N1", "anchors", 0, fmt.Sprintf("interface %s.%s or helper %s.%s not found", cfg.IfaceRel, cfg.Iface, cfg.HelperRel, cfg.Helper))
		return
	}
	spec := &NilGuardSpec{Deciders: map[*types.Func]NilDecider{helper: {Flag: 0, Args: []int{0, 1}}}, NilPreds: map[*types.Func]int{}}
	var valueHelper *types.Func
	if cfg.ValueHelper != "" {
		valueHelper = LookupFunc(helperPk, cfg.ValueHelper)
		if valueHelper == nil {
			c.Undecided("C26-N1", cfg.ValueHelper, 0, "value NULL helper not found")
		} else {
			spec.Deciders[valueHelper] = NilDecider{Flag: 0, Args: []int{0, 1}}
		}
		if np := LookupFunc(c.P.Pkg(cfg.NilPredRel), cfg.NilPred); np != nil {
			spec.NilPreds[np] = 0
		} else {
			c.Undecided("C26-N1", cfg.NilPred, 0, "NULL predicate of sql.Value not found")
		}
	}

	// ---- N2: helper tables ----
	c26HelperTable(c, helper, spec)
	if valueHelper != nil {
		c26HelperTable(c, valueHelper, spec)
	}

	// ---- N1 + N3 over the sibling sets ----
	n3 := &c26N3{c: c, memo: map[c26N3Key]string{}}
	doSet := func(it *types.Interface, method string) {
		impls := ngImplementers(c.P, it, method, cfg.Rels)
		sibs := map[*types.Func]bool{}
		for _, f := range impls {
			sibs[f] = true
		}
		for _, f := range impls {
			sf := c.P.SSAFunc(f)
			key := ngFuncKey(f)
			if sf == nil || len(sf.Blocks) == 0 {
				c.Undecided("C26-N1", key+"/uses", f.Pos(), "no SSA body")
				continue
			}
			pa, pb := ngParam(sf, 1), ngParam(sf, 2)
			if pa == nil || pb == nil {
				c.Undecided("C26-N1", key+"/uses", f.Pos(), "operand parameters not found")
				continue
			}
			a, b := ngTrack(pa), ngTrack(pb)
			sp := *spec
			sp.Delegate = func(call ssa.CallInstruction, v ssa.Value) bool {
				return c26IsDelegation(call.Common(), a, b, sibs, method)
			}
			r := NilGuardAnalyze(sf, []ssa.Value{a, b}, &sp)
			// U
			if len(r.Unguarded) == 0 {
				c.Ok("C26-N1", key+"/uses", f.Pos(), fmt.Sprintf("%d guarded uses, %d delegated, %d nil tests", r.Guarded, r.Delegated, r.Tests))
			} else {
				var path []string
				for _, u := range r.Unguarded {
					path = append(path, ngDescribeUse(c.P, u))
				}
				if why, ok := c26N1Exceptions[key+"/uses"]; ok && !c.fixtureMode {
					c.Exc("C26-N1", key+"/uses", f.Pos(), why)
				} else {
					c.Bad("C26-N1", key+"/uses", f.Pos(), fmt.Sprintf("%s uses its operands before deciding NULLs: %d use(s) of a/b are not dominated by the non-NULL edge of %s(a,b) or an explicit nil test; a NULL operand reaches conversion/assertion code instead of being ordered first", key, len(r.Unguarded), cfg.Helper), path...)
				}
			}
			// R
			var badRet []string
			for _, ret := range r.NilReturns {
				if !c26NullReturnOK(ret, a, b, spec, sibs, method) {
					badRet = append(badRet, fmt.Sprintf("%s: return reachable with a NULL operand does not return the NULL helper's result", c.P.Rel(ret.Pos())))
				}
			}
			if len(badRet) == 0 {
				c.Ok("C26-N1", key+"/null-return", f.Pos(), fmt.Sprintf("%d return(s) outside the non-NULL region, all return the helper's result or delegate", len(r.NilReturns)))
			} else if why, ok := c26N1Exceptions[key+"/null-return"]; ok && !c.fixtureMode {
				c.Exc("C26-N1", key+"/null-return", f.Pos(), why)
			} else {
				c.Bad("C26-N1", key+"/null-return", f.Pos(), fmt.Sprintf("%s: a return that can be reached with a NULL operand yields something other than %s's result: NULL is ordered differently by this type than by its siblings", key, cfg.Helper), badRet...)
			}
			// N3
			n3.checkFunc(sf, key, f.Pos())
		}
	}
	doSet(iface, cfg.Method)
	if cfg.ValueIface != "" {
		if vi := ngLookupIface(c.P, cfg.IfaceRel, cfg.ValueIface); vi != nil {
			doSet(vi, cfg.ValueMethod)
		} else {
			c.Undecided("C26-N1", cfg.ValueIface, 0, "value interface not found")
		}
	}
}

// c26IsDelegation: the call passes a and b, unchanged and in order, to a sibling
// implementation of the same method (statically resolved) or to the interface method itself.
func c26IsDelegation(cc *ssa.CallCommon, a, b ssa.Value, sibs map[*types.Func]bool, method string) bool {
	tr := map[ssa.Value]bool{a: true, b: true}
	args := []ssa.Value{}
	for _, x := range cc.Args {
		args = append(args, ngCanon(x, tr))
	}
	if cc.IsInvoke() {
		if cc.Method.Name() != method {
			return false
		}
	} else {
		fn := ngStaticCallee(cc)
		if fn == nil || !sibs[fn] {
			return false
		}
		args = args[1:] // receiver
	}
	return len(args) == 3 && args[1] == a && args[2] == b
}

func c26NullReturnOK(ret *ssa.Return, a, b ssa.Value, spec *NilGuardSpec, sibs map[*types.Func]bool, method string) bool {
	if len(ret.Results) != 2 {
		return false
	}
	ex, ok := ret.Results[0].(*ssa.Extract)
	if !ok {
		return false
	}
	call, ok := ex.Tuple.(*ssa.Call)
	if !ok {
		return false
	}
	if fn := ngStaticCallee(&call.Call); fn != nil {
		if d, ok := spec.Deciders[fn]; ok {
			// res of helper(a,b): flag result is the other one
			tr := map[ssa.Value]bool{a: true, b: true}
			return ex.Index != d.Flag && len(call.Call.Args) == 2 && ngCanon(call.Call.Args[0], tr) == a && ngCanon(call.Call.Args[1], tr) == b
		}
	}
	if ex.Index == 0 && c26IsDelegation(&call.Call, a, b, sibs, method) {
		// return sibling.Compare(ctx, a, b): error must come from the same call
		if e2, ok := ret.Results[1].(*ssa.Extract); ok && e2.Tuple == ex.Tuple && e2.Index == 1 {
			return true
		}
	}
	return false
}

// ---- N2 --------------------------------------------------------------------------------

// c26FoldHelper interprets the helper's SSA with each operand abstracted to NULL / value.
func c26FoldHelper(sf *ssa.Function, null [2]bool, spec *NilGuardSpec) ([]constant.Value, error) {
	if len(sf.Params) != 2 {
		return nil, fmt.Errorf("helper must take exactly the two operands")
	}
	isNull := map[ssa.Value]bool{sf.Params[0]: null[0], sf.Params[1]: null[1]}
	env := map[ssa.Value]constant.Value{}
	var val func(v ssa.Value) (constant.Value, error)
	val = func(v ssa.Value) (constant.Value, error) {
		if k, ok := v.(*ssa.Const); ok && k.Value != nil {
			return k.Value, nil
		}
		if x, ok := env[v]; ok {
			return x, nil
		}
		return nil, fmt.Errorf("value %s (%T) is not a function of the operands' NULL-ness", v.Name(), v)
	}
	blk := sf.Blocks[0]
	var prev *ssa.BasicBlock
	for steps := 0; steps < 1000; steps++ {
		var next *ssa.BasicBlock
		for _, in := range blk.Instrs {
			switch x := in.(type) {
			case *ssa.DebugRef:
			case *ssa.Phi:
				for i, p := range blk.Preds {
					if p == prev {
						v, err := val(x.Edges[i])
						if err != nil {
							return nil, err
						}
						env[x] = v
					}
				}
			case *ssa.BinOp:
				if (x.Op == token.EQL || x.Op == token.NEQ) && (ngIsNilConst(x.Y) || ngIsNilConst(x.X)) {
					o := x.X
					if ngIsNilConst(x.X) {
						o = x.Y
					}
					n, ok := isNull[o]
					if !ok {
						return nil, fmt.Errorf("nil comparison of a non-operand")
					}
					env[x] = constant.MakeBool(n == (x.Op == token.EQL))
					continue
				}
				l, err := val(x.X)
				if err != nil {
					return nil, err
				}
				r, err := val(x.Y)
				if err != nil {
					return nil, err
				}
				switch x.Op {
				case token.EQL, token.NEQ, token.LSS, token.LEQ, token.GTR, token.GEQ:
					env[x] = constant.MakeBool(constant.Compare(l, x.Op, r))
				default:
					env[x] = constant.BinaryOp(l, x.Op, r)
				}
			case *ssa.UnOp:
				o, err := val(x.X)
				if err != nil {
					return nil, err
				}
				if x.Op == token.NOT {
					env[x] = constant.MakeBool(!constant.BoolVal(o))
				} else {
					env[x] = constant.UnaryOp(x.Op, o, 0)
				}
			case *ssa.Call:
				fn := ngStaticCallee(&x.Call)
				ai, ok := spec.NilPreds[fn]
				if fn == nil || !ok || ai >= len(x.Call.Args) {
					return nil, fmt.Errorf("call to %s is not a NULL predicate", ngCallName(&x.Call))
				}
				n, ok := isNull[x.Call.Args[ai]]
				if !ok {
					return nil, fmt.Errorf("NULL predicate applied to a non-operand")
				}
				env[x] = constant.MakeBool(n)
			case *ssa.If:
				cv, err := val(x.Cond)
				if err != nil {
					return nil, err
				}
				if constant.BoolVal(cv) {
					next = blk.Succs[0]
				} else {
					next = blk.Succs[1]
				}
			case *ssa.Jump:
				next = blk.Succs[0]
			case *ssa.Return:
				var out []constant.Value
				for _, r := range x.Results {
					v, err := val(r)
					if err != nil {
						return nil, err
					}
					out = append(out, v)
				}
				return out, nil
			default:
				return nil, fmt.Errorf("unsupported instruction %T in helper", in)
			}
		}
		if next == nil {
			return nil, fmt.Errorf("helper block without terminator")
		}
		prev, blk = blk, next
	}
	return nil, fmt.Errorf("helper does not terminate abstractly")
}

func c26HelperTable(c *Ctx, helper *types.Func, spec *NilGuardSpec) {
	sf := c.P.SSAFunc(helper)
	name := helper.Name()
	if sf == nil || len(sf.Blocks) == 0 {
		c.Undecided("C26-N2", name, helper.Pos(), "no SSA body")
		return
	}
	d := spec.Deciders[helper]
	lbl := func(n bool) string {
		if n {
			return "NULL"
		}
		return "value"
	}
	for _, combo := range [][2]bool{{true, true}, {true, false}, {false, true}, {false, false}} {
		k := fmt.Sprintf("%s(%s,%s)", name, lbl(combo[0]), lbl(combo[1]))
		out, err := c26FoldHelper(sf, combo, spec)
		if err != nil || len(out) != 2 || out[d.Flag].Kind() != constant.Bool || out[1-d.Flag].Kind() != constant.Int {
			c.Undecided("C26-N2", k, helper.Pos(), fmt.Sprintf("helper table not readable: %v", err))
			continue
		}
		flag := constant.BoolVal(out[d.Flag])
		sign := constant.Sign(out[1-d.Flag])
		wantFlag := combo[0] || combo[1]
		c.Check(flag == wantFlag, "C26-N2", k+"/flag", helper.Pos(), fmt.Sprintf("flag=%v", flag),
			fmt.Sprintf("%s reports has-null=%v, must be %v: callers return its result only when the flag is true, so with this entry a NULL operand falls through into value conversion and is not ordered before non-NULL values", k, flag, wantFlag))
		if !flag {
			// callers (checked by N1) use the sign only when the flag is true: unobservable entry
			c.Note("C26-N2", k+"/sign", helper.Pos(), fmt.Sprintf("sign %d is unobservable while the flag is false", sign))
			continue
		}
		wantSign := 0
		switch {
		case combo[0] && !combo[1]:
			wantSign = -1
		case !combo[0] && combo[1]:
			wantSign = 1
		}
		c.Check(sign == wantSign, "C26-N2", k+"/sign", helper.Pos(), fmt.Sprintf("sign=%d", sign),
			fmt.Sprintf("%s returns sign %d, must be %d: NULL sorts before every non-NULL value, so every Type.Compare built on this helper orders NULL on the wrong side", k, sign, wantSign))
	}
}

// ---- N3 --------------------------------------------------------------------------------

type c26N3Key struct {
	fn  *ssa.Function
	idx int
}

type c26N3 struct {
	c    *Ctx
	memo map[c26N3Key]string // "" ok, otherwise reason
}

func (n *c26N3) checkFunc(sf *ssa.Function, key string, pos token.Pos) {
	bad := n.funcBad(sf, 0, 0)
	if bad == "" {
		n.c.Ok("C26-N3", key, pos, "")
	} else {
		n.c.Bad("C26-N3", key, pos, key+" returns a comparison result that is computed by integer arithmetic, not a -1/0/1 constant or another comparator's result: "+bad+" (a difference of two integers can overflow and report the wrong sign)")
	}
}

func (n *c26N3) funcBad(sf *ssa.Function, idx, depth int) string {
	mk := c26N3Key{sf, idx}
	if r, ok := n.memo[mk]; ok {
		return r
	}
	n.memo[mk] = "" // recursion guard
	res := ""
	for _, b := range sf.Blocks {
		if len(b.Instrs) == 0 {
			continue
		}
		if ret, ok := b.Instrs[len(b.Instrs)-1].(*ssa.Return); ok && len(ret.Results) > idx {
			if why := n.valueBad(ret.Results[idx], depth, map[ssa.Value]bool{}); why != "" {
				res = n.c.P.Rel(ret.Pos()) + ": " + why
				break
			}
		}
	}
	n.memo[mk] = res
	return res
}

func (n *c26N3) valueBad(v ssa.Value, depth int, seen map[ssa.Value]bool) string {
	if seen[v] {
		return ""
	}
	seen[v] = true
	switch x := v.(type) {
	case *ssa.Const:
		if x.Value != nil && x.Value.Kind() == constant.Int {
			if i, ok := constant.Int64Val(x.Value); ok && i >= -1 && i <= 1 {
				return ""
			}
		}
		return "constant " + x.String() + " outside {-1,0,1}"
	case *ssa.Phi:
		for _, e := range x.Edges {
			if why := n.valueBad(e, depth, seen); why != "" {
				return why
			}
		}
		return ""
	case *ssa.UnOp:
		if x.Op == token.SUB {
			return n.valueBad(x.X, depth, seen)
		}
		return "operator " + x.Op.String()
	case *ssa.Extract:
		if call, ok := x.Tuple.(*ssa.Call); ok {
			return n.callBad(call, x.Index, depth)
		}
		return fmt.Sprintf("component of %T", x.Tuple)
	case *ssa.Call:
		return n.callBad(x, 0, depth)
	case *ssa.BinOp:
		return "integer arithmetic `" + x.Op.String() + "`"
	case *ssa.Convert:
		return n.valueBad(x.X, depth, seen)
	case *ssa.ChangeType:
		return n.valueBad(x.X, depth, seen)
	}
	return fmt.Sprintf("value of kind %T", v)
}

func (n *c26N3) callBad(x *ssa.Call, idx, depth int) string {
	{
		if f := x.Call.StaticCallee(); f != nil && len(f.Blocks) > 0 && f.Pkg != nil && depth < 4 {
			if pk := n.c.P.ByPath[f.Pkg.Pkg.Path()]; pk != nil && pk.Module != nil && pk.Module.Main || strings.HasPrefix(f.Pkg.Pkg.Path(), "vchk/") {
				if why := n.funcBad(f, idx, depth+1); why != "" {
					return "via " + f.Name() + ": " + why
				}
			}
		}
		return "" // another comparator's result
	}
}
