package main

import (
	"fmt"
	"go/constant"
	"go/token"
	"go/types"
	"os"
	"sort"
	"strings"

	"golang.org/x/tools/go/ssa"
)

// C25-K3 — coercion-choice soundness of the arithmetic operators.
//
// Before the kernel runs (intDiv, plus, minus, mult …) both evaluated operands are coerced to ONE computation type by
// convertValueToType(ctx, typ, val, isTime), which calls typ.Convert and keeps the converted value even when Convert
// reports out-of-range or an error: a negative value coerced to BIGINT UNSIGNED comes out as its two's complement, a
// DECIMAL/float coerced to an integer type comes out rounded - silently. The kernel's exactness (K1) therefore rests on
// the CHOICE of typ: an operand may be coerced
//
//	to an unsigned integer type only if ITS OWN type is known to be non-negative (types.IsUnsigned / types.IsYear), and
//	to a signed integer type only if ITS OWN type is integer-like (IsSigned/IsInteger/IsUnsigned/IsYear/IsBit/IsTime/
//	IsDateType/IsDatetimeType),
//
// on EVERY path that selects that type. `IsUnsigned(lTyp) || IsUnsigned(rTyp)` selects Uint64 on a path where nothing is
// known about one of the operands.
//
// Read from go/ssa: a coercion site is a call of convertValueToType; its val operand is traced back (parameter -> call
// sites -> results of evalLeftRight -> `recv.<Child>.Eval`) to the child expression X it was evaluated from; its typ
// operand is sliced backwards to its alternatives (phi edges, `recv.Type(ctx)` / helper methods on the same receiver whose
// returns are followed, the cached field and its writers); every alternative that is one of the integer type globals of
// sql/types comes with the set of acyclic paths that select it, each path being the conjunction of the type-predicate
// calls it crosses (with polarity). A predicate is "about X" when its argument is `recv.X.Type(ctx)` or a phi that merges
// that value with replacement constants (the normalised type of the same operand). Bool helpers of the module are
// expanded (what holds on all their true-returning paths).

type c25CoerceCfg struct {
	rel       string
	convert   string // coercion function; operands: typ = arg 1, val = arg 2
	typesPkg  string
	uintTypes []string
	intTypes  []string
	uintPreds []string
	intPreds  []string
	floatPred string
	evalM     string            // "Eval"
	typeM     string            // "Type"
	skip      map[string]string // enclosing function -> reason it is not an instance
	floor     int
}

type c25Atom struct {
	pred  string
	child string // "" = not about an operand
	pos   bool
}

func (a c25Atom) String() string {
	s := a.pred + "(type of " + a.child + ")"
	if !a.pos {
		s = "!" + s
	}
	return s
}

type c25PathSet map[c25Atom]bool

func (p c25PathSet) key() string {
	var ss []string
	for a := range p {
		ss = append(ss, a.String())
	}
	sort.Strings(ss)
	return strings.Join(ss, " && ")
}

type c25Alt struct {
	name  string // global type name ("Uint64") or "" when not a global of the types package
	desc  string
	pos   token.Pos
	paths []c25PathSet
}

type c25Coerce struct {
	c     *Ctx
	cfg   c25CoerceCfg
	pkg   *ssa.Package
	tpkg  *types.Package
	funcs []*ssa.Function
	und   []string
}

func (k *c25Coerce) recvOf(f *ssa.Function) *ssa.Parameter {
	if f.Signature.Recv() != nil && len(f.Params) > 0 {
		return f.Params[0]
	}
	return nil
}

// childField: v is a load of recv.<...>.F -> F
func (k *c25Coerce) childField(f *ssa.Function, v ssa.Value) string {
	ld, ok := v.(*ssa.UnOp)
	if !ok || ld.Op != token.MUL {
		return ""
	}
	fa, ok := ld.X.(*ssa.FieldAddr)
	if !ok {
		return ""
	}
	base := fa.X
	for {
		if inner, ok := base.(*ssa.FieldAddr); ok {
			base = inner.X
			continue
		}
		break
	}
	if base != ssa.Value(k.recvOf(f)) {
		return ""
	}
	st := fa.X.Type().Underlying().(*types.Pointer).Elem().Underlying().(*types.Struct)
	return st.Field(fa.Field).Name()
}

// family: which operand's type does the value denote ("" none, "?" mixed)
func (k *c25Coerce) family(f *ssa.Function, v ssa.Value, seen map[ssa.Value]bool) string {
	if seen[v] {
		return ""
	}
	seen[v] = true
	switch x := v.(type) {
	case *ssa.Call:
		if x.Call.IsInvoke() && x.Call.Method.Name() == k.cfg.typeM {
			return k.childField(f, x.Call.Value)
		}
	case *ssa.Phi:
		fam := ""
		for _, e := range x.Edges {
			g := k.family(f, e, seen)
			if g == "" {
				continue
			}
			if fam != "" && fam != g {
				return "?"
			}
			fam = g
		}
		return fam
	case *ssa.ChangeInterface:
		return k.family(f, x.X, seen)
	case *ssa.MakeInterface:
		return k.family(f, x.X, seen)
	}
	return ""
}

type c25Step struct {
	cond  ssa.Value
	taken bool
}

// paths: acyclic paths from the entry of f to block `to` (entered through `via` when non-nil).
func (k *c25Coerce) paths(f *ssa.Function, to, via *ssa.BasicBlock) (out [][]c25Step, ok bool) {
	onPath := map[*ssa.BasicBlock]bool{}
	var cur []c25Step
	n := 0
	ok = true
	var walk func(b, from *ssa.BasicBlock)
	walk = func(b, from *ssa.BasicBlock) {
		if !ok {
			return
		}
		if b == to && (via == nil || from == via) {
			n++
			if n > 20000 {
				ok = false
				return
			}
			out = append(out, append([]c25Step{}, cur...))
			return
		}
		if onPath[b] {
			return
		}
		onPath[b] = true
		defer func() { onPath[b] = false }()
		if len(b.Instrs) == 0 {
			return
		}
		switch x := b.Instrs[len(b.Instrs)-1].(type) {
		case *ssa.If:
			for i, s := range b.Succs {
				cur = append(cur, c25Step{x.Cond, i == 0})
				walk(s, b)
				cur = cur[:len(cur)-1]
			}
		case *ssa.Jump:
			walk(b.Succs[0], b)
		}
	}
	if to == f.Blocks[0] && via == nil {
		return [][]c25Step{nil}, true
	}
	walk(f.Blocks[0], nil)
	return out, ok
}

func (k *c25Coerce) isTypesPred(fn *ssa.Function) bool {
	if fn == nil || fn.Pkg == nil || fn.Pkg.Pkg != k.tpkg {
		return false
	}
	res := fn.Signature.Results()
	if res.Len() != 1 {
		return false
	}
	b, ok := res.At(0).Type().Underlying().(*types.Basic)
	return ok && b.Kind() == types.Bool
}

// atomsOf: the type-predicate atoms a branch condition stands for when it has the given truth value.
func (k *c25Coerce) atomsOf(f *ssa.Function, cond ssa.Value, val bool, depth int) []c25Atom {
	switch x := cond.(type) {
	case *ssa.UnOp:
		if x.Op == token.NOT {
			return k.atomsOf(f, x.X, !val, depth)
		}
	case *ssa.Call:
		callee := x.Call.StaticCallee()
		if callee == nil {
			return nil
		}
		if k.isTypesPred(callee) {
			for _, a := range x.Call.Args {
				if fam := k.family(f, a, map[ssa.Value]bool{}); fam != "" && fam != "?" {
					return []c25Atom{{callee.Name(), fam, val}}
				}
			}
			return nil
		}
		// bool helper of the analysed package: what holds on all its true-returning paths
		if val && depth < 2 && callee.Pkg == k.pkg && len(callee.Blocks) > 0 && k.isBoolFunc(callee) {
			return k.helperImplied(f, x, callee, depth)
		}
	}
	return nil
}

func (k *c25Coerce) isBoolFunc(fn *ssa.Function) bool {
	res := fn.Signature.Results()
	if res.Len() != 1 {
		return false
	}
	b, ok := res.At(0).Type().Underlying().(*types.Basic)
	return ok && b.Kind() == types.Bool
}

// helperImplied: atoms (about the caller's operands) that hold whenever helper h returns true.
func (k *c25Coerce) helperImplied(f *ssa.Function, call *ssa.Call, h *ssa.Function, depth int) []c25Atom {
	// map helper parameters to the caller's operand families
	pfam := map[ssa.Value]string{}
	for i, p := range h.Params {
		if i < len(call.Call.Args) {
			if fam := k.family(f, call.Call.Args[i], map[ssa.Value]bool{}); fam != "" && fam != "?" {
				pfam[p] = fam
			}
		}
	}
	if len(pfam) == 0 {
		return nil
	}
	atomIn := func(cond ssa.Value, val bool) []c25Atom {
		for {
			if u, ok := cond.(*ssa.UnOp); ok && u.Op == token.NOT {
				cond, val = u.X, !val
				continue
			}
			break
		}
		c, ok := cond.(*ssa.Call)
		if !ok || !k.isTypesPred(c.Call.StaticCallee()) {
			return nil
		}
		for _, a := range c.Call.Args {
			if fam, ok := pfam[a]; ok {
				return []c25Atom{{c.Call.StaticCallee().Name(), fam, val}}
			}
		}
		return nil
	}
	var common c25PathSet
	first := true
	for _, b := range h.Blocks {
		if len(b.Instrs) == 0 {
			continue
		}
		ret, ok := b.Instrs[len(b.Instrs)-1].(*ssa.Return)
		if !ok || len(ret.Results) != 1 {
			continue
		}
		type variant struct {
			via *ssa.BasicBlock
			v   ssa.Value
		}
		var vs []variant
		if phi, ok := ret.Results[0].(*ssa.Phi); ok && phi.Block() == b {
			for i, e := range phi.Edges {
				vs = append(vs, variant{b.Preds[i], e})
			}
		} else {
			vs = append(vs, variant{nil, ret.Results[0]})
		}
		for _, vr := range vs {
			if cst, ok := vr.v.(*ssa.Const); ok && cst.Value != nil && cst.Value.Kind() == constant.Bool && !constant.BoolVal(cst.Value) {
				continue // returns false on this edge
			}
			ps, ok := k.paths(h, b, vr.via)
			if !ok {
				return nil
			}
			for _, p := range ps {
				set := c25PathSet{}
				for _, st := range p {
					for _, a := range atomIn(st.cond, st.taken) {
						set[a] = true
					}
				}
				for _, a := range atomIn(vr.v, true) {
					set[a] = true
				}
				if first {
					common, first = set, false
				} else {
					for a := range common {
						if !set[a] {
							delete(common, a)
						}
					}
				}
			}
		}
	}
	var out []c25Atom
	for a := range common {
		out = append(out, a)
	}
	return out
}

func (k *c25Coerce) pathSets(f *ssa.Function, to, via *ssa.BasicBlock) ([]c25PathSet, bool) {
	ps, ok := k.paths(f, to, via)
	if !ok {
		return nil, false
	}
	seen := map[string]bool{}
	var out []c25PathSet
	for _, p := range ps {
		set := c25PathSet{}
		for _, st := range p {
			for _, a := range k.atomsOf(f, st.cond, st.taken, 0) {
				set[a] = true
			}
		}
		if key := set.key(); !seen[key] {
			seen[key] = true
			out = append(out, set)
		}
	}
	return out, true
}

func c25Product(a, b []c25PathSet) []c25PathSet {
	if len(a) == 0 {
		return b
	}
	if len(b) == 0 {
		return a
	}
	seen := map[string]bool{}
	var out []c25PathSet
	for _, x := range a {
		for _, y := range b {
			s := c25PathSet{}
			for k := range x {
				s[k] = true
			}
			for k := range y {
				s[k] = true
			}
			if key := s.key(); !seen[key] {
				seen[key] = true
				out = append(out, s)
			}
		}
	}
	return out
}

// alts: the alternatives of a type value v that is consumed in block `to` of f (entered through the phi edge from `via`
// when v is an edge value), each with the path sets - within f and the followed callees - that select it.
func (k *c25Coerce) alts(f *ssa.Function, v ssa.Value, to, via *ssa.BasicBlock, depth int, seen map[ssa.Value]bool) []c25Alt {
	if depth > 6 || seen[v] {
		return nil
	}
	seen[v] = true
	defer delete(seen, v)
	here := func() []c25PathSet {
		ps, ok := k.pathSets(f, to, via)
		if !ok {
			k.und = append(k.und, "too many paths in "+maFnName(f))
		}
		return ps
	}
	if fam := k.family(f, v, map[ssa.Value]bool{}); fam != "" {
		// the (normalised) type of an operand itself: not a type constant
		return []c25Alt{{desc: "the (normalised) type of operand " + fam + " itself", pos: v.Pos()}}
	}
	switch x := v.(type) {
	case *ssa.Phi:
		var out []c25Alt
		for i, e := range x.Edges {
			out = append(out, k.alts(f, e, x.Block(), x.Block().Preds[i], depth, seen)...)
		}
		return out
	case *ssa.UnOp:
		if x.Op == token.MUL {
			if g, ok := x.X.(*ssa.Global); ok {
				name := ""
				if g.Pkg != nil && g.Pkg.Pkg == k.tpkg {
					name = g.Name()
				}
				a := c25Alt{name: name, desc: g.RelString(nil), pos: x.Pos()}
				if contains2(k.cfg.uintTypes, name) || contains2(k.cfg.intTypes, name) {
					a.paths = here()
				}
				return []c25Alt{a}
			}
			if fa, ok := x.X.(*ssa.FieldAddr); ok && fa.X == ssa.Value(k.recvOf(f)) {
				// cached field of the receiver: alternatives of every value stored into that field by the receiver's methods
				var out []c25Alt
				for _, g := range k.funcs {
					r := k.recvOf(g)
					if r == nil || !types.Identical(r.Type(), fa.X.Type()) {
						continue
					}
					for _, b := range g.Blocks {
						for _, in := range b.Instrs {
							st, ok := in.(*ssa.Store)
							if !ok {
								continue
							}
							sfa, ok := st.Addr.(*ssa.FieldAddr)
							if !ok || sfa.X != ssa.Value(r) || sfa.Field != fa.Field {
								continue
							}
							out = append(out, k.alts(g, st.Val, b, nil, depth+1, map[ssa.Value]bool{})...)
						}
					}
				}
				if len(out) > 0 {
					return out
				}
			}
		}
	case *ssa.Call:
		callee := x.Call.StaticCallee()
		if callee != nil && callee.Pkg == k.pkg && len(callee.Blocks) > 0 && k.recvOf(callee) != nil && len(x.Call.Args) > 0 && x.Call.Args[0] == ssa.Value(k.recvOf(f)) {
			// a method on the same receiver: follow its returns
			var pre []c25PathSet
			havePre := false
			var out []c25Alt
			for _, b := range callee.Blocks {
				if len(b.Instrs) == 0 {
					continue
				}
				ret, ok := b.Instrs[len(b.Instrs)-1].(*ssa.Return)
				if !ok || len(ret.Results) != 1 {
					continue
				}
				for _, a := range k.alts(callee, ret.Results[0], b, nil, depth+1, map[ssa.Value]bool{}) {
					if a.paths != nil {
						if !havePre {
							pre, havePre = here(), true
						}
						a.paths = c25Product(pre, a.paths)
					}
					out = append(out, a)
				}
			}
			return out
		}
		return []c25Alt{{desc: "result of " + ngCallName(&x.Call), pos: x.Pos()}}
	case *ssa.MakeInterface:
		return k.alts(f, x.X, to, via, depth, seen)
	case *ssa.ChangeInterface:
		return k.alts(f, x.X, to, via, depth, seen)
	}
	return []c25Alt{{desc: fmt.Sprintf("%s (%T)", v.Name(), v), pos: v.Pos()}}
}

// operandChild traces a coerced value back to the child expression it was evaluated from.
func (k *c25Coerce) operandChild(f *ssa.Function, v ssa.Value, depth int, seen map[ssa.Value]bool) map[string]bool {
	out := map[string]bool{}
	if depth > 6 || seen[v] {
		return out
	}
	seen[v] = true
	add := func(m map[string]bool) {
		for x := range m {
			out[x] = true
		}
	}
	switch x := v.(type) {
	case *ssa.Parameter:
		idx := -1
		for i, p := range f.Params {
			if p == x {
				idx = i
			}
		}
		for _, g := range k.funcs {
			for _, b := range g.Blocks {
				for _, in := range b.Instrs {
					ci, ok := in.(ssa.CallInstruction)
					if !ok || ci.Common().StaticCallee() != f || idx >= len(ci.Common().Args) {
						continue
					}
					add(k.operandChild(g, ci.Common().Args[idx], depth+1, map[ssa.Value]bool{}))
				}
			}
		}
	case *ssa.Phi:
		for _, e := range x.Edges {
			add(k.operandChild(f, e, depth, seen))
		}
	case *ssa.Extract:
		call, ok := x.Tuple.(*ssa.Call)
		if !ok {
			break
		}
		if call.Call.IsInvoke() && call.Call.Method.Name() == k.cfg.evalM && x.Index == 0 {
			if c := k.childField(f, call.Call.Value); c != "" {
				out[c] = true
			}
			break
		}
		if callee := call.Call.StaticCallee(); callee != nil && callee.Pkg == k.pkg && len(callee.Blocks) > 0 {
			for _, b := range callee.Blocks {
				if len(b.Instrs) == 0 {
					continue
				}
				if ret, ok := b.Instrs[len(b.Instrs)-1].(*ssa.Return); ok && x.Index < len(ret.Results) {
					add(k.operandChild(callee, ret.Results[x.Index], depth+1, map[ssa.Value]bool{}))
				}
			}
		}
	case *ssa.Call:
		// a conversion of the same operand (convertValueToType / convertToDecimalValue result re-assigned): not expected as input
	case *ssa.MakeInterface:
		add(k.operandChild(f, x.X, depth, seen))
	case *ssa.ChangeInterface:
		add(k.operandChild(f, x.X, depth, seen))
	case *ssa.TypeAssert:
		add(k.operandChild(f, x.X, depth, seen))
	case *ssa.UnOp:
		// named results lowered to locals (defer): the value last stored in the same block
		if x.Op == token.MUL {
			if al, ok := x.X.(*ssa.Alloc); ok {
				if refs := al.Referrers(); refs != nil {
					for _, r := range *refs {
						if st, ok := r.(*ssa.Store); ok && st.Addr == ssa.Value(al) {
							add(k.operandChild(f, st.Val, depth, seen))
						}
					}
				}
			}
		}
	}
	return out
}

func contains2(xs []string, s string) bool {
	for _, x := range xs {
		if x == s {
			return true
		}
	}
	return false
}

func runC25Coerce(c *Ctx, cfg c25CoerceCfg) {
	c.Rule("C25-K3", "coercion-choice soundness: on every path that selects an unsigned integer computation type for an arithmetic operator, each coerced operand's own type is known non-negative (IsUnsigned/IsYear); on every path that selects a signed integer type, each coerced operand's own type is integer-like - otherwise convertValueToType silently wraps a negative value or rounds a fractional one", cfg.floor)
	pk := c.P.Pkg(cfg.rel)
	if pk == nil {
		c.Undecided("C25-K3", "package", 0, "package "+cfg.rel+" not loaded")
		return
	}
	c.P.SSA()
	sp := c.P.SSA().Package(pk.Types)
	conv := c.P.SSAFunc(LookupFunc(pk, cfg.convert))
	var tpkg *types.Package
	if tp := c.P.Pkg(cfg.typesPkg); tp != nil {
		tpkg = tp.Types
	}
	if sp == nil || conv == nil || tpkg == nil {
		c.Undecided("C25-K3", cfg.convert, 0, "coercion function or the types package not found")
		return
	}
	k := &c25Coerce{c: c, cfg: cfg, pkg: sp, tpkg: tpkg}
	for _, m := range sp.Members {
		switch x := m.(type) {
		case *ssa.Function:
			k.funcs = append(k.funcs, x)
		case *ssa.Type:
			for _, T := range []types.Type{x.Type(), types.NewPointer(x.Type())} {
				ms := c.P.SSA().MethodSets.MethodSet(T)
				for i := 0; i < ms.Len(); i++ {
					if fn := c.P.SSA().MethodValue(ms.At(i)); fn != nil && fn.Pkg == sp && fn.Synthetic == "" {
						k.funcs = append(k.funcs, fn)
					}
				}
			}
		}
	}
	seenF := map[*ssa.Function]bool{}
	var fs []*ssa.Function
	for _, f := range k.funcs {
		if !seenF[f] && len(f.Blocks) > 0 {
			seenF[f] = true
			fs = append(fs, f)
		}
	}
	sort.Slice(fs, func(i, j int) bool { return maFnName(fs[i]) < maFnName(fs[j]) })
	k.funcs = fs

	nsites := 0
	for _, f := range k.funcs {
		for _, b := range f.Blocks {
			for _, in := range b.Instrs {
				call, ok := in.(*ssa.Call)
				if !ok || call.Call.StaticCallee() != conv || len(call.Call.Args) < 3 {
					continue
				}
				nsites++
				fname := maFnName(f)
				if why, skip := cfg.skip[fname]; skip {
					c.Note("C25-K3", fname+"/site", call.Pos(), "not an instance: "+why)
					continue
				}
				kids := k.operandChild(f, call.Call.Args[2], 0, map[ssa.Value]bool{})
				var names []string
				for n := range kids {
					names = append(names, n)
				}
				sort.Strings(names)
				if len(names) != 1 {
					c.Undecided("C25-K3", fname+"/"+maShort(call.Call.Args[2]), call.Pos(), fmt.Sprintf("the coerced value could not be traced to exactly one child expression (%v)", names))
					continue
				}
				X := names[0]
				typ := call.Call.Args[1]
				// float-only site: every path to the call has a positive IsFloat(typ)
				floatOnly := false
				if ps, ok := k.paths(f, b, nil); ok && len(ps) > 0 {
					floatOnly = true
					for _, p := range ps {
						has := false
						for _, st := range p {
							cond, val := st.cond, st.taken
							if u, ok := cond.(*ssa.UnOp); ok && u.Op == token.NOT {
								cond, val = u.X, !val
							}
							if cc, ok := cond.(*ssa.Call); ok && val && cc.Call.StaticCallee() != nil && k.isTypesPred(cc.Call.StaticCallee()) && cc.Call.StaticCallee().Name() == cfg.floatPred {
								for _, a := range cc.Call.Args {
									if a == typ {
										has = true
									}
								}
							}
						}
						if !has {
							floatOnly = false
						}
					}
				}
				if floatOnly {
					c.Note("C25-K3", fname+"/"+X, call.Pos(), "the call is dominated by "+cfg.floatPred+"(typ): the operand is only ever coerced to a float type here")
					continue
				}
				alts := k.alts(f, typ, b, nil, 0, map[ssa.Value]bool{})
				if os.Getenv("VCHK_C25DUMP") != "" {
					for _, a := range alts {
						fmt.Printf("C25DUMP %s %s alt=%q desc=%s paths=%d\n", fname, X, a.name, a.desc, len(a.paths))
						for _, p := range a.paths {
							fmt.Printf("    %s\n", p.key())
						}
					}
				}
				byName := map[string][]c25Alt{}
				var order []string
				for _, a := range alts {
					if a.name == "" {
						continue
					}
					if !contains2(cfg.uintTypes, a.name) && !contains2(cfg.intTypes, a.name) {
						continue
					}
					if _, ok := byName[a.name]; !ok {
						order = append(order, a.name)
					}
					byName[a.name] = append(byName[a.name], a)
				}
				sort.Strings(order)
				var others []string
				for _, a := range alts {
					if a.name == "" {
						others = append(others, a.desc)
					}
				}
				if len(others) > 0 {
					sort.Strings(others)
					c.Note("C25-K3", fname+"/"+X+"/other", call.Pos(), "alternatives that are not type constants (not decided): "+strings.Join(others, "; "))
				}
				if len(order) == 0 {
					c.Note("C25-K3", fname+"/"+X, call.Pos(), "no integer type constant reaches typ here")
					continue
				}
				for _, name := range order {
					need, what := cfg.intPreds, "integer-like"
					if contains2(cfg.uintTypes, name) {
						need, what = cfg.uintPreds, "non-negative"
					}
					key := fmt.Sprintf("%s/%s->types.%s", fname, X, name)
					var bad []string
					npaths := 0
					pos := call.Pos()
					for _, a := range byName[name] {
						for _, p := range a.paths {
							npaths++
							okPath := false
							for at := range p {
								if at.pos && at.child == X && contains2(need, at.pred) {
									okPath = true
								}
							}
							if !okPath {
								pos = a.pos
								desc := p.key()
								if desc == "" {
									desc = "(no type predicate at all)"
								}
								bad = append(bad, fmt.Sprintf("%s: types.%s is selected on the path [%s], which does not establish that the type of %s is %s (%s)", c.P.Rel(a.pos), name, desc, X, what, strings.Join(need, "/")))
							}
						}
						if len(a.paths) == 0 {
							npaths++
							pos = a.pos
							bad = append(bad, fmt.Sprintf("%s: types.%s is selected unconditionally", c.P.Rel(a.pos), name))
						}
					}
					if len(bad) == 0 {
						c.Ok("C25-K3", key, call.Pos(), fmt.Sprintf("every one of the %d selecting path classes establishes that the type of %s is %s", npaths, X, what))
					} else {
						sort.Strings(bad)
						c.Bad("C25-K3", key, pos, fmt.Sprintf("%s coerces the value of %s to types.%s (%s keeps the result of Convert even when it is out of range) on a path where nothing says that %s's own type is %s: a negative or fractional %s value is silently wrapped/rounded before the operation", fname, X, name, cfg.convert, X, what, X), bad...)
					}
				}
			}
		}
	}
	for _, u := range k.und {
		c.Undecided("C25-K3", "paths", 0, u)
	}
	c.Notef("C25-K3: %d coercion sites (calls of %s) enumerated", nsites, cfg.convert)
	if nsites == 0 {
		c.Undecided("C25-K3", cfg.convert, conv.Pos(), "no call site of the coercion function found")
	}
}
