package main

import (
	"fmt"
	"go/ast"
	"go/token"
	"go/types"
	"strings"

	"golang.org/x/tools/go/cfg"
	"golang.org/x/tools/go/packages"
)

// C11 — no stale results from caches: the gating of every plan-level result cache.

type c11Anchors struct {
	planRel      string // package of Subquery / SubqueryAlias / CachedResults
	sqType       string // "Subquery"
	sqCache      []string // result-cache fields of the subquery expression
	sqFlag       string   // "resultsCached"
	sqCan        string   // "canCacheResults" (method name)
	preds        []c11Pred
	crType       string // "CachedResults"
	crFields     []string
	crSet        string // SetCachedResults
	crGet        string // GetCachedResults
	crFinal      string // IsFinalized
	crNew        string // NewCachedResults
	crBuilderRel string // package allowed to construct CachedResults nodes
	crBuilderFn  string // cacheSubqueryAliasesInJoins
	crSource     string // full name of the cacheability predicate the construction must depend on
	sessRel      string // package of the session
	sessType     string
	sessFields   []string
	sessIface    string
	sessMethods  []string
	nodeIface    string // full "pkgpath.Name" of the plan node interface
	writerPkgs   []string // packages (rel) that must contain a caller of each With… writer
	floors       map[string]int
	guardedBy    func(c *Ctx)
}

type c11Pred struct {
	Type, Method     string   // predicate method
	Correlated, Vol  string   // field names
	Writers          []string // methods that write the two fields
}

var c11G5Exceptions = map[string]string{
	"Subquery.Eval/cache(r)":           "publish-once: read after resultsCached was observed true under cacheMu (the gating is decided by C11-G1b); the cache is stored before the flag, under the lock",
	"Subquery.EvalMultiple/cache(r)":   "publish-once: read after resultsCached was observed true under cacheMu (C11-G1b)",
	"Subquery.HasResultRow/cache(r)":   "publish-once: read after resultsCached was observed true under cacheMu (C11-G1b)",
	"Subquery.HashMultiple/hashCache(r)": "publish-once: read after `resultsCached && hashCache != nil` was observed under cacheMu (C11-G1b)",
	"Subquery.Dispose/disposeFunc(r)":  "teardown: Dispose runs when the plan is discarded, after execution finished",
	"Subquery.Dispose/disposeFunc(w)":  "teardown: Dispose runs when the plan is discarded, after execution finished",
}

func init() {
	register(&Property{
		ID:       "C11",
		Patterns: []string{"."},
		Explanation: "Every plan-level result cache is gated, decided on CFG paths: (G1a) each store to Subquery.cache/hashCache/resultsCached lies on paths that took the true edge of canCacheResults() on the " +
			"same subquery; (G1b) each use of the cached data (cache, hashCache other than a nil test) lies on paths that took the true edge of a flag computed from resultsCached, or inside the canCacheResults " +
			"region; (G2) canCacheResults / SubqueryAlias.CanCacheResults return a pure conjunction containing `correlated.Empty()` and `!volatile`, and each of the two inputs has a writer that planbuilder calls; " +
			"(G3) what a session keeps between statements for PREPARE / the binary protocol is an AST: the element types of BaseSession.preparedQueries/cachedQueries and the results of " +
			"Session.GetPreparedQuery/GetCachedQuery… neither are nor can hold a sql.Node, so no plan-level cache outlives its statement; (G4) CachedResults nodes are built only by NewCachedResults, which only " +
			"analyzer.cacheSubqueryAliasesInJoins calls, on a branch that depends on SubqueryAlias.CanCacheResults(); (G5) guarded-by for Subquery's caches under cacheMu; (G6) CachedResults serves rows only after " +
			"IsFinalized() and is filled only at io.EOF of its child (never with a partial result), and its fields are written only by SetCachedResults. A violated clause lets a correlated/volatile subquery, " +
			"a partial result or a previous statement's plan be served as current data. " +
			"(G7) trigger body => volatile, a fold of the construction site over the finite builder state: state = the boolean fields of planbuilder.TriggerContext; the states in which a trigger body is being built are read from the function that constructs the CreateTrigger node (calls plan.NewCreateTrigger): the field it sets to true and restores in a deferred function (Active), restricted by the if-conditions enclosing that assignment (!LoadOnly); " +
			"for every `v := plan.NewSubquery(...)` in planbuilder and every such feasible state, the statements following the construction, with if-conditions over TriggerContext fields (reached through any base expression, resolved by field object) decided by the state, must assign to v the result of a method of plan.Subquery that sets `volatile` to true before v is returned. The trigger body's plan is executed once per affected row on the same Subquery object: an unmarked state serves the first firing's cached result to later firings.",
		NotCovered: "correctness of the correlated/volatile detection itself other than the trigger-body clause G7 (stored-procedure bodies, loop bodies and prepared re-execution have no builder-state marker at the Subquery construction site today - procedures are re-planned per CALL - so no obligation can be read for them; SubqueryAlias volatility comes from scope.volatile(), not from the builder state; that With* methods other than the volatile writer preserve the flag is assumed), session table snapshots of the in-memory backend (the clause that keeps them fresh — every autocommit statement, failed or not, commits and clears its implicit transaction so that the next statement starts a new one and drops the snapshots — is decided under C17: P1 for analysis-time errors, P2 + P2w for TransactionCommittingIter.Close and the fields its decision reads), HashLookup's lifetime (owned by one plan execution), information_schema caches",
		Technique:  "CFG path exploration with gate facts (true edge of a predicate) + who-constructs/who-writes over go/types + type-level containment",
		Run: func(c *Ctx) {
			pl := modPath + "/sql/plan."
			runC11(c, c11Anchors{planRel: "sql/plan", sqType: "Subquery", sqCache: []string{"cache", "hashCache"}, sqFlag: "resultsCached", sqCan: "canCacheResults",
				preds: []c11Pred{
					{Type: "Subquery", Method: "canCacheResults", Correlated: "correlated", Vol: "volatile", Writers: []string{"WithCorrelated", "WithVolatile"}},
					{Type: "SubqueryAlias", Method: "CanCacheResults", Correlated: "Correlated", Vol: "Volatile", Writers: []string{"WithCorrelated", "WithVolatile"}},
				},
				crType: "CachedResults", crFields: []string{"cachedResults", "finalized"}, crSet: "SetCachedResults", crGet: "GetCachedResults", crFinal: "IsFinalized", crNew: "NewCachedResults",
				crBuilderRel: "sql/analyzer", crBuilderFn: "cacheSubqueryAliasesInJoins", crSource: pl + "SubqueryAlias.CanCacheResults",
				sessRel: "sql", sessType: "BaseSession", sessFields: []string{"preparedQueries", "cachedQueries"}, sessIface: "Session", sessMethods: []string{"PrepareQuery", "GetPreparedQuery", "CacheQuery", "GetCachedQuery"},
				nodeIface: modPath + "/sql.Node", writerPkgs: []string{"sql/planbuilder"},
				floors: map[string]int{"C11-G1a": 7, "C11-G1b": 6, "C11-G2": 6, "C11-G3": 6, "C11-G4": 3, "C11-G5": 16, "C11-G5x": 4, "C11-G6": 5},
				guardedBy: func(c *Ctx) {
					r := gbShared(c)
					for _, e := range gbTable {
						if e.Prop == "C11" {
							gbReportEntry(c, r, e, "C11-G5", "C11-G5c", "C11-G5x", c11G5Exceptions, nil)
						}
					}
				}})
			runC11G7(c, c11g7Repo)
		},
		Fixture: func(c *Ctx, fx *Prog) {
			fa := func(rel string) c11Anchors {
				pp := "vchk/" + rel + "."
				return c11Anchors{planRel: rel, sqType: "Subquery", sqCache: []string{"cache"}, sqFlag: "resultsCached", sqCan: "canCache",
					preds:  []c11Pred{{Type: "Subquery", Method: "canCache", Correlated: "correlated", Vol: "volatile", Writers: []string{"WithCorrelated", "WithVolatile"}}},
					crType: "CachedResults", crFields: []string{"rows", "finalized"}, crSet: "Set", crGet: "Get", crFinal: "IsFinalized", crNew: "NewCachedResults",
					crBuilderRel: rel, crBuilderFn: "cacheInJoins", crSource: pp + "Alias.CanCacheResults",
					sessRel: rel, sessType: "BaseSession", sessFields: []string{"prepared"}, sessIface: "Session", sessMethods: []string{"GetPrepared"},
					nodeIface: pp + "Node", writerPkgs: []string{rel}, floors: map[string]int{}}
			}
			expectFixture(c, fx, "c11 good: gated caches accepted", nil, func(fc *Ctx) { runC11(fc, fa("testdata/c11/good")) })
			expectFixture(c, fx, "c11 bad: ungated store, ungated read, predicate without the volatile test, session caching a plan, foreign constructor, cached rows served before finalized, partial result saved",
				[]string{
					"C11-G1a:Subquery.Eval/cache=",
					"C11-G1a:Subquery.Eval/resultsCached=",
					"C11-G1b:Subquery.Peek/cache",
					"C11-G2:Subquery.canCache/conjunction",
					"C11-G3:BaseSession.prepared",
					"C11-G3:Session.GetPrepared",
					"C11-G4:other/NewCachedResults",
					"C11-G4:cacheInJoins/depends-on-cacheability",
					"C11-G6:build2/Get",
					"C11-G6:iter.Next/Set",
					"C11-G6:CachedResults.Reset/finalized=",
				},
				func(fc *Ctx) { runC11(fc, fa("testdata/c11/bad")) })
		},
		FixturePkgs: []string{"./testdata/c11/good", "./testdata/c11/bad"},
	})
}

type c11State struct {
	c    *Ctx
	a    c11Anchors
	pk   *packages.Package
	info *types.Info
}

// c11Ungated returns a path from the entry of body to the node containing target on which no
// CFG edge satisfied gate (gate is asked about the condition that ends a block and whether the
// edge is its true edge); nil if every path is gated.
func c11Ungated(c *Ctx, info *types.Info, body *ast.BlockStmt, target ast.Node, gate func(cond ast.Expr, isTrue bool) bool) []ast.Node {
	g := c.P.CFG(info, body)
	return pathExplore(g, EntryPoint(g), false,
		func(n ast.Node, gated bool) (bool, pathAct) {
			if c48Contains(n, target) {
				if !gated {
					return gated, pathBad
				}
				return gated, pathStop
			}
			return gated, pathGo
		},
		func(b *cfg.Block, succ int, gated bool) (bool, bool) {
			if gated || len(b.Nodes) == 0 || len(b.Succs) != 2 {
				return gated, true
			}
			if cond, ok := b.Nodes[len(b.Nodes)-1].(ast.Expr); ok && gate(ast.Unparen(cond), succ == 0) {
				return true, true
			}
			return gated, true
		}, nil)
}

// unitOf returns the innermost function unit (declaration body or literal body) containing n.
func c11UnitOf(fd *ast.FuncDecl, n ast.Node) *ast.BlockStmt {
	body := fd.Body
	ast.Inspect(fd.Body, func(m ast.Node) bool {
		if l, ok := m.(*ast.FuncLit); ok && c48Contains(l.Body, n) {
			body = l.Body
		}
		return true
	})
	return body
}

func runC11(c *Ctx, a c11Anchors) {
	fl := func(id string) int { return a.floors[id] }
	c.Rule("C11-G1a", "every store to the subquery result caches is on paths gated by the true edge of canCacheResults()", fl("C11-G1a"))
	c.Rule("C11-G1b", "every use of cached subquery data is on paths gated by a flag computed from resultsCached (or inside the canCacheResults region)", fl("C11-G1b"))
	c.Rule("C11-G2", "cacheability predicates are pure conjunctions containing correlated.Empty() and !volatile; both inputs have writers that planbuilder calls", fl("C11-G2"))
	c.Rule("C11-G3", "session-level prepared/cached statement stores hold ASTs: their element/result types are not and cannot hold a plan node", fl("C11-G3"))
	c.Rule("C11-G4", "CachedResults nodes are built only via NewCachedResults, called only by the analyzer rule, on a branch that depends on SubqueryAlias.CanCacheResults()", fl("C11-G4"))
	c.Rule("C11-G6", "CachedResults: rows served only after IsFinalized(); filled only at io.EOF of the child; fields written only by SetCachedResults", fl("C11-G6"))
	if a.guardedBy != nil {
		c.Rule("C11-G5", "guarded-by: Subquery.cache/hashCache/resultsCached/disposeFunc under cacheMu", fl("C11-G5"))
		c.Rule("C11-G5c", "call sites of caller-holds helpers of Subquery hold cacheMu", 0)
		c.Rule("C11-G5x", "every function that takes cacheMu releases it on every exit", fl("C11-G5x"))
	}
	pk := c.P.Pkg(a.planRel)
	if pk == nil {
		c.Undecided("C11-G1a", "package", 0, "package "+a.planRel+" not loaded")
		return
	}
	s := &c11State{c: c, a: a, pk: pk, info: pk.TypesInfo}
	s.subqueryGates()
	s.predicates()
	s.sessionTypes()
	s.cachedResults()
	if a.guardedBy != nil {
		a.guardedBy(c)
	}
}

// ---- G1 -----------------------------------------------------------------------------------

func (s *c11State) subqueryGates() {
	c, info := s.c, s.info
	sqTN, _ := s.pk.Types.Scope().Lookup(s.a.sqType).(*types.TypeName)
	if sqTN == nil {
		c.Undecided("C11-G1a", s.a.sqType, 0, "type not found")
		return
	}
	fields := map[*types.Var]string{}
	for _, f := range append(append([]string{}, s.a.sqCache...), s.a.sqFlag) {
		if fv := c47FieldVar(sqTN, f); fv != nil {
			fields[fv] = f
		} else {
			c.Undecided("C11-G1a", s.a.sqType+"."+f, sqTN.Pos(), "cache field not found")
		}
	}
	flagVar := c47FieldVar(sqTN, s.a.sqFlag)
	canGate := func(cond ast.Expr, isTrue bool) bool {
		call, ok := cond.(*ast.CallExpr)
		if !ok || !isTrue {
			return false
		}
		fn := Callee(info, call)
		return fn != nil && fn.Name() == s.a.sqCan && c47NamedOf(fn.Type().(*types.Signature).Recv().Type()) == sqTN
	}
	pkgs := c.P.Module
	if c.fixtureMode {
		pkgs = []*packages.Package{s.pk}
	}
	for _, upk := range pkgs {
		uinfo := upk.TypesInfo
		for _, file := range upk.Syntax {
			for _, d := range file.Decls {
				fd, ok := d.(*ast.FuncDecl)
				if !ok || fd.Body == nil {
					continue
				}
				name := DeclName(fd)
				if upk != s.pk {
					name = strings.TrimPrefix(upk.PkgPath, modPath+"/") + "." + name
				}
				flagGate := func(cond ast.Expr, isTrue bool) bool {
					id, ok := cond.(*ast.Ident)
					if !ok || !isTrue {
						return false
					}
					def := c47UniqueDef(uinfo, fd.Body, uinfo.Uses[id])
					if def == nil {
						return false
					}
					has, pure := false, true
					ast.Inspect(def, func(m ast.Node) bool {
						switch x := m.(type) {
						case *ast.SelectorExpr:
							if c47SelField(uinfo, x) == flagVar {
								has = true
							}
						case *ast.BinaryExpr:
							if x.Op == token.LOR {
								pure = false
							}
						case *ast.UnaryExpr:
							if x.Op == token.NOT {
								pure = false
							}
						}
						return true
					})
					return has && pure
				}
				c47Walk(fd.Body, func(n ast.Node, stack []ast.Node) {
					sel, ok := n.(*ast.SelectorExpr)
					if !ok {
						return
					}
					fv := c47SelField(uinfo, sel)
					fname, tracked := fields[fv]
					if !tracked || gbFreshBase(uinfo, fd, ast.Unparen(sel.X)) {
						return
					}
					body := c11UnitOf(fd, sel)
					if gbIsWrite(uinfo, sel, stack) {
						key := name + "/" + fname + "="
						if p := c11Ungated(c, uinfo, body, sel, func(cond ast.Expr, t bool) bool { return upk == s.pk && canGate(cond, t) }); p != nil {
							c.Bad("C11-G1a", key, sel.Pos(), fmt.Sprintf("%s.%s is stored on a path that did not pass `if %s()`: results of a correlated or volatile subquery would be reused for other rows", s.a.sqType, fname, s.a.sqCan), c.P.DescribePath(p)...)
						} else {
							c.Ok("C11-G1a", key, sel.Pos(), "store gated by "+s.a.sqCan+"()")
						}
						return
					}
					if fv == flagVar {
						return // reading the flag is how the gate is computed
					}
					// nil tests are not uses of the data
					if be, ok := c47Parent(stack, 0).(*ast.BinaryExpr); ok && (be.Op == token.EQL || be.Op == token.NEQ) && (isNilIdent(uinfo, be.X) || isNilIdent(uinfo, be.Y)) {
						return
					}
					key := name + "/" + fname
					gate := func(cond ast.Expr, t bool) bool { return flagGate(cond, t) || (upk == s.pk && canGate(cond, t)) }
					if p := c11Ungated(c, uinfo, body, sel, gate); p != nil {
						c.Bad("C11-G1b", key, sel.Pos(), fmt.Sprintf("%s.%s is used on a path that tested neither %s nor %s(): an unset or foreign row's cache is served as the result", s.a.sqType, fname, s.a.sqFlag, s.a.sqCan), c.P.DescribePath(p)...)
					} else {
						c.Ok("C11-G1b", key, sel.Pos(), "use gated by the cached flag")
					}
				})
			}
		}
	}
}

// ---- G2 -----------------------------------------------------------------------------------

func (s *c11State) predicates() {
	c, info := s.c, s.info
	for _, p := range s.a.preds {
		fn := LookupFunc(s.pk, p.Type+"."+p.Method)
		fd := c.P.Decl(fn)
		key := p.Type + "." + p.Method + "/conjunction"
		tn, _ := s.pk.Types.Scope().Lookup(p.Type).(*types.TypeName)
		if fd == nil || fd.Body == nil || tn == nil {
			c.Undecided("C11-G2", key, 0, "predicate "+p.Type+"."+p.Method+" not found")
			continue
		}
		corr, vol := c47FieldVar(tn, p.Correlated), c47FieldVar(tn, p.Vol)
		if corr == nil || vol == nil {
			c.Undecided("C11-G2", key, fd.Pos(), "correlated/volatile fields not found")
			continue
		}
		// single `return <expr>`
		var ret *ast.ReturnStmt
		nret := 0
		inspectNoLit(fd.Body, func(n ast.Node) bool {
			if r, ok := n.(*ast.ReturnStmt); ok {
				ret = r
				nret++
			}
			return true
		})
		msg := ""
		if nret != 1 || len(ret.Results) != 1 {
			msg = "the predicate is not a single `return <conjunction>`"
		} else {
			var leaves []ast.Expr
			pure := true
			var split func(e ast.Expr)
			split = func(e ast.Expr) {
				e = ast.Unparen(e)
				if be, ok := e.(*ast.BinaryExpr); ok && be.Op == token.LAND {
					split(be.X)
					split(be.Y)
					return
				}
				if be, ok := e.(*ast.BinaryExpr); ok && be.Op == token.LOR {
					pure = false
				}
				leaves = append(leaves, e)
			}
			split(ret.Results[0])
			hasCorr, hasVol := false, false
			for _, l := range leaves {
				if call, ok := l.(*ast.CallExpr); ok {
					if sel, ok := ast.Unparen(call.Fun).(*ast.SelectorExpr); ok && sel.Sel.Name == "Empty" && c47SelField(info, sel.X) == corr {
						hasCorr = true
					}
				}
				if u, ok := l.(*ast.UnaryExpr); ok && u.Op == token.NOT && c47SelField(info, u.X) == vol {
					hasVol = true
				}
			}
			switch {
			case !pure:
				msg = "the predicate contains `||`: one satisfied alternative enables caching although the other test fails"
			case !hasCorr:
				msg = "the predicate does not require `" + p.Correlated + ".Empty()`: results of a correlated subquery would be cached across outer rows"
			case !hasVol:
				msg = "the predicate does not require `!" + p.Vol + "`: results of a non-deterministic subquery would be cached"
			}
		}
		if msg != "" {
			c.Bad("C11-G2", key, fd.Pos(), p.Type+"."+p.Method+": "+msg)
		} else {
			c.Ok("C11-G2", key, fd.Pos(), "correlated.Empty() && !volatile")
		}
		// writers
		for i, w := range p.Writers {
			wf := LookupFunc(s.pk, p.Type+"."+w)
			wd := c.P.Decl(wf)
			wkey := p.Type + "." + w + "/writer"
			field := corr
			if i == 1 {
				field = vol
			}
			if wd == nil || wd.Body == nil {
				c.Bad("C11-G2", wkey, fd.Pos(), "no "+p.Type+"."+w+": the "+field.Name()+" input of the cacheability predicate is never set, so everything looks cacheable")
				continue
			}
			writes := false
			c47Walk(wd.Body, func(n ast.Node, stack []ast.Node) {
				if sel, ok := n.(*ast.SelectorExpr); ok && c47SelField(info, sel) == field && gbIsWrite(info, sel, stack) {
					writes = true
				}
			})
			calls := 0
			for _, rel := range s.a.writerPkgs {
				if wp := c.P.Pkg(rel); wp != nil {
					for _, f := range wp.Syntax {
						ast.Inspect(f, func(n ast.Node) bool {
							if call, ok := n.(*ast.CallExpr); ok {
								if cf := Callee(wp.TypesInfo, call); cf != nil && cf.Origin() == wf {
									calls++
								}
							}
							return true
						})
					}
				}
			}
			switch {
			case !writes:
				c.Bad("C11-G2", wkey, wd.Pos(), p.Type+"."+w+" does not store "+field.Name())
			case calls == 0:
				c.Bad("C11-G2", wkey, wd.Pos(), fmt.Sprintf("%s.%s is never called from %v: the %s input is never set", p.Type, w, s.a.writerPkgs, field.Name()))
			default:
				c.Ok("C11-G2", wkey, wd.Pos(), fmt.Sprintf("stores %s; %d call(s) from %v", field.Name(), calls, s.a.writerPkgs))
			}
		}
	}
}

// ---- G3 -----------------------------------------------------------------------------------

// c11HoldsNode: can a value of type t be or (shallowly) contain a plan node?
func (s *c11State) holdsNode(t types.Type, node *types.Interface, impls []types.Type, depth int) string {
	if depth > 4 {
		return ""
	}
	switch u := t.Underlying().(type) {
	case *types.Interface:
		if u.NumMethods() == 0 {
			return "interface{} (can hold a plan node)"
		}
		if types.Identical(u, node) {
			return "the plan node interface"
		}
		for _, it := range impls {
			if types.Implements(it, u) {
				return fmt.Sprintf("interface %s, implemented by plan node %s", types.TypeString(t, nil), types.TypeString(it, nil))
			}
		}
		return ""
	case *types.Pointer:
		if types.Implements(t, node) {
			return "plan node " + types.TypeString(t, nil)
		}
		return s.holdsNode(u.Elem(), node, impls, depth+1)
	case *types.Slice:
		return s.holdsNode(u.Elem(), node, impls, depth+1)
	case *types.Array:
		return s.holdsNode(u.Elem(), node, impls, depth+1)
	case *types.Map:
		if r := s.holdsNode(u.Key(), node, impls, depth+1); r != "" {
			return r
		}
		return s.holdsNode(u.Elem(), node, impls, depth+1)
	case *types.Struct:
		if types.Implements(t, node) {
			return "plan node " + types.TypeString(t, nil)
		}
		for i := 0; i < u.NumFields(); i++ {
			if r := s.holdsNode(u.Field(i).Type(), node, impls, depth+1); r != "" {
				return r
			}
		}
	}
	return ""
}

func (s *c11State) sessionTypes() {
	c := s.c
	spk := c.P.Pkg(s.a.sessRel)
	i := strings.LastIndex(s.a.nodeIface, ".")
	var nodeTN *types.TypeName
	for _, pk := range append(append([]*packages.Package{}, c.P.Module...), s.pk) {
		if pk.PkgPath == s.a.nodeIface[:i] {
			nodeTN, _ = pk.Types.Scope().Lookup(s.a.nodeIface[i+1:]).(*types.TypeName)
		}
	}
	if spk == nil || nodeTN == nil {
		c.Undecided("C11-G3", "anchors", 0, "session package or plan node interface not found")
		return
	}
	node, _ := nodeTN.Type().Underlying().(*types.Interface)
	// named module types implementing the node interface
	var impls []types.Type
	pkgs := c.P.Module
	if c.fixtureMode {
		pkgs = []*packages.Package{s.pk}
	}
	for _, pk := range pkgs {
		sc := pk.Types.Scope()
		for _, nm := range sc.Names() {
			if tn, ok := sc.Lookup(nm).(*types.TypeName); ok && !tn.IsAlias() {
				if _, isIface := tn.Type().Underlying().(*types.Interface); isIface {
					continue
				}
				if n, ok := tn.Type().(*types.Named); ok && n.TypeParams().Len() > 0 {
					continue
				}
				if types.Implements(types.NewPointer(tn.Type()), node) {
					impls = append(impls, types.NewPointer(tn.Type()))
				} else if types.Implements(tn.Type(), node) {
					impls = append(impls, tn.Type())
				}
			}
		}
	}
	if len(impls) < 3 && !c.fixtureMode {
		c.Undecided("C11-G3", "node-implementations", nodeTN.Pos(), "fewer than 3 plan node implementations loaded: the containment test would be vacuous")
		return
	}
	stn, _ := spk.Types.Scope().Lookup(s.a.sessType).(*types.TypeName)
	for _, f := range s.a.sessFields {
		fv := c47FieldVar(stn, f)
		key := s.a.sessType + "." + f
		if fv == nil {
			c.Undecided("C11-G3", key, 0, "session field not found")
			continue
		}
		if r := s.holdsNode(fv.Type(), node, impls, 0); r != "" {
			c.Bad("C11-G3", key, fv.Pos(), fmt.Sprintf("the session keeps %s between statements in %s (type %s): an analysed plan with its result caches would outlive its statement", r, f, types.TypeString(fv.Type(), nil)))
		} else {
			c.Ok("C11-G3", key, fv.Pos(), "holds "+types.TypeString(fv.Type(), nil)+": no plan node")
		}
	}
	itn, _ := spk.Types.Scope().Lookup(s.a.sessIface).(*types.TypeName)
	for _, m := range s.a.sessMethods {
		key := s.a.sessIface + "." + m
		if itn == nil {
			c.Undecided("C11-G3", key, 0, "session interface not found")
			continue
		}
		obj, _, _ := types.LookupFieldOrMethod(itn.Type(), true, spk.Types, m)
		fn, _ := obj.(*types.Func)
		if fn == nil {
			c.Undecided("C11-G3", key, itn.Pos(), "method not found on the session interface")
			continue
		}
		bad := ""
		for _, tup := range []*types.Tuple{fn.Type().(*types.Signature).Params(), fn.Type().(*types.Signature).Results()} {
			for i := 0; i < tup.Len(); i++ {
				if r := s.holdsNode(tup.At(i).Type(), node, impls, 0); r != "" {
					bad = r
				}
			}
		}
		if bad != "" {
			c.Bad("C11-G3", key, fn.Pos(), "the session stores / hands back "+bad+" across statements")
		} else {
			c.Ok("C11-G3", key, fn.Pos(), "returns an AST, not a plan")
		}
	}
}

// ---- G4 / G6 ---------------------------------------------------------------------------------

func (s *c11State) cachedResults() {
	c := s.c
	crTN, _ := s.pk.Types.Scope().Lookup(s.a.crType).(*types.TypeName)
	if crTN == nil {
		c.Undecided("C11-G4", s.a.crType, 0, "type not found")
		return
	}
	newFn := LookupFunc(s.pk, s.a.crNew)
	setFn := LookupFunc(s.pk, s.a.crType+"."+s.a.crSet)
	getFn := LookupFunc(s.pk, s.a.crType+"."+s.a.crGet)
	finFn := LookupFunc(s.pk, s.a.crType+"."+s.a.crFinal)
	if newFn == nil || setFn == nil || getFn == nil || finFn == nil {
		c.Undecided("C11-G4", s.a.crType+"/api", crTN.Pos(), "NewCachedResults/SetCachedResults/GetCachedResults/IsFinalized not all found")
		return
	}
	crFields := map[*types.Var]bool{}
	for _, f := range s.a.crFields {
		if fv := c47FieldVar(crTN, f); fv != nil {
			crFields[fv] = true
		} else {
			c.Undecided("C11-G6", s.a.crType+"."+f, crTN.Pos(), "field not found")
		}
	}
	pkgs := c.P.Module
	if c.fixtureMode {
		pkgs = []*packages.Package{s.pk}
	}
	builderPk := c.P.Pkg(s.a.crBuilderRel)
	type callSite struct {
		pk   *packages.Package
		fd   *ast.FuncDecl
		call *ast.CallExpr
	}
	callers := map[*types.Func][]callSite{}
	for _, pk := range pkgs {
		info := pk.TypesInfo
		for _, file := range pk.Syntax {
			for _, d := range file.Decls {
				fd, ok := d.(*ast.FuncDecl)
				if !ok || fd.Body == nil {
					continue
				}
				name := DeclName(fd)
				if pk != s.pk && !c.fixtureMode {
					name = strings.TrimPrefix(pk.PkgPath, modPath+"/") + "." + name
				}
				fobj, _ := info.Defs[fd.Name].(*types.Func)
				c47Walk(fd.Body, func(n ast.Node, stack []ast.Node) {
					switch x := n.(type) {
					case *ast.CompositeLit:
						if c47NamedOf(info.TypeOf(x)) == crTN {
							if fobj == newFn {
								c.Ok("C11-G4", name+"/"+s.a.crType+"{}", x.Pos(), "constructor")
							} else {
								c.Bad("C11-G4", name+"/"+s.a.crType+"{}", x.Pos(), s.a.crType+" literal outside "+s.a.crNew+": a caching node can be placed over a non-cacheable source")
							}
						}
					case *ast.SelectorExpr:
						if fv := c47SelField(info, x); crFields[fv] && gbIsWrite(info, x, stack) && !gbFreshBase(info, fd, ast.Unparen(x.X)) {
							if fobj == setFn {
								c.Ok("C11-G6", name+"/"+fv.Name()+"=", x.Pos(), "written by "+s.a.crSet)
							} else {
								c.Bad("C11-G6", name+"/"+fv.Name()+"=", x.Pos(), s.a.crType+"."+fv.Name()+" is written outside "+s.a.crSet+": the finalized flag and the rows can disagree")
							}
						}
					case *ast.CallExpr:
						fn := Callee(info, x)
						if fn == nil {
							return
						}
						fn = fn.Origin()
						callers[fn] = append(callers[fn], callSite{pk, fd, x})
						switch fn {
						case newFn:
							key := name + "/" + s.a.crNew
							if pk != builderPk || fd.Name.Name != s.a.crBuilderFn {
								c.Bad("C11-G4", key, x.Pos(), s.a.crNew+" is called outside "+s.a.crBuilderRel+"."+s.a.crBuilderFn+": the cacheability of the source is not established there")
								return
							}
							c.Ok("C11-G4", key, x.Pos(), "the analyzer rule")
							s.dependsOnCacheability(pk, fd, x, name)
						case getFn:
							key := name + "/" + s.a.crGet
							gate := func(cond ast.Expr, t bool) bool {
								call, ok := cond.(*ast.CallExpr)
								if !ok || !t {
									return false
								}
								cf := Callee(info, call)
								return cf != nil && cf.Origin() == finFn
							}
							if p := c11Ungated(c, info, c11UnitOf(fd, x), x, gate); p != nil {
								c.Bad("C11-G6", key, x.Pos(), "cached rows are read on a path that did not test "+s.a.crFinal+"(): an empty or partial cache is served as the full result", c.P.DescribePath(p)...)
							} else {
								c.Ok("C11-G6", key, x.Pos(), "read gated by "+s.a.crFinal+"()")
							}
						}
					}
				})
			}
		}
	}
	// SetCachedResults only at io.EOF (directly, or through a helper all of whose call sites are)
	eofGate := func(info *types.Info) func(cond ast.Expr, t bool) bool {
		isEOF := func(e ast.Expr) bool {
			sel, ok := ast.Unparen(e).(*ast.SelectorExpr)
			if !ok {
				return false
			}
			v, ok := info.Uses[sel.Sel].(*types.Var)
			return ok && v.Pkg() != nil && v.Pkg().Path() == "io" && v.Name() == "EOF"
		}
		return func(cond ast.Expr, t bool) bool {
			if be, ok := cond.(*ast.BinaryExpr); ok && be.Op == token.EQL && t {
				return isEOF(be.X) || isEOF(be.Y)
			}
			if call, ok := cond.(*ast.CallExpr); ok && t && len(call.Args) == 2 {
				if fn := Callee(info, call); fn != nil && FullName(fn) == "errors.Is" {
					return isEOF(call.Args[1])
				}
			}
			return false
		}
	}
	var checkSet func(fn *types.Func, depth int)
	seen := map[*types.Func]bool{}
	checkSet = func(fn *types.Func, depth int) {
		if seen[fn] {
			return
		}
		seen[fn] = true
		for _, cs := range callers[fn] {
			name := DeclName(cs.fd)
			if cs.pk != s.pk && !c.fixtureMode {
				name = strings.TrimPrefix(cs.pk.PkgPath, modPath+"/") + "." + name
			}
			key := name + "/" + s.a.crSet
			if fn != setFn {
				key = name + "/" + fn.Name() + "→" + s.a.crSet
			}
			p := c11Ungated(c, cs.pk.TypesInfo, c11UnitOf(cs.fd, cs.call), cs.call, eofGate(cs.pk.TypesInfo))
			if p == nil {
				c.Ok("C11-G6", key, cs.call.Pos(), "reached only after the child iterator returned io.EOF")
				continue
			}
			// not gated here: acceptable only if this function is an unexported helper whose every caller is gated
			cfn, _ := cs.pk.TypesInfo.Defs[cs.fd.Name].(*types.Func)
			if cfn != nil && !cfn.Exported() && len(callers[cfn]) > 0 && depth < 2 {
				c.Ok("C11-G6", key, cs.call.Pos(), "helper: decided at its call sites")
				checkSet(cfn, depth+1)
				continue
			}
			c.Bad("C11-G6", key, cs.call.Pos(), "the cache is filled on a path that did not see io.EOF from the child iterator: a partial (or failed) result would be served as the full result later", c.P.DescribePath(p)...)
		}
	}
	checkSet(setFn, 0)
}

// dependsOnCacheability: the NewCachedResults call is inside `if G` where G's definition is a
// conjunction with a leaf whose every assignment is a conjunction containing the cacheability call.
func (s *c11State) dependsOnCacheability(pk *packages.Package, fd *ast.FuncDecl, call *ast.CallExpr, name string) {
	c, info := s.c, pk.TypesInfo
	key := name + "/depends-on-cacheability"
	conj := func(e ast.Expr) ([]ast.Expr, bool) {
		var leaves []ast.Expr
		pure := true
		var split func(e ast.Expr)
		split = func(e ast.Expr) {
			e = ast.Unparen(e)
			if be, ok := e.(*ast.BinaryExpr); ok {
				if be.Op == token.LAND {
					split(be.X)
					split(be.Y)
					return
				}
				if be.Op == token.LOR {
					pure = false
				}
			}
			leaves = append(leaves, e)
		}
		split(e)
		return leaves, pure
	}
	isSource := func(e ast.Expr) bool {
		cl, ok := ast.Unparen(e).(*ast.CallExpr)
		if !ok {
			return false
		}
		fn := Callee(info, cl)
		return fn != nil && FullName(fn.Origin()) == s.a.crSource
	}
	// all (non-zero) assignments to obj are conjunctions with a source leaf (directly or via one more variable)
	var varDepends func(o types.Object, depth int) bool
	varDepends = func(o types.Object, depth int) bool {
		if o == nil || depth > 2 {
			return false
		}
		n, ok := 0, true
		ast.Inspect(fd.Body, func(m ast.Node) bool {
			as, isAs := m.(*ast.AssignStmt)
			if !isAs || len(as.Lhs) != len(as.Rhs) {
				return true
			}
			for i, l := range as.Lhs {
				id, isId := l.(*ast.Ident)
				if !isId || (info.Defs[id] != o && info.Uses[id] != o) {
					continue
				}
				n++
				leaves, pure := conj(as.Rhs[i])
				good := false
				for _, lf := range leaves {
					if isSource(lf) {
						good = true
					} else if lid, isId := lf.(*ast.Ident); isId && varDepends(info.Uses[lid], depth+1) {
						good = true
					}
				}
				if !pure || !good {
					ok = false
				}
			}
			return true
		})
		return n > 0 && ok
	}
	gate := func(cond ast.Expr, t bool) bool {
		if !t {
			return false
		}
		leaves, pure := conj(cond)
		if !pure {
			return false
		}
		for _, lf := range leaves {
			if isSource(lf) {
				return true
			}
			if id, ok := lf.(*ast.Ident); ok && varDepends(info.Uses[id], 0) {
				return true
			}
		}
		return false
	}
	if p := c11Ungated(c, info, c11UnitOf(fd, call), call, gate); p != nil {
		c.Bad("C11-G4", key, call.Pos(), "a "+s.a.crType+" node is built on a path whose condition does not depend on "+s.a.crSource[strings.LastIndex(s.a.crSource, "/")+1:]+"(): a correlated or volatile derived table would be cached", c.P.DescribePath(p)...)
	} else {
		c.Ok("C11-G4", key, call.Pos(), "construction depends on the source's CanCacheResults()")
	}
}
