package main

import (
	"fmt"
	"go/ast"
	"go/token"
	"go/types"

	"golang.org/x/tools/go/packages"
)

// Asymmetric case folding in a name comparison: `a == b` where one operand is, by construction,
// the lower-cased form of a name (a direct strings.ToLower call, or a local that is only ever
// assigned from such calls) and the other operand is a name that was never folded. SQL object
// names are case-insensitive here, so such a comparison is false for every name with an
// upper-case letter - the guard it implements silently does not apply to those objects.
//
// Exact on purpose: an operand counts as folded only when that is visible in the function itself;
// constants are neutral; an operand of unknown provenance (parameter, field, call result other
// than ToLower) makes the comparison asymmetric only if the *other* side is visibly folded.
// Functions may be exempted per symbol when the unfolded side is canonical by construction.

type foldSite struct {
	key    string
	pos    token.Pos
	folded string // text of the folded operand
	raw    string // text of the unfolded operand
}

func foldAsymmetricCompares(p *Prog, rels []string, only func(pk *packages.Package, fd *ast.FuncDecl) bool) (sites []foldSite, compared int) {
	p.EachFuncDecl(rels, func(pk *packages.Package, fd *ast.FuncDecl) {
		if fd.Body == nil || (only != nil && !only(pk, fd)) {
			return
		}
		info := pk.TypesInfo
		isToLower := func(e ast.Expr) bool {
			call, ok := ast.Unparen(e).(*ast.CallExpr)
			if !ok {
				return false
			}
			fn := Callee(info, call)
			return fn != nil && fn.Pkg() != nil && fn.Pkg().Path() == "strings" && (fn.Name() == "ToLower" || fn.Name() == "ToUpper")
		}
		// locals assigned only from ToLower calls
		assigned := map[types.Object][]ast.Expr{}
		ast.Inspect(fd.Body, func(n ast.Node) bool {
			switch x := n.(type) {
			case *ast.AssignStmt:
				if len(x.Lhs) == len(x.Rhs) {
					for i, l := range x.Lhs {
						if id := identOf(l); id != nil {
							o := info.Defs[id]
							if o == nil {
								o = info.Uses[id]
							}
							if o != nil {
								assigned[o] = append(assigned[o], x.Rhs[i])
							}
						}
					}
				} else {
					for _, l := range x.Lhs {
						if id := identOf(l); id != nil {
							o := info.Defs[id]
							if o == nil {
								o = info.Uses[id]
							}
							if o != nil {
								assigned[o] = append(assigned[o], nil)
							}
						}
					}
				}
			case *ast.ValueSpec:
				for i, nm := range x.Names {
					if o := info.Defs[nm]; o != nil {
						if i < len(x.Values) {
							assigned[o] = append(assigned[o], x.Values[i])
						}
					}
				}
			case *ast.RangeStmt:
				for _, l := range []ast.Expr{x.Key, x.Value} {
					if id := identOf(l); id != nil {
						if o := info.Defs[id]; o != nil {
							assigned[o] = append(assigned[o], nil)
						}
					}
				}
			}
			return true
		})
		folded := func(e ast.Expr) bool {
			if isToLower(e) {
				return true
			}
			id := identOf(e)
			if id == nil {
				return false
			}
			o, _ := info.Uses[id].(*types.Var)
			if o == nil || o.IsField() {
				return false
			}
			rhs := assigned[o]
			if len(rhs) == 0 {
				return false // parameter or captured
			}
			for _, r := range rhs {
				if r == nil || !isToLower(r) {
					return false
				}
			}
			return true
		}
		isString := func(e ast.Expr) bool {
			tv, ok := info.Types[e]
			if !ok {
				return false
			}
			b, ok := tv.Type.Underlying().(*types.Basic)
			return ok && b.Info()&types.IsString != 0
		}
		isConst := func(e ast.Expr) bool { tv, ok := info.Types[e]; return ok && tv.Value != nil }
		n := 0
		ast.Inspect(fd.Body, func(m ast.Node) bool {
			be, ok := m.(*ast.BinaryExpr)
			if !ok || (be.Op != token.EQL && be.Op != token.NEQ) || !isString(be.X) || !isString(be.Y) {
				return true
			}
			fx, fy := folded(be.X), folded(be.Y)
			if !fx && !fy {
				return true
			}
			compared++
			if fx && fy || isConst(be.X) || isConst(be.Y) {
				return true
			}
			n++
			f, r := be.X, be.Y
			if fy {
				f, r = be.Y, be.X
			}
			sites = append(sites, foldSite{key: fmt.Sprintf("%s.%s/%s %s %s", pkRel(pk), DeclName(fd), types.ExprString(be.X), be.Op, types.ExprString(be.Y)), pos: be.Pos(),
				folded: types.ExprString(f), raw: types.ExprString(r)})
			return true
		})
		_ = n
	})
	return sites, compared
}
