package main

import (
	"fmt"
	"go/token"
	"go/types"
	"sort"
	"strings"

	"golang.org/x/tools/go/ssa"
)

// C08 — aggregates ignore NULL inputs: every AggregationBuffer.Update tests the evaluated
// child value for NULL before it touches its accumulator.

type c08Config struct {
	Rels        []string
	IfaceRel    string // "sql"
	BufIface    string // "AggregationBuffer"
	UpdateM     string // "Update"
	ExprIface   string // "Expression"
	EvalM       string // "Eval"
	TypeIface   string // "Type" ("" = none): its Convert method is nil-preserving
	ConvertM    string // "Convert"
	ReflectNilF bool   // treat reflect.TypeOf(x) == nil as x == nil
	Floor       int
}

func init() {
	register(&Property{
		ID:       "C08",
		Patterns: []string{"./sql/expression/function/aggregation/..."},
		Explanation: "Clause 'NULL inputs are ignored' of the aggregate definitions. Decided: in every implementation of sql.AggregationBuffer.Update, for every direct evaluation " +
			"v, err := <child>.Eval(ctx, row) of a child expression, each write to the buffer's state that can execute after that evaluation (a store or map update through the receiver, " +
			"or a module call that receives the receiver or a pointer reached through it) lies in a region where v is known non-NULL: dominated by the non-nil edge of v == nil / v != nil / " +
			"reflect.TypeOf(v) == nil, of a nil test of Type.Convert(ctx, v)'s result (Convert maps NULL to NULL with a nil error, checked by C27-V0), or by a boolean flag that is set only " +
			"on such edges. A write outside such a region accumulates a NULL input (counts it, overwrites the running value with it, or converts it to 0). " +
			"(W1) a new partition / peer group starts when ANY key differs: the window change detectors (key expressions + two rows -> (bool, error), comparing key by key with Type.Compare) answer true at the first key whose comparison is non-zero and false after the loop over all keys - ranking functions and RANGE frames take their ties from these boundaries.",
		NotCovered: "the values the accumulators compute, window-function execution (WindowFunction.Compute and framing), buffers that evaluate children only through helpers (groupConcatBuffer), GROUP_CONCAT ordering, DISTINCT handling",
		Technique:  "sibling agreement over all implementations of an interface method: SSA dominance of a nil test over every accumulator write (nil-guard engine); polarity reading (AST) of the window change detectors",
		Run: func(c *Ctx) {
			rels := []string{}
			for _, pk := range c.P.Module {
				rels = append(rels, strings.TrimPrefix(strings.TrimPrefix(pk.PkgPath, modPath), "/"))
			}
			runC08(c, c08Config{Rels: rels, IfaceRel: "sql", BufIface: "AggregationBuffer", UpdateM: "Update", ExprIface: "Expression", EvalM: "Eval",
				TypeIface: "Type", ConvertM: "Convert", ReflectNilF: true, Floor: 14})
			c.Rule("C08-W1", "window change detectors (key expressions + two rows -> (bool, error), comparing key by key): true at the first key whose comparison is non-zero, false after the loop over all keys", 2)
			ruleChangeDetectorPolarity(c, "C08-W1", "sql/expression/function/aggregation")
		},
		Fixture: func(c *Ctx, fx *Prog) {
			expectFixture(c, fx, "c08: accumulate without nil test, count before test, helper call before test",
				[]string{"C08-A1:testdata/c08/agg.noTest.Update/expr", "C08-A1:testdata/c08/agg.countFirst.Update/expr", "C08-A1:testdata/c08/agg.helperFirst.Update/countFirst.expr", "C08-A1:testdata/c08/agg.badFlag.Update/expr"},
				func(fc *Ctx) {
					runC08(fc, c08Config{Rels: []string{"testdata/c08/agg"}, IfaceRel: "testdata/c08/agg", BufIface: "AggregationBuffer", UpdateM: "Update", ExprIface: "Expression", EvalM: "Eval",
						TypeIface: "Type", ConvertM: "Convert", ReflectNilF: true})
				})
		},
		FixturePkgs: []string{"./testdata/c08/agg"},
	})
}

// c08Exceptions: buffer.Update/child -> reason (one symbol each).
var c08Exceptions = map[string]string{
	"sql/expression/function/aggregation.jsonArrayBuffer.Update/expr":        "JSON_ARRAYAGG keeps NULL inputs as JSON null elements (MySQL semantics): appending without a nil test is the definition",
	"sql/expression/function/aggregation.jsonObjectBuffer.Update/joa.value":  "JSON_OBJECTAGG keeps NULL values as JSON null members (only NULL keys are rejected, and the key evaluation is guarded)",
	"sql/expression/function/aggregation.firstBuffer.Update/expr":            "FIRST() (internal aggregate) returns the first row's value even when it is NULL: the NULL branch records writtenNil on purpose",
	"sql/expression/function/aggregation.countDistinctBuffer.Update/exprs[]": "multi-expression buffer: each element is nil-tested inside the evaluation loop and again in the hashing loop; the write to `seen` follows the loops, so no single test dominates it",
}

func runC08(c *Ctx, cfg c08Config) {
	c.Rule("C08-A1", "every AggregationBuffer.Update: each accumulator write that can execute after v, err := child.Eval(ctx,row) is dominated by the non-NULL edge of a nil test of v (direct, via reflect.TypeOf, via Type.Convert's nil-preserving result, or via a boolean flag set only on such edges)", cfg.Floor)
	bufIface := ngLookupIface(c.P, cfg.IfaceRel, cfg.BufIface)
	exprIface := ngLookupIface(c.P, cfg.IfaceRel, cfg.ExprIface)
	if bufIface == nil || exprIface == nil {
		c.Undecided("C08-A1", "anchors", 0, "interfaces "+cfg.BufIface+"/"+cfg.ExprIface+" not found in "+cfg.IfaceRel)
		return
	}
	var typeIface *types.Interface
	if cfg.TypeIface != "" {
		typeIface = ngLookupIface(c.P, cfg.IfaceRel, cfg.TypeIface)
		if typeIface == nil {
			c.Undecided("C08-A1", cfg.TypeIface, 0, "type interface not found")
		}
	}
	spec := &NilGuardSpec{Deciders: map[*types.Func]NilDecider{}, NilPreds: map[*types.Func]int{}, NilEquiv: map[*types.Func]int{}}
	if cfg.ReflectNilF {
		if rp := c.P.ByPath["reflect"]; rp != nil {
			if f, ok := rp.Types.Scope().Lookup("TypeOf").(*types.Func); ok {
				spec.NilEquiv[f] = 0
			}
		}
	}
	spec.NilPreserving = func(call *ssa.Call) (int, int, int, bool) {
		cc := &call.Call
		if typeIface == nil || !cc.IsInvoke() || cc.Method.Name() != cfg.ConvertM {
			return 0, 0, 0, false
		}
		it, ok := cc.Value.Type().Underlying().(*types.Interface)
		if !ok || !types.Implements(it, typeIface) && !types.Identical(it, typeIface) {
			return 0, 0, 0, false
		}
		n := cc.Signature().Results().Len()
		if len(cc.Args) != 2 || n < 2 {
			return 0, 0, 0, false
		}
		return 1, 0, n - 1, true // Convert(ctx, v) (value, inRange, err)
	}
	impls := ngImplementers(c.P, bufIface, cfg.UpdateM, cfg.Rels)
	for _, f := range impls {
		sf := c.P.SSAFunc(f)
		fkey := ngFuncKey(f)
		if sf == nil || len(sf.Blocks) == 0 || len(sf.Params) == 0 {
			c.Undecided("C08-A1", fkey, f.Pos(), "no SSA body")
			continue
		}
		recv := sf.Params[0]
		// child evaluations
		type evalSite struct {
			call *ssa.Call
			v    ssa.Value
			name string
		}
		var sites []evalSite
		for _, b := range sf.Blocks {
			for _, in := range b.Instrs {
				call, ok := in.(*ssa.Call)
				if !ok || !call.Call.IsInvoke() || call.Call.Method.Name() != cfg.EvalM {
					continue
				}
				it, ok := call.Call.Value.Type().Underlying().(*types.Interface)
				if !ok || !(types.Identical(it, exprIface) || types.Implements(it, exprIface)) {
					continue
				}
				var v ssa.Value
				if refs := call.Referrers(); refs != nil {
					for _, r := range *refs {
						if ex, ok := r.(*ssa.Extract); ok && ex.Index == 0 {
							v = ex
						}
					}
				}
				if v == nil {
					continue // value discarded
				}
				sites = append(sites, evalSite{call, v, c08PathName(call.Call.Value, recv)})
			}
		}
		if len(sites) == 0 {
			c.Note("C08-A1", fkey, f.Pos(), "no direct child evaluation in Update (children are evaluated through a helper): not decided")
			continue
		}
		writes := c08Writes(c, sf, recv)
		for _, s := range sites {
			key := fkey + "/" + s.name
			r := NilGuardAnalyze(sf, []ssa.Value{s.v}, spec)
			var bad []string
			nw := 0
			for _, w := range writes {
				if !r.ReachableFromDef(w.Block(), s.v) {
					continue
				}
				if w.Block() == s.call.Block() && c08Before(w, s.call) {
					continue
				}
				nw++
				if !r.KnownNonNil(w.Block(), s.v) {
					bad = append(bad, fmt.Sprintf("%s: accumulator write `%s` can execute when %s evaluated to NULL", c.P.Rel(c08Pos(w)), c08Describe(w), s.name))
				}
			}
			switch {
			case len(bad) == 0:
				c.Ok("C08-A1", key, s.call.Pos(), fmt.Sprintf("%d accumulator write(s) after the evaluation, all in the non-NULL region (%d nil tests)", nw, r.Tests))
			case c08Exceptions[key] != "" && !c.fixtureMode:
				c.Exc("C08-A1", key, s.call.Pos(), c08Exceptions[key])
			default:
				sort.Strings(bad)
				c.Bad("C08-A1", key, s.call.Pos(), fmt.Sprintf("%s accumulates the value of %s without first excluding NULL: %d of %d accumulator write(s) after `%s.Eval` are not dominated by the non-NULL edge of a nil test of the evaluated value - a NULL input is counted/stored/converted instead of ignored", fkey, s.name, len(bad), nw, s.name), bad...)
			}
		}
	}
}

func c08Before(a, b ssa.Instruction) bool {
	for _, in := range a.Block().Instrs {
		if in == a {
			return true
		}
		if in == b {
			return false
		}
	}
	return false
}

func c08Pos(in ssa.Instruction) token.Pos {
	if p := in.Pos(); p.IsValid() {
		return p
	}
	if st, ok := in.(*ssa.Store); ok {
		if v, ok := st.Addr.(ssa.Instruction); ok && v.Pos().IsValid() {
			return v.Pos()
		}
	}
	return token.NoPos
}

// c08RootedAtRecv: the address/pointer value is reached from the receiver through field
// selections, index operations and loads.
func c08RootedAtRecv(v ssa.Value, recv *ssa.Parameter, depth int) bool {
	if v == recv {
		return true
	}
	if depth > 8 {
		return false
	}
	switch x := v.(type) {
	case *ssa.FieldAddr:
		return c08RootedAtRecv(x.X, recv, depth+1)
	case *ssa.IndexAddr:
		return c08RootedAtRecv(x.X, recv, depth+1)
	case *ssa.UnOp:
		if x.Op == token.MUL {
			return c08RootedAtRecv(x.X, recv, depth+1)
		}
	case *ssa.Field:
		return c08RootedAtRecv(x.X, recv, depth+1)
	case *ssa.Slice:
		return c08RootedAtRecv(x.X, recv, depth+1)
	}
	return false
}

// c08PathName names the evaluated child by its selector path from the receiver ("expr",
// "joa.value", "exprs[]"), or "?" for a value not reached from the receiver.
func c08PathName(v ssa.Value, recv *ssa.Parameter) string {
	var walk func(v ssa.Value, depth int) string
	walk = func(v ssa.Value, depth int) string {
		if v == recv || depth > 8 {
			return ""
		}
		switch x := v.(type) {
		case *ssa.UnOp:
			if x.Op == token.MUL {
				return walk(x.X, depth+1)
			}
		case *ssa.FieldAddr:
			st, _ := x.X.Type().Underlying().(*types.Pointer)
			name := "?"
			if st != nil {
				if s, ok := st.Elem().Underlying().(*types.Struct); ok {
					name = s.Field(x.Field).Name()
				}
			}
			if p := walk(x.X, depth+1); p != "" {
				return p + "." + name
			}
			return name
		case *ssa.Field:
			name := "?"
			if s, ok := x.X.Type().Underlying().(*types.Struct); ok {
				name = s.Field(x.Field).Name()
			}
			if p := walk(x.X, depth+1); p != "" {
				return p + "." + name
			}
			return name
		case *ssa.IndexAddr:
			return walk(x.X, depth+1) + "[]"
		case *ssa.Extract: // range over a slice: next(iter)
			return walk(x.Tuple, depth+1)
		case *ssa.Index:
			return walk(x.X, depth+1) + "[]"
		case *ssa.Phi:
			for _, e := range x.Edges {
				if s := walk(e, depth+1); s != "" && s != "?" {
					return s
				}
			}
		}
		return "?"
	}
	s := walk(v, 0)
	if s == "" {
		return "?"
	}
	return s
}

// c08Writes lists the accumulator writes of the function: stores and map updates through the
// receiver, and static module calls that receive the receiver or a pointer reached through it.
func c08Writes(c *Ctx, sf *ssa.Function, recv *ssa.Parameter) []ssa.Instruction {
	var out []ssa.Instruction
	for _, b := range sf.Blocks {
		for _, in := range b.Instrs {
			switch x := in.(type) {
			case *ssa.Store:
				if c08RootedAtRecv(x.Addr, recv, 0) {
					out = append(out, in)
				}
			case *ssa.MapUpdate:
				if c08RootedAtRecv(x.Map, recv, 0) {
					out = append(out, in)
				}
			case *ssa.Call:
				cc := &x.Call
				if cc.IsInvoke() {
					continue
				}
				f := cc.StaticCallee()
				if f == nil || f.Pkg == nil {
					continue
				}
				path := f.Pkg.Pkg.Path()
				pk := c.P.ByPath[path]
				if !(strings.HasPrefix(path, "vchk/") || pk != nil && pk.Module != nil && pk.Module.Main) {
					continue
				}
				for _, a := range cc.Args {
					if _, isPtr := a.Type().Underlying().(*types.Pointer); isPtr && c08RootedAtRecv(a, recv, 0) {
						out = append(out, in)
						break
					}
				}
			}
		}
	}
	return out
}

func c08Describe(in ssa.Instruction) string {
	switch x := in.(type) {
	case *ssa.Store:
		if fa, ok := x.Addr.(*ssa.FieldAddr); ok {
			if p, ok := fa.X.Type().Underlying().(*types.Pointer); ok {
				if s, ok := p.Elem().Underlying().(*types.Struct); ok {
					return "store to field " + s.Field(fa.Field).Name()
				}
			}
		}
		return "store through the receiver"
	case *ssa.MapUpdate:
		return "map update through the receiver"
	case *ssa.Call:
		return "call " + ngCallName(&x.Call)
	}
	return fmt.Sprintf("%T", in)
}
