package main

import (
	"fmt"
	"go/ast"
	"go/token"
	"go/types"
	"regexp"
	"sort"
	"strings"

	"golang.org/x/tools/go/cfg"
	"golang.org/x/tools/go/packages"
)

func init() {
	register(&Property{
		ID:        "C42",
		Patterns:  []string{".", "./sql/rowexec", "./sql/analyzer"},
		Technique: "CFG dominance with error-edge pruning (go/cfg); sibling agreement over IsReadOnly implementations; who-may-write reachability over the type-resolved static call graph of the executor; child coverage: backward access-path origin analysis (go/ssa, interprocedural, field stores) of the executor's dispatch arguments against a forward must-analysis of IsReadOnly (conjunction, early returns, for-every-element loops); rule-batch order against per-rule root retyping (go/ssa result-type flow with dominating type assertions) and the validations' root-type classes",
		Explanation: "Read-only modes block every write — structural clauses. (R1) in package sqle every call that executes a plan (ExecBuilder.Build) is dominated by Engine.readOnlyCheck of the same node, and on " +
			"the edge where that check returned an error the execution is unreachable. (R2) wrapper propagation: a plan node whose executor executes another node (its build function, the functions it calls " +
			"and the methods of the iterator types it constructs reach the executor's dispatch) does not answer IsReadOnly with the constant true: it delegates to the executed nodes or answers false. " +
			"(R2c) child coverage of every non-constant IsReadOnly: the node argument of each call of the executor's dispatch reachable from the node's build function is resolved backwards (SSA: accessors, helper parameters, " +
			"iterator fields, closures, slices, tree rewriters of sql/transform) to a child field path of the node (n.Child, n.BinaryNode.left, n.IfElse.IfConditionals[] …); IsReadOnly may return true only on paths on which, for each such " +
			"path, IsReadOnly of that child (or of a node containing it) was called and observed true, or the child was observed nil — `&&`, early `return false`, flag variables, helper functions and loops that visit every element are read; " +
			"a duplicated or dropped operand, `||`, a sub-slice or an any-instead-of-all loop leave the child uncovered. " +
			"(R3) writers: a plan node whose executor code reaches a mutator of the storage interfaces (row inserters/updaters/deleters, table/index/foreign-key/check alteration, table, view, trigger, " +
			"procedure, event and database creation or removal, statistics and account edits) does not answer IsReadOnly with the constant true. (R4) the analyzer's read-only validation rules " +
			"(validateReadOnlyDatabase, validateReadOnlyTransaction) are registered in the validation batch and reject with the read-only errors. " +
			"(R5) rule ordering: both validations judge a statement by the dynamic type of its root (their type switch on the root, the default arm refined by plan.IsDDLNode); an arm is rejectable if it can turn the verdict variable to invalid. " +
			"In every batch sequence the analyzer can run (Builder.Build's batch list over the rule tables, every hand-written batch list of getBatchesForNode) no rule placed before a validation can replace the root by a node of a non-rejectable class " +
			"where the type it replaces is rejectable (root results read from go/ssa: concrete node types flowing to the rule's first result through helpers, With* methods and closures handed to sql/transform; input type = dominating type assertion, " +
			"concrete helper parameter or receiver) — unless the rule itself first hands a node of the replaced class to Analyzer.Analyze (the full sequence, validations included) on every path to the replacement. processTruncate (DeleteFrom -> Truncate) must follow validateReadOnlyTransaction.",
		NotCovered: "R5: root results whose input type cannot be read (no dominating type assertion) and results reached only through dynamic calls are not decided (listed as notes); rules an integrator adds through the Builder hooks (pre-analyzer rules, AlwaysBeforeDefault); replacements below the root; " +
			"the converse (nodes that answer false but are harmless: 'and nothing else'), writes performed by integrator-supplied nodes and table functions, session/system variable writes, " +
			"calls through interface values other than the frozen mutator interfaces; R2c: the executor side is path-insensitive (a child executed only in a state in which IsReadOnly answers false is still demanded), " +
			"nodes the executor reaches through non-plan fields (run-time references: handler statements, cursors) are listed as notes and not decided, children executed only through a dynamic call other than the dispatch methods, " +
			"element facts nested in two loops and maps of nodes, expressions (subqueries) evaluated rather than executed",
		Run: func(c *Ctx) {
			runC42(c, c42Cfg{root: "", exec: "sql/rowexec", planRel: "sql/plan", sqlRel: "sql", analyzer: "sql/analyzer",
				check: "Engine.readOnlyCheck", dispatch: "BaseBuilder.buildNodeExecNoAnalyze", dispatchers: []string{"buildNodeExec", "buildNodeExecNoAnalyze", "Build"},
				validators: []string{"validateReadOnlyDatabase", "validateReadOnlyTransaction"}, floors: [4]int{3, 160, 160, 8},
				transformRel: "sql/transform", floorCov: 45, floorOrder: 30})
		},
		Fixture: func(c *Ctx, fx *Prog) {
			expectFixture(c, fx, "c42: execution without / ignoring / mismatching the read-only check, constant-true wrapper and writer, validation rule not registered, executed child not conjoined (duplicate operand, any-instead-of-all loop, child run from an iterator field)",
				[]string{
					"C42-R1:Engine.RunEvent/Build(body)",
					"C42-R1:Engine.QueryLenient/Build(analyzed)",
					"C42-R1:Engine.QueryOther/Build(analyzed)",
					"C42-R2:Explain",
					"C42-R2c:Union/binary.left",
					"C42-R2c:Any/Stmts[]",
					"C42-R2c:Trig/Logic",
					"C42-R3:Purge",
					"C42-R4:validateReadOnlyTransaction",
				},
				func(fc *Ctx) {
					runC42(fc, c42Cfg{root: "testdata/c42/eng", exec: "testdata/c42/exec", planRel: "testdata/c42/plan", sqlRel: "testdata/c42/sql", analyzer: "testdata/c42/an",
						check: "Engine.readOnlyCheck", dispatch: "BaseBuilder.buildNodeExec", dispatchers: []string{"buildNodeExec", "Build"},
						validators: []string{"validateReadOnlyDatabase", "validateReadOnlyTransaction"}, floorOrder: -1})
				})
		},
		FixturePkgs: []string{"./testdata/c42/eng", "./testdata/c42/exec", "./testdata/c42/plan", "./testdata/c42/sql", "./testdata/c42/an"},
	})
}

type c42Cfg struct {
	root, exec, planRel, sqlRel, analyzer string
	check, dispatch                       string
	dispatchers, validators               []string
	floors                                [4]int
	transformRel                          string // package of the tree rewriters (result = rewritten copy of the node argument)
	floorCov                              int
	floorOrder                            int // C42-R5 instance floor; -1: rule not run (fixture without rule batches)
}

// c42Mutators: the storage-interface methods that modify data or schema. Interface (in package
// sql, or a concrete editor type) -> method-name pattern.
var c42Mutators = map[string]*regexp.Regexp{
	"RowInserter":              regexp.MustCompile(`^Insert$`),
	"RowUpdater":               regexp.MustCompile(`^Update$`),
	"RowDeleter":               regexp.MustCompile(`^Delete$`),
	"RowReplacer":              regexp.MustCompile(`^(Insert|Delete)$`),
	"TableEditor":              regexp.MustCompile(`^(Insert|Update|Delete)$`),
	"TruncateableTable":        regexp.MustCompile(`^Truncate$`),
	"AlterableTable":           regexp.MustCompile(`^(AddColumn|DropColumn|ModifyColumn)$`),
	"IndexAlterableTable":      regexp.MustCompile(`^(CreateIndex|DropIndex|RenameIndex)$`),
	"ForeignKeyTable":          regexp.MustCompile(`^(AddForeignKey|DropForeignKey|UpdateForeignKey|CreateIndexForForeignKey|SetForeignKeyResolved)$`),
	"CheckAlterableTable":      regexp.MustCompile(`^(CreateCheck|DropCheck)$`),
	"CollationAlterableTable":  regexp.MustCompile(`^Modify`),
	"CommentAlterableTable":    regexp.MustCompile(`^Modify`),
	"PrimaryKeyAlterableTable": regexp.MustCompile(`^(CreatePrimaryKey|DropPrimaryKey)$`),
	"AutoIncrementSetter":      regexp.MustCompile(`^SetAutoIncrementValue$`),
	"RewritableTable":          regexp.MustCompile(`^RewriteInserter$`),
	"TableCreator":             regexp.MustCompile(`^CreateTable$`),
	"IndexedTableCreator":      regexp.MustCompile(`^CreateIndexedTable$`),
	"TemporaryTableCreator":    regexp.MustCompile(`^CreateTemporaryTable$`),
	"TableDropper":             regexp.MustCompile(`^DropTable$`),
	"TableRenamer":             regexp.MustCompile(`^RenameTable$`),
	"TableCopierDatabase":      regexp.MustCompile(`^CopyTableData$`),
	"TriggerDatabase":          regexp.MustCompile(`^(CreateTrigger|DropTrigger)$`),
	"StoredProcedureDatabase":  regexp.MustCompile(`^(SaveStoredProcedure|DropStoredProcedure)$`),
	"EventDatabase":            regexp.MustCompile(`^(SaveEvent|DropEvent|UpdateEvent|UpdateLastExecuted)$`),
	"ViewDatabase":             regexp.MustCompile(`^(CreateView|DropView)$`),
	"MutableDatabaseProvider":  regexp.MustCompile(`^(CreateDatabase|DropDatabase)$`),
	"CollatedDatabaseProvider": regexp.MustCompile(`^CreateCollatedDatabase$`),
	"CollatedDatabase":         regexp.MustCompile(`^SetCollation$`),
	"Editor":                   regexp.MustCompile(`^(Put|Remove)`),
	"MySQLDb":                  regexp.MustCompile(`^(Persist|Editor)$`), // the grant tables: write lock / persistence
	"Catalog":                  regexp.MustCompile(`^(CreateDatabase|RemoveDatabase|DropDatabase)$`),
	"EventScheduler":           regexp.MustCompile(`^(AddEvent|UpdateEvent|RemoveEvent|RemoveSchemaEvents)$`),
}

type c42Node struct {
	name    string // plan type name
	tn      *types.TypeName
	build   *types.Func
	ro      string // "true" | "false" | "delegates"
	roPos   token.Pos
	execs   []string // evidence: calls into the executor's dispatch
	mutates []string
}

func runC42(c *Ctx, cf c42Cfg) {
	c.Rule("C42-R1", "package sqle: every ExecBuilder.Build call is dominated by Engine.readOnlyCheck of the same node, and is unreachable on the edge where that check's error is non-nil", cf.floors[0])
	c.Rule("C42-R2", "a plan node whose executor code reaches the executor's node dispatch (it executes another node) does not implement IsReadOnly as the constant true", cf.floors[1])
	c.Rule("C42-R3", "a plan node whose executor code reaches a mutator of the storage interfaces does not implement IsReadOnly as the constant true", cf.floors[2])
	c.Rule("C42-R4", "the read-only validation rules are registered in a rule batch of the analyzer and return the read-only errors", cf.floors[3])
	exec, planPk, rootPk := c.P.Pkg(cf.exec), c.P.Pkg(cf.planRel), c.P.Pkg(cf.root)
	if exec == nil || planPk == nil || rootPk == nil {
		c.Undecided("C42-R1", "packages", 0, "root, executor or plan package not loaded")
		return
	}
	c42R1(c, cf, rootPk)
	c42R4(c, cf)
	if cf.floorOrder >= 0 {
		c42R5(c, cf, cf.floorOrder)
	}

	// ---- dispatch table of the executor: node type -> build function
	_, dd := c.P.FuncDecl(cf.exec, cf.dispatch)
	if dd == nil {
		c.Undecided("C42-R2", cf.dispatch, 0, "executor dispatch not found")
		return
	}
	info := exec.TypesInfo
	var nodes []*c42Node
	ast.Inspect(dd.Body, func(n ast.Node) bool {
		ts, ok := n.(*ast.TypeSwitchStmt)
		if !ok {
			return true
		}
		for _, cs := range ts.Body.List {
			cc := cs.(*ast.CaseClause)
			var build *types.Func
			for _, st := range cc.Body {
				if ret, ok := st.(*ast.ReturnStmt); ok && len(ret.Results) == 1 {
					if call, ok := ret.Results[0].(*ast.CallExpr); ok {
						build = Callee(info, call)
					}
				}
			}
			for _, tx := range cc.List {
				tv, ok := info.Types[tx]
				if !ok || !tv.IsType() {
					continue
				}
				t := tv.Type
				if p, ok := t.(*types.Pointer); ok {
					t = p.Elem()
				}
				nt, ok := types.Unalias(t).(*types.Named)
				if !ok {
					continue
				}
				if _, isIface := nt.Underlying().(*types.Interface); isIface {
					continue // extension points for integrator nodes (sql.ExecBuilderNode, sql.ExecSourceRel): not plan nodes of this module
				}
				nodes = append(nodes, &c42Node{name: nt.Obj().Name(), tn: nt.Obj(), build: build})
			}
		}
		return false
	})
	if len(nodes) < 50 && !c.fixtureMode {
		c.Undecided("C42-R2", cf.dispatch, dd.Pos(), fmt.Sprintf("only %d node types found in the dispatch", len(nodes)))
		return
	}
	// ---- IsReadOnly classification
	for _, n := range nodes {
		obj, _, _ := types.LookupFieldOrMethod(types.NewPointer(n.tn.Type()), true, n.tn.Pkg(), "IsReadOnly")
		fn, _ := obj.(*types.Func)
		fd := c.P.Decl(fn)
		if fd == nil || fd.Body == nil {
			n.ro = "?"
			continue
		}
		n.roPos = fd.Pos()
		n.ro = "delegates"
		if len(fd.Body.List) == 1 {
			if ret, ok := fd.Body.List[0].(*ast.ReturnStmt); ok && len(ret.Results) == 1 {
				if pk := c.P.PkgOf(fn); pk != nil {
					if tv, ok := pk.TypesInfo.Types[ret.Results[0]]; ok && tv.Value != nil {
						n.ro = tv.Value.String()
					}
				}
			}
		}
	}
	roOf := map[string]string{}
	for _, n := range nodes {
		roOf[n.name] = n.ro
	}
	c42R4b(c, cf, roOf)
	// ---- executor code reachable from each build function
	sqlPk := c.P.Pkg(cf.sqlRel)
	w := &c42Walker{c: c, cf: cf, exec: exec, sqlPk: sqlPk, memo: map[*types.Func]*c42Reach{}}
	for _, n := range nodes {
		if n.build == nil {
			continue
		}
		r := w.reach(n.build, 0)
		n.execs, n.mutates = r.execs, r.mutates
	}
	sort.Slice(nodes, func(i, j int) bool { return nodes[i].name < nodes[j].name })
	c.Rule("C42-R2c", "child coverage: a plan node with a non-constant IsReadOnly returns true only if IsReadOnly of every child its executor executes was true (each executed child field is conjoined)", cf.floorCov)
	c42R2c(c, cf, nodes, exec, planPk, sqlPk)
	{
		cnt := map[string]int{}
		var writers, wrappers []string
		for _, n := range nodes {
			cnt["IsReadOnly="+n.ro]++
			if len(n.mutates) > 0 {
				writers = append(writers, n.name+"("+n.ro+")")
			}
			if len(n.execs) > 0 {
				wrappers = append(wrappers, n.name+"("+n.ro+")")
			}
		}
		var trues []string
		for _, n := range nodes {
			if n.ro == "true" {
				trues = append(trues, n.name)
			}
		}
		c.Notef("constant-true nodes: %v", trues)
		c.Notef("dispatch: %d node types %v; %d reach a storage mutator: %v; %d execute another node: %v", len(nodes), cnt, len(writers), writers, len(wrappers), wrappers)
	}
	seen := map[string]bool{}
	for _, n := range nodes {
		if seen[n.name] {
			continue
		}
		seen[n.name] = true
		if n.ro == "?" {
			c.Undecided("C42-R2", n.name, n.tn.Pos(), "IsReadOnly implementation not found")
			continue
		}
		// R2
		switch {
		case len(n.execs) == 0:
			c.Ok("C42-R2", n.name, n.roPos, "executes no other node (IsReadOnly: "+n.ro+")")
		case n.ro != "true":
			c.Ok("C42-R2", n.name, n.roPos, "executes another node; IsReadOnly "+n.ro)
		default:
			if why, ok := c42R2Exceptions[n.name]; ok && !c.fixtureMode {
				if sc, has := c42BuiltUnder[n.name]; has {
					if good, bad := c42OnlyBuiltUnder(c, planPk, n.name, sc.ctor, sc.parent); !good {
						c.Bad("C42-R2", n.name, n.roPos, "plan."+n.name+" answers IsReadOnly with the constant true, executes another node, and the side condition of its exception no longer holds: "+bad)
						break
					}
				}
				c.Exc("C42-R2", n.name, n.roPos, why)
			} else {
				c.Bad("C42-R2", n.name, n.roPos, fmt.Sprintf("plan.%s answers IsReadOnly with the constant true although its executor executes another node (%s): a write below it passes the engine's read-only check", n.name, strings.Join(n.execs, "; ")))
			}
		}
		// R3
		switch {
		case len(n.mutates) == 0:
			c.Ok("C42-R3", n.name, n.roPos, "reaches no storage mutator (IsReadOnly: "+n.ro+")")
		case n.ro != "true":
			c.Ok("C42-R3", n.name, n.roPos, "reaches "+strings.Join(c42Head(n.mutates, 3), ", ")+"; IsReadOnly "+n.ro)
		default:
			if why, ok := c42R3Exceptions[n.name]; ok {
				c.Exc("C42-R3", n.name, n.roPos, why)
			} else {
				c.Bad("C42-R3", n.name, n.roPos, fmt.Sprintf("plan.%s answers IsReadOnly with the constant true although its executor reaches a storage mutator: %s — the statement runs on a read-only engine", n.name, strings.Join(c42Head(n.mutates, 4), "; ")))
			}
		}
	}
}

func c42Head(s []string, n int) []string {
	if len(s) > n {
		return append(append([]string{}, s[:n]...), fmt.Sprintf("… (%d more)", len(s)-n))
	}
	return s
}

// c42R2Exceptions: constant-true wrappers that cannot hide a write. The first two carry a side
// condition that is re-verified on every run (c42OnlyBuiltUnder).
var c42R2Exceptions = map[string]string{
	"InsertDestination": "exists only as the destination of plan.InsertInto (built only as an argument of NewInsertInto — verified), whose IsReadOnly is the constant false",
	"UpdateSource":      "exists only as the child of plan.Update (built only inside NewUpdate — verified), whose IsReadOnly is the constant false",
	"Open":              "OPEN executes the cursor's statement, which the grammar restricts to a SELECT (DECLARE … CURSOR FOR select_statement)",
	"DescribeQuery":     "the child is executed only for EXPLAIN ANALYZE, which the grammar restricts to a SELECT without INTO (checked against the engine: EXPLAIN ANALYZE INSERT/UPDATE/DELETE and … INTO are syntax errors); the executor's own guard `!n.IsReadOnly()` is vacuous for the same reason",
}
var c42R3Exceptions = map[string]string{}

// c42BuiltUnder: side conditions of the exceptions above: constructor -> the only call contexts allowed.
var c42BuiltUnder = map[string]struct{ ctor, parent string }{
	"InsertDestination": {"NewInsertDestination", "NewInsertInto"},
	"UpdateSource":      {"NewUpdateSource", "NewUpdate"},
}

// c42OnlyBuiltUnder: every call of ctor in the loaded module is an argument of a call of parent or
// lies in parent's body; and no composite literal of the type exists outside ctor.
func c42OnlyBuiltUnder(c *Ctx, planPk *packages.Package, typeName, ctor, parent string) (bool, string) {
	cf, pf := LookupFunc(planPk, ctor), LookupFunc(planPk, parent)
	if cf == nil || pf == nil {
		return false, "constructor " + ctor + " or " + parent + " not found"
	}
	ok, why, n := true, "", 0
	for _, pk := range c.P.Module {
		info := pk.TypesInfo
		for _, f := range pk.Syntax {
			for _, d := range f.Decls {
				fd, isFn := d.(*ast.FuncDecl)
				if !isFn || fd.Body == nil {
					continue
				}
				self, _ := info.Defs[fd.Name].(*types.Func)
				var stack []ast.Node
				ast.Inspect(fd.Body, func(m ast.Node) bool {
					if m == nil {
						stack = stack[:len(stack)-1]
						return true
					}
					stack = append(stack, m)
					switch x := m.(type) {
					case *ast.CompositeLit:
						if tv, has := info.Types[x]; has {
							if nt, isN := types.Unalias(tv.Type).(*types.Named); isN && nt.Obj().Pkg() == planPk.Types && nt.Obj().Name() == typeName && self != cf {
								ok, why = false, "a "+typeName+" literal is built in "+DeclName(fd)
							}
						}
					case *ast.CallExpr:
						if Callee(info, x) != cf {
							return true
						}
						n++
						under := self == pf
						for i := len(stack) - 2; i >= 0 && !under; i-- {
							if pc, isCall := stack[i].(*ast.CallExpr); isCall && Callee(info, pc) == pf {
								under = true
							}
						}
						if !under {
							ok, why = false, ctor+" is called in "+DeclName(fd)+" outside "+parent
						}
					}
					return true
				})
			}
		}
	}
	if n == 0 {
		return false, ctor + " has no call site"
	}
	return ok, why
}

type c42Reach struct {
	execs, mutates []string
}

type c42Walker struct {
	c     *Ctx
	cf    c42Cfg
	exec  *packages.Package
	sqlPk *packages.Package
	memo  map[*types.Func]*c42Reach
}

// reach: what the code of fn (its body, function literals in it, the module functions it calls
// statically, and the methods of executor types it instantiates) reaches. The executor's own
// dispatch is recorded, not entered.
func (w *c42Walker) reach(fn *types.Func, depth int) *c42Reach {
	fn = fn.Origin()
	if r, ok := w.memo[fn]; ok {
		return r
	}
	r := &c42Reach{}
	w.memo[fn] = r
	fd := w.c.P.Decl(fn)
	pk := w.c.P.PkgOf(fn)
	if fd == nil || fd.Body == nil || pk == nil || depth > 10 {
		return r
	}
	info := pk.TypesInfo
	add := func(dst *[]string, s string) {
		for _, x := range *dst {
			if x == s {
				return
			}
		}
		*dst = append(*dst, s)
	}
	merge := func(o *c42Reach, via string) {
		for _, e := range o.execs {
			add(&r.execs, e)
		}
		for _, m := range o.mutates {
			add(&r.mutates, m)
		}
	}
	ast.Inspect(fd.Body, func(n ast.Node) bool {
		switch x := n.(type) {
		case *ast.CallExpr:
			callee := Callee(info, x)
			if callee == nil {
				return true
			}
			// the executor's dispatch
			if callee.Pkg() == w.exec.Types && contains(w.cf.dispatchers, callee.Name()) {
				add(&r.execs, fmt.Sprintf("%s calls %s at %s", FuncName(fn), callee.Name(), w.c.P.Rel(x.Pos())))
				return true
			}
			sig := callee.Type().(*types.Signature)
			if sig.Recv() != nil {
				rt := sig.Recv().Type()
				if p, ok := rt.(*types.Pointer); ok {
					rt = p.Elem()
				}
				if nt, ok := types.Unalias(rt).(*types.Named); ok {
					if re := c42Mutators[nt.Obj().Name()]; re != nil && re.MatchString(callee.Name()) {
						_, isIface := nt.Underlying().(*types.Interface)
						inSQL := w.sqlPk != nil && nt.Obj().Pkg() == w.sqlPk.Types
						if (isIface && inSQL) || nt.Obj().Name() == "Editor" || nt.Obj().Name() == "MySQLDb" {
							add(&r.mutates, fmt.Sprintf("%s.%s in %s (%s)", nt.Obj().Name(), callee.Name(), FuncName(fn), w.c.P.Rel(x.Pos())))
							return true
						}
					}
				}
			}
			if w.c.P.Decl(callee) != nil && c42InModule(w.c, callee.Pkg()) {
				merge(w.reach(callee, depth+1), "")
			}
		case *ast.CompositeLit:
			// an executor type instantiated here: its methods will run
			if tv, ok := info.Types[x]; ok {
				t := tv.Type
				if nt, ok := types.Unalias(t).(*types.Named); ok && c42InModule(w.c, nt.Obj().Pkg()) && c42IsIter(nt) {
					for i := 0; i < nt.NumMethods(); i++ {
						merge(w.reach(nt.Method(i), depth+1), "")
					}
				}
			}
		}
		return true
	})
	return r
}

// ---- R1

func c42R1(c *Ctx, cf c42Cfg, rootPk *packages.Package) {
	info := rootPk.TypesInfo
	check := LookupFunc(rootPk, cf.check)
	if check == nil {
		c.Undecided("C42-R1", cf.check, 0, "not found")
		return
	}
	c.P.EachFuncDecl([]string{cf.root}, func(_ *packages.Package, fd *ast.FuncDecl) {
		var builds []*ast.CallExpr
		ast.Inspect(fd.Body, func(n ast.Node) bool {
			call, ok := n.(*ast.CallExpr)
			if !ok {
				return true
			}
			fn := Callee(info, call)
			if fn == nil || fn.Name() != "Build" || len(call.Args) != 3 {
				return true
			}
			// a method Build(ctx, node, row) of an executor interface/type
			sig := fn.Type().(*types.Signature)
			if sig.Recv() == nil || sig.Params().Len() != 3 {
				return true
			}
			if nt, ok := types.Unalias(sig.Params().At(1).Type()).(*types.Named); !ok || nt.Obj().Name() != "Node" {
				return true
			}
			builds = append(builds, call)
			return true
		})
		if len(builds) == 0 {
			return
		}
		g := c.P.CFG(info, fd.Body)
		for _, b := range builds {
			key := DeclName(fd) + "/Build(" + types.ExprString(b.Args[1]) + ")"
			nodeID, _ := ast.Unparen(b.Args[1]).(*ast.Ident)
			if nodeID == nil {
				c.Bad("C42-R1", key, b.Pos(), "the executed node is not a plain variable: the read-only check cannot be matched to it")
				continue
			}
			nodeObj := info.Uses[nodeID]
			isCheck := func(n ast.Node) bool {
				return ContainsCall(info, n, func(fn *types.Func, cl *ast.CallExpr) bool {
					if fn != check || len(cl.Args) != 1 {
						return false
					}
					id, ok := ast.Unparen(cl.Args[0]).(*ast.Ident)
					return ok && info.Uses[id] == nodeObj
				})
			}
			isBuild := func(n ast.Node) bool { return n.Pos() <= b.Pos() && b.End() <= n.End() }
			if p := PathAvoiding(g, EntryPoint(g), isCheck, isBuild, nil); p != nil {
				c.Bad("C42-R1", key, b.Pos(), DeclName(fd)+" executes the plan without a preceding readOnlyCheck of that node on some path", c.P.DescribePath(p)...)
				continue
			}
			// the check's error: `err = e.readOnlyCheck(x)`; on the err != nil edge Build must be unreachable
			var chk ast.Node
			var errObj types.Object
			ast.Inspect(fd.Body, func(n ast.Node) bool {
				if as, ok := n.(*ast.AssignStmt); ok && len(as.Lhs) == 1 && len(as.Rhs) == 1 && isCheck(as.Rhs[0]) {
					if id, ok := as.Lhs[0].(*ast.Ident); ok {
						chk = as
						errObj = c45Obj(info, id)
					}
				}
				return true
			})
			if chk == nil {
				c.Bad("C42-R1", key, b.Pos(), DeclName(fd)+" calls readOnlyCheck but does not keep its error")
				continue
			}
			from, _ := FindNode(g, chk)
			onlyErr := func(bl *cfg.Block, succ int) bool {
				if o, nonNil, ok := ErrNilEdge(info, bl, succ); ok && o == errObj {
					return nonNil
				}
				return true
			}
			if p := PathAvoiding(g, from, nil, isBuild, onlyErr); p != nil {
				c.Bad("C42-R1", key, b.Pos(), DeclName(fd)+" still executes the plan when readOnlyCheck returned an error", c.P.DescribePath(p)...)
				continue
			}
			c.Ok("C42-R1", key, b.Pos(), "dominated by readOnlyCheck, unreachable on its error edge")
		}
	})
}

// ---- R4

func c42R4(c *Ctx, cf c42Cfg) {
	an := c.P.Pkg(cf.analyzer)
	if an == nil {
		c.Undecided("C42-R4", "analyzer", 0, "package not loaded")
		return
	}
	info := an.TypesInfo
	for _, vn := range cf.validators {
		fn := LookupFunc(an, vn)
		fd := c.P.Decl(fn)
		if fd == nil {
			c.Undecided("C42-R4", vn, 0, "validation rule not found")
			continue
		}
		// registered: used as a value inside a composite literal element of a package-level rule table
		// whose variable name mentions "Validation"
		registered := ""
		for _, f := range an.Syntax {
			for _, d := range f.Decls {
				gd, ok := d.(*ast.GenDecl)
				if !ok || gd.Tok != token.VAR {
					continue
				}
				for _, sp := range gd.Specs {
					vs := sp.(*ast.ValueSpec)
					for i, nm := range vs.Names {
						if i >= len(vs.Values) {
							continue
						}
						ast.Inspect(vs.Values[i], func(n ast.Node) bool {
							if id, ok := n.(*ast.Ident); ok && info.Uses[id] == fn {
								registered = nm.Name
							}
							return true
						})
					}
				}
			}
		}
		// returns a read-only error: a return whose error result is built from an error kind named ErrReadOnly*
		rejects := false
		ast.Inspect(fd.Body, func(n ast.Node) bool {
			ret, ok := n.(*ast.ReturnStmt)
			if !ok {
				return true
			}
			for _, r := range ret.Results {
				ast.Inspect(r, func(m ast.Node) bool {
					if id, ok := m.(*ast.Ident); ok && strings.HasPrefix(id.Name, "ErrReadOnly") {
						rejects = true
					}
					return true
				})
			}
			return true
		})
		ok := registered != "" && rejects
		why := ""
		if registered == "" {
			why = "is not referenced from any package-level rule table of the analyzer: the rule never runs"
		} else if !rejects {
			why = "never returns a read-only error"
		}
		c.Check(ok, "C42-R4", vn, fd.Pos(), "registered in rule table "+registered+" and rejects with a read-only error", vn+" "+why)
	}
}

// c42IsIter: the named type (or its pointer) has Next and Close methods: a row iterator whose
// methods run when the statement executes.
func c42IsIter(nt *types.Named) bool {
	ms := types.NewMethodSet(types.NewPointer(nt))
	return ms.Lookup(nt.Obj().Pkg(), "Next") != nil && ms.Lookup(nt.Obj().Pkg(), "Close") != nil
}

func c42InModule(c *Ctx, p *types.Package) bool {
	if p == nil {
		return false
	}
	pk := c.P.ByPath[p.Path()]
	return pk != nil && pk.Module != nil && pk.Module.Main
}

// c42R4b: the analyzer's per-node fast paths (getBatchesForNode) replace the default rule batches
// by hand-written ones; for a node that is not constant-true read-only, the hand-written batches
// must still contain every read-only validation rule.
func c42R4b(c *Ctx, cf c42Cfg, roOf map[string]string) {
	an := c.P.Pkg(cf.analyzer)
	if an == nil {
		return
	}
	info := an.TypesInfo
	_, fd := c.P.FuncDecl(cf.analyzer, "getBatchesForNode")
	if fd == nil {
		if !c.fixtureMode {
			c.Undecided("C42-R4", "getBatchesForNode", 0, "fast-path batch selector not found")
		}
		return
	}
	var vals []*types.Func
	for _, vn := range cf.validators {
		if fn := LookupFunc(an, vn); fn != nil {
			vals = append(vals, fn)
		}
	}
	// rule functions referenced by an expression, following package-level rule tables once
	var refs func(n ast.Node, depth int, out map[*types.Func]bool)
	refs = func(n ast.Node, depth int, out map[*types.Func]bool) {
		ast.Inspect(n, func(m ast.Node) bool {
			id, ok := m.(*ast.Ident)
			if !ok {
				return true
			}
			switch o := info.Uses[id].(type) {
			case *types.Func:
				out[o] = true
			case *types.Var:
				if o.Parent() == an.Types.Scope() && depth < 2 {
					for _, f := range an.Syntax {
						for _, d := range f.Decls {
							if gd, ok := d.(*ast.GenDecl); ok && gd.Tok == token.VAR {
								for _, sp := range gd.Specs {
									vs := sp.(*ast.ValueSpec)
									for i, nm := range vs.Names {
										if info.Defs[nm] == o && i < len(vs.Values) {
											refs(vs.Values[i], depth+1, out)
										}
									}
								}
							}
						}
					}
				}
			}
			return true
		})
	}
	ast.Inspect(fd.Body, func(n ast.Node) bool {
		ts, ok := n.(*ast.TypeSwitchStmt)
		if !ok {
			return true
		}
		for _, cs := range ts.Body.List {
			cc := cs.(*ast.CaseClause)
			for _, tx := range cc.List {
				name := types.ExprString(tx)
				if k := strings.LastIndex(name, "."); k >= 0 {
					name = name[k+1:]
				}
				// every return of a non-nil batch list in this clause
				ast.Inspect(cc, func(m ast.Node) bool {
					ret, ok := m.(*ast.ReturnStmt)
					if !ok || len(ret.Results) == 0 {
						return true
					}
					// `return …, false` declines the fast path: the default batches run
					if len(ret.Results) == 2 {
						if tv, has := info.Types[ret.Results[1]]; has && tv.Value != nil && tv.Value.String() == "false" {
							return true
						}
					}
					if isNilIdent(info, ret.Results[0]) {
						if roOf[name] == "false" {
							c.Bad("C42-R4", "getBatchesForNode/"+name, ret.Pos(), "the fast path for plan."+name+" runs no analyzer rule at all although the node is a writer (IsReadOnly constant false): the read-only validations are skipped")
						}
						return true
					}
					got := map[*types.Func]bool{}
					refs(ret.Results[0], 0, got)
					for _, v := range vals {
						key := "getBatchesForNode/" + name + "/" + v.Name()
						if roOf[name] != "false" {
							c.Ok("C42-R4", key, ret.Pos(), "not a writer node (IsReadOnly "+roOf[name]+"): the read-only validations only act on writer and lock nodes")
							continue
						}
						c.Check(got[v], "C42-R4", key, ret.Pos(), "fast-path batches include the rule", "the hand-written rule batches for plan."+name+" do not include "+v.Name()+": statements taking this fast path skip the read-only validation")
					}
					return true
				})
			}
		}
		return false
	})
}
