package main

import (
	"fmt"
	"go/ast"
	"go/token"
	"go/types"

	"golang.org/x/tools/go/packages"
)

// C47 — in-memory indexed sets behave like sets (update-all-indexes clause).
//
// An IndexedSet is n MultiMaps ("indexes"), one per Keyer; "every index holds every element
// under the key its keyer computes" is the representation invariant behind GetMany/Get/Count.
// The rules decide, from syntax + types, that the invariant cannot be broken by the code that
// can touch the representation: who may write MultiMap.entries and under which key (M1-M3),
// that every reference to IndexedSet.Indexes/Keyers in the loaded packages has one of a few
// closed shapes (I2), that every mutating call on an index sits unconditionally in a loop over
// *all* keyers/indexes with the key computed by the matching keyer (I1), that reads pick the
// index matching the keyer (I3) and that the constructor builds one initialised index per keyer (I4).

type c47Anchors struct {
	pkgRel              string
	mmType, entries     string
	setType             string
	keyers, indexes     string
	newMM, newSet       string
	mutators            []string // frozen: MultiMap methods allowed to write entries
	floors              [7]int   // M1 M2 M3 I1 I2 I3 I4
}

func init() {
	register(&Property{
		ID:       "C47",
		Patterns: []string{"./sql/in_mem_table", "./sql/mysql_db"},
		Explanation: "Decided for sql/in_mem_table (and every loaded package that can name its fields): (M1) MultiMap.entries is written only by MultiMap.Put/Remove/Clear, constructed " +
			"only in NewMultiMap, and never aliased out of a method; (M2) inside MultiMap's methods every lookup/store/delete on entries uses the method's key parameter (the map key " +
			"type is `any`, so a wrong variable still type-checks), Clear deletes the ranged key, and Put stores append(entries[k], v) of its value parameter; (M3) GetMany returns a " +
			"fresh copy, never the stored slice; (I1) every mutating MultiMap call on an index of an IndexedSet is an unconditional statement of a `range` loop over all Keyers/Indexes " +
			"of the same set with no break/continue/return, addresses Indexes[loop key] and passes the key computed by that iteration's keyer from the same value; (I2) every reference " +
			"to IndexedSet.Indexes / Keyers is one of the closed read shapes (method call on an element, range, len, element read) so no other code can mutate or alias them; (I3) reads " +
			"address the index that matches the keyer (loop key under `x == keyer`, or the same constant position for keyer and index); (I4) IndexedSet values are built only by " +
			"NewIndexedSet, with both slices of length len(keyers) and every index initialised. A violated clause lets one index disagree with another, i.e. GetMany/Count stop " +
			"returning exactly the stored elements.",
		NotCovered: "set-vs-bag behaviour of repeated Put, the caller-supplied Equals and Keyer functions, MultiMap.Remove's filtering loop, the table editors' primary-key protocol",
		Technique:  "who-may-write/construct over go/types + loop-shape on the AST",
		Run: func(c *Ctx) {
			runC47(c, c47Anchors{pkgRel: "sql/in_mem_table", mmType: "MultiMap", entries: "entries", setType: "IndexedSet", keyers: "Keyers", indexes: "Indexes",
				newMM: "NewMultiMap", newSet: "NewIndexedSet", mutators: []string{"Put", "Remove", "Clear"}, floors: [7]int{5, 9, 1, 3, 23, 4, 2}})
		},
		Fixture: func(c *Ctx, fx *Prog) {
			fa := func(rel string) c47Anchors {
				return c47Anchors{pkgRel: rel, mmType: "MultiMap", entries: "entries", setType: "IndexedSet", keyers: "Keyers", indexes: "Indexes",
					newMM: "NewMultiMap", newSet: "NewIndexedSet", mutators: []string{"Put", "Remove", "Clear"}}
			}
			expectFixture(c, fx, "c47 good: reference shapes accepted", nil, func(fc *Ctx) { runC47(fc, fa("testdata/c47/good")) })
			expectFixture(c, fx, "c47 bad: first-index-only Put, early break in Remove, wrong keyer, foreign writer, aliasing GetMany, wrong key variable",
				[]string{
					"C47-I1:IndexedSet.Put/Indexes[].Put",
					"C47-I1:IndexedSet.Remove/Indexes[].Remove",
					"C47-I1:IndexedSet.Replace/Indexes[].Put",
					"C47-I2:IndexedSet.Drop/Indexes",
					"C47-I2:IndexedSet.Drop/Indexes#2",
					"C47-I3:IndexedSet.GetMany/Indexes[].GetMany",
					"C47-I4:Leak/IndexedSet{}",
					"C47-M1:MultiMap.Poke/entries[]=",
					"C47-M1:MultiMap.Raw/entries(alias)",
					"C47-M2:MultiMap.Remove/delete(entries)",
					"C47-M2:MultiMap.Put/append",
					"C47-M3:MultiMap.GetMany/copy",
				},
				func(fc *Ctx) { runC47(fc, fa("testdata/c47/bad")) })
		},
		FixturePkgs: []string{"./testdata/c47/good", "./testdata/c47/bad"},
	})
}

type c47State struct {
	c          *Ctx
	a          c47Anchors
	pk         *packages.Package
	entriesVar *types.Var
	keyersVar  *types.Var
	indexesVar *types.Var
	mmNamed    *types.TypeName
	setNamed   *types.TypeName
	mutators   map[string]bool
}

func c47FieldVar(tn *types.TypeName, name string) *types.Var {
	if tn == nil {
		return nil
	}
	st, ok := tn.Type().Underlying().(*types.Struct)
	if !ok {
		return nil
	}
	for i := 0; i < st.NumFields(); i++ {
		if st.Field(i).Name() == name {
			return st.Field(i)
		}
	}
	return nil
}

// c47SelField returns the (generic-origin) struct field a selector expression denotes.
func c47SelField(info *types.Info, e ast.Expr) *types.Var {
	sel, ok := ast.Unparen(e).(*ast.SelectorExpr)
	if !ok {
		return nil
	}
	s := info.Selections[sel]
	if s == nil || s.Kind() != types.FieldVal {
		return nil
	}
	v, _ := s.Obj().(*types.Var)
	if v == nil {
		return nil
	}
	return v.Origin()
}

func c47NamedOf(t types.Type) *types.TypeName {
	if t == nil {
		return nil
	}
	if p, ok := t.(*types.Pointer); ok {
		t = p.Elem()
	}
	if n, ok := types.Unalias(t).(*types.Named); ok {
		return n.Origin().Obj()
	}
	return nil
}

// c47Walk visits n with the stack of ancestors (stack[len-1] is n's parent).
func c47Walk(root ast.Node, f func(n ast.Node, stack []ast.Node)) {
	var stack []ast.Node
	ast.Inspect(root, func(n ast.Node) bool {
		if n == nil {
			stack = stack[:len(stack)-1]
			return false
		}
		f(n, stack)
		stack = append(stack, n)
		return true
	})
}

func c47Parent(stack []ast.Node, up int) ast.Node {
	// skip parens
	i := len(stack) - 1
	for ; i >= 0; i-- {
		if _, ok := stack[i].(*ast.ParenExpr); ok {
			continue
		}
		if up == 0 {
			return stack[i]
		}
		up--
	}
	return nil
}

func runC47(c *Ctx, a c47Anchors) {
	c.Rule("C47-M1", "MultiMap.entries is written only in MultiMap.Put/Remove/Clear, constructed only in NewMultiMap, never aliased", a.floors[0])
	c.Rule("C47-M2", "inside MultiMap methods every entries[·]/delete uses the method's key parameter (Clear: the ranged key); Put stores append(entries[k], v)", a.floors[1])
	c.Rule("C47-M3", "MultiMap.GetMany returns nil or a slice it made itself (copy), never the stored slice", a.floors[2])
	c.Rule("C47-I1", "every mutating MultiMap call on an IndexedSet index: unconditional in a break-free range loop over all Keyers/Indexes, on Indexes[loop key], key = that keyer's GetKey(v)", a.floors[3])
	c.Rule("C47-I2", "every reference to IndexedSet.Indexes/Keyers has a closed shape: X.Indexes[e].Method(…), range, len, X.Keyers[e] read", a.floors[4])
	c.Rule("C47-I3", "index reads match the keyer: Indexes[loop key] under `loopValue == keyerParam`, or Indexes[c] with key from Keyers[c]", a.floors[5])
	c.Rule("C47-I4", "IndexedSet literals only in NewIndexedSet; both slices made with len(keyers); every index initialised in a full loop", a.floors[6])

	pk := c.P.Pkg(a.pkgRel)
	if pk == nil {
		c.Undecided("C47-M1", "package", 0, "package "+a.pkgRel+" not loaded")
		return
	}
	s := &c47State{c: c, a: a, pk: pk, mutators: map[string]bool{}}
	s.mmNamed, _ = pk.Types.Scope().Lookup(a.mmType).(*types.TypeName)
	s.setNamed, _ = pk.Types.Scope().Lookup(a.setType).(*types.TypeName)
	s.entriesVar = c47FieldVar(s.mmNamed, a.entries)
	s.keyersVar = c47FieldVar(s.setNamed, a.keyers)
	s.indexesVar = c47FieldVar(s.setNamed, a.indexes)
	if s.entriesVar == nil || s.keyersVar == nil || s.indexesVar == nil {
		c.Undecided("C47-M1", "types", 0, fmt.Sprintf("anchor types/fields not found: %s.%s, %s.%s/%s", a.mmType, a.entries, a.setType, a.keyers, a.indexes))
		return
	}
	for _, m := range a.mutators {
		s.mutators[m] = true
	}
	pkgs := c.P.Module
	if c.fixtureMode {
		pkgs = []*packages.Package{pk}
	}
	for _, upk := range pkgs {
		for _, file := range upk.Syntax {
			for _, d := range file.Decls {
				switch fd := d.(type) {
				case *ast.FuncDecl:
					if fd.Body != nil {
						s.checkFunc(upk, fd)
					}
				case *ast.GenDecl:
					// package-level initialisers may not build or touch the representation
					c47Walk(fd, func(n ast.Node, stack []ast.Node) {
						if cl, ok := n.(*ast.CompositeLit); ok {
							if tn := c47NamedOf(upk.TypesInfo.TypeOf(cl)); tn != nil && (tn == s.mmNamed || tn == s.setNamed) {
								rule := "C47-M1"
								if tn == s.setNamed {
									rule = "C47-I4"
								}
								c.Bad(rule, "package-level/"+tn.Name()+"{}", cl.Pos(), tn.Name()+" composite literal in a package-level declaration (only the constructor may build the representation)")
							}
						}
					})
				}
			}
		}
	}
	s.checkConstructor()
}

func (s *c47State) checkFunc(upk *packages.Package, fd *ast.FuncDecl) {
	c, info := s.c, upk.TypesInfo
	fname := DeclName(fd)
	if upk != s.pk {
		fname = FuncName(info.Defs[fd.Name].(*types.Func))
	}
	isMMMethod := false
	if fd.Recv != nil && len(fd.Recv.List) == 1 {
		if c47NamedOf(info.TypeOf(fd.Recv.List[0].Type)) == s.mmNamed && upk == s.pk {
			isMMMethod = true
		}
	}
	// key parameter of a MultiMap method: the first parameter whose type is the map's key type
	var keyParam, valParam types.Object
	if isMMMethod {
		mt, _ := s.entriesVar.Type().Underlying().(*types.Map)
		for _, f := range fd.Type.Params.List {
			for _, nm := range f.Names {
				o := info.Defs[nm]
				if o == nil {
					continue
				}
				if mt != nil && keyParam == nil && types.Identical(o.Type(), mt.Key()) {
					keyParam = o
				} else if valParam == nil {
					if _, isSig := o.Type().Underlying().(*types.Signature); !isSig {
						valParam = o
					}
				}
			}
		}
	}
	isObj := func(e ast.Expr, o types.Object) bool {
		id, ok := ast.Unparen(e).(*ast.Ident)
		return ok && o != nil && (info.Uses[id] == o || info.Defs[id] == o)
	}
	// the ranged key of an enclosing `range X.entries` loop
	rangedEntriesKey := func(stack []ast.Node, e ast.Expr) bool {
		for i := len(stack) - 1; i >= 0; i-- {
			if rs, ok := stack[i].(*ast.RangeStmt); ok && c47SelField(info, rs.X) == s.entriesVar && rs.Key != nil {
				if kid, ok := rs.Key.(*ast.Ident); ok && isObj(e, info.Defs[kid]) {
					return true
				}
			}
		}
		return false
	}
	checkKey := func(what string, pos token.Pos, stack []ast.Node, k ast.Expr) {
		key := fname + "/" + what
		if !isMMMethod {
			return // reported by M1 as a foreign access
		}
		if (keyParam != nil && isObj(k, keyParam)) || rangedEntriesKey(stack, k) {
			c.Ok("C47-M2", key, pos, "keyed by the method's key parameter / ranged key")
		} else {
			c.Bad("C47-M2", key, pos, fmt.Sprintf("%s is keyed by `%s`, not by the method's key parameter (map key type is any: this type-checks but addresses another bucket)", what, types.ExprString(k)))
		}
	}

	c47Walk(fd.Body, func(n ast.Node, stack []ast.Node) {
		switch x := n.(type) {
		case *ast.CompositeLit:
			tn := c47NamedOf(info.TypeOf(x))
			if tn == s.mmNamed {
				if upk == s.pk && fd.Recv == nil && fd.Name.Name == s.a.newMM {
					c.Ok("C47-M1", fname+"/"+s.a.mmType+"{}", x.Pos(), "constructor")
				} else {
					c.Bad("C47-M1", fname+"/"+s.a.mmType+"{}", x.Pos(), s.a.mmType+" built outside "+s.a.newMM+" (entries may be nil or shared)")
				}
			}
			if tn == s.setNamed {
				if upk == s.pk && fd.Recv == nil && fd.Name.Name == s.a.newSet {
					c.Ok("C47-I4", fname+"/"+s.a.setType+"{}", x.Pos(), "constructor")
				} else {
					c.Bad("C47-I4", fname+"/"+s.a.setType+"{}", x.Pos(), s.a.setType+" built outside "+s.a.newSet+" (index/keyer slices may disagree)")
				}
			}
		case *ast.SelectorExpr:
			fv := c47SelField(info, x)
			switch fv {
			case s.entriesVar:
				s.classifyEntriesRef(upk, fd, fname, isMMMethod, x, stack, checkKey, valParam, keyParam)
			case s.indexesVar, s.keyersVar:
				s.classifySetRef(upk, fd, fname, x, fv, stack)
			}
		}
	})

	// M3: GetMany returns a copy
	if isMMMethod && fd.Name.Name == "GetMany" {
		bad := ""
		inspectNoLit(fd.Body, func(n ast.Node) bool {
			rs, ok := n.(*ast.ReturnStmt)
			if !ok {
				return true
			}
			for _, r := range rs.Results {
				r = ast.Unparen(r)
				if isNilIdent(info, r) {
					continue
				}
				id, ok := r.(*ast.Ident)
				if !ok || !c47DefinedByMake(info, fd.Body, info.Uses[id]) {
					bad = fmt.Sprintf("returns `%s` at %s, which is not a slice made in this method", types.ExprString(r), c.P.Rel(rs.Pos()))
				}
			}
			return true
		})
		if bad != "" {
			c.Bad("C47-M3", fname+"/copy", fd.Pos(), "GetMany "+bad+": callers (RemoveMany iterates while removing; editors keep the slice) would alias the index")
		} else {
			c.Ok("C47-M3", fname+"/copy", fd.Pos(), "returns nil or a freshly made copy")
		}
	}
}

// c47DefinedByMake: o's only definition in body is `o := make(…)` and it is never re-assigned.
func c47DefinedByMake(info *types.Info, body *ast.BlockStmt, o types.Object) bool {
	if o == nil {
		return false
	}
	defs, bad := 0, false
	ast.Inspect(body, func(n ast.Node) bool {
		as, ok := n.(*ast.AssignStmt)
		if !ok {
			return true
		}
		for i, l := range as.Lhs {
			id, ok := l.(*ast.Ident)
			if !ok || (info.Defs[id] != o && info.Uses[id] != o) {
				continue
			}
			if len(as.Lhs) != len(as.Rhs) {
				bad = true
				continue
			}
			call, ok := ast.Unparen(as.Rhs[i]).(*ast.CallExpr)
			if ok && IsBuiltinCall(info, call, "make") {
				defs++
			} else {
				bad = true
			}
		}
		return true
	})
	return defs == 1 && !bad
}

func (s *c47State) classifyEntriesRef(upk *packages.Package, fd *ast.FuncDecl, fname string, isMMMethod bool, sel *ast.SelectorExpr, stack []ast.Node,
	checkKey func(string, token.Pos, []ast.Node, ast.Expr), valParam, keyParam types.Object) {
	c, info := s.c, upk.TypesInfo
	p0 := c47Parent(stack, 0)
	p1 := c47Parent(stack, 1)
	writerOK := isMMMethod && s.mutators[fd.Name.Name]
	reportWrite := func(what string, pos token.Pos) {
		key := fname + "/" + what
		if writerOK {
			c.Ok("C47-M1", key, pos, "write in a frozen mutator")
		} else {
			c.Bad("C47-M1", key, pos, "MultiMap.entries is written outside MultiMap.{Put,Remove,Clear}: an index can change without its siblings")
		}
	}
	switch p := p0.(type) {
	case *ast.IndexExpr:
		if ast.Unparen(p.X) != ast.Expr(sel) {
			break
		}
		// entries[k]: store or load?
		if as, ok := p1.(*ast.AssignStmt); ok {
			for _, l := range as.Lhs {
				if ast.Unparen(l) == ast.Expr(p) {
					reportWrite("entries[]=", p.Pos())
					checkKey("entries[]=", p.Pos(), stack, p.Index)
					if isMMMethod && fd.Name.Name == "Put" {
						s.checkPutAppend(info, fname, as, p, valParam)
					}
					return
				}
			}
		}
		if u, ok := p1.(*ast.UnaryExpr); ok && u.Op == token.AND {
			c.Bad("C47-M1", fname+"/entries(alias)", p.Pos(), "address of an entries bucket taken")
			return
		}
		if !isMMMethod {
			c.Bad("C47-M1", fname+"/entries(read)", p.Pos(), "entries read outside MultiMap's methods")
			return
		}
		checkKey("entries[]", p.Pos(), stack, p.Index)
		return
	case *ast.CallExpr:
		if IsBuiltinCall(info, p, "delete") && len(p.Args) == 2 && ast.Unparen(p.Args[0]) == ast.Expr(sel) {
			reportWrite("delete(entries)", p.Pos())
			checkKey("delete(entries)", p.Pos(), stack, p.Args[1])
			return
		}
		if IsBuiltinCall(info, p, "len") && isMMMethod {
			return
		}
	case *ast.RangeStmt:
		if ast.Unparen(p.X) == ast.Expr(sel) && isMMMethod {
			return // iteration; element slices read by value
		}
	case *ast.AssignStmt:
		for _, l := range p.Lhs {
			if ast.Unparen(l) == ast.Expr(sel) {
				reportWrite("entries=", sel.Pos())
				return
			}
		}
	}
	c.Bad("C47-M1", fname+"/entries(alias)", sel.Pos(), "entries map escapes (passed, returned or stored): it can then be mutated outside Put/Remove/Clear")
}

func (s *c47State) checkPutAppend(info *types.Info, fname string, as *ast.AssignStmt, lhs *ast.IndexExpr, valParam types.Object) {
	c := s.c
	ok := false
	if len(as.Lhs) == 1 && len(as.Rhs) == 1 {
		if call, isCall := ast.Unparen(as.Rhs[0]).(*ast.CallExpr); isCall && IsBuiltinCall(info, call, "append") && len(call.Args) == 2 && !call.Ellipsis.IsValid() {
			if ix, isIx := ast.Unparen(call.Args[0]).(*ast.IndexExpr); isIx && c47SelField(info, ix.X) == s.entriesVar &&
				types.ExprString(ix.Index) == types.ExprString(lhs.Index) && types.ExprString(ix.X) == types.ExprString(lhs.X) {
				if id, isId := ast.Unparen(call.Args[1]).(*ast.Ident); isId && valParam != nil && info.Uses[id] == valParam {
					ok = true
				}
			}
		}
	}
	if ok {
		c.Ok("C47-M2", fname+"/append", as.Pos(), "Put stores append(entries[k], v)")
	} else {
		c.Bad("C47-M2", fname+"/append", as.Pos(), "Put does not store append(entries[k], v) of its own key/value parameters: existing elements are lost or a different value is stored")
	}
}

// enclosingRange finds the innermost range statement around the node (not crossing a
// function literal) and the index into stack where its body starts.
func c47EnclosingRange(stack []ast.Node) (*ast.RangeStmt, int) {
	for i := len(stack) - 1; i >= 0; i-- {
		switch x := stack[i].(type) {
		case *ast.FuncLit:
			return nil, -1
		case *ast.RangeStmt:
			if i+1 < len(stack) && stack[i+1] == ast.Node(x.Body) {
				return x, i + 1
			}
			return nil, -1 // inside the range header
		}
	}
	return nil, -1
}

func (s *c47State) classifySetRef(upk *packages.Package, fd *ast.FuncDecl, fname string, sel *ast.SelectorExpr, fv *types.Var, stack []ast.Node) {
	c, info := s.c, upk.TypesInfo
	field := fv.Name()
	key := fname + "/" + field
	p0 := c47Parent(stack, 0)
	p1 := c47Parent(stack, 1)
	p2 := c47Parent(stack, 2)
	switch p := p0.(type) {
	case *ast.CallExpr:
		if IsBuiltinCall(info, p, "len") {
			c.Ok("C47-I2", key, sel.Pos(), "len()")
			return
		}
	case *ast.RangeStmt:
		if ast.Unparen(p.X) != ast.Expr(sel) {
			break
		}
		if fv == s.keyersVar {
			c.Ok("C47-I2", key, sel.Pos(), "range over Keyers")
			return
		}
		// range over Indexes: the value variable may only be the receiver of MultiMap method calls
		var vObj types.Object
		if id, ok := p.Value.(*ast.Ident); ok && id.Name != "_" {
			vObj = info.Defs[id]
		}
		okUse := true
		if vObj != nil {
			c47Walk(p.Body, func(n ast.Node, st []ast.Node) {
				id, ok := n.(*ast.Ident)
				if !ok || info.Uses[id] != vObj {
					return
				}
				se, _ := c47Parent(st, 0).(*ast.SelectorExpr)
				call, _ := c47Parent(st, 1).(*ast.CallExpr)
				if se == nil || call == nil || ast.Unparen(se.X) != ast.Expr(id) || ast.Unparen(call.Fun) != ast.Expr(se) {
					okUse = false
					return
				}
				if m := Callee(info, call); m != nil && s.mutators[m.Name()] {
					// the loop is the "all indexes" loop itself: receiver is this loop's value
					full := append(append([]ast.Node{}, stack...), st...) // stack ends with the RangeStmt, st starts with its body
					for len(full) > 0 && full[len(full)-1] != ast.Node(call) {
						full = full[:len(full)-1]
					}
					if len(full) > 0 {
						full = full[:len(full)-1]
					}
					s.checkMutatingCall(upk, fd, fname, call, m, full, nil, id)
				}
			})
		}
		if okUse {
			c.Ok("C47-I2", key, sel.Pos(), "range over Indexes, element used only as a method receiver")
		} else {
			c.Bad("C47-I2", key, sel.Pos(), "an index taken from `range Indexes` is used other than as the receiver of a MultiMap method (alias)")
		}
		return
	case *ast.IndexExpr:
		if ast.Unparen(p.X) != ast.Expr(sel) {
			break
		}
		// X.F[e]: not a store target, not addressed
		if as, ok := p1.(*ast.AssignStmt); ok {
			for _, l := range as.Lhs {
				if ast.Unparen(l) == ast.Expr(p) {
					c.Bad("C47-I2", key, p.Pos(), "element of "+field+" is overwritten")
					return
				}
			}
		}
		if u, ok := p1.(*ast.UnaryExpr); ok && u.Op == token.AND {
			c.Bad("C47-I2", key, p.Pos(), "address of an element of "+field+" taken")
			return
		}
		if fv == s.keyersVar {
			c.Ok("C47-I2", key, sel.Pos(), "Keyers[e] read")
			return
		}
		// Indexes[e] must be the receiver of a MultiMap method call
		se, _ := p1.(*ast.SelectorExpr)
		call, _ := p2.(*ast.CallExpr)
		if se == nil || call == nil || ast.Unparen(se.X) != ast.Expr(p) || ast.Unparen(call.Fun) != ast.Expr(se) {
			c.Bad("C47-I2", key, p.Pos(), "Indexes[e] is used other than as the receiver of a MultiMap method call (copying a MultiMap aliases its entries map)")
			return
		}
		m := Callee(info, call)
		if m == nil {
			c.Undecided("C47-I2", key, p.Pos(), "callee on Indexes[e] not resolved")
			return
		}
		c.Ok("C47-I2", key, sel.Pos(), "Indexes[e]."+m.Name()+"(…)")
		// stack of the call: drop the two innermost ancestors (IndexExpr, SelectorExpr) and parens
		cs := stack
		for len(cs) > 0 && cs[len(cs)-1] != ast.Node(call) {
			cs = cs[:len(cs)-1]
		}
		if len(cs) > 0 {
			cs = cs[:len(cs)-1]
		}
		if s.mutators[m.Name()] {
			s.checkMutatingCall(upk, fd, fname, call, m, cs, p, nil)
		} else {
			s.checkReadCall(upk, fd, fname, call, m, cs, p, sel)
		}
		return
	}
	c.Bad("C47-I2", key, sel.Pos(), field+" is referenced outside the closed shapes (method call on an element, range, len, element read): it may be re-sliced, replaced or aliased")
}

// c47RootObj returns the object X of an expression X.Field (X an identifier), else nil.
func c47RootObj(info *types.Info, e ast.Expr) types.Object {
	sel, ok := ast.Unparen(e).(*ast.SelectorExpr)
	if !ok {
		return nil
	}
	id, ok := ast.Unparen(sel.X).(*ast.Ident)
	if !ok {
		return nil
	}
	return info.Uses[id]
}

// checkMutatingCall decides I1 for one call RECV.M(args). Either ix (RECV = X.Indexes[e]) or
// recvIdent (RECV = value variable of `range X.Indexes`) is set. stack = ancestors of call.
func (s *c47State) checkMutatingCall(upk *packages.Package, fd *ast.FuncDecl, fname string, call *ast.CallExpr, m *types.Func, stack []ast.Node, ix *ast.IndexExpr, recvIdent *ast.Ident) {
	c, info := s.c, upk.TypesInfo
	key := fname + "/Indexes[]." + m.Name()
	bad := func(msg string) { c.Bad("C47-I1", key, call.Pos(), msg) }
	loop, bodyAt := c47EnclosingRange(stack)
	if loop == nil {
		bad("mutating " + m.Name() + " on an index outside a loop over all Keyers/Indexes: the other indexes are not updated")
		return
	}
	lf := c47SelField(info, loop.X)
	if lf != s.keyersVar && lf != s.indexesVar {
		bad("the enclosing loop does not range over the set's Keyers/Indexes")
		return
	}
	var setObj types.Object
	if ix != nil {
		setObj = c47RootObj(info, ix.X)
	} else {
		setObj = c47RootObj(info, loop.X)
	}
	if setObj == nil || c47RootObj(info, loop.X) != setObj {
		bad("the loop ranges over another set's Keyers/Indexes than the one being mutated")
		return
	}
	var loopKey, loopVal types.Object
	if id, ok := loop.Key.(*ast.Ident); ok && id.Name != "_" {
		loopKey = info.Defs[id]
	}
	if id, ok := loop.Value.(*ast.Ident); ok && id.Name != "_" {
		loopVal = info.Defs[id]
	}
	if ix != nil {
		id, ok := ast.Unparen(ix.Index).(*ast.Ident)
		if !ok || loopKey == nil || info.Uses[id] != loopKey {
			bad(fmt.Sprintf("the mutated index is Indexes[%s], not Indexes[<loop key>]: not every index is updated", types.ExprString(ix.Index)))
			return
		}
	} else if lf != s.indexesVar || loopVal == nil || info.Uses[recvIdent] != loopVal {
		bad("receiver is not the element of this loop over Indexes")
		return
	}
	// no early exit from the loop
	var exit ast.Node
	inspectNoLit(loop.Body, func(n ast.Node) bool {
		switch x := n.(type) {
		case *ast.BranchStmt, *ast.ReturnStmt:
			if exit == nil {
				exit = x
			}
		case *ast.CallExpr:
			if IsBuiltinCall(info, x, "panic") && exit == nil {
				exit = x
			}
		}
		return true
	})
	if exit != nil {
		bad("the loop over all indexes contains a break/continue/return/goto/panic at " + c.P.Rel(exit.Pos()) + ": some indexes can be skipped")
		return
	}
	// unconditional inside the loop body
	for i := bodyAt; i < len(stack); i++ {
		var child ast.Node = call
		if i+1 < len(stack) {
			child = stack[i+1]
		}
		switch p := stack[i].(type) {
		case *ast.IfStmt:
			if child != ast.Node(p.Init) && child != ast.Node(p.Cond) {
				bad("the mutation is conditional (inside an if branch): some indexes can be skipped")
				return
			}
		case *ast.BinaryExpr:
			if (p.Op == token.LAND || p.Op == token.LOR) && child != ast.Node(p.X) {
				bad("the mutation is short-circuited by && / ||")
				return
			}
		case *ast.ForStmt, *ast.RangeStmt, *ast.SwitchStmt, *ast.TypeSwitchStmt, *ast.SelectStmt, *ast.CaseClause, *ast.CommClause, *ast.FuncLit, *ast.DeferStmt, *ast.GoStmt, *ast.LabeledStmt:
			bad(fmt.Sprintf("the mutation is nested in a %T inside the loop: not decidable as unconditional", p))
			return
		}
	}
	// key agreement: methods with a key parameter get key = <this iteration's keyer>.GetKey(v), value = v
	sig := m.Type().(*types.Signature)
	if sig.Params().Len() >= 2 {
		if len(call.Args) < 2 {
			bad("call shape not recognised")
			return
		}
		vId, ok := ast.Unparen(call.Args[1]).(*ast.Ident)
		if !ok {
			bad("the stored value is not a plain variable")
			return
		}
		vObj := info.Uses[vId]
		kexpr := ast.Unparen(call.Args[0])
		if id, ok := kexpr.(*ast.Ident); ok {
			def := c47UniqueDef(info, fd.Body, info.Uses[id])
			if def == nil {
				bad(fmt.Sprintf("key variable `%s` has no single definition to follow", id.Name))
				return
			}
			if !c47Within(def, loop.Body) {
				bad(fmt.Sprintf("key `%s` is computed outside the loop: every index receives the same keyer's key", id.Name))
				return
			}
			kexpr = ast.Unparen(def)
		}
		kc, ok := kexpr.(*ast.CallExpr)
		if !ok || len(kc.Args) != 1 {
			bad("key is not computed by a keyer's GetKey(v)")
			return
		}
		ks, ok := ast.Unparen(kc.Fun).(*ast.SelectorExpr)
		if !ok || ks.Sel.Name != "GetKey" {
			bad("key is not computed by a keyer's GetKey(v)")
			return
		}
		// the keyer: loop value of range X.Keyers, or X.Keyers[loop key]
		keyerOK := false
		switch r := ast.Unparen(ks.X).(type) {
		case *ast.Ident:
			keyerOK = lf == s.keyersVar && loopVal != nil && info.Uses[r] == loopVal
		case *ast.IndexExpr:
			if c47SelField(info, r.X) == s.keyersVar && c47RootObj(info, r.X) == setObj {
				if id, ok := ast.Unparen(r.Index).(*ast.Ident); ok && loopKey != nil && info.Uses[id] == loopKey {
					keyerOK = true
				}
			}
		}
		if !keyerOK {
			bad(fmt.Sprintf("key is computed by `%s`, not by this iteration's keyer: the element is filed under another index's key", types.ExprString(ks.X)))
			return
		}
		if aid, ok := ast.Unparen(kc.Args[0]).(*ast.Ident); !ok || info.Uses[aid] != vObj {
			bad("the key is computed from a different value than the one stored/removed")
			return
		}
	}
	c.Ok("C47-I1", key, call.Pos(), "unconditional in a full loop, Indexes[loop key], key from the matching keyer")
}

func c47Within(n ast.Node, outer ast.Node) bool {
	return n != nil && outer != nil && outer.Pos() <= n.Pos() && n.End() <= outer.End()
}

// c47UniqueDef returns the RHS of the only assignment to o in body (nil if none or several).
func c47UniqueDef(info *types.Info, body *ast.BlockStmt, o types.Object) ast.Expr {
	if o == nil {
		return nil
	}
	var rhs ast.Expr
	n := 0
	ast.Inspect(body, func(nd ast.Node) bool {
		switch x := nd.(type) {
		case *ast.AssignStmt:
			for i, l := range x.Lhs {
				id, ok := l.(*ast.Ident)
				if !ok || (info.Defs[id] != o && info.Uses[id] != o) {
					continue
				}
				n++
				if len(x.Lhs) == len(x.Rhs) {
					rhs = x.Rhs[i]
				} else {
					n++
				}
			}
		case *ast.IncDecStmt:
			if id, ok := x.X.(*ast.Ident); ok && info.Uses[id] == o {
				n += 2
			}
		case *ast.UnaryExpr:
			if id, ok := ast.Unparen(x.X).(*ast.Ident); ok && x.Op == token.AND && info.Uses[id] == o {
				n += 2
			}
		case *ast.RangeStmt:
			for _, e := range []ast.Expr{x.Key, x.Value} {
				if id, ok := e.(*ast.Ident); ok && (info.Defs[id] == o || info.Uses[id] == o) {
					n += 2
				}
			}
		}
		return true
	})
	if n != 1 {
		return nil
	}
	return rhs
}

// checkReadCall decides I3 for X.Indexes[e].R(…) with R a non-mutating MultiMap method.
func (s *c47State) checkReadCall(upk *packages.Package, fd *ast.FuncDecl, fname string, call *ast.CallExpr, m *types.Func, stack []ast.Node, ix *ast.IndexExpr, sel *ast.SelectorExpr) {
	c, info := s.c, upk.TypesInfo
	key := fname + "/Indexes[]." + m.Name()
	bad := func(msg string) { c.Bad("C47-I3", key, call.Pos(), msg) }
	setObj := c47RootObj(info, ix.X)
	sig := m.Type().(*types.Signature)
	mt, _ := s.entriesVar.Type().Underlying().(*types.Map)
	takesKey := sig.Params().Len() >= 1 && mt != nil && types.Identical(sig.Params().At(0).Type(), mt.Key())
	if tv, ok := info.Types[ix.Index]; ok && tv.Value != nil {
		// constant position
		if !takesKey {
			c.Ok("C47-I3", key, call.Pos(), "keyless read of index "+tv.Value.ExactString()+" (every index holds every element)")
			return
		}
		kexpr := ast.Unparen(call.Args[0])
		if id, ok := kexpr.(*ast.Ident); ok {
			if def := c47UniqueDef(info, fd.Body, info.Uses[id]); def != nil {
				kexpr = ast.Unparen(def)
			}
		}
		if kc, ok := kexpr.(*ast.CallExpr); ok {
			if ks, ok := ast.Unparen(kc.Fun).(*ast.SelectorExpr); ok && ks.Sel.Name == "GetKey" {
				if r, ok := ast.Unparen(ks.X).(*ast.IndexExpr); ok && c47SelField(info, r.X) == s.keyersVar && c47RootObj(info, r.X) == setObj {
					if tv2, ok := info.Types[r.Index]; ok && tv2.Value != nil && tv2.Value.ExactString() == tv.Value.ExactString() {
						c.Ok("C47-I3", key, call.Pos(), "Indexes[c] looked up with the key of Keyers[c]")
						return
					}
				}
			}
		}
		bad("Indexes[" + tv.Value.ExactString() + "] is looked up with a key not computed by Keyers[" + tv.Value.ExactString() + "].GetKey: wrong index for the key")
		return
	}
	loop, bodyAt := c47EnclosingRange(stack)
	if loop == nil || c47SelField(info, loop.X) != s.keyersVar || c47RootObj(info, loop.X) != setObj {
		bad("Indexes[e] with a non-constant e outside a loop over the same set's Keyers")
		return
	}
	var loopKey, loopVal types.Object
	if id, ok := loop.Key.(*ast.Ident); ok {
		loopKey = info.Defs[id]
	}
	if id, ok := loop.Value.(*ast.Ident); ok {
		loopVal = info.Defs[id]
	}
	if id, ok := ast.Unparen(ix.Index).(*ast.Ident); !ok || loopKey == nil || info.Uses[id] != loopKey {
		bad("Indexes[" + types.ExprString(ix.Index) + "] is not addressed by the loop key")
		return
	}
	// guarded by `loopVal == keyerParam`
	params := map[types.Object]bool{}
	for _, f := range fd.Type.Params.List {
		for _, nm := range f.Names {
			if o := info.Defs[nm]; o != nil {
				params[o] = true
			}
		}
	}
	guarded := false
	for i := bodyAt; i < len(stack); i++ {
		ifs, ok := stack[i].(*ast.IfStmt)
		if !ok || i+1 >= len(stack) || stack[i+1] != ast.Node(ifs.Body) {
			continue
		}
		be, ok := ast.Unparen(ifs.Cond).(*ast.BinaryExpr)
		if !ok || be.Op != token.EQL {
			continue
		}
		a, aok := ast.Unparen(be.X).(*ast.Ident)
		b, bok := ast.Unparen(be.Y).(*ast.Ident)
		if !aok || !bok {
			continue
		}
		ao, bo := info.Uses[a], info.Uses[b]
		if loopVal != nil && ((ao == loopVal && params[bo]) || (bo == loopVal && params[ao])) {
			guarded = true
		}
	}
	if !guarded {
		bad("the read of Indexes[loop key] is not guarded by `<loop keyer> == <keyer parameter>`: a different index than the requested one is read")
		return
	}
	if takesKey {
		if id, ok := ast.Unparen(call.Args[0]).(*ast.Ident); !ok || !params[info.Uses[id]] {
			bad("the lookup key is not the caller's key parameter")
			return
		}
	}
	c.Ok("C47-I3", key, call.Pos(), "Indexes[i] selected by Keyers[i] == keyer parameter")
}

// checkConstructor decides the shape half of I4 on NewIndexedSet.
func (s *c47State) checkConstructor() {
	c, info := s.c, s.pk.TypesInfo
	fn := LookupFunc(s.pk, s.a.newSet)
	fd := c.P.Decl(fn)
	key := s.a.newSet + "/shape"
	if fd == nil || fd.Body == nil {
		c.Undecided("C47-I4", key, 0, "constructor "+s.a.newSet+" not found")
		return
	}
	// the []Keyer parameter
	var kp types.Object
	for _, f := range fd.Type.Params.List {
		for _, nm := range f.Names {
			if o := info.Defs[nm]; o != nil {
				if _, ok := o.Type().Underlying().(*types.Slice); ok {
					kp = o
				}
			}
		}
	}
	var lit *ast.CompositeLit
	ast.Inspect(fd.Body, func(n ast.Node) bool {
		if cl, ok := n.(*ast.CompositeLit); ok && c47NamedOf(info.TypeOf(cl)) == s.setNamed {
			lit = cl
		}
		return true
	})
	if lit == nil || kp == nil {
		c.Bad("C47-I4", key, fd.Pos(), "constructor does not build an "+s.a.setType+" literal from a keyer slice parameter")
		return
	}
	// field values by name or position
	st := s.setNamed.Type().Underlying().(*types.Struct)
	vals := map[string]ast.Expr{}
	for i, e := range lit.Elts {
		if kv, ok := e.(*ast.KeyValueExpr); ok {
			if id, ok := kv.Key.(*ast.Ident); ok {
				vals[id.Name] = kv.Value
			}
		} else if i < st.NumFields() {
			vals[st.Field(i).Name()] = e
		}
	}
	madeWithLen := func(e ast.Expr) (types.Object, bool) {
		id, ok := ast.Unparen(e).(*ast.Ident)
		if !ok {
			return nil, false
		}
		o := info.Uses[id]
		def := c47UniqueDef(info, fd.Body, o)
		call, ok := ast.Unparen(def).(*ast.CallExpr)
		if def == nil || !ok || !IsBuiltinCall(info, call, "make") || len(call.Args) != 2 {
			return o, false
		}
		lc, ok := ast.Unparen(call.Args[1]).(*ast.CallExpr)
		if !ok || !IsBuiltinCall(info, lc, "len") || len(lc.Args) != 1 {
			return o, false
		}
		aid, ok := ast.Unparen(lc.Args[0]).(*ast.Ident)
		return o, ok && info.Uses[aid] == kp
	}
	_, kOK := madeWithLen(vals[s.a.keyers])
	idxObj, iOK := madeWithLen(vals[s.a.indexes])
	if vals[s.a.keyers] != nil {
		if id, ok := ast.Unparen(vals[s.a.keyers]).(*ast.Ident); ok && info.Uses[id] == kp {
			kOK = true // using the caller's slice directly has the same length
		}
	}
	if !kOK || !iOK {
		c.Bad("C47-I4", key, lit.Pos(), "Keyers and Indexes are not both made with len(<keyers parameter>): the slices can have different lengths (index out of range / unindexed keyer)")
		return
	}
	// every index initialised: `for i := range idxs { idxs[i] = NewMultiMap(…) }`
	inited := false
	ast.Inspect(fd.Body, func(n ast.Node) bool {
		rs, ok := n.(*ast.RangeStmt)
		if !ok {
			return true
		}
		rid, ok := ast.Unparen(rs.X).(*ast.Ident)
		if !ok || (info.Uses[rid] != idxObj && info.Uses[rid] != kp) || rs.Key == nil {
			return true
		}
		kid, ok := rs.Key.(*ast.Ident)
		if !ok {
			return true
		}
		exit := false
		inspectNoLit(rs.Body, func(m ast.Node) bool {
			switch m.(type) {
			case *ast.BranchStmt, *ast.ReturnStmt:
				exit = true
			}
			return true
		})
		if exit {
			return true
		}
		for _, stt := range rs.Body.List {
			as, ok := stt.(*ast.AssignStmt)
			if !ok || len(as.Lhs) != 1 || len(as.Rhs) != 1 {
				continue
			}
			ix, ok := as.Lhs[0].(*ast.IndexExpr)
			if !ok {
				continue
			}
			xid, ok1 := ast.Unparen(ix.X).(*ast.Ident)
			iid, ok2 := ast.Unparen(ix.Index).(*ast.Ident)
			call, ok3 := ast.Unparen(as.Rhs[0]).(*ast.CallExpr)
			if ok1 && ok2 && ok3 && info.Uses[xid] == idxObj && info.Uses[iid] == info.Defs[kid] {
				if f := Callee(info, call); f != nil && f.Origin().Name() == s.a.newMM {
					inited = true
				}
			}
		}
		return true
	})
	if !inited {
		c.Bad("C47-I4", key, lit.Pos(), "no break-free loop initialises every Indexes[i] with "+s.a.newMM+": an index would have a nil entries map")
		return
	}
	c.Ok("C47-I4", key, lit.Pos(), "both slices len(keyers); every index initialised")
}
