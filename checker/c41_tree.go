package main

import (
	"fmt"
	"go/ast"
	"go/constant"
	"go/token"
	"go/types"
	"sort"
	"strings"

	"golang.org/x/tools/go/packages"
)

// C41-P*: container coverage of the privilege-set tree.
//
// The in-memory privileges of an account are a small tree of struct types (a root set, per-database sets,
// per-table sets, ...). Every level keeps its privileges and its children in map/slice fields ("collections").
// A grant lives in exactly one collection of one level, so every operation that is about "the whole set" — the
// emptiness predicates, the filters that decide which children are listed for output/persistence, the
// serializer and the loader, union/equality/copy — has to look at EVERY collection of the level it handles.
// The rules below read the tree from the type declarations (nothing is keyed to a function or field name of
// the engine) and decide that coverage over finite truth tables (one boolean per collection: "holds something").

type c41tNode struct {
	named  *types.Named
	name   string
	coll   []string             // collection fields (map/slice), declaration order
	child  map[string]*c41tNode // collection field -> node of its elements (nil: leaf collection)
	fields map[string]*types.Var
}

type c41tUse struct {
	fields map[string]bool
	whole  bool // the value escapes as a whole: every field counts as used
}

func (u *c41tUse) has(f string) bool { return u != nil && (u.whole || u.fields[f]) }
func (u *c41tUse) merge(o *c41tUse) {
	if o == nil {
		return
	}
	if o.whole {
		u.whole = true
	}
	for f := range o.fields {
		u.fields[f] = true
	}
}
func c41tNewUse() *c41tUse { return &c41tUse{fields: map[string]bool{}} }

type c41tUseKey struct {
	fn  *types.Func
	idx int
}

type c41tTree struct {
	c       *Ctx
	pkg     *packages.Package
	nodes   []*c41tNode
	byObj   map[*types.TypeName]*c41tNode
	iface   map[*types.TypeName]*c41tNode
	useMemo map[c41tUseKey]*c41tUse
	parents map[*ast.FuncDecl]map[ast.Node]ast.Node
	family  map[string]bool // names of the emptiness-predicate family
	origins map[*types.Func]string
}

// c41tDiscover builds the tree from the root type: a node is a named struct type of the package; its collections
// are its map/slice fields; a collection whose element type is again a named struct type of the package is a child edge.
func c41tDiscover(c *Ctx, pkg *packages.Package, root string) *c41tTree {
	t := &c41tTree{c: c, pkg: pkg, byObj: map[*types.TypeName]*c41tNode{}, iface: map[*types.TypeName]*c41tNode{},
		useMemo: map[c41tUseKey]*c41tUse{}, parents: map[*ast.FuncDecl]map[ast.Node]ast.Node{}, family: map[string]bool{}, origins: map[*types.Func]string{}}
	tn, _ := pkg.Types.Scope().Lookup(root).(*types.TypeName)
	if tn == nil {
		return nil
	}
	var visit func(ty types.Type) *c41tNode
	visit = func(ty types.Type) *c41tNode {
		ty = types.Unalias(ty)
		if p, ok := ty.(*types.Pointer); ok {
			ty = types.Unalias(p.Elem())
		}
		nt, ok := ty.(*types.Named)
		if !ok || nt.Obj().Pkg() != pkg.Types {
			return nil
		}
		st, ok := nt.Underlying().(*types.Struct)
		if !ok {
			return nil
		}
		if n := t.byObj[nt.Obj()]; n != nil {
			return n
		}
		n := &c41tNode{named: nt, name: nt.Obj().Name(), child: map[string]*c41tNode{}, fields: map[string]*types.Var{}}
		t.byObj[nt.Obj()] = n
		t.nodes = append(t.nodes, n)
		for i := 0; i < st.NumFields(); i++ {
			f := st.Field(i)
			n.fields[f.Name()] = f
			var elem types.Type
			switch u := types.Unalias(f.Type()).Underlying().(type) {
			case *types.Map:
				elem = u.Elem()
			case *types.Slice:
				elem = u.Elem()
			default:
				continue
			}
			n.coll = append(n.coll, f.Name())
			if ch := visit(elem); ch != nil {
				n.child[f.Name()] = ch
			}
		}
		return n
	}
	if visit(tn.Type()) == nil {
		return nil
	}
	return t
}

// nodeOf maps a type to its tree node: the node's struct type, a pointer to it, or an interface of the analysed
// module that exactly one node type implements.
func (t *c41tTree) nodeOf(ty types.Type) *c41tNode {
	if ty == nil {
		return nil
	}
	ty = types.Unalias(ty)
	if p, ok := ty.(*types.Pointer); ok {
		ty = types.Unalias(p.Elem())
	}
	nt, ok := ty.(*types.Named)
	if !ok {
		return nil
	}
	if n := t.byObj[nt.Obj()]; n != nil {
		return n
	}
	it, ok := nt.Underlying().(*types.Interface)
	if !ok || it.NumMethods() == 0 || nt.Obj().Pkg() == nil {
		return nil
	}
	if n, ok := t.iface[nt.Obj()]; ok {
		return n
	}
	var found *c41tNode
	if pk := t.c.P.ByPath[nt.Obj().Pkg().Path()]; pk != nil && pk.Module != nil && pk.Module.Main {
		cnt := 0
		for _, n := range t.nodes {
			if types.Implements(n.named, it) || types.Implements(types.NewPointer(n.named), it) {
				found = n
				cnt++
			}
		}
		if cnt != 1 {
			found = nil
		}
	}
	t.iface[nt.Obj()] = found
	return found
}

func (t *c41tTree) methodOn(n *c41tNode, name string) *types.Func {
	obj, _, _ := types.LookupFieldOrMethod(types.NewPointer(n.named), true, n.named.Obj().Pkg(), name)
	fn, _ := obj.(*types.Func)
	if fn == nil {
		return nil
	}
	return fn.Origin()
}

// declaredMethods lists the methods declared on the node type (value and pointer receivers), sorted by name.
func (t *c41tTree) declaredMethods(n *c41tNode) []*types.Func {
	var out []*types.Func
	for i := 0; i < n.named.NumMethods(); i++ {
		out = append(out, n.named.Method(i).Origin())
	}
	sort.Slice(out, func(i, j int) bool { return out[i].Name() < out[j].Name() })
	return out
}

func (t *c41tTree) infoOf(fn *types.Func) *types.Info {
	if pk := t.c.P.PkgOf(fn); pk != nil {
		return pk.TypesInfo
	}
	return nil
}

func (t *c41tTree) parentMap(fd *ast.FuncDecl) map[ast.Node]ast.Node {
	if m, ok := t.parents[fd]; ok {
		return m
	}
	m := map[ast.Node]ast.Node{}
	var stack []ast.Node
	ast.Inspect(fd, func(n ast.Node) bool {
		if n == nil {
			stack = stack[:len(stack)-1]
			return false
		}
		if len(stack) > 0 {
			m[n] = stack[len(stack)-1]
		}
		stack = append(stack, n)
		return true
	})
	t.parents[fd] = m
	return m
}

// paramObj returns the object of the receiver (idx -1) or of the idx-th parameter of a declared function.
func c41tParamObj(info *types.Info, fd *ast.FuncDecl, idx int) types.Object {
	if idx < 0 {
		if fd.Recv == nil || len(fd.Recv.List) == 0 || len(fd.Recv.List[0].Names) == 0 {
			return nil
		}
		return info.Defs[fd.Recv.List[0].Names[0]]
	}
	i := 0
	for _, fl := range fd.Type.Params.List {
		if len(fl.Names) == 0 {
			i++
			continue
		}
		for _, nm := range fl.Names {
			if i == idx {
				return info.Defs[nm]
			}
			i++
		}
	}
	return nil
}

// c41tStrip removes the wrappers through which a value keeps denoting the same set: (x), x.(T), *x, &x.
func c41tStrip(e ast.Expr) ast.Expr {
	for {
		switch x := e.(type) {
		case *ast.ParenExpr:
			e = x.X
		case *ast.TypeAssertExpr:
			if x.Type == nil {
				return e
			}
			e = x.X
		case *ast.StarExpr:
			e = x.X
		case *ast.UnaryExpr:
			if x.Op != token.AND {
				return e
			}
			e = x.X
		default:
			return e
		}
	}
}

// c41tAliases: the local variables that may denote the same value as v (x := v, x := v.(T), x, ok := v.(T), x = *v).
func c41tAliases(info *types.Info, scope ast.Node, v types.Object) map[types.Object]bool {
	set := map[types.Object]bool{v: true}
	objOf := func(e ast.Expr) types.Object {
		id, ok := e.(*ast.Ident)
		if !ok {
			return nil
		}
		if o := info.Defs[id]; o != nil {
			return o
		}
		return info.Uses[id]
	}
	for changed := true; changed; {
		changed = false
		pair := func(lhs, rhs ast.Expr) {
			id, ok := c41tStrip(rhs).(*ast.Ident)
			if !ok || !set[info.Uses[id]] {
				return
			}
			if o := objOf(lhs); o != nil && !set[o] {
				if _, isVar := o.(*types.Var); isVar {
					set[o] = true
					changed = true
				}
			}
		}
		ast.Inspect(scope, func(n ast.Node) bool {
			switch s := n.(type) {
			case *ast.AssignStmt:
				if len(s.Lhs) == len(s.Rhs) {
					for i := range s.Lhs {
						pair(s.Lhs[i], s.Rhs[i])
					}
				} else if len(s.Rhs) == 1 && len(s.Lhs) == 2 {
					pair(s.Lhs[0], s.Rhs[0])
				}
			case *ast.ValueSpec:
				if len(s.Names) == len(s.Values) {
					for i := range s.Names {
						pair(s.Names[i], s.Values[i])
					}
				} else if len(s.Values) == 1 && len(s.Names) == 2 {
					pair(s.Names[0], s.Values[0])
				}
			}
			return true
		})
	}
	return set
}

// usesInFunc: which fields of its receiver (idx -1) / idx-th parameter a declared function may use, transitively
// through the methods it calls on that value and the module functions it passes the value to.
func (t *c41tTree) usesInFunc(fn *types.Func, idx int) *c41tUse {
	fn = fn.Origin()
	k := c41tUseKey{fn, idx}
	if u, ok := t.useMemo[k]; ok {
		return u // (an in-progress entry is the empty use: recursion adds nothing new)
	}
	u := c41tNewUse()
	t.useMemo[k] = u
	fd := t.c.P.Decl(fn)
	info := t.infoOf(fn)
	if fd == nil || fd.Body == nil || info == nil {
		u.whole = true
		return u
	}
	obj := c41tParamObj(info, fd, idx)
	if obj == nil {
		return u // unnamed: cannot be used
	}
	n := t.nodeOf(obj.Type())
	if n == nil {
		u.whole = true
		return u
	}
	u.merge(t.usesOfVar(info, fd, []ast.Node{fd.Body}, obj, n))
	return u
}

// usesOfVar: the fields of node n that the given regions of fd may use through variable v (or a local alias).
func (t *c41tTree) usesOfVar(info *types.Info, fd *ast.FuncDecl, regions []ast.Node, v types.Object, n *c41tNode) *c41tUse {
	u := c41tNewUse()
	aliases := c41tAliases(info, fd.Body, v)
	par := t.parentMap(fd)
	for _, r := range regions {
		ast.Inspect(r, func(x ast.Node) bool {
			id, ok := x.(*ast.Ident)
			if !ok || !aliases[info.Uses[id]] {
				return true
			}
			t.classifyUse(info, par, id, n, u)
			return true
		})
	}
	return u
}

func (t *c41tTree) classifyUse(info *types.Info, par map[ast.Node]ast.Node, id *ast.Ident, n *c41tNode, u *c41tUse) {
	var cur ast.Node = id
	for {
		p := par[cur]
		switch p := p.(type) {
		case *ast.ParenExpr, *ast.StarExpr:
			cur = p
			continue
		case *ast.UnaryExpr:
			if p.Op == token.AND {
				cur = p
				continue
			}
			u.whole = true
		case *ast.TypeAssertExpr:
			if p.X == cur {
				cur = p
				continue
			}
		case *ast.SelectorExpr:
			if p.X != cur {
				return
			}
			sel := info.Selections[p]
			if sel == nil {
				u.whole = true
				return
			}
			switch o := sel.Obj().(type) {
			case *types.Var:
				if len(sel.Index()) != 1 {
					u.whole = true
					return
				}
				u.fields[o.Name()] = true
			case *types.Func:
				m := t.methodOn(n, o.Name())
				if m == nil {
					u.whole = true
					return
				}
				u.merge(t.usesInFunc(m, -1))
			}
		case *ast.AssignStmt:
			for _, l := range p.Lhs {
				if l == cur {
					return // the variable itself is overwritten: not a use
				}
			}
			var lhs ast.Expr
			for i, r := range p.Rhs {
				if r == cur {
					if len(p.Lhs) == len(p.Rhs) {
						lhs = p.Lhs[i]
					} else {
						lhs = p.Lhs[0]
					}
				}
			}
			if _, ok := lhs.(*ast.Ident); ok {
				return // alias definition (followed through the alias set) or blank
			}
			u.whole = true
		case *ast.ValueSpec:
			return // alias definition
		case *ast.ExprStmt:
			return
		case *ast.CallExpr:
			if p.Fun == cur {
				return
			}
			j := -1
			for i, a := range p.Args {
				if a == cur {
					j = i
				}
			}
			callee := Callee(info, p)
			if callee == nil || j < 0 {
				u.whole = true
				return
			}
			sig, _ := callee.Type().(*types.Signature)
			if sig == nil || (sig.Variadic() && j >= sig.Params().Len()-1) || j >= sig.Params().Len() || t.c.P.Decl(callee) == nil {
				u.whole = true
				return
			}
			u.merge(t.usesInFunc(callee, j))
		default:
			u.whole = true
		}
		return
	}
}

// ---- finite evaluation of emptiness tests ------------------------------------------------------------------

// c41tEval evaluates a boolean expression over one subject value of node n under an assignment
// collection field -> "holds something". ok=false: the expression is not (only) an emptiness test of the subject.
type c41tEval struct {
	t     *c41tTree
	info  *types.Info
	subj  map[types.Object]bool
	n     *c41tNode
	asg   map[string]bool
	depth int
	body  ast.Node // enclosing function body: local bool variables assigned once are followed to their definition
	deps  *lfDeps
}

func (e *c41tEval) isSubj(x ast.Expr) bool {
	id, ok := c41tStrip(x).(*ast.Ident)
	return ok && e.subj[e.info.Uses[id]]
}

// nullaryOnSubj recognises subj.M() and returns the concrete method M of the node.
func (e *c41tEval) nullaryOnSubj(x ast.Expr) *types.Func {
	call, ok := ast.Unparen(x).(*ast.CallExpr)
	if !ok || len(call.Args) != 0 {
		return nil
	}
	sel, ok := ast.Unparen(call.Fun).(*ast.SelectorExpr)
	if !ok || !e.isSubj(sel.X) {
		return nil
	}
	s := e.info.Selections[sel]
	if s == nil {
		return nil
	}
	if _, ok := s.Obj().(*types.Func); !ok {
		return nil
	}
	return e.t.methodOn(e.n, s.Obj().Name())
}

func (e *c41tEval) orOver(fields []string) (bool, bool) {
	if len(fields) == 0 {
		return false, false
	}
	v := false
	for _, f := range fields {
		v = v || e.asg[f]
	}
	return v, true
}

// quantity: "x > 0" for len(subj.f), len(subj.L()) and subj.N() where N returns a sum of len(recv.f).
func (e *c41tEval) quantity(x ast.Expr) (bool, bool) {
	x = ast.Unparen(x)
	if call, ok := x.(*ast.CallExpr); ok && IsBuiltinCall(e.info, call, "len") && len(call.Args) == 1 {
		a := ast.Unparen(call.Args[0])
		if sel, ok := a.(*ast.SelectorExpr); ok && e.isSubj(sel.X) {
			if s := e.info.Selections[sel]; s != nil && s.Kind() == types.FieldVal && len(s.Index()) == 1 {
				for _, f := range e.n.coll {
					if f == s.Obj().Name() {
						return e.asg[f], true
					}
				}
			}
			return false, false
		}
		if m := e.nullaryOnSubj(a); m != nil {
			sig := m.Type().(*types.Signature)
			if sig.Results().Len() != 1 {
				return false, false
			}
			switch types.Unalias(sig.Results().At(0).Type()).Underlying().(type) {
			case *types.Slice, *types.Map:
			default:
				return false, false
			}
			u := e.t.usesInFunc(m, -1)
			if u.whole {
				return false, false
			}
			var fs []string
			for _, f := range e.n.coll {
				if u.fields[f] {
					fs = append(fs, f)
				}
			}
			return e.orOver(fs)
		}
		return false, false
	}
	if m := e.nullaryOnSubj(x); m != nil {
		if fs, ok := e.t.lenSum(m, e.n); ok {
			return e.orOver(fs)
		}
	}
	return false, false
}

// lenSum: the method's body is `return len(recv.f) [+ len(recv.g)]...` over collection fields; returns them.
func (t *c41tTree) lenSum(m *types.Func, n *c41tNode) ([]string, bool) {
	fd, info := t.c.P.Decl(m), t.infoOf(m)
	if fd == nil || fd.Body == nil || info == nil || len(fd.Body.List) != 1 {
		return nil, false
	}
	ret, ok := fd.Body.List[0].(*ast.ReturnStmt)
	if !ok || len(ret.Results) != 1 {
		return nil, false
	}
	recv := c41tParamObj(info, fd, -1)
	var fs []string
	var term func(x ast.Expr) bool
	term = func(x ast.Expr) bool {
		x = ast.Unparen(x)
		if b, ok := x.(*ast.BinaryExpr); ok && b.Op == token.ADD {
			return term(b.X) && term(b.Y)
		}
		call, ok := x.(*ast.CallExpr)
		if !ok || !IsBuiltinCall(info, call, "len") || len(call.Args) != 1 {
			return false
		}
		sel, ok := ast.Unparen(call.Args[0]).(*ast.SelectorExpr)
		if !ok {
			return false
		}
		id, ok := c41tStrip(sel.X).(*ast.Ident)
		if !ok || recv == nil || info.Uses[id] != recv {
			return false
		}
		for _, f := range n.coll {
			if f == sel.Sel.Name {
				fs = append(fs, f)
				return true
			}
		}
		return false
	}
	if !term(ret.Results[0]) {
		return nil, false
	}
	return fs, true
}

func (e *c41tEval) cond(x ast.Expr) (bool, bool) {
	x = ast.Unparen(x)
	if tv, ok := e.info.Types[x]; ok && tv.Value != nil && tv.Value.Kind() == constant.Bool {
		return constant.BoolVal(tv.Value), true
	}
	switch b := x.(type) {
	case *ast.UnaryExpr:
		if b.Op == token.NOT {
			v, ok := e.cond(b.X)
			return !v, ok
		}
	case *ast.BinaryExpr:
		switch b.Op {
		case token.LAND, token.LOR:
			l, lok := e.cond(b.X)
			r, rok := e.cond(b.Y)
			if !lok || !rok {
				return false, false
			}
			if b.Op == token.LAND {
				return l && r, true
			}
			return l || r, true
		case token.GTR, token.GEQ, token.LSS, token.LEQ, token.EQL, token.NEQ:
			op := b.Op
			qx, kx := b.X, b.Y
			if tv, ok := e.info.Types[b.X]; ok && tv.Value != nil {
				qx, kx = b.Y, b.X
				switch op { // k op q  ==  q op' k
				case token.GTR:
					op = token.LSS
				case token.GEQ:
					op = token.LEQ
				case token.LSS:
					op = token.GTR
				case token.LEQ:
					op = token.GEQ
				}
			}
			tv, ok := e.info.Types[kx]
			if !ok || tv.Value == nil || tv.Value.Kind() != constant.Int {
				return false, false
			}
			k, exact := constant.Int64Val(tv.Value)
			if !exact {
				return false, false
			}
			q, ok := e.quantity(qx)
			if !ok {
				return false, false
			}
			switch {
			case (op == token.GTR && k == 0) || (op == token.GEQ && k == 1) || (op == token.NEQ && k == 0):
				return q, true
			case (op == token.EQL && k == 0) || (op == token.LSS && k == 1) || (op == token.LEQ && k == 0):
				return !q, true
			}
			return false, false
		}
	case *ast.Ident:
		// a local bool variable with a single definition: has := len(v.f) > 0
		if v, ok := e.info.Uses[b].(*types.Var); ok && !v.IsField() && e.body != nil && e.depth < 8 {
			if e.deps == nil {
				e.deps = lfBuild(e.info, e.body, nil)
			}
			if ds := e.deps.deps[v]; len(ds) == 1 {
				sub := *e
				sub.depth++
				return sub.cond(ds[0])
			}
		}
	case *ast.CallExpr:
		if m := e.nullaryOnSubj(b); m != nil && !e.t.family[m.Name()] {
			// some other nullary bool method of the child: decided only if its body can be interpreted
			return e.t.evalPred(m, e.n, e.asg, e.depth+1)
		}
		if len(b.Args) == 1 && e.isSubj(b.Args[0]) {
			// a helper predicate keep(child)
			if fn := Callee(e.info, b); fn != nil && e.t.c.P.Decl(fn) != nil {
				if sig, _ := fn.Type().(*types.Signature); sig != nil && sig.Recv() == nil && sig.Params().Len() == 1 && !sig.Variadic() {
					return e.t.evalPredAt(fn, 0, e.n, e.asg, e.depth+1)
				}
			}
		}
		if m := e.nullaryOnSubj(b); m != nil && e.t.family[m.Name()] {
			if v, ok := e.t.evalPred(m, e.n, e.asg, e.depth+1); ok {
				return v, true
			}
			// body not of the interpreted shape: the predicate is taken as "some collection it reads holds something"
			// (C41-P1a reports the collections it does not read)
			u := e.t.usesInFunc(m, -1)
			var fs []string
			for _, f := range e.n.coll {
				if u.has(f) {
					fs = append(fs, f)
				}
			}
			return e.orOver(fs)
		}
	}
	return false, false
}

func (t *c41tTree) uniform(n *c41tNode, v bool) map[string]bool {
	m := map[string]bool{}
	for _, f := range n.coll {
		m[f] = v
	}
	return m
}

// evalPred interprets a predicate-family method of node n under the assignment: if/return/range-arm statements only.
func (t *c41tTree) evalPred(m *types.Func, n *c41tNode, asg map[string]bool, depth int) (bool, bool) {
	return t.evalPredAt(m, -1, n, asg, depth)
}

// evalPredAt: the same for a function whose subject is its idx-th parameter (idx -1: the receiver).
func (t *c41tTree) evalPredAt(m *types.Func, idx int, n *c41tNode, asg map[string]bool, depth int) (bool, bool) {
	fd, info := t.c.P.Decl(m), t.infoOf(m)
	if fd == nil || fd.Body == nil || info == nil || depth > 8 {
		return false, false
	}
	recv := c41tParamObj(info, fd, idx)
	if recv == nil || t.nodeOf(recv.Type()) != n {
		return false, false
	}
	e := &c41tEval{t: t, info: info, subj: c41tAliases(info, fd.Body, recv), n: n, asg: asg, depth: depth, body: fd.Body}
	var exec func(list []ast.Stmt) (returned, val, ok bool)
	exec = func(list []ast.Stmt) (bool, bool, bool) {
		for _, s := range list {
			switch s := s.(type) {
			case *ast.ReturnStmt:
				if len(s.Results) != 1 {
					return false, false, false
				}
				v, ok := e.cond(s.Results[0])
				return true, v, ok
			case *ast.BlockStmt:
				if r, v, ok := exec(s.List); !ok || r {
					return r, v, ok
				}
			case *ast.IfStmt:
				if s.Init != nil {
					return false, false, false
				}
				cv, ok := e.cond(s.Cond)
				if !ok {
					return false, false, false
				}
				if cv {
					if r, v, ok := exec(s.Body.List); !ok || r {
						return r, v, ok
					}
				} else if s.Else != nil {
					if r, v, ok := exec([]ast.Stmt{s.Else}); !ok || r {
						return r, v, ok
					}
				}
			case *ast.RangeStmt:
				// for _, c := range recv.f { if <c holds something> { return K } }
				sel, ok := ast.Unparen(s.X).(*ast.SelectorExpr)
				if !ok || !e.isSubj(sel.X) || n.child[sel.Sel.Name] == nil || s.Value == nil || len(s.Body.List) != 1 {
					return false, false, false
				}
				ch := n.child[sel.Sel.Name]
				ifs, ok := s.Body.List[0].(*ast.IfStmt)
				if !ok || ifs.Init != nil || ifs.Else != nil || len(ifs.Body.List) != 1 {
					return false, false, false
				}
				ret, ok := ifs.Body.List[0].(*ast.ReturnStmt)
				if !ok || len(ret.Results) != 1 {
					return false, false, false
				}
				tv, ok := info.Types[ret.Results[0]]
				if !ok || tv.Value == nil || tv.Value.Kind() != constant.Bool {
					return false, false, false
				}
				vid, ok := s.Value.(*ast.Ident)
				if !ok || info.Defs[vid] == nil {
					return false, false, false
				}
				ce := &c41tEval{t: t, info: info, subj: map[types.Object]bool{info.Defs[vid]: true}, n: ch, depth: depth + 1, body: fd.Body}
				ce.asg = t.uniform(ch, true)
				hi, ok1 := ce.cond(ifs.Cond)
				ce.asg = t.uniform(ch, false)
				lo, ok2 := ce.cond(ifs.Cond)
				if !ok1 || !ok2 || !hi || lo {
					return false, false, false // not a positive "child holds something" test
				}
				if asg[sel.Sel.Name] {
					return true, constant.BoolVal(tv.Value), true
				}
			default:
				return false, false, false
			}
		}
		return false, false, true
	}
	r, v, ok := exec(fd.Body.List)
	if !ok || !r {
		return false, false
	}
	return v, true
}

// assignments enumerates all assignments over the node's collections with must[f] forced to true.
func (t *c41tTree) assignments(n *c41tNode, must string) []map[string]bool {
	var free []string
	for _, f := range n.coll {
		if f != must {
			free = append(free, f)
		}
	}
	var out []map[string]bool
	for bits := 0; bits < 1<<len(free); bits++ {
		m := map[string]bool{}
		if must != "" {
			m[must] = true
		}
		for i, f := range free {
			m[f] = bits&(1<<i) != 0
		}
		out = append(out, m)
	}
	return out
}

func c41tAsgString(n *c41tNode, a map[string]bool) string {
	var on []string
	for _, f := range n.coll {
		if a[f] {
			on = append(on, f)
		}
	}
	if len(on) == 0 {
		return "nothing"
	}
	return strings.Join(on, "+")
}

// ---- the rules ---------------------------------------------------------------------------------------------

type c41tFloors struct{ p1a, p1b, p1c, p2a, p2b, p2c, p3, p4 int }

func runC41Tree(c *Ctx, dbRel, root string, pairs *c41Pairs, fl c41tFloors) {
	c.Rule("C41-P1a", "emptiness predicates cover every collection: for every struct type T of the privilege-set tree under "+root+
		" (T's collections = its map/slice fields) and every nullary bool method that all tree types define (the emptiness-predicate family), "+
		"the method returns true under every assignment in which collection f of T holds something, for each f (finite evaluation of the body; "+
		"when the body is not of the if/range/return shape: the method must at least read f)", fl.p1a)
	c.Rule("C41-P1b", "child filters cover what they guard: inside a loop over children of tree type U, an if whose condition is an emptiness test of the child "+
		"(len(child.f)/child.Count()/child.HasPrivileges()/len(child.getX()) compared with zero, combined with && || !) must not skip a child under any assignment in which "+
		"a collection that the guarded code consumes holds something (the whole child when it is appended/passed on/returned, every collection inside a predicate-family method, "+
		"otherwise the collections the guarded statements read)", fl.p1b)
	c.Rule("C41-P1c", "guarded removal of a child: an if whose condition is an emptiness test of a value of tree type U and whose body deletes an entry from a map of U children "+
		"must not fire under any assignment in which some collection of U holds something (the whole child, with everything below it, is dropped)", fl.p1c)
	c.Rule("C41-P2a", "the serializer and the loader visit every collection of every tree type: each collection field T.f is paired with at least one serialized field "+
		"on the writer side and on the loader side (pairs of C41-F2)", fl.p2a)
	c.Rule("C41-P2b", "set operations use every collection: a method of tree type T whose single parameter is again a T (union, equality) uses collection f of the receiver and of the "+
		"parameter, for each f; a nullary method of T returning a T (copy) uses every collection of the receiver", fl.p2b)
	c.Rule("C41-P2c", "reset operations: a nullary method without results that several tree types define under one name (clear) writes every collection of its receiver, "+
		"unless every caller removes the receiver's entry from its parent's map in the same function", fl.p2c)
	c.Rule("C41-P3", "grant/revoke symmetry: for every method pair AddX/RemoveX of a tree type, the leaf collections that AddX stores into are exactly the leaf collections "+
		"that RemoveX deletes from (access paths from the receiver through child accessors)", fl.p3)

	c.Rule("C41-P4", "one key space per collection: when the functions that store into a map collection T.f pass the key through a string normaliser (func(string) string, e.g. strings.ToLower), "+
		"every other function that looks up, stores or deletes in T.f derives its key through the same normaliser, or takes it from ranging over the same collection of another set", fl.p4)

	db := c.P.Pkg(dbRel)
	if db == nil {
		c.Undecided("C41-P1a", "package", 0, "anchor package not loaded: "+dbRel)
		return
	}
	t := c41tDiscover(c, db, root)
	if t == nil || len(t.nodes) == 0 {
		c.Undecided("C41-P1a", "tree", 0, "root type "+root+" not found in "+dbRel+" or not a struct")
		return
	}
	var desc []string
	for _, n := range t.nodes {
		desc = append(desc, n.name+"{"+strings.Join(n.coll, ",")+"}")
	}
	c.Notef("privilege-set tree: %s", strings.Join(desc, " "))

	// the predicate family: nullary bool methods defined (under one name) on every tree type
	counts := map[string]int{}
	for _, n := range t.nodes {
		for _, m := range t.declaredMethods(n) {
			sig := m.Type().(*types.Signature)
			if sig.Params().Len() == 0 && sig.Results().Len() == 1 {
				if b, ok := types.Unalias(sig.Results().At(0).Type()).(*types.Basic); ok && b.Kind() == types.Bool {
					counts[m.Name()]++
				}
			}
		}
	}
	var fam []string
	for name, k := range counts {
		if k == len(t.nodes) {
			t.family[name] = true
			fam = append(fam, name)
		}
	}
	sort.Strings(fam)
	if len(fam) == 0 {
		c.Undecided("C41-P1a", "family", t.nodes[0].named.Obj().Pos(), "no nullary bool method is defined on every tree type: the emptiness-predicate family cannot be read")
	}
	c.Notef("emptiness-predicate family: %s", strings.Join(fam, ", "))

	t.ruleP1a(fam)
	t.ruleP1b(db)
	t.ruleP1c(db)
	t.ruleP2a(pairs)
	t.ruleP2bc(db)
	t.ruleP3(db)
	t.ruleP4(db)
}

func (t *c41tTree) ruleP1a(fam []string) {
	c := t.c
	for _, n := range t.nodes {
		for _, name := range fam {
			m := t.methodOn(n, name)
			if m == nil || c.P.Decl(m) == nil {
				c.Undecided("C41-P1a", n.name+"."+name, n.named.Obj().Pos(), "predicate method has no readable declaration")
				continue
			}
			pos := c.P.Decl(m).Pos()
			uses := t.usesInFunc(m, -1)
			for _, f := range n.coll {
				key := n.name + "." + name + ":" + f
				interpreted, fails := true, ""
				for _, a := range t.assignments(n, f) {
					v, ok := t.evalPred(m, n, a, 0)
					if !ok {
						interpreted = false
						break
					}
					if !v && fails == "" {
						fails = c41tAsgString(n, a)
					}
				}
				switch {
				case interpreted && fails == "":
					c.Ok("C41-P1a", key, pos, "true whenever "+f+" holds something (all assignments evaluated)")
				case interpreted:
					c.Bad("C41-P1a", key, pos, fmt.Sprintf("%s.%s returns false although collection %s holds something (assignment: %s non-empty): a set holding privileges only there is treated as empty and dropped by every filter that relies on the predicate",
						n.name, name, f, fails))
				case uses.has(f):
					c.Ok("C41-P1a", key, pos, "reads "+f+" (body not of the if/range/return shape: read coverage only)")
				default:
					c.Bad("C41-P1a", key, pos, fmt.Sprintf("%s.%s never reads collection %s: a set holding privileges only there is treated as empty", n.name, name, f))
				}
			}
		}
	}
}

func (t *c41tTree) funcKey(db *packages.Package, pk *packages.Package, fd *ast.FuncDecl) string {
	if pk == db {
		return DeclName(fd)
	}
	rel := strings.TrimPrefix(strings.TrimPrefix(strings.TrimPrefix(pk.PkgPath, modPath), "/"), "vchk/")
	return rel + "." + DeclName(fd)
}

func (t *c41tTree) ruleP1b(db *packages.Package) {
	c := t.c
	c.P.EachModuleFuncDecl(func(pk *packages.Package, fd *ast.FuncDecl) {
		info := pk.TypesInfo
		fn, _ := info.Defs[fd.Name].(*types.Func)
		inFamily := false
		if fn != nil && t.family[fn.Name()] {
			if sig := fn.Type().(*types.Signature); sig.Recv() != nil && t.nodeOf(sig.Recv().Type()) != nil {
				inFamily = true
			}
		}
		par := t.parentMap(fd)
		process := func(loopBody *ast.BlockStmt, v types.Object, u *c41tNode) {
			aliases := c41tAliases(info, fd.Body, v)
			var deps *lfDeps
			mentions := func(e ast.Expr) bool { // directly, or through local variables computed from the child
				if deps == nil {
					deps = lfBuild(info, fd.Body, nil)
				}
				found := false
				deps.Reach(e, func(y ast.Node) {
					if id, ok := y.(*ast.Ident); ok && aliases[info.Uses[id]] {
						found = true
					}
				})
				return found
			}
			ast.Inspect(loopBody, func(y ast.Node) bool {
				ifs, ok := y.(*ast.IfStmt)
				if !ok || !mentions(ifs.Cond) {
					return true
				}
				key := t.funcKey(db, pk, fd) + ":" + u.name
				ev := &c41tEval{t: t, info: info, subj: aliases, n: u, asg: t.uniform(u, false), body: fd.Body}
				if _, ok := ev.cond(ifs.Cond); !ok {
					return true // not an emptiness test of the child (some other condition on it)
				}
				block, _ := par[ifs].(*ast.BlockStmt)
				if ifs.Init != nil || ifs.Else != nil || block == nil {
					c.Note("C41-P1b", "unread/"+key, ifs.Pos(), "emptiness test of a child in an if with init/else or in an else-if chain: guarded region not read (not decided)")
					return true
				}
				// which code is guarded, and does the child get skipped when the condition is true or when it is false?
				skipWhenTrue := false
				var regions []ast.Node
				arm := false
				if len(ifs.Body.List) == 1 {
					if br, ok := ifs.Body.List[0].(*ast.BranchStmt); ok && br.Tok == token.CONTINUE && br.Label == nil && block == loopBody {
						skipWhenTrue = true
						seen := false
						for _, s := range block.List {
							if seen {
								regions = append(regions, s)
							}
							if s == ast.Stmt(ifs) {
								seen = true
							}
						}
					}
					if ret, ok := ifs.Body.List[0].(*ast.ReturnStmt); ok && inFamily && len(ret.Results) == 1 {
						if tv, ok := info.Types[ret.Results[0]]; ok && tv.Value != nil && tv.Value.Kind() == constant.Bool {
							arm = true
						}
					}
				}
				if !skipWhenTrue {
					regions = []ast.Node{ifs.Body}
				}
				var need []string
				what := ""
				if arm {
					need = u.coll
					what = "arm of a predicate-family method: every collection of the child counts"
				} else {
					use := t.usesOfVar(info, fd, regions, v, u)
					for _, f := range u.coll {
						if use.has(f) {
							need = append(need, f)
						}
					}
					if use.whole {
						what = "the guarded code passes the child on as a whole"
					} else {
						what = "the guarded code reads " + strings.Join(need, ", ")
					}
				}
				if len(need) == 0 {
					c.Note("C41-P1b", "nothing-consumed/"+key, ifs.Pos(), "the guarded code uses no collection of the child")
					return true
				}
				var missing []string
				witness := ""
				readable := true
				for _, f := range need {
					for _, a := range t.assignments(u, f) {
						ev.asg = a
						cv, ok := ev.cond(ifs.Cond)
						if !ok {
							readable = false
							break
						}
						if cv == skipWhenTrue {
							missing = append(missing, f)
							if witness == "" {
								witness = c41tAsgString(u, a)
							}
							break
						}
					}
				}
				if !readable {
					c.Note("C41-P1b", "unread/"+key, ifs.Pos(), "the emptiness test calls a predicate whose body is not of the if/range/return shape: not decided")
					return true
				}
				if len(missing) == 0 {
					c.Ok("C41-P1b", key, ifs.Pos(), "filter keeps every child that holds something in "+strings.Join(need, ", ")+" ("+what+")")
				} else {
					c.Bad("C41-P1b", key, ifs.Pos(), fmt.Sprintf("in %s the filter on a %s child skips the child although %s holds something (assignment: %s non-empty; %s): "+
						"a child holding privileges only in %s is silently dropped from the output",
						t.funcKey(db, pk, fd), u.name, strings.Join(missing, ", "), witness, what, strings.Join(missing, ", ")))
				}
				return true
			})
		}
		ast.Inspect(fd.Body, func(x ast.Node) bool {
			// the children a loop enumerates: the value variable of a range, and the tree-typed variables that statements
			// directly in the loop body define (child := load(...), child := list[i])
			var body *ast.BlockStmt
			var cands []types.Object
			switch l := x.(type) {
			case *ast.RangeStmt:
				body = l.Body
				if vid, ok := l.Value.(*ast.Ident); ok && vid.Name != "_" {
					if v := info.Defs[vid]; v != nil {
						cands = append(cands, v)
					} else if v := info.Uses[vid]; v != nil {
						cands = append(cands, v)
					}
				}
			case *ast.ForStmt:
				body = l.Body
			default:
				return true
			}
			for _, st := range body.List {
				if as, ok := st.(*ast.AssignStmt); ok && as.Tok == token.DEFINE {
					for _, l := range as.Lhs {
						if id, ok := l.(*ast.Ident); ok && id.Name != "_" && info.Defs[id] != nil {
							cands = append(cands, info.Defs[id])
						}
					}
				}
			}
			for _, v := range cands {
				if u := t.nodeOf(v.Type()); u != nil {
					process(body, v, u)
				}
			}
			return true
		})
	})
}

func (t *c41tTree) ruleP1c(db *packages.Package) {
	c := t.c
	c.P.EachModuleFuncDecl(func(pk *packages.Package, fd *ast.FuncDecl) {
		info := pk.TypesInfo
		ast.Inspect(fd.Body, func(x ast.Node) bool {
			ifs, ok := x.(*ast.IfStmt)
			if !ok {
				return true
			}
			// a delete of a child entry in the then-branch
			var u *c41tNode
			var del *ast.CallExpr
			ast.Inspect(ifs.Body, func(y ast.Node) bool {
				if _, ok := y.(*ast.FuncLit); ok {
					return false
				}
				call, ok := y.(*ast.CallExpr)
				if !ok || !IsBuiltinCall(info, call, "delete") || len(call.Args) != 2 || del != nil {
					return true
				}
				if mt, ok := types.Unalias(info.TypeOf(call.Args[0])).Underlying().(*types.Map); ok {
					if n := t.nodeOf(mt.Elem()); n != nil && t.byObj[c41tNamedObj(mt.Elem())] == n {
						u, del = n, call
					}
				}
				return true
			})
			if u == nil {
				return true
			}
			// the subject: the one variable of node type U that the condition talks about
			var subj types.Object
			several := false
			ast.Inspect(ifs.Cond, func(y ast.Node) bool {
				id, ok := y.(*ast.Ident)
				if !ok {
					return true
				}
				if v, ok := info.Uses[id].(*types.Var); ok && !v.IsField() && t.nodeOf(v.Type()) == u {
					if subj != nil && subj != v {
						several = true
					}
					subj = v
				}
				return true
			})
			if subj == nil || several {
				return true
			}
			ev := &c41tEval{t: t, info: info, subj: c41tAliases(info, fd.Body, subj), n: u, asg: t.uniform(u, false), body: fd.Body}
			if _, ok := ev.cond(ifs.Cond); !ok {
				return true // some other condition
			}
			key := t.funcKey(db, pk, fd) + ":delete " + u.name
			var missing []string
			witness := ""
			for _, f := range u.coll {
				for _, a := range t.assignments(u, f) {
					ev.asg = a
					cv, ok := ev.cond(ifs.Cond)
					if !ok {
						c.Note("C41-P1c", "unread/"+key, ifs.Pos(), "the emptiness test is not readable under every assignment: not decided")
						return true
					}
					if cv {
						missing = append(missing, f)
						if witness == "" {
							witness = c41tAsgString(u, a)
						}
						break
					}
				}
			}
			if len(missing) == 0 {
				c.Ok("C41-P1c", key, ifs.Pos(), "the entry is deleted only when every collection of the "+u.name+" is empty")
			} else {
				c.Bad("C41-P1c", key, del.Pos(), fmt.Sprintf("in %s the %s entry is deleted from its parent's map although %s may still hold something (assignment: %s non-empty): "+
					"the emptiness test in front of the delete looks at only some collections, so the privileges held in %s are revoked along with it",
					t.funcKey(db, pk, fd), u.name, strings.Join(missing, ", "), witness, strings.Join(missing, ", ")))
			}
			return true
		})
	})
}

func (t *c41tTree) ruleP2a(pairs *c41Pairs) {
	c := t.c
	if pairs == nil {
		c.Undecided("C41-P2a", "pairs", 0, "the writer/loader pairing (C41-F2) could not be computed")
		return
	}
	for _, n := range t.nodes {
		for _, f := range n.coll {
			key := n.name + "." + f
			var w, l []string
			for p := range pairs.W {
				if p.s == key {
					w = append(w, "serial."+p.t)
				}
			}
			for p := range pairs.L {
				if p.s == key {
					l = append(l, "serial."+p.t)
				}
			}
			sort.Strings(w)
			sort.Strings(l)
			pos := n.fields[f].Pos()
			switch {
			case len(w) > 0 && len(l) > 0:
				c.Ok("C41-P2a", key, pos, "stored into "+strings.Join(w, ", ")+"; restored from "+strings.Join(l, ", "))
			case len(w) == 0 && len(l) == 0:
				c.Bad("C41-P2a", key, pos, fmt.Sprintf("collection %s is neither stored by the serializer nor restored by the loader: every privilege held there is lost by persist + reload", key))
			case len(w) == 0:
				c.Bad("C41-P2a", key, pos, fmt.Sprintf("collection %s is never stored by the serializer (the loader restores it from %s): every privilege held there is lost by persist + reload", key, strings.Join(l, ", ")))
			default:
				c.Bad("C41-P2a", key, pos, fmt.Sprintf("collection %s is stored (%s) but the loader's literal of %s never restores it: every privilege held there is lost by persist + reload", key, strings.Join(w, ", "), n.name))
			}
		}
	}
}

func (t *c41tTree) ruleP2bc(db *packages.Package) {
	c := t.c
	voidNames := map[string]int{}
	for _, n := range t.nodes {
		for _, m := range t.declaredMethods(n) {
			sig := m.Type().(*types.Signature)
			if sig.Params().Len() == 0 && sig.Results().Len() == 0 {
				voidNames[m.Name()]++
			}
		}
	}
	// helpers: unexported methods all of whose call sites are inside methods of the same tree type (an extracted part of a
	// set operation). They are not instances of their own; what they use is credited to their callers through the use closure.
	callers := map[*types.Func]map[*c41tNode]int{} // callee -> node of the calling method's receiver (nil: other) -> count
	c.P.EachModuleFuncDecl(func(pk *packages.Package, cfd *ast.FuncDecl) {
		var from *c41tNode
		if fn, _ := pk.TypesInfo.Defs[cfd.Name].(*types.Func); fn != nil {
			if sig := fn.Type().(*types.Signature); sig.Recv() != nil {
				from = t.byObj[c41tNamedObj(sig.Recv().Type())]
			}
		}
		ast.Inspect(cfd.Body, func(x ast.Node) bool {
			if call, ok := x.(*ast.CallExpr); ok {
				if cal := Callee(pk.TypesInfo, call); cal != nil {
					if callers[cal.Origin()] == nil {
						callers[cal.Origin()] = map[*c41tNode]int{}
					}
					callers[cal.Origin()][from]++
				}
			}
			return true
		})
	})
	isHelper := func(m *types.Func, n *c41tNode) bool {
		if m.Exported() || len(callers[m]) == 0 {
			return false
		}
		for from := range callers[m] {
			if from != n {
				return false
			}
		}
		return true
	}
	for _, n := range t.nodes {
		for _, m := range t.declaredMethods(n) {
			fd := c.P.Decl(m)
			if fd == nil || fd.Body == nil {
				continue
			}
			sig := m.Type().(*types.Signature)
			switch {
			case sig.Params().Len() == 1 && !sig.Variadic() && t.nodeOf(sig.Params().At(0).Type()) == n && isHelper(m, n):
				c.Note("C41-P2b", "helper/"+n.name+"."+m.Name(), fd.Pos(), "unexported and only called from methods of "+n.name+": part of a set operation, credited to its callers")
			case sig.Params().Len() == 1 && !sig.Variadic() && t.nodeOf(sig.Params().At(0).Type()) == n:
				ru, pu := t.usesInFunc(m, -1), t.usesInFunc(m, 0)
				for _, f := range n.coll {
					key := n.name + "." + m.Name() + ":" + f
					switch {
					case ru.has(f) && pu.has(f):
						c.Ok("C41-P2b", key, fd.Pos(), "uses "+f+" of the receiver and of the parameter")
					case !pu.has(f):
						c.Bad("C41-P2b", key, fd.Pos(), fmt.Sprintf("%s.%s never looks at collection %s of its %s parameter: privileges held there are ignored by the operation (lost by a union/copy, invisible to an equality test)",
							n.name, m.Name(), f, n.name))
					default:
						c.Bad("C41-P2b", key, fd.Pos(), fmt.Sprintf("%s.%s never touches collection %s of its receiver although it reads it from the parameter", n.name, m.Name(), f))
					}
				}
			case sig.Params().Len() == 0 && sig.Results().Len() == 1 && t.byObj[c41tNamedObj(sig.Results().At(0).Type())] == n:
				ru := t.usesInFunc(m, -1)
				for _, f := range n.coll {
					key := n.name + "." + m.Name() + ":" + f
					c.Check(ru.has(f), "C41-P2b", key, fd.Pos(), "uses "+f+" of the receiver",
						fmt.Sprintf("%s.%s returns a %s but never looks at collection %s of its receiver: the copy lacks the privileges held there", n.name, m.Name(), n.name, f))
				}
			case sig.Params().Len() == 0 && sig.Results().Len() == 0 && voidNames[m.Name()] >= 2:
				ru := t.usesInFunc(m, -1)
				var miss []string
				for _, f := range n.coll {
					if !ru.has(f) {
						miss = append(miss, f)
					}
				}
				key := n.name + "." + m.Name()
				if len(miss) == 0 {
					c.Ok("C41-P2c", key, fd.Pos(), "touches every collection of the receiver")
					continue
				}
				// partial reset: harmless only if every caller drops the receiver's entry from its parent's map
				callers, bad := 0, ""
				c.P.EachFuncDecl([]string{strings.TrimPrefix(strings.TrimPrefix(strings.TrimPrefix(db.PkgPath, modPath), "/"), "vchk/")}, func(pk *packages.Package, cfd *ast.FuncDecl) {
					calls, drops := false, false
					ast.Inspect(cfd.Body, func(x ast.Node) bool {
						call, ok := x.(*ast.CallExpr)
						if !ok {
							return true
						}
						if cal := Callee(pk.TypesInfo, call); cal != nil && cal.Origin() == m {
							calls = true
						}
						if IsBuiltinCall(pk.TypesInfo, call, "delete") && len(call.Args) == 2 {
							if mt, ok := types.Unalias(pk.TypesInfo.TypeOf(call.Args[0])).Underlying().(*types.Map); ok && t.nodeOf(mt.Elem()) == n {
								drops = true
							}
						}
						return true
					})
					if calls {
						callers++
						if !drops && bad == "" {
							bad = DeclName(cfd)
						}
					}
				})
				if callers > 0 && bad == "" {
					c.Exc("C41-P2c", key, fd.Pos(), fmt.Sprintf("leaves %s untouched, but every caller (%d) deletes the %s entry from its parent's map in the same function, so nothing of it stays reachable",
						strings.Join(miss, ", "), callers, n.name))
				} else {
					c.Bad("C41-P2c", key, fd.Pos(), fmt.Sprintf("%s.%s leaves collection %s untouched and caller %s keeps the entry: privileges held there survive a revoke-all", n.name, m.Name(), strings.Join(miss, ", "), bad))
				}
			}
		}
	}
}

func c41tNamedObj(ty types.Type) *types.TypeName {
	ty = types.Unalias(ty)
	if p, ok := ty.(*types.Pointer); ok {
		ty = types.Unalias(p.Elem())
	}
	if nt, ok := ty.(*types.Named); ok {
		return nt.Obj()
	}
	return nil
}

// ---- P3: access paths --------------------------------------------------------------------------------------

type c41tPathCtx struct {
	t    *c41tTree
	info *types.Info
	recv types.Object
	deps *lfDeps
	busy map[types.Object]bool
}

// pathOf: the chain of collection fields that leads from the receiver to the set/collection denoted by e.
func (pc *c41tPathCtx) pathOf(e ast.Expr) ([]string, bool) {
	e = c41tStrip(e)
	switch x := e.(type) {
	case *ast.Ident:
		o := pc.info.Uses[x]
		if o == nil {
			o = pc.info.Defs[x]
		}
		if o == nil {
			return nil, false
		}
		if o == pc.recv {
			return []string{}, true
		}
		if pc.busy[o] {
			return nil, false
		}
		pc.busy[o] = true
		defer delete(pc.busy, o)
		var got []string
		have := false
		for _, d := range pc.deps.deps[o] {
			ds := c41tStrip(d)
			if _, ok := ds.(*ast.CompositeLit); ok {
				continue // a fresh (empty) entry
			}
			dt := pc.info.TypeOf(d)
			if tup, ok := dt.(*types.Tuple); ok && tup.Len() > 0 {
				dt = tup.At(0).Type() // comma-ok lookup / assertion
			}
			if dt == nil {
				continue
			}
			same := types.Identical(dt, o.Type())
			if !same {
				switch u := types.Unalias(dt).Underlying().(type) { // range source / comma-ok lookup
				case *types.Map:
					same = types.Identical(u.Elem(), o.Type())
				case *types.Slice:
					same = types.Identical(u.Elem(), o.Type())
				}
			}
			if !same {
				if pc.t.nodeOf(dt) != nil && pc.t.nodeOf(dt) == pc.t.nodeOf(o.Type()) {
					same = true // interface value asserted to the node type
				}
			}
			if !same {
				continue
			}
			p, ok := pc.pathOf(d)
			if !ok {
				return nil, false
			}
			if have && strings.Join(p, ".") != strings.Join(got, ".") {
				return nil, false
			}
			got, have = p, true
		}
		return got, have
	case *ast.IndexExpr:
		return pc.pathOf(x.X)
	case *ast.SelectorExpr:
		s := pc.info.Selections[x]
		if s == nil || s.Kind() != types.FieldVal || len(s.Index()) != 1 {
			return nil, false
		}
		n := pc.t.nodeOf(s.Recv())
		if n == nil {
			return nil, false
		}
		isColl := false
		for _, f := range n.coll {
			if f == s.Obj().Name() {
				isColl = true
			}
		}
		if !isColl {
			return nil, false
		}
		base, ok := pc.pathOf(x.X)
		if !ok {
			return nil, false
		}
		return append(append([]string{}, base...), s.Obj().Name()), true
	case *ast.CallExpr:
		sel, ok := ast.Unparen(x.Fun).(*ast.SelectorExpr)
		if !ok {
			return nil, false
		}
		s := pc.info.Selections[sel]
		if s == nil {
			return nil, false
		}
		if _, ok := s.Obj().(*types.Func); !ok {
			return nil, false
		}
		n := pc.t.nodeOf(s.Recv())
		if n == nil {
			return nil, false
		}
		m := pc.t.methodOn(n, s.Obj().Name())
		if m == nil {
			return nil, false
		}
		f := pc.t.originOf(m)
		if f == "" {
			return nil, false
		}
		base, ok := pc.pathOf(sel.X)
		if !ok {
			return nil, false
		}
		return append(append([]string{}, base...), f), true
	}
	return nil, false
}

// originOf: the child collection of its receiver from which an accessor method draws the set it returns ("" = not an accessor).
func (t *c41tTree) originOf(m *types.Func) string {
	m = m.Origin()
	if f, ok := t.origins[m]; ok {
		return f
	}
	t.origins[m] = ""
	fd, info := t.c.P.Decl(m), t.infoOf(m)
	if fd == nil || fd.Body == nil || info == nil {
		return ""
	}
	sig := m.Type().(*types.Signature)
	if sig.Results().Len() != 1 || t.nodeOf(sig.Results().At(0).Type()) == nil {
		return ""
	}
	recv := c41tParamObj(info, fd, -1)
	if recv == nil {
		return ""
	}
	pc := &c41tPathCtx{t: t, info: info, recv: recv, deps: lfBuild(info, fd.Body, nil), busy: map[types.Object]bool{}}
	origin, okAll := "", true
	ast.Inspect(fd.Body, func(x ast.Node) bool {
		if _, ok := x.(*ast.FuncLit); ok {
			return false
		}
		ret, ok := x.(*ast.ReturnStmt)
		if !ok || len(ret.Results) != 1 {
			return true
		}
		if _, isLit := c41tStrip(ret.Results[0]).(*ast.CompositeLit); isLit {
			return true // the zero set for a missing entry
		}
		p, ok := pc.pathOf(ret.Results[0])
		if !ok || len(p) != 1 || (origin != "" && origin != p[0]) {
			okAll = false
			return true
		}
		origin = p[0]
		return true
	})
	if !okAll {
		origin = ""
	}
	t.origins[m] = origin
	return origin
}

// leafPaths: access paths of the maps a method stores into (store=true) or deletes from, split into leaf collections and others.
func (t *c41tTree) mutatedPaths(m *types.Func, n *c41tNode, store bool) (leaf []string, unknown int) {
	fd, info := t.c.P.Decl(m), t.infoOf(m)
	recv := c41tParamObj(info, fd, -1)
	if recv == nil {
		return nil, 1
	}
	pc := &c41tPathCtx{t: t, info: info, recv: recv, deps: lfBuild(info, fd.Body, nil), busy: map[types.Object]bool{}}
	set := map[string]bool{}
	target := func(e ast.Expr) {
		p, ok := pc.pathOf(e)
		if !ok {
			unknown++
			return
		}
		// walk the tree along the path: a leaf collection ends it
		cur := n
		for i, f := range p {
			ch, isColl := cur.child[f], false
			for _, cf := range cur.coll {
				if cf == f {
					isColl = true
				}
			}
			if !isColl {
				unknown++
				return
			}
			if ch == nil {
				if i == len(p)-1 {
					set[strings.Join(p, ".")] = true
				} else {
					unknown++
				}
				return
			}
			cur = ch
		}
	}
	ast.Inspect(fd.Body, func(x ast.Node) bool {
		switch s := x.(type) {
		case *ast.AssignStmt:
			if store {
				for _, l := range s.Lhs {
					if ix, ok := ast.Unparen(l).(*ast.IndexExpr); ok {
						if _, isMap := types.Unalias(info.TypeOf(ix.X)).Underlying().(*types.Map); isMap {
							target(ix.X)
						}
					}
				}
			}
		case *ast.CallExpr:
			if !store && IsBuiltinCall(info, s, "delete") && len(s.Args) == 2 {
				target(s.Args[0])
			}
		}
		return true
	})
	for p := range set {
		leaf = append(leaf, p)
	}
	sort.Strings(leaf)
	return leaf, unknown
}

func (t *c41tTree) ruleP3(db *packages.Package) {
	c := t.c
	for _, n := range t.nodes {
		byName := map[string]*types.Func{}
		for _, m := range t.declaredMethods(n) {
			byName[m.Name()] = m
		}
		var names []string
		for name := range byName {
			names = append(names, name)
		}
		sort.Strings(names)
		for _, name := range names {
			if !strings.HasPrefix(name, "Add") || len(name) == 3 {
				continue
			}
			add, rem := byName[name], byName["Remove"+name[3:]]
			if rem == nil || c.P.Decl(add) == nil || c.P.Decl(rem) == nil || c.P.Decl(add).Body == nil || c.P.Decl(rem).Body == nil {
				continue
			}
			key := n.name + "." + name + "/" + rem.Name()
			pos := c.P.Decl(rem).Pos()
			al, au := t.mutatedPaths(add, n, true)
			rl, ru := t.mutatedPaths(rem, n, false)
			if au > 0 || ru > 0 || len(al) == 0 || len(rl) == 0 {
				c.Note("C41-P3", "unread/"+key, pos, fmt.Sprintf("access paths not readable (stores %v, %d unread; deletes %v, %d unread): not decided", al, au, rl, ru))
				continue
			}
			if strings.Join(al, " ") == strings.Join(rl, " ") {
				c.Ok("C41-P3", key, pos, "both operate on "+strings.Join(al, ", "))
			} else {
				c.Bad("C41-P3", key, pos, fmt.Sprintf("%s.%s stores privileges into %s but %s deletes them from %s: a revoke does not remove what the matching grant added",
					n.name, name, strings.Join(al, ", "), rem.Name(), strings.Join(rl, ", ")))
			}
		}
	}
}

// ---- P4: key normalisation -----------------------------------------------------------------------------------

// c41tP4Exceptions: sites whose un-normalised key was examined and cannot be reached with a non-normalised name.
var c41tP4Exceptions = map[string]string{
	"PrivilegeSet.RemoveGlobalDynamic:PrivilegeSet.globalDynamic": "its only SQL caller (REVOKE) passes the name the parser has already lower-cased, and the row editor of mysql.global_grants, " +
		"which passes upper-case names, belongs to a table that is not exposed to SQL; no input was found that leaves a revoked dynamic privilege behind",
}

type c41tKeySite struct {
	fn     string
	pos    token.Pos
	store  bool
	del    bool
	exempt bool
	norm   map[string]bool
}

func (t *c41tTree) ruleP4(db *packages.Package) {
	c := t.c
	sites := map[string][]*c41tKeySite{} // "T.f" -> sites
	pos := map[string]token.Pos{}
	c.P.EachModuleFuncDecl(func(pk *packages.Package, fd *ast.FuncDecl) {
		info := pk.TypesInfo
		var deps *lfDeps
		fieldOf := func(e ast.Expr) (string, string) { // X.f with X of a node type and f a map collection
			sel, ok := ast.Unparen(e).(*ast.SelectorExpr)
			if !ok {
				return "", ""
			}
			s := info.Selections[sel]
			if s == nil || s.Kind() != types.FieldVal || len(s.Index()) != 1 {
				return "", ""
			}
			n := t.nodeOf(s.Recv())
			if n == nil || t.byObj[c41tNamedObj(s.Recv())] != n {
				return "", ""
			}
			if _, isMap := types.Unalias(s.Obj().Type()).Underlying().(*types.Map); !isMap {
				return "", ""
			}
			for _, f := range n.coll {
				if f == s.Obj().Name() {
					return n.name + "." + f, f
				}
			}
			return "", ""
		}
		stores := map[ast.Expr]bool{}
		ast.Inspect(fd.Body, func(x ast.Node) bool {
			if as, ok := x.(*ast.AssignStmt); ok {
				for _, l := range as.Lhs {
					stores[ast.Unparen(l)] = true
				}
			}
			return true
		})
		record := func(coll ast.Expr, key ast.Expr, at token.Pos, store, del bool) {
			tf, f := fieldOf(coll)
			if tf == "" {
				return
			}
			if deps == nil {
				deps = lfBuild(info, fd.Body, nil)
			}
			st := &c41tKeySite{fn: t.funcKey(db, pk, fd), pos: at, store: store, del: del, norm: map[string]bool{}}
			deps.Reach(key, func(n ast.Node) {
				switch y := n.(type) {
				case *ast.CallExpr:
					if fn := Callee(info, y); fn != nil && fn.Pkg() != nil {
						sig, _ := fn.Type().(*types.Signature)
						if sig != nil && sig.Recv() == nil && sig.Params().Len() == 1 && sig.Results().Len() == 1 && !sig.Variadic() {
							if c41tIsStr(sig.Params().At(0).Type()) && c41tIsStr(sig.Results().At(0).Type()) {
								st.norm[fn.Pkg().Name()+"."+fn.Name()] = true
							}
						}
					}
				case *ast.SelectorExpr:
					if tf2, f2 := fieldOf(y); tf2 == tf && f2 == f {
						st.exempt = true // the key comes from ranging over / reading the same collection of a set
					}
				}
			})
			sites[tf] = append(sites[tf], st)
			if _, ok := pos[tf]; !ok {
				pos[tf] = at
			}
		}
		ast.Inspect(fd.Body, func(x ast.Node) bool {
			switch y := x.(type) {
			case *ast.IndexExpr:
				record(y.X, y.Index, y.Pos(), stores[ast.Expr(y)], false)
			case *ast.CallExpr:
				if IsBuiltinCall(info, y, "delete") && len(y.Args) == 2 {
					record(y.Args[0], y.Args[1], y.Pos(), false, true)
				}
			}
			return true
		})
	})
	var fields []string
	for tf := range sites {
		fields = append(fields, tf)
	}
	sort.Strings(fields)
	for _, tf := range fields {
		want := map[string]bool{}
		for _, s := range sites[tf] {
			if s.store && !s.exempt {
				for g := range s.norm {
					want[g] = true
				}
			}
		}
		if len(want) == 0 {
			continue // keys of this collection are stored as given (enum-valued privilege ids, ...)
		}
		var wl []string
		for g := range want {
			wl = append(wl, g)
		}
		sort.Strings(wl)
		// one instance per function and collection
		byFn := map[string][]*c41tKeySite{}
		var fns []string
		for _, s := range sites[tf] {
			if s.exempt {
				continue
			}
			if _, ok := byFn[s.fn]; !ok {
				fns = append(fns, s.fn)
			}
			byFn[s.fn] = append(byFn[s.fn], s)
		}
		sort.Strings(fns)
		for _, fn := range fns {
			key := fn + ":" + tf
			var bad *c41tKeySite
			for _, s := range byFn[fn] {
				for _, g := range wl {
					if !s.norm[g] && bad == nil {
						bad = s
					}
				}
			}
			switch {
			case bad == nil:
				c.Ok("C41-P4", key, byFn[fn][0].pos, "keys pass through "+strings.Join(wl, ", "))
			case c41tP4Exceptions[key] != "" && !c.fixtureMode:
				c.Exc("C41-P4", key, bad.pos, c41tP4Exceptions[key])
			default:
				what := "looks up"
				if bad.store {
					what = "stores"
				} else if bad.del {
					what = "deletes"
				}
				c.Bad("C41-P4", key, bad.pos, fmt.Sprintf("%s %s in %s with a key that does not pass through %s, while the entries are stored under keys that do: "+
					"an entry whose name contains characters the normaliser changes is never found (a revoke leaves it behind, a lookup misses it)", fn, what, tf, strings.Join(wl, ", ")))
			}
		}
	}
}

func c41tIsStr(ty types.Type) bool {
	b, ok := types.Unalias(ty).Underlying().(*types.Basic)
	return ok && b.Info()&types.IsString != 0
}
