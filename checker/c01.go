package main

import (
	"fmt"
	"go/ast"
	"go/constant"
	"go/token"
	"go/types"
	"sort"
	"strings"

	"golang.org/x/tools/go/packages"
)

func init() {
	register(&Property{
		ID:       "C01",
		Patterns: []string{"./sql/plan", "./sql/rowexec", "./sql/analyzer"},
		Explanation: "The executor (package rowexec) decides a join's row semantics only by calling predicate methods on plan.JoinType. " +
			"The memo turns a logical join type into a physical one through the constant tables JoinType.AsHash/AsLookup/AsMerge/AsRangeHeap/AsLateral. " +
			"Decided: every entry L->P of those tables preserves every semantic class predicate the executor consults (J1), the produced constants are " +
			"classified consistently by IsPhysical and by exactly one algorithm predicate (J2), and the executor's dispatch ladder sends L and P to the " +
			"same iterator class or to an algorithm iterator that implements L's class (J3); (K) the lookup-join key builder uses a converted probe value as an index key only when the conversion is in range (a clamped key makes only the lookup plan match). A violated entry means the physical alternative is executed " +
			"with different join semantics than the logical operator, i.e. results depend on the plan.",
		NotCovered: "join reordering validity, cost model, index access paths, the iterators' implementations, merge-join comparators",
		Run:        func(c *Ctx) { runC01(c, "sql/plan", "JoinType", "sql/rowexec", "sql/analyzer") },
		Fixture: func(c *Ctx, fx *Prog) {
			expectFixture(c, fx, "c01: Semi->AntiHash and LeftOuter->Hash mappings must be reported",
				[]string{"C01-J1:AsHash(JoinTypeLeftOuter)->JoinTypeHash/IsLeftOuter", "C01-J1:AsHash(JoinTypeSemi)->JoinTypeAntiHash/IsAnti", "C01-J1:AsHash(JoinTypeSemi)->JoinTypeAntiHash/IsSemi"},
				func(fc *Ctx) { runC01(fc, "testdata/c01/plan", "JoinType", "testdata/c01/rowexec", "") })
		},
		FixturePkgs: []string{"./testdata/c01/plan", "./testdata/c01/rowexec"},
	})
}

// c01AlgorithmSelectors: predicates the executor uses only to choose among iterators that
// implement the same logical class (or to reject placeholders); they legitimately differ
// between a logical type and its physical version.
var c01AlgorithmSelectors = map[string]string{
	"IsMerge":       "selects the merge iterator (inner/left-outer class)",
	"IsRange":       "selects the range-heap iterator (inner/left-outer class)",
	"IsLateral":     "selects the lateral iterator",
	"IsPlaceholder": "placeholder types never reach execution (panic arm)",
	"IsHash":        "algorithm marker",
	"IsLookup":      "algorithm marker",
	"IsPhysical":    "algorithm marker",
	"String":        "not a predicate",
}

// c01J1Exceptions: table entries that do not preserve a class predicate but cannot reach the
// executor; each is tied to a side condition that the check re-verifies.
var c01J1Exceptions = map[string]string{
	"AsMerge(JoinTypeSemi)->JoinTypeSemiMerge/IsPartial":                         "AsMerge's only caller (analyzer.addMergeJoins) handles *memo.InnerJoin and *memo.LeftJoin only (side condition checked)",
	"AsMerge(JoinTypeAnti)->JoinTypeAntiMerge/IsPartial":                         "same side condition: merge joins are built for inner/left joins only",
	"AsMerge(JoinTypeAntiIncludeNulls)->JoinTypeAntiMergeIncludeNulls/IsPartial": "same side condition: merge joins are built for inner/left joins only",
}

func runC01(c *Ctx, planRel, typeName, execRel, analyzerRel string) {
	c.Rule("C01-J1", "for every entry L->P of JoinType.As{Hash,Lookup,Merge,RangeHeap} and every class predicate X that package rowexec calls on a JoinType to decide row semantics: X(L) == X(P)", 60)
	c.Rule("C01-J2", "every IsPhysical constant is claimed by at most one of the algorithm predicates IsHash/IsLookup/IsMerge/IsRange (the memo builds one algorithm's child structure, the executor ladder must pick the same one)", 18)
	c.Rule("C01-J3", "folding rowexec.buildJoinNode's predicate ladder over the enum: L and P=AsY(L) reach the same iterator constructor, or P reaches an algorithm iterator (merge/range/lateral) and L reaches the generic nested-loop iterator", 15)
	if !c.fixtureMode {
		c.Rule("C01-K", "lookup-join keys: a probe value converted to the indexed column's type becomes an index key (Below/Above.Key, keyed range) only on paths where the conversion reported InRange; otherwise the lookup plan alone matches rows holding the type's bound", 2)
		ruleClampedKey(c, "C01-K", []string{"sql/plan", "sql/rowexec"})
	}
	if c.fixtureMode {
		c.Rule("C01-J1", "", 0)
		c.Rule("C01-J2", "", 0)
		c.Rule("C01-J3", "", 0)
	}
	pk := c.P.Pkg(planRel)
	ex := c.P.Pkg(execRel)
	if pk == nil || ex == nil {
		c.Undecided("C01-J1", "packages", 0, "anchor packages not loaded: "+planRel+", "+execRel)
		return
	}
	consts, enumT := EnumConsts(pk, typeName)
	if len(consts) < 4 {
		c.Undecided("C01-J1", typeName, 0, "enum constants not found")
		return
	}
	f := &Folder{P: c.P}

	// all methods of the enum
	methods := map[string]*types.Func{}
	for _, m := range MethodsOf(pk, typeName) {
		methods[m.Name()] = m
	}
	// class predicates: bool-valued methods of the enum that the executor package calls
	used := map[string]int{}
	for _, file := range ex.Syntax {
		ast.Inspect(file, func(n ast.Node) bool {
			call, ok := n.(*ast.CallExpr)
			if !ok {
				return true
			}
			fn := Callee(ex.TypesInfo, call)
			if fn == nil || fn.Pkg() != pk.Types {
				return true
			}
			sig := fn.Type().(*types.Signature)
			if sig.Recv() == nil || !types.Identical(sig.Recv().Type(), enumT) {
				return true
			}
			used[fn.Name()]++
			return true
		})
	}
	var classPreds []string
	for name := range used {
		if _, sel := c01AlgorithmSelectors[name]; sel {
			continue
		}
		m := methods[name]
		if m == nil {
			continue
		}
		sig := m.Type().(*types.Signature)
		if sig.Results().Len() == 1 && types.Identical(sig.Results().At(0).Type(), types.Typ[types.Bool]) && sig.Params().Len() == 0 {
			classPreds = append(classPreds, name)
		}
	}
	sort.Strings(classPreds)
	c.Notef("class predicates consulted by %s: %v (call counts %v)", execRel, classPreds, used)
	if len(classPreds) < 3 && !c.fixtureMode {
		c.Undecided("C01-J1", "class-predicates", 0, fmt.Sprintf("expected the executor to consult at least 3 class predicates, found %v", classPreds))
	}
	predSets := map[string]map[string]bool{}
	for name, m := range methods {
		sig := m.Type().(*types.Signature)
		if sig.Params().Len() != 0 || sig.Results().Len() != 1 || !types.Identical(sig.Results().At(0).Type(), types.Typ[types.Bool]) {
			continue
		}
		set, err := f.PredicateSet(m, consts)
		if err != nil {
			if contains(classPreds, name) || name == "IsPhysical" {
				c.Undecided("C01-J1", name, m.Pos(), "predicate table not readable: "+err.Error())
			}
			continue
		}
		predSets[name] = set
	}

	// mapping tables
	type pair struct{ L, P string }
	maps := map[string][]pair{}
	var mapNames []string
	for name, m := range methods {
		sig := m.Type().(*types.Signature)
		if !strings.HasPrefix(name, "As") || sig.Params().Len() != 0 || sig.Results().Len() != 1 || !types.Identical(sig.Results().At(0).Type(), enumT) {
			continue
		}
		mapNames = append(mapNames, name)
		for _, k := range consts {
			v, panicked, err := f.Call(m, k.Val)
			if err != nil || panicked {
				c.Undecided("C01-J1", name, m.Pos(), fmt.Sprintf("mapping table not readable: %v", err))
				break
			}
			if !constant.Compare(v, token.EQL, k.Val) {
				maps[name] = append(maps[name], pair{k.Obj.Name(), nameOf(consts, v)})
			}
		}
	}
	sort.Strings(mapNames)

	// J1
	for _, mn := range mapNames {
		if mn == "AsLateral" {
			continue
		}
		for _, pr := range maps[mn] {
			for _, X := range classPreds {
				set := predSets[X]
				if set == nil {
					continue
				}
				key := fmt.Sprintf("%s(%s)->%s/%s", mn, pr.L, pr.P, X)
				if set[pr.L] == set[pr.P] {
					c.Ok("C01-J1", key, methods[mn].Pos(), "")
				} else if why, ok := c01J1Exceptions[key]; ok && !c.fixtureMode {
					c.Exc("C01-J1", key, methods[mn].Pos(), why)
				} else {
					c.Bad("C01-J1", key, methods[mn].Pos(), fmt.Sprintf("%s(%s)=%v but %s(%s)=%v: the physical type is executed with a different %s class than the logical type it replaces",
						X, pr.L, set[pr.L], X, pr.P, set[pr.P], X))
				}
			}
		}
	}
	// side condition for the AsMerge exceptions
	if analyzerRel != "" {
		c01MergeSideCondition(c, pk, analyzerRel, methods["AsMerge"])
	}

	// J2
	phys := predSets["IsPhysical"]
	algos := []string{"IsHash", "IsLookup", "IsMerge", "IsRange"}
	if phys != nil {
		produced := map[string]string{}
		for _, mn := range mapNames {
			if mn == "AsLateral" {
				continue
			}
			for _, pr := range maps[mn] {
				produced[pr.P] = mn
			}
		}
		var ps []string
		for p := range produced {
			ps = append(ps, p)
		}
		sort.Strings(ps)
		for _, p := range ps {
			if !phys[p] {
				// Not an obligation: IsPhysical steers re-planning and hint matching only; a produced type that is not
				// IsPhysical was not shown to change results (triaged: JoinTypeCrossHash), so it is reported as information.
				c.Note("C01-J2", "produced-not-physical/"+p, methods["IsPhysical"].Pos(), fmt.Sprintf("%s is produced by %s but IsPhysical(%s) is false", p, produced[p], p))
			}
		}
		for _, k := range consts {
			if !phys[k.Obj.Name()] {
				continue
			}
			n := 0
			var who []string
			for _, a := range algos {
				if predSets[a] != nil && predSets[a][k.Obj.Name()] {
					n++
					who = append(who, a)
				}
			}
			c.Check(n <= 1, "C01-J2", "one-algorithm/"+k.Obj.Name(), k.Obj.Pos(), fmt.Sprint(who), fmt.Sprintf("physical type %s is claimed by %d algorithm predicates %v: the exec builder prepares one algorithm's children while the executor ladder picks another iterator", k.Obj.Name(), n, who))
		}
	}

	// J3: dispatch ladder
	ladderFn := findLadder(c, ex, enumT)
	if ladderFn == nil {
		if !c.fixtureMode {
			c.Undecided("C01-J3", "buildJoinNode", 0, "dispatch ladder (tagless switch over JoinType predicates) not found in "+execRel)
		}
		return
	}
	arm := map[string]string{}
	for _, k := range consts {
		a, err := foldLadder(c, f, ex, ladderFn, enumT, k.Val)
		if err != nil {
			c.Undecided("C01-J3", "ladder", ladderFn.Pos(), err.Error())
			return
		}
		arm[k.Obj.Name()] = a
	}
	c.Notef("dispatch arms: %v", arm)
	generic := arm[mostCommonInnerName(consts)]
	for _, mn := range mapNames {
		for _, pr := range maps[mn] {
			key := fmt.Sprintf("%s(%s)->%s", mn, pr.L, pr.P)
			aL, aP := arm[pr.L], arm[pr.P]
			switch {
			case aL == aP:
				c.Ok("C01-J3", key, ladderFn.Pos(), "same iterator: "+aL)
			case aL == generic && aP != generic && !strings.Contains(aP, "panic"):
				// algorithm iterator replacing the nested-loop iterator; it must not be one of the
				// semantic arms (full outer / partial / cross) that L did not take
				semantic := false
				for _, q := range []string{"IsFullOuter", "IsPartial", "IsCross"} {
					if predSets[q] != nil && predSets[q][pr.P] {
						semantic = true
					}
				}
				c.Check(!semantic, "C01-J3", key, ladderFn.Pos(), "algorithm iterator "+aP+" for generic "+aL, fmt.Sprintf("%s runs in %s but %s runs in %s", pr.L, aL, pr.P, aP))
			case mn == "AsLateral" && !strings.Contains(aP, "panic"):
				c.Ok("C01-J3", key, ladderFn.Pos(), "lateral iterator "+aP)
			default:
				if why, ok := c01J1Exceptions[key+"/IsPartial"]; ok && !c.fixtureMode {
					c.Exc("C01-J3", key, ladderFn.Pos(), why)
				} else {
					c.Bad("C01-J3", key, ladderFn.Pos(), fmt.Sprintf("logical %s is executed by %s but its physical version %s by %s", pr.L, aL, pr.P, aP))
				}
			}
		}
	}
}

func mostCommonInnerName(consts []EnumConst) string {
	for _, k := range consts {
		if strings.HasSuffix(k.Obj.Name(), "Inner") && !strings.Contains(k.Obj.Name(), "Lateral") {
			return k.Obj.Name()
		}
	}
	return consts[0].Obj.Name()
}

func contains(ss []string, s string) bool {
	for _, x := range ss {
		if x == s {
			return true
		}
	}
	return false
}

// findLadder finds the function in the executor package whose body is a tagless switch
// whose case conditions are all predicate calls on a JoinType value.
func findLadder(c *Ctx, ex *packages.Package, enumT types.Type) *ast.FuncDecl {
	var best *ast.FuncDecl
	bestN := 0
	for _, file := range ex.Syntax {
		for _, d := range file.Decls {
			fd, ok := d.(*ast.FuncDecl)
			if !ok || fd.Body == nil {
				continue
			}
			for _, s := range fd.Body.List {
				sw, ok := s.(*ast.SwitchStmt)
				if !ok || sw.Tag != nil {
					continue
				}
				n := 0
				for _, cs := range sw.Body.List {
					for _, x := range cs.(*ast.CaseClause).List {
						if call, ok := x.(*ast.CallExpr); ok {
							if fn := Callee(ex.TypesInfo, call); fn != nil {
								if sig := fn.Type().(*types.Signature); sig.Recv() != nil && types.Identical(sig.Recv().Type(), enumT) {
									n++
								}
							}
						}
					}
				}
				if n > bestN {
					best, bestN = fd, n
				}
			}
		}
	}
	if bestN < 3 {
		return nil
	}
	return best
}

// foldLadder evaluates the ladder for one enum value and names the arm by the function it
// calls (or "panic").
func foldLadder(c *Ctx, f *Folder, ex *packages.Package, fd *ast.FuncDecl, enumT types.Type, v constant.Value) (string, error) {
	info := ex.TypesInfo
	for _, s := range fd.Body.List {
		sw, ok := s.(*ast.SwitchStmt)
		if !ok || sw.Tag != nil {
			continue
		}
		armName := func(cc *ast.CaseClause) string {
			name := "?"
			for _, st := range cc.Body {
				ast.Inspect(st, func(n ast.Node) bool {
					if call, ok := n.(*ast.CallExpr); ok && name == "?" {
						if IsBuiltinCall(info, call, "panic") {
							name = "panic"
							return false
						}
						if fn := Callee(info, call); fn != nil && fn.Pkg() == ex.Types {
							name = fn.Name()
							return false
						}
					}
					return true
				})
			}
			return name
		}
		var deflt *ast.CaseClause
		for _, cs := range sw.Body.List {
			cc := cs.(*ast.CaseClause)
			if cc.List == nil {
				deflt = cc
				continue
			}
			for _, x := range cc.List {
				call, ok := x.(*ast.CallExpr)
				if !ok {
					return "", fmt.Errorf("ladder case is not a predicate call at %s", c.P.Rel(x.Pos()))
				}
				fn := Callee(info, call)
				if fn == nil {
					return "", fmt.Errorf("ladder case callee unresolved at %s", c.P.Rel(x.Pos()))
				}
				r, panicked, err := f.Call(fn, v)
				if err != nil || panicked {
					return "", fmt.Errorf("ladder predicate %s not readable: %v", fn.Name(), err)
				}
				if constant.BoolVal(r) {
					return armName(cc), nil
				}
			}
		}
		if deflt != nil {
			return armName(deflt), nil
		}
		return "none", nil
	}
	return "", fmt.Errorf("no ladder")
}

// c01MergeSideCondition: AsMerge is called only from a function whose enclosing type switch
// restricts the join expression to inner/left joins.
func c01MergeSideCondition(c *Ctx, planPk *packages.Package, analyzerRel string, asMerge *types.Func) {
	an := c.P.Pkg(analyzerRel)
	if an == nil || asMerge == nil {
		c.Undecided("C01-J1", "AsMerge-side-condition", 0, "analyzer package or AsMerge not found")
		return
	}
	ncalls := 0
	for _, pk := range c.P.Module {
		for _, file := range pk.Syntax {
			for _, d := range file.Decls {
				fd, ok := d.(*ast.FuncDecl)
				if !ok || fd.Body == nil {
					continue
				}
				ast.Inspect(fd.Body, func(n ast.Node) bool {
					call, ok := n.(*ast.CallExpr)
					if !ok || Callee(pk.TypesInfo, call) != asMerge {
						return true
					}
					ncalls++
					// find a type switch in fd whose cases are only *InnerJoin / *LeftJoin and whose default leaves the function/loop
					okSwitch := false
					var caseTypes []string
					ast.Inspect(fd.Body, func(m ast.Node) bool {
						ts, ok := m.(*ast.TypeSwitchStmt)
						if !ok || ts.Pos() > call.Pos() {
							return true
						}
						var names []string
						hasExitDefault := false
						for _, cs := range ts.Body.List {
							cc := cs.(*ast.CaseClause)
							if cc.List == nil {
								for _, st := range cc.Body {
									switch b := st.(type) {
									case *ast.ReturnStmt:
										hasExitDefault = true
									case *ast.BranchStmt:
										if b.Tok.String() == "continue" {
											hasExitDefault = true
										}
									}
								}
								continue
							}
							for _, x := range cc.List {
								names = append(names, types.ExprString(x))
							}
						}
						sort.Strings(names)
						if hasExitDefault && len(names) > 0 {
							all := true
							for _, n := range names {
								if !strings.HasSuffix(n, "InnerJoin") && !strings.HasSuffix(n, "LeftJoin") {
									all = false
								}
							}
							if all {
								okSwitch = true
								caseTypes = names
							}
						}
						return true
					})
					key := "AsMerge-caller/" + DeclName(fd)
					c.Check(okSwitch, "C01-J1", key, call.Pos(), fmt.Sprintf("caller restricted by type switch to %v", caseTypes),
						"AsMerge is called where the join expression is not restricted to inner/left joins: the Semi/Anti merge entries (not IsPartial) become reachable")
					return true
				})
			}
		}
	}
	if ncalls == 0 {
		c.Note("C01-J1", "AsMerge-caller/none", asMerge.Pos(), "AsMerge has no callers in the loaded packages")
	}
}
