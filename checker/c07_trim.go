package main

import (
	"fmt"
	"go/ast"
	"go/constant"
	"go/token"
	"go/types"
	"strings"

	"golang.org/x/tools/go/packages"
)

// C07-H4 (numeric text is only canonicalised behind the decimal point): the hash kernels bring
// the text of a decimal to a canonical form by removing trailing zeros, so that 1.50 and 1.5 hash
// alike. Removing trailing '0' characters is value-preserving only when the text contains a
// decimal point; on an integer text it turns 10, 100 and 1000 into 1, and every consumer that
// decides equality from the hash alone (hash IN, DISTINCT, GROUP BY keys) then identifies
// different numbers.
//
// Decided for the given package: every call that strips trailing '0' characters from a string
// (strings.TrimRight with a cutset containing '0', strings.TrimRightFunc / TrimFunc with a
// predicate that compares with '0', strings.TrimSuffix with "0") is guarded by a test that the
// string contains '.': it lies in the body of an `if` whose condition calls strings.IndexByte /
// Index / IndexRune / Contains / ContainsRune with '.' and is the non-negative branch, or it is
// preceded in an enclosing block by `if <no '.'> { return | continue | break }`. A cutset that holds
// both '0' and '.' is reported as well: it keeps stripping past the point.

func ruleZeroTrimGuarded(c *Ctx, rule string, rels []string) {
	c.P.EachFuncDecl(rels, func(pk *packages.Package, fd *ast.FuncDecl) {
		if fd.Body == nil {
			return
		}
		info := pk.TypesInfo
		isStrings := func(call *ast.CallExpr, names ...string) bool {
			fn := Callee(info, call)
			if fn == nil || fn.Pkg() == nil || fn.Pkg().Path() != "strings" {
				return false
			}
			for _, n := range names {
				if fn.Name() == n {
					return true
				}
			}
			return false
		}
		constHas := func(e ast.Expr, ch string) bool {
			tv, ok := info.Types[e]
			if !ok || tv.Value == nil {
				return false
			}
			switch tv.Value.Kind() {
			case constant.String:
				return strings.Contains(constant.StringVal(tv.Value), ch)
			case constant.Int:
				if i, ok := constant.Int64Val(tv.Value); ok {
					return string(rune(i)) == ch
				}
			}
			return false
		}
		stripsZeros := func(call *ast.CallExpr) bool {
			switch {
			case isStrings(call, "TrimRight", "Trim", "TrimSuffix") && len(call.Args) == 2:
				return constHas(call.Args[1], "0")
			case isStrings(call, "TrimRightFunc", "TrimFunc") && len(call.Args) == 2:
				found := false
				ast.Inspect(call.Args[1], func(n ast.Node) bool {
					if be, ok := n.(*ast.BinaryExpr); ok && be.Op == token.EQL && (constHas(be.X, "0") || constHas(be.Y, "0")) {
						found = true
					}
					return !found
				})
				return found
			}
			return false
		}
		// does cond establish "contains '.'" on its true edge (positive) or its false edge (negative)?
		dotTest := func(cond ast.Expr) (positive, negative bool) {
			ast.Inspect(cond, func(n ast.Node) bool {
				switch x := n.(type) {
				case *ast.BinaryExpr:
					var call *ast.CallExpr
					var other ast.Expr
					if c1, ok := ast.Unparen(x.X).(*ast.CallExpr); ok {
						call, other = c1, x.Y
					} else if c2, ok := ast.Unparen(x.Y).(*ast.CallExpr); ok {
						call, other = c2, x.X
					}
					if call != nil && isStrings(call, "IndexByte", "Index", "IndexRune", "LastIndexByte", "LastIndex") && len(call.Args) == 2 && constHas(call.Args[1], ".") {
						if tv, ok := info.Types[other]; ok && tv.Value != nil {
							v, _ := constant.Int64Val(tv.Value)
							switch {
							case (x.Op == token.NEQ && v == -1) || (x.Op == token.GEQ && v == 0) || (x.Op == token.GTR && v == -1):
								positive = true
							case (x.Op == token.EQL && v == -1) || (x.Op == token.LSS && v == 0):
								negative = true
							}
						}
					}
				case *ast.CallExpr:
					if isStrings(x, "Contains", "ContainsRune", "ContainsAny") && len(x.Args) == 2 && constHas(x.Args[1], ".") {
						positive = true
					}
				case *ast.UnaryExpr:
					if x.Op == token.NOT {
						if call, ok := ast.Unparen(x.X).(*ast.CallExpr); ok && isStrings(call, "Contains", "ContainsRune", "ContainsAny") && len(call.Args) == 2 && constHas(call.Args[1], ".") {
							negative = true
							return false
						}
					}
				}
				return true
			})
			if negative {
				positive = false
			}
			return
		}
		terminates := func(b *ast.BlockStmt) bool {
			if len(b.List) == 0 {
				return false
			}
			switch s := b.List[len(b.List)-1].(type) {
			case *ast.ReturnStmt:
				return true
			case *ast.BranchStmt:
				return s.Tok == token.CONTINUE || s.Tok == token.BREAK || s.Tok == token.GOTO
			}
			return false
		}
		var stack []ast.Node
		ast.Inspect(fd.Body, func(n ast.Node) bool {
			if n == nil {
				stack = stack[:len(stack)-1]
				return true
			}
			stack = append(stack, n)
			call, ok := n.(*ast.CallExpr)
			if !ok || !stripsZeros(call) {
				return true
			}
			guarded := false
			for i := len(stack) - 2; i >= 0 && !guarded; i-- {
				switch x := stack[i].(type) {
				case *ast.IfStmt:
					// in the body (not the else) of a positive test
					if i+1 < len(stack) && stack[i+1] == ast.Node(x.Body) {
						if pos, _ := dotTest(x.Cond); pos {
							guarded = true
						}
					}
				case *ast.BlockStmt:
					// an earlier `if <no dot> { terminate }` in this block
					for _, st := range x.List {
						if i+1 < len(stack) && st == stack[i+1] {
							break
						}
						if ifs, ok := st.(*ast.IfStmt); ok && ifs.Else == nil && terminates(ifs.Body) {
							if _, neg := dotTest(ifs.Cond); neg {
								guarded = true
							}
						}
					}
				}
			}
			fnName := "call"
			if fn := Callee(info, call); fn != nil {
				fnName = fn.Name()
			}
			key := fmt.Sprintf("%s/%s(%s)", DeclName(fd), fnName, types.ExprString(call.Args[0]))
			// a cutset that mixes '0' with the point itself keeps stripping past the point: "10.0" -> "1"
			mixed := false
			if isStrings(call, "TrimRight", "Trim") && len(call.Args) == 2 {
				if tv, ok := info.Types[call.Args[1]]; ok && tv.Value != nil && tv.Value.Kind() == constant.String {
					cs := constant.StringVal(tv.Value)
					mixed = strings.Contains(cs, "0") && strings.Contains(cs, ".")
				}
			}
			if mixed {
				c.Bad(rule, key, call.Pos(), fmt.Sprintf("%s strips a cutset that contains both '0' and '.': after the fraction is gone the call goes on stripping the integer part's own zeros (\"10.0\" becomes \"1\"), so different numbers get the same key", DeclName(fd)))
				return true
			}
			if guarded {
				c.Ok(rule, key, call.Pos(), "trailing zeros are stripped only when the text contains a decimal point")
			} else {
				c.Bad(rule, key, call.Pos(), fmt.Sprintf("%s strips trailing '0' characters from %s without a dominating test that the text contains '.': an integer text loses its own zeros (10, 100, 1000 all become 1), and everything that decides equality from this key alone identifies different numbers", DeclName(fd), types.ExprString(call.Args[0])))
			}
			return true
		})
	})
}
