package main

import (
	"encoding/json"
	"fmt"
	"go/token"
	"os"
	"path/filepath"
	"sort"
	"strings"
	"time"
)

type Status string

const (
	OK        Status = "ok"
	Violation Status = "violation"
	Known     Status = "known-finding"
	Info      Status = "info"
	Excepted  Status = "exception" // named exception with a reason, frozen in the rule
)

// Obligation is one decided rule instance. Key identifies the construct (never a line
// number), so that known findings and mutant expectations survive unrelated edits.
type Obligation struct {
	Rule   string   `json:"rule"`
	Key    string   `json:"construct"`
	Pos    string   `json:"pos,omitempty"`
	Status Status   `json:"status"`
	Msg    string   `json:"msg,omitempty"`
	Path   []string `json:"path,omitempty"`
}

type RuleDoc struct {
	ID    string `json:"id"`
	Text  string `json:"text"`
	Floor int    `json:"instance_floor"`
	Count int    `json:"instances"`
}

type Fixture struct {
	Name string `json:"name"`
	Want string `json:"want"`
	Got  string `json:"got"`
	Pass bool   `json:"pass"`
}

// Ctx collects what one property check decided.
type Ctx struct {
	Prop        string
	Tier        string
	P           *Prog
	Obs         []Obligation
	Rules       []*RuleDoc
	ruleIdx     map[string]*RuleDoc
	Fixtures    []Fixture
	Notes       []string
	Assumptions []string
	Explanation string
	NotCovered  string
	fixtureMode bool
	seen        map[string]bool
}

func NewCtx(prop, tier string, p *Prog) *Ctx {
	return &Ctx{Prop: prop, Tier: tier, P: p, ruleIdx: map[string]*RuleDoc{}, seen: map[string]bool{}}
}

// Rule declares a rule with its text and the instance floor confirmed by reading.
func (c *Ctx) Rule(id, text string, floor int) {
	if r, ok := c.ruleIdx[id]; ok {
		r.Text, r.Floor = text, floor
		return
	}
	r := &RuleDoc{ID: id, Text: text, Floor: floor}
	c.Rules = append(c.Rules, r)
	c.ruleIdx[id] = r
}

func (c *Ctx) add(rule, key string, pos token.Pos, st Status, msg string, path ...string) {
	if _, ok := c.ruleIdx[rule]; !ok {
		c.Rule(rule, "", 0)
	}
	k := rule + "|" + key
	if c.seen[k] {
		// keys must be unique per rule; disambiguate deterministically
		for i := 2; ; i++ {
			k2 := fmt.Sprintf("%s#%d", k, i)
			if !c.seen[k2] {
				key = fmt.Sprintf("%s#%d", key, i)
				k = k2
				break
			}
		}
	}
	c.seen[k] = true
	ps := ""
	if pos.IsValid() && c.P != nil {
		ps = c.P.Rel(pos)
	}
	if st != Info {
		c.ruleIdx[rule].Count++
	}
	c.Obs = append(c.Obs, Obligation{Rule: rule, Key: key, Pos: ps, Status: st, Msg: msg, Path: path})
}

func (c *Ctx) Ok(rule, key string, pos token.Pos, msg string) { c.add(rule, key, pos, OK, msg) }
func (c *Ctx) Bad(rule, key string, pos token.Pos, msg string, path ...string) {
	c.add(rule, key, pos, Violation, msg, path...)
}
func (c *Ctx) Exc(rule, key string, pos token.Pos, reason string) {
	c.add(rule, key, pos, Excepted, reason)
}
func (c *Ctx) Note(rule, key string, pos token.Pos, msg string) { c.add(rule, key, pos, Info, msg) }

// Check records ok or violation depending on cond.
func (c *Ctx) Check(cond bool, rule, key string, pos token.Pos, okMsg, badMsg string) bool {
	if cond {
		c.Ok(rule, key, pos, okMsg)
	} else {
		c.Bad(rule, key, pos, badMsg)
	}
	return cond
}

// Undecided: the rule could not read the construct it is anchored in. Never a pass.
func (c *Ctx) Undecided(rule, key string, pos token.Pos, msg string) {
	c.add(rule, key, pos, Violation, "UNDECIDED (anchor not readable, never a pass): "+msg)
}

func (c *Ctx) Notef(format string, a ...any) { c.Notes = append(c.Notes, fmt.Sprintf(format, a...)) }

// ---- known findings ------------------------------------------------------------------

type KnownFinding struct {
	Property  string `json:"property"`
	Rule      string `json:"rule"`
	Construct string `json:"construct"`
	Status    string `json:"status"` // "known" | "fixed"
	Commit    string `json:"commit,omitempty"`
	WhatFails string `json:"what_fails"`
	Repro     string `json:"repro,omitempty"`
}

func loadKnown(verifDir string) ([]KnownFinding, error) {
	// known_findings.json is the committed list; known_findings.<x>.json fragments (if any) are
	// merged in (used while rules are being developed in parallel; folded into the main file).
	files, _ := filepath.Glob(filepath.Join(verifDir, "known_findings*.json"))
	var all []KnownFinding
	for _, f := range files {
		b, err := os.ReadFile(f)
		if err != nil {
			return nil, err
		}
		var doc struct {
			Findings []KnownFinding `json:"findings"`
		}
		if err := json.Unmarshal(b, &doc); err != nil {
			return nil, fmt.Errorf("%s: %w", filepath.Base(f), err)
		}
		all = append(all, doc.Findings...)
	}
	return all, nil
}

// ---- finishing -----------------------------------------------------------------------

type Evidence struct {
	PropertyID  string         `json:"property_id"`
	Tier        string         `json:"tier"`
	Seed        int            `json:"seed"`
	Level       string         `json:"level"`
	Coverage    map[string]any `json:"coverage"`
	Assumptions []string       `json:"assumptions"`
	WallS       float64        `json:"wall_s"`
	Violations  int            `json:"violations"`
}

// Finish applies floors and known findings, prints the verdict lines, writes evidence and
// replay files and returns the process exit code.
func (c *Ctx) Finish(verifDir string, start time.Time, seed int, patterns []string, loadErr error) int {
	known, kerr := loadKnown(verifDir)
	if kerr != nil {
		c.add("framework", "known_findings.json", token.NoPos, Violation, kerr.Error())
	}
	if loadErr != nil {
		c.add("framework", "load", token.NoPos, Violation, loadErr.Error())
	}
	// floors: a rule that matches fewer instances than confirmed by reading fails.
	for _, r := range c.Rules {
		if r.Count < r.Floor {
			c.add(r.ID, "instance-floor", token.NoPos, Violation,
				fmt.Sprintf("rule matched %d instances, floor confirmed by reading is %d (vacuity guard)", r.Count, r.Floor))
		}
	}
	for _, f := range c.Fixtures {
		if !f.Pass {
			c.add("fixture", f.Name, token.NoPos, Violation, fmt.Sprintf("checker self-check failed: want %s, got %s", f.Want, f.Got))
		}
	}
	// known findings
	matchedKnown := []string{}
	for i := range c.Obs {
		o := &c.Obs[i]
		if o.Status != Violation {
			continue
		}
		for _, k := range known {
			if k.Status == "known" && k.Property == c.Prop && k.Rule == o.Rule && k.Construct == o.Key {
				o.Status = Known
				o.Msg = o.Msg + " [known finding: " + k.WhatFails + "]"
				matchedKnown = append(matchedKnown, k.Rule+" "+k.Construct)
				fmt.Printf("KNOWN-FINDING: property=%s rule=%s construct=%s at %s: %s\n", c.Prop, o.Rule, o.Key, o.Pos, k.WhatFails)
			}
		}
	}
	var viol []Obligation
	counts := map[Status]int{}
	distinct := map[string]bool{}
	for _, o := range c.Obs {
		counts[o.Status]++
		if o.Status != Info {
			distinct[o.Rule+"|"+o.Key] = true
		}
		if o.Status == Violation {
			viol = append(viol, o)
		}
	}
	obligations := counts[OK] + counts[Violation] + counts[Known] + counts[Excepted]
	discharged := counts[OK] + counts[Excepted]

	os.MkdirAll(filepath.Join(verifDir, "evidence", "replay"), 0o755)
	// remove stale replay files of this property
	if old, _ := filepath.Glob(filepath.Join(verifDir, "evidence", "replay", c.Prop+"-*.json")); old != nil {
		for _, f := range old {
			os.Remove(f)
		}
	}
	for i, v := range viol {
		rp := filepath.Join("evidence", "replay", fmt.Sprintf("%s-%d.json", c.Prop, i+1))
		b, _ := json.MarshalIndent(map[string]any{"property": c.Prop, "rule": v.Rule, "construct": v.Key, "pos": v.Pos, "msg": v.Msg, "path": v.Path,
			"replay_cmd": fmt.Sprintf("./check.sh %s %s -replay %s", c.Prop, c.Tier, rp)}, "", " ")
		os.WriteFile(filepath.Join(verifDir, rp), b, 0o644)
		fmt.Printf("DIAG property=%s rule=%s construct=%s at %s: %s\n", c.Prop, v.Rule, v.Key, v.Pos, v.Msg)
		for _, s := range v.Path {
			fmt.Printf("    path: %s\n", s)
		}
		fmt.Printf("VIOLATION property=%s replay=%s\n", c.Prop, rp)
	}

	// samples: every non-ok obligation plus a spread of ok ones per rule
	var samples []any
	perRule := map[string]int{}
	for _, o := range c.Obs {
		if o.Status != OK && o.Status != Info {
			samples = append(samples, o)
		}
	}
	for _, o := range c.Obs {
		if o.Status == OK && perRule[o.Rule] < 6 {
			perRule[o.Rule]++
			samples = append(samples, o)
		}
	}
	if len(samples) == 0 {
		samples = append(samples, "no obligations were generated")
	}
	var infos []Obligation
	for _, o := range c.Obs {
		if o.Status == Info {
			infos = append(infos, o)
		}
	}
	ruleTexts := []string{}
	for _, r := range c.Rules {
		ruleTexts = append(ruleTexts, fmt.Sprintf("%s: %s [instances=%d floor=%d]", r.ID, r.Text, r.Count, r.Floor))
	}
	npk, nfn := 0, 0
	var pkNames []string
	if c.P != nil {
		npk, nfn = len(c.P.Module), c.P.nFuncs
		for _, pk := range c.P.Module {
			pkNames = append(pkNames, strings.TrimPrefix(pk.PkgPath, modPath+"/"))
		}
	}
	assumptions := append([]string{
		"Go type checker and golang.org/x/tools v0.50.0 (go/packages, go/cfg, go/ssa) are trusted",
		"nothing under /repo is executed; the verdict is computed from the current working tree's source",
	}, c.Assumptions...)
	if c.P != nil {
		for _, o := range c.P.Overlaid {
			assumptions = append(assumptions, "overlay: "+o)
		}
	}
	ev := Evidence{
		PropertyID: c.Prop, Tier: c.Tier, Seed: seed, Level: "other",
		Coverage: map[string]any{
			"explanation":            c.Explanation,
			"not_covered":            c.NotCovered,
			"obligations":            obligations,
			"discharged":             discharged,
			"evaluations":            obligations,
			"distinct_nontrivial":    len(distinct),
			"rule":                   strings.Join(ruleTexts, " || "),
			"rules":                  c.Rules,
			"samples":                samples,
			"status_counts":          counts,
			"known_findings_matched": matchedKnown,
			"info":                   infos,
			"notes":                  c.Notes,
			"fixtures":               c.Fixtures,
			"packages_loaded":        npk,
			"package_list":           pkNames,
			"functions_analysed":     nfn,
			"load_patterns":          patterns,
			"checker_cmd":            fmt.Sprintf("./check.sh %s %s", c.Prop, c.Tier),
			"trusted_base":           []string{"go/types", "golang.org/x/tools v0.50.0", "Go language semantics (defer/recover, channels, sync/atomic)"},
			"exhaustive":             true,
		},
		Assumptions: assumptions,
		WallS:       time.Since(start).Seconds(),
		Violations:  len(viol),
	}
	b, _ := json.MarshalIndent(ev, "", " ")
	if err := os.WriteFile(filepath.Join(verifDir, "evidence", c.Prop+".json"), b, 0o644); err != nil {
		fmt.Println("cannot write evidence:", err)
		return 2
	}
	if os.Getenv("VCHK_DUMP") != "" {
		for _, o := range c.Obs {
			fmt.Printf("OBL %s %s %s %s\n", o.Rule, o.Status, o.Key, o.Pos)
		}
	}
	// summary of what was analysed
	rs := []string{}
	for _, r := range c.Rules {
		rs = append(rs, fmt.Sprintf("%s=%d", r.ID, r.Count))
	}
	sort.Strings(rs)
	fmt.Printf("ANALYSED property=%s tier=%s packages=%d functions=%d obligations=%d discharged=%d known=%d violations=%d instances[%s] wall=%.1fs\n",
		c.Prop, c.Tier, npk, nfn, obligations, discharged, counts[Known], len(viol), strings.Join(rs, " "), time.Since(start).Seconds())
	if len(viol) > 0 {
		return 1
	}
	return 0
}
