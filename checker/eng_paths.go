package main

import (
	"go/ast"

	"golang.org/x/tools/go/cfg"
)

// Stateful path exploration over go/cfg (complements PathAvoiding, which is stateless).
//
// pathExplore walks the product of the CFG and a small comparable state S, starting just after
// `from`. It is a reachability search (each (block, entry state) pair is expanded once), so it
// terminates on loops as long as the state space is finite (counters must saturate).
//
//	node(n, s)  -> (s', act): act pathGo continues, pathStop ends this path as satisfied,
//	               pathBad reports the path ending at n.
//	edge(b, i, s) -> (s', ok): ok=false prunes successor i of b (infeasible / out of scope).
//	exit(s, ret) -> bad: called at every function exit (ret = the ReturnStmt, or nil for falling
//	               off the end); true reports the path.
//
// It returns the nodes of the first offending path (nil element = implicit return), or nil.

type pathAct int

const (
	pathGo pathAct = iota
	pathStop
	pathBad
)

type pathFrame[S comparable] struct {
	prev *pathFrame[S]
	n    ast.Node
}

func pathExplore[S comparable](g *cfg.CFG, from CFGPoint, s0 S,
	node func(n ast.Node, s S) (S, pathAct),
	edge func(b *cfg.Block, succ int, s S) (S, bool),
	exit func(s S, ret *ast.ReturnStmt) bool) []ast.Node {

	type key struct {
		b *cfg.Block
		s S
	}
	seen := map[key]bool{}
	var found []ast.Node
	unwind := func(f *pathFrame[S], last ast.Node, implicit bool) []ast.Node {
		var rev []ast.Node
		for x := f; x != nil; x = x.prev {
			rev = append(rev, x.n)
		}
		out := make([]ast.Node, 0, len(rev)+1)
		for i := len(rev) - 1; i >= 0; i-- {
			out = append(out, rev[i])
		}
		if last != nil || implicit {
			out = append(out, last)
		}
		return out
	}
	var walk func(b *cfg.Block, i int, s S, tr *pathFrame[S]) bool
	walk = func(b *cfg.Block, i int, s S, tr *pathFrame[S]) bool {
		for ; i < len(b.Nodes); i++ {
			n := b.Nodes[i]
			var act pathAct
			s, act = node(n, s)
			switch act {
			case pathStop:
				return false
			case pathBad:
				found = unwind(tr, n, false)
				return true
			}
			if ret, ok := n.(*ast.ReturnStmt); ok {
				if exit != nil && exit(s, ret) {
					found = unwind(tr, n, false)
					return true
				}
				return false
			}
		}
		if len(b.Succs) == 0 {
			if isFallOffEnd(b) && exit != nil && exit(s, nil) {
				found = unwind(tr, nil, true)
				return true
			}
			return false
		}
		var last ast.Node
		if len(b.Nodes) > 0 {
			last = b.Nodes[len(b.Nodes)-1]
		}
		for si, nb := range b.Succs {
			ns := s
			if edge != nil {
				var ok bool
				ns, ok = edge(b, si, s)
				if !ok {
					continue
				}
			}
			k := key{nb, ns}
			if seen[k] {
				continue
			}
			seen[k] = true
			ntr := tr
			if last != nil && len(b.Succs) > 1 {
				ntr = &pathFrame[S]{prev: tr, n: last}
			}
			if walk(nb, 0, ns, ntr) {
				return true
			}
		}
		return false
	}
	walk(from.B, from.I+1, s0, nil)
	return found
}

// funcUnits lists the bodies of a declaration: its own body and every function literal in it.
type funcUnit struct {
	Decl *ast.FuncDecl
	Lit  *ast.FuncLit // nil for the declaration itself
	Body *ast.BlockStmt
}

func funcUnits(fd *ast.FuncDecl) []funcUnit {
	if fd.Body == nil {
		return nil
	}
	out := []funcUnit{{Decl: fd, Body: fd.Body}}
	ast.Inspect(fd.Body, func(n ast.Node) bool {
		if l, ok := n.(*ast.FuncLit); ok {
			out = append(out, funcUnit{Decl: fd, Lit: l, Body: l.Body})
		}
		return true
	})
	return out
}
