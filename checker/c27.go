package main

import (
	"fmt"
	"go/constant"
	"go/token"
	"go/types"
	"math/big"
	"sort"
	"strings"

	"golang.org/x/tools/go/ssa"
)

// C27 — storing a value keeps it or reports the change: narrowing clause + Convert's NULL clause.

type c27Config struct {
	Rel        string   // package of the conversion family ("sql/types")
	SibRels    []string // packages whose types are the sibling set for V0
	IfaceRel   string   // "sql"
	Iface      string   // "Type"
	ConvertM   string   // "Convert" (ctx, v): v is parameter 1
	FlagType   string   // "ConvertInRange"
	InRange    string   // "InRange"
	BaseConsts string   // package path declaring the base-type constants (vitess sqltypes)
	Floors     [3]int
}

func init() {
	register(&Property{
		ID:       "C27",
		Patterns: []string{"./sql/types", "./sql/rowexec", "./sql/analyzer", "./memory"},
		Explanation: "Narrowing clause of 'storing a value keeps it exactly or reports the change'. The conversion family is every function of package sql/types whose results include " +
			"sql.ConvertInRange. Decided: (V1) every numeric conversion in that family that cannot hold all values of its source type (narrowing, sign change, float->int, float64->float32) " +
			"and whose result flows - through interface boxing, phis and math.Round/Floor/Ceil/Trunc - into a return that reports the constant sql.InRange is exact: the one-variable " +
			"interval of its operand under the dominating branch conditions lies inside the target type; (V2) in every arm selected by `t.baseType == sqltypes.X`, a value returned as " +
			"InRange lies inside the SQL range of X (INT24/UINT24 are narrower than their Go carrier int32/uint32; YEAR is 0 or 1901..2155); (V0) every sql.Type.Convert implementation " +
			"answers a nil input with (nil, InRange, nil) before any other use of the value. A violated V1/V2 instance stores a different value than the one given while reporting 'in range'. " +
			"Constant-table clause for the temporal types (read from composite literals and initialisers with go/constant): (T1) the decimal-digit tables indexed by a fractional-second precision - " +
			"precisionConversion (indexed by datetimeType.precision, divisor of time.Second in ConvertToTime) and powersOfTen of appendMicroseconds - have entry[i] == 10^i, MaxDatetimePrecision+1 entries, last entry == " +
			"time.Second/time.Microsecond, are only read by indexing and precisionConversion only by the precision field as divisor of time.Second; (T2) the TIME unit scalars equal the ratios of package time's " +
			"constants (microsecondsPerSecond/Minute/Hour, nanosecondsPerMicrosecond), timespanMaximum is 838:59:59 in microseconds, timespanMinimum its negation, and none of these variables is assigned or address-taken; " +
			"(T3) ZeroTimestampDatetimeStrs[p] is the zero datetime with exactly p fractional zeros. A violated T1/T2 entry rounds or scales a representable temporal value to a different one without error or warning.",
		NotCovered: "string truncation (and the TEXT/BLOB length limits), temporal parsing, DECIMAL precision/scale (computed with apd, no table), enum/set membership, idempotence of Convert, rounding direction, NaN, conversions whose result is handed to another conversion instead of being returned, the INSERT IGNORE warning path, literal factors written inline (t.Nanosecond()/1000, hours > 838) instead of through the anchored tables and scalars",
		Technique:  "SSA + one-variable interval domain over dominating branch conditions (interval engine) + sibling nil-guard engine + constant tables folded with go/constant and who-may-write over go/types; path-sensitive go/cfg walk per conversion verdict (consumer clause)",
		Run: func(c *Ctx) {
			rels := []string{}
			for _, pk := range c.P.Module {
				rels = append(rels, strings.TrimPrefix(strings.TrimPrefix(pk.PkgPath, modPath), "/"))
			}
			runC27(c, c27Config{Rel: "sql/types", SibRels: rels, IfaceRel: "sql", Iface: "Type", ConvertM: "Convert", FlagType: "ConvertInRange", InRange: "InRange",
				BaseConsts: "github.com/dolthub/vitess/go/sqltypes", Floors: [3]int{56, 30, 16}})
			runC27T(c, c27TDefault())
			c.Rule("C27-U", "every call that binds the sql.ConvertInRange verdict of a conversion to a variable consults it on the success path: with a nil error and verdict Overflow/Underflow the converted (clamped or wrapped) value is not used, except handed back together with its verdict or quoted in the error/warning, or used after / together with a raised warning", 38)
			ruleVerdictConsulted(c, "C27-U", "sql", rels, c27uExceptions)
		},
		Fixture: func(c *Ctx, fx *Prog) {
			expectFixture(c, fx, "c27: wrong bound, missing lower bound, float boundary, 24-bit arm using the 32-bit range, Convert without nil clause",
				[]string{
					"C27-V1:T.Convert/INT16:int16(conv.toInt64)",
					"C27-V1:T.Convert/UINT8:uint8(conv.toInt64)",
					"C27-V1:toInt64/int64(math.Round(float64))",
					"C27-V2:T.Convert/INT24",
					"C27-V0:testdata/c27/conv.NoNil.Convert/uses",
					"C27-V0:testdata/c27/conv.NoNil.Convert/null-return",
				},
				func(fc *Ctx) {
					runC27(fc, c27Config{Rel: "testdata/c27/conv", SibRels: []string{"testdata/c27/conv"}, IfaceRel: "testdata/c27/conv", Iface: "Type", ConvertM: "Convert",
						FlagType: "ConvertInRange", InRange: "InRange", BaseConsts: "vchk/testdata/c27/conv"})
				})
			expectFixture(c, fx, "c27u: verdict looked at only under err != nil, one-sided test, verdict never tested",
				[]string{
					"C27-U:vchk/testdata/c27/consume.UnreachableGuard/c<-conv",
					"C27-U:vchk/testdata/c27/consume.OneSided/c<-conv",
					"C27-U:vchk/testdata/c27/consume.Decoration/c<-conv",
				},
				func(fc *Ctx) {
					ruleVerdictConsulted(fc, "C27-U", "testdata/c27/consume", []string{"testdata/c27/consume"}, nil)
				})
			expectFixture(c, fx, "c27t: wrong precision-5 divisor, short table indexed by a non-precision value, overwritten entry, wrong unit scalar / range, written unit, zero strings with a wrong digit count",
				[]string{
					"C27-T1:precisionConversion[5]",
					"C27-T1:shortTable/len",
					"C27-T1:shortTable/last",
					"C27-T1:shortTable/use",
					"C27-T1:appendMicroseconds.powersOfTen/use",
					"C27-T2:microsecondsPerMinute/value",
					"C27-T2:timespanMaximum/value",
					"C27-T2:timespanMinimum/value",
					"C27-T2:nanosecondsPerMicrosecond/immutable",
					"C27-T3:ZeroTimestampDatetimeStrs[4]",
					"C27-T3:ZeroTimestampDatetimeStrs/len",
				},
				func(fc *Ctx) {
					cfg := c27TDefault()
					cfg.Rel = "testdata/c27/tables"
					cfg.Floors = [3]int{}
					cfg.Pow10 = append(cfg.Pow10, c27TPow10{Var: "shortTable", IndexField: [2]string{"datetimeType", "precision"}, Dividend: [2]string{"time", "Second"}, Last: [4]string{"time", "Second", "time", "Microsecond"}})
					runC27T(fc, cfg)
				})
		},
		FixturePkgs: []string{"./testdata/c27/conv", "./testdata/c27/tables", "./testdata/c27/consume"},
	})
}

var c27V1Exceptions = map[string]string{
	"EnumType.Convert/uint16(int)":                    "guarded by a call the interval domain cannot read: t.At(value) succeeds only for 0 <= value <= len(t.idxToVal), and CreateEnumType rejects more than EnumTypeMaxElements (65535) members",
	"EnumType.Convert/uint16(types.EnumType.IndexOf)": "IndexOf returns -1 (tested) or an index of valToIdx/hashedValToIdx/At, all bounded by the member count <= 65535",
	"convertToUint64/uint64(time.Time.Unix)":          "reachable only from NumberTypeImpl_.Compare, which discards the flag: NumberTypeImpl_.Convert rewrites a time.Time to its Unix() int64 before calling convertToUint64, whose int64 arm reports Underflow for negatives (UBIGINT.Convert(1960-01-01) returns flag Underflow)",
}

var c27V0Exceptions = map[string]string{
	"sql.FakeExtendedType.Convert/uses":        "test double for an external engine's type system (sql/testutils.go), never a column type in this engine",
	"sql.FakeExtendedType.Convert/null-return": "test double (see /uses)",
}

func init() {
	for _, t := range []string{"SystemBoolType", "systemDoubleType", "systemEnumType", "systemIntType", "systemSetType", "systemStringType", "systemUintType"} {
		c27V0Exceptions["sql/types."+t+".Convert/uses"] = "system-variable type, not a column type: a system variable has no NULL, a nil value is rejected with ErrInvalidSystemVariableValue (or mapped to the empty string for string variables)"
		c27V0Exceptions["sql/types."+t+".Convert/null-return"] = "system-variable type (see /uses)"
	}
}

// c27SQLRanges: SQL value range per base-type constant name.
func c27SQLRanges() map[string]ivInterval {
	p := func(n uint) *big.Int { return new(big.Int).Lsh(big.NewInt(1), n) }
	s := func(bits uint) ivInterval {
		return ivInterval{ivInt(new(big.Int).Neg(p(bits - 1))), ivInt(new(big.Int).Sub(p(bits-1), big.NewInt(1)))}
	}
	u := func(bits uint) ivInterval { return ivInterval{ivF(0), ivInt(new(big.Int).Sub(p(bits), big.NewInt(1)))} }
	f32, _, _ := ivTypeRange(types.Typ[types.Float32])
	f64, _, _ := ivTypeRange(types.Typ[types.Float64])
	return map[string]ivInterval{
		"Int8": s(8), "Uint8": u(8), "Int16": s(16), "Uint16": u(16), "Int24": s(24), "Uint24": u(24),
		"Int32": s(32), "Uint32": u(32), "Int64": s(64), "Uint64": u(64), "Float32": f32, "Float64": f64,
		"Year": {ivF(0), ivF(2155)},
	}
}

func runC27(c *Ctx, cfg c27Config) {
	c.Rule("C27-V0", "every sql.Type.Convert implementation: each non-test use of v is dominated by the non-nil edge of a nil test, and each return outside that region is (nil, sql.InRange, nil) or delegates v unchanged to a sibling Convert", cfg.Floors[0])
	c.Rule("C27-V1", "every value-losing numeric conversion of the conversion family (functions returning sql.ConvertInRange) whose result flows into a return that reports the constant sql.InRange is exact under the dominating branch conditions", cfg.Floors[1])
	c.Rule("C27-V2", "in every arm selected by baseType == sqltypes.X, a numeric value returned with the constant sql.InRange lies inside the SQL range of X", cfg.Floors[2])
	pk := c.P.Pkg(cfg.Rel)
	ipk := c.P.Pkg(cfg.IfaceRel)
	if pk == nil || ipk == nil {
		c.Undecided("C27-V1", "packages", 0, "anchor packages not loaded")
		return
	}
	flagTN, _ := ipk.Types.Scope().Lookup(cfg.FlagType).(*types.TypeName)
	inRangeC, _ := ipk.Types.Scope().Lookup(cfg.InRange).(*types.Const)
	if flagTN == nil || inRangeC == nil {
		c.Undecided("C27-V1", "anchors", 0, "sql.ConvertInRange / sql.InRange not found")
		return
	}
	isInRange := func(v ssa.Value) bool {
		k, ok := v.(*ssa.Const)
		return ok && k.Value != nil && types.Identical(k.Type(), flagTN.Type()) && constant.Compare(k.Value, token.EQL, inRangeC.Val())
	}
	// base-type constants by value
	baseName := map[string]string{} // exact value string -> name
	var baseType types.Type
	if bp := c.P.ByPath[cfg.BaseConsts]; bp != nil {
		for name := range c27SQLRanges() {
			if k, ok := bp.Types.Scope().Lookup(name).(*types.Const); ok {
				baseName[k.Val().ExactString()] = name
				baseType = k.Type()
			}
		}
	}
	if len(baseName) < 6 {
		c.Undecided("C27-V2", "base-type table", 0, "base-type constants not found in "+cfg.BaseConsts)
	}
	ranges := c27SQLRanges()

	// ---- family ----
	var family []*types.Func
	for fn := range c.P.decls {
		if fn.Pkg() != pk.Types {
			continue
		}
		sig := fn.Type().(*types.Signature)
		for i := 0; i < sig.Results().Len(); i++ {
			if types.Identical(sig.Results().At(i).Type(), flagTN.Type()) {
				family = append(family, fn)
				break
			}
		}
	}
	sort.Slice(family, func(i, j int) bool { return FuncName(family[i]) < FuncName(family[j]) })
	// flag consumption: an unexported family function all of whose call sites discard the flag reports nothing
	flagUsed := map[*types.Func]int{}
	calls := map[*types.Func]int{}
	famSet := map[*types.Func]bool{}
	for _, fn := range family {
		famSet[fn] = true
	}
	c.P.SSA()
	for _, mp := range c.P.Module {
		for fn2 := range c.P.decls {
			if fn2.Pkg() != mp.Types {
				continue
			}
			sf2 := c.P.SSAFunc(fn2)
			if sf2 == nil {
				continue
			}
			for _, b := range sf2.Blocks {
				for _, in := range b.Instrs {
					call, ok := in.(*ssa.Call)
					if !ok {
						continue
					}
					callee := ngStaticCallee(&call.Call)
					if callee == nil || !famSet[callee] {
						continue
					}
					calls[callee]++
					sig := callee.Type().(*types.Signature)
					fi := -1
					for i := 0; i < sig.Results().Len(); i++ {
						if types.Identical(sig.Results().At(i).Type(), flagTN.Type()) {
							fi = i
						}
					}
					if refs := call.Referrers(); refs != nil {
						for _, r := range *refs {
							if ex, ok := r.(*ssa.Extract); ok && ex.Index == fi && ex.Referrers() != nil && len(*ex.Referrers()) > 0 {
								flagUsed[callee]++
							}
							if _, ok := r.(*ssa.Return); ok { // return f(...): the whole tuple is forwarded
								flagUsed[callee]++
							}
						}
					}
				}
			}
		}
	}
	nfam := 0
	for _, fn := range family {
		sf := c.P.SSAFunc(fn)
		if sf == nil || len(sf.Blocks) == 0 {
			continue
		}
		if !fn.Exported() && fn.Type().(*types.Signature).Recv() == nil && calls[fn] > 0 && flagUsed[fn] == 0 {
			c.Note("C27-V1", c27FuncShort(fn), fn.Pos(), fmt.Sprintf("all %d call sites discard the in-range flag of this unexported function: what it reports is unobservable, not decided", calls[fn]))
			continue
		}
		nfam++
		sig := fn.Type().(*types.Signature)
		flagIdx := -1
		for i := 0; i < sig.Results().Len(); i++ {
			if types.Identical(sig.Results().At(i).Type(), flagTN.Type()) {
				flagIdx = i
			}
		}
		fname := c27FuncShort(fn)
		eng := newIvEngine(sf)
		// V1
		used := map[string]int{}
		for _, op := range ivCollectOps(sf) {
			if op.Kind != "CONV" {
				continue
			}
			conv := op.Instr.(*ssa.Convert)
			rets := c27InRangeReturns(conv, flagIdx, isInRange)
			if len(rets) == 0 {
				continue
			}
			arm := c27Arm(rets[0].Block(), baseType, baseName)
			key := fname + "/"
			if arm != "" {
				key += strings.ToUpper(arm) + ":"
			}
			key += ivDescribe(conv, 0)
			used[key]++
			if used[key] > 1 {
				key = fmt.Sprintf("%s #%d", key, used[key])
			}
			if exact, why := eng.Exact(op); exact {
				c.Ok("C27-V1", key, conv.Pos(), "operand confined to the target range by the dominating branch conditions")
			} else if reason, ok := c27V1Exceptions[key]; ok && !c.fixtureMode {
				c.Exc("C27-V1", key, conv.Pos(), reason)
			} else {
				c.Bad("C27-V1", key, conv.Pos(), fmt.Sprintf("%s: in %s the conversion %s is returned as sql.InRange (return at %s) but %s: for such inputs a different value is stored while the conversion reports 'in range'", c.P.Rel(conv.Pos()), fname, ivDescribe(conv, 0), c.P.Rel(rets[0].Pos()), why))
			}
		}
		// V2
		if len(baseName) == 0 {
			continue
		}
		usedArm := map[string]int{}
		for _, b := range sf.Blocks {
			if len(b.Instrs) == 0 {
				continue
			}
			ret, ok := b.Instrs[len(b.Instrs)-1].(*ssa.Return)
			if !ok || flagIdx >= len(ret.Results) || !isInRange(ret.Results[flagIdx]) || c27ErrNonNil(ret) {
				continue
			}
			arm := c27Arm(b, baseType, baseName)
			if arm == "" {
				continue
			}
			v := ret.Results[0]
			if mi, ok := v.(*ssa.MakeInterface); ok {
				v = mi.X
			}
			r, ok := eng.Range(v, b)
			if !ok {
				continue // not a numeric value (nil on an error path, or a delegated tuple)
			}
			key := fname + "/" + strings.ToUpper(arm)
			usedArm[key]++
			if usedArm[key] > 1 {
				key = fmt.Sprintf("%s #%d", key, usedArm[key])
			}
			want := ranges[arm]
			if r.Within(want) {
				c.Ok("C27-V2", key, ret.Pos(), fmt.Sprintf("returned value in %s within SQL range %s", r, want))
			} else {
				c.Bad("C27-V2", key, ret.Pos(), fmt.Sprintf("%s: in the %s arm of %s the value returned as sql.InRange ranges over %s, the SQL range of %s is %s: an out-of-range value is stored and reported in range", c.P.Rel(ret.Pos()), strings.ToUpper(arm), fname, r, strings.ToUpper(arm), want))
			}
		}
	}
	c.Notef("conversion family: %d functions with SSA bodies return %s.%s", nfam, cfg.IfaceRel, cfg.FlagType)

	// ---- V0: Convert's nil clause over all siblings ----
	iface := ngLookupIface(c.P, cfg.IfaceRel, cfg.Iface)
	if iface == nil {
		c.Undecided("C27-V0", "anchors", 0, "interface not found")
		return
	}
	impls := ngImplementers(c.P, iface, cfg.ConvertM, cfg.SibRels)
	sibs := map[*types.Func]bool{}
	for _, f := range impls {
		sibs[f] = true
	}
	for _, f := range impls {
		sf := c.P.SSAFunc(f)
		key := ngFuncKey(f)
		if sf == nil || len(sf.Blocks) == 0 {
			c.Undecided("C27-V0", key+"/uses", f.Pos(), "no SSA body")
			continue
		}
		pv := ngParam(sf, 1)
		if pv == nil {
			c.Undecided("C27-V0", key+"/uses", f.Pos(), "value parameter not found")
			continue
		}
		v := ngTrack(pv)
		tr := map[ssa.Value]bool{v: true}
		isDeleg := func(cc *ssa.CallCommon) bool {
			args := cc.Args
			if cc.IsInvoke() {
				if cc.Method.Name() != cfg.ConvertM {
					return false
				}
			} else {
				fn := ngStaticCallee(cc)
				if fn == nil || !sibs[fn] {
					return false
				}
				args = args[1:]
			}
			return len(args) == 2 && ngCanon(args[1], tr) == v
		}
		spec := &NilGuardSpec{Deciders: map[*types.Func]NilDecider{}, NilPreds: map[*types.Func]int{}}
		// same-package helpers that themselves map nil to (nil, …, nil error) first (DecimalType_.ConvertToDecimal)
		spec.NilPreserving = func(call *ssa.Call) (int, int, int, bool) { return c27NilPreservingHelper(c, call) }
		spec.Delegate = func(call ssa.CallInstruction, uv ssa.Value) bool {
			if isDeleg(call.Common()) {
				return true
			}
			if cl, ok := call.(*ssa.Call); ok {
				if ai, _, _, ok := c27NilPreservingHelper(c, cl); ok && ai < len(cl.Call.Args) && cl.Call.Args[ai] == uv {
					return true // handing v to a helper that decides nil first
				}
			}
			return false
		}
		r := NilGuardAnalyze(sf, []ssa.Value{v}, spec)
		if len(r.Unguarded) == 0 {
			c.Ok("C27-V0", key+"/uses", f.Pos(), fmt.Sprintf("%d guarded uses, %d delegated, %d nil tests", r.Guarded, r.Delegated, r.Tests))
		} else {
			var path []string
			for _, u := range r.Unguarded {
				path = append(path, ngDescribeUse(c.P, u))
			}
			if why, ok := c27V0Exceptions[key+"/uses"]; ok && !c.fixtureMode {
				c.Exc("C27-V0", key+"/uses", f.Pos(), why)
			} else {
				c.Bad("C27-V0", key+"/uses", f.Pos(), fmt.Sprintf("%s uses v before deciding NULL: %d use(s) are not dominated by the non-nil edge of a nil test; NULL must convert to (nil, sql.InRange, nil) before anything else", key, len(r.Unguarded)), path...)
			}
		}
		var badRet []string
		for _, ret := range r.NilReturns {
			if ngOnErrorBranch(ret.Block(), v, spec, tr) {
				continue // error branch of a nil-preserving helper call on v: not taken when v is nil
			}
			if !c27NilReturnOK(ret, isInRange, isDeleg) {
				badRet = append(badRet, fmt.Sprintf("%s: this return can be reached with v == nil and is not (nil, sql.InRange, nil)", c.P.Rel(ret.Pos())))
			}
		}
		if len(badRet) == 0 {
			c.Ok("C27-V0", key+"/null-return", f.Pos(), fmt.Sprintf("%d return(s) outside the non-nil region, all (nil, InRange, nil) or delegations", len(r.NilReturns)))
		} else if why, ok := c27V0Exceptions[key+"/null-return"]; ok && !c.fixtureMode {
			c.Exc("C27-V0", key+"/null-return", f.Pos(), why)
		} else {
			c.Bad("C27-V0", key+"/null-return", f.Pos(), fmt.Sprintf("%s: a return reachable with a NULL input yields something other than (nil, sql.InRange, nil): NULL is stored as a non-NULL value or rejected", key), badRet...)
		}
	}
}

// c27NilPreservingHelper: the call is to a module function/method with a body that, for one
// of its interface-typed parameters receiving args[i], tests that parameter for nil before any
// other use and returns (nil first result, nil last-result error) on every return reachable with it
// nil. Returns (argument index, value result index, error result index).
var c27HelperMemo = map[*ssa.Function][3]int{}

func c27NilPreservingHelper(c *Ctx, call *ssa.Call) (int, int, int, bool) {
	f := call.Call.StaticCallee()
	if f == nil || len(f.Blocks) == 0 || f.Pkg == nil {
		return 0, 0, 0, false
	}
	path := f.Pkg.Pkg.Path()
	if pk := c.P.ByPath[path]; !(strings.HasPrefix(path, "vchk/") || pk != nil && pk.Module != nil && pk.Module.Main) {
		return 0, 0, 0, false
	}
	if m, ok := c27HelperMemo[f]; ok {
		return m[0], m[1], m[2], m[0] >= 0
	}
	c27HelperMemo[f] = [3]int{-1, 0, 0}
	nres := f.Signature.Results().Len()
	if nres < 2 || !IsErrorType(f.Signature.Results().At(nres-1).Type()) {
		return 0, 0, 0, false
	}
	for pi, p := range f.Params {
		if _, isIface := p.Type().Underlying().(*types.Interface); !isIface {
			continue
		}
		if f.Signature.Recv() != nil && pi == 0 {
			continue
		}
		sp := &NilGuardSpec{Deciders: map[*types.Func]NilDecider{}, NilPreds: map[*types.Func]int{}}
		pv := ngTrack(p)
		r := NilGuardAnalyze(f, []ssa.Value{pv}, sp)
		if len(r.Unguarded) > 0 || r.Tests == 0 {
			continue
		}
		ok := true
		for _, ret := range r.NilReturns {
			if len(ret.Results) != nres || !ngIsNilConst(ret.Results[0]) || !ngIsNilConst(ret.Results[nres-1]) {
				ok = false
			}
		}
		if ok {
			c27HelperMemo[f] = [3]int{pi, 0, nres - 1}
			return pi, 0, nres - 1, true
		}
	}
	return 0, 0, 0, false
}

func c27NilReturnOK(ret *ssa.Return, isInRange func(ssa.Value) bool, isDeleg func(*ssa.CallCommon) bool) bool {
	if len(ret.Results) != 3 {
		return false
	}
	if ngIsNilConst(ret.Results[0]) && isInRange(ret.Results[1]) && ngIsNilConst(ret.Results[2]) {
		return true
	}
	if ex, ok := ret.Results[0].(*ssa.Extract); ok && ex.Index == 0 {
		if call, ok := ex.Tuple.(*ssa.Call); ok && isDeleg(&call.Call) {
			e1, ok1 := ret.Results[1].(*ssa.Extract)
			e2, ok2 := ret.Results[2].(*ssa.Extract)
			return ok1 && ok2 && e1.Tuple == ex.Tuple && e2.Tuple == ex.Tuple
		}
	}
	return false
}

func c27FuncShort(fn *types.Func) string {
	s := FuncName(fn)
	if i := strings.Index(s, "."); i >= 0 {
		s = s[i+1:]
	}
	// strip the package path remainder (pkg paths contain '/', type/method names do not)
	if j := strings.LastIndex(s, "/"); j >= 0 {
		s = s[j+1:]
		if i := strings.Index(s, "."); i >= 0 {
			s = s[i+1:]
		}
	}
	return s
}

// c27InRangeReturns: the returns with the constant InRange flag that the conversion's value
// reaches as result 0, through boxing, phis, value-preserving conversions and math rounding.
func c27InRangeReturns(conv *ssa.Convert, flagIdx int, isInRange func(ssa.Value) bool) []*ssa.Return {
	var out []*ssa.Return
	seen := map[ssa.Value]bool{}
	var walk func(v ssa.Value)
	walk = func(v ssa.Value) {
		if seen[v] || v.Referrers() == nil {
			return
		}
		seen[v] = true
		for _, r := range *v.Referrers() {
			switch x := r.(type) {
			case *ssa.Return:
				if len(x.Results) > flagIdx && flagIdx >= 0 && x.Results[0] == v && isInRange(x.Results[flagIdx]) && !c27ErrNonNil(x) {
					out = append(out, x)
				}
			case *ssa.MakeInterface:
				walk(x)
			case *ssa.Phi:
				walk(x)
			case *ssa.ChangeType:
				walk(x)
			case *ssa.Convert:
				sr, _, ok1 := ivTypeRange(x.X.Type())
				dr, _, ok2 := ivTypeRange(x.Type())
				if ok1 && ok2 && sr.Within(dr) {
					walk(x)
				}
			}
		}
	}
	walk(conv)
	return out
}

// c27ErrNonNil: the return's last result is an error that is known non-nil at the return (the
// block is dominated by the err != nil edge of a test of that very value): the conversion
// reports a failure, the in-range flag is moot.
func c27ErrNonNil(ret *ssa.Return) bool {
	if len(ret.Results) == 0 {
		return false
	}
	e := ret.Results[len(ret.Results)-1]
	if !IsErrorType(e.Type()) || ngIsNilConst(e) {
		return false
	}
	if _, isConst := e.(*ssa.Const); isConst {
		return false
	}
	if _, isMk := e.(*ssa.MakeInterface); isMk {
		return true // a freshly built error value
	}
	if call, isCall := e.(*ssa.Call); isCall && IsErrorType(call.Type()) {
		// errors.Kind.New(...) and friends: constructors of non-nil errors are not modelled; only tested values count
		_ = call
	}
	for x := ret.Block(); x != nil; x = x.Idom() {
		if len(x.Preds) != 1 {
			continue
		}
		p := x.Preds[0]
		if len(p.Instrs) == 0 || len(p.Succs) != 2 || p.Succs[0] == p.Succs[1] {
			continue
		}
		iff, ok := p.Instrs[len(p.Instrs)-1].(*ssa.If)
		if !ok {
			continue
		}
		bo, ok := iff.Cond.(*ssa.BinOp)
		if !ok || (bo.Op != token.NEQ && bo.Op != token.EQL) {
			continue
		}
		var tested ssa.Value
		if ngIsNilConst(bo.Y) {
			tested = bo.X
		} else if ngIsNilConst(bo.X) {
			tested = bo.Y
		}
		if tested != e {
			continue
		}
		nonNilEdge := 0
		if bo.Op == token.EQL {
			nonNilEdge = 1
		}
		if p.Succs[nonNilEdge] == x {
			return true
		}
	}
	return false
}

// c27Arm names the base-type constant whose equality test dominates block b ("" if none).
func c27Arm(b *ssa.BasicBlock, baseType types.Type, baseName map[string]string) string {
	fn := b.Parent()
	if baseType == nil || fn.Signature.Recv() == nil || len(fn.Params) == 0 {
		return ""
	}
	recv := ngTrack(fn.Params[0]) // the parameter, or the cell it is spilled into when address-taken
	isRecv := func(v ssa.Value) bool {
		if v == recv || v == ssa.Value(fn.Params[0]) {
			return true
		}
		if ld, ok := v.(*ssa.UnOp); ok && ld.Op == token.MUL {
			return ld.X == recv
		}
		return false
	}
	ofRecv := func(v ssa.Value) bool {
		switch x := v.(type) {
		case *ssa.Field:
			return isRecv(x.X)
		case *ssa.UnOp:
			if fa, ok := x.X.(*ssa.FieldAddr); ok && x.Op == token.MUL {
				return isRecv(fa.X)
			}
		}
		return false
	}
	for x := b; x != nil; x = x.Idom() {
		if len(x.Preds) != 1 {
			continue
		}
		p := x.Preds[0]
		if len(p.Instrs) == 0 || len(p.Succs) != 2 || p.Succs[0] != x {
			continue
		}
		iff, ok := p.Instrs[len(p.Instrs)-1].(*ssa.If)
		if !ok {
			continue
		}
		bo, ok := iff.Cond.(*ssa.BinOp)
		if !ok || bo.Op != token.EQL {
			continue
		}
		for i, side := range []ssa.Value{bo.X, bo.Y} {
			other := bo.Y
			if i == 1 {
				other = bo.X
			}
			if !ofRecv(other) {
				continue
			}
			if k, ok := side.(*ssa.Const); ok && k.Value != nil && types.Identical(k.Type(), baseType) {
				if n, ok := baseName[k.Value.ExactString()]; ok {
					return n
				}
			}
		}
	}
	return ""
}
