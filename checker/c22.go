package main

import (
	"fmt"
	"go/ast"
	"go/token"
	"go/types"
	"sort"
	"strings"
)

type c22Target struct {
	pkgRel, typeName string
	isInterface      bool
	definitional     []string          // fields (struct) or methods (interface) that define the object
	nonDefinitional  map[string]string // member -> reason it is not part of the definition
}

type c22Names struct {
	rootRel, rootFunc        string
	formatterRel, formatterI string
	builderRel               string
	targets                  []c22Target
}

func init() {
	real := c22Names{
		rootRel: "sql/rowexec", rootFunc: "showCreateTablesIter.produceCreateTableStatement",
		formatterRel: "sql", formatterI: "SchemaFormatter", builderRel: "sql/planbuilder",
		targets: []c22Target{
			{pkgRel: "sql", typeName: "Column",
				definitional: []string{"Name", "Type", "Nullable", "Default", "Generated", "Virtual", "OnUpdate", "AutoIncrement", "Comment", "PrimaryKey", "HiddenSystem"},
				nonDefinitional: map[string]string{
					"Source":         "provenance: the table the column belongs to",
					"DatabaseSource": "provenance: the database the column belongs to",
					"Extra":          "display string for information_schema.columns, derived from the other attributes",
					"Hidden":         "no statement can set it at the pin (the field has no writer outside tests)",
				}},
			{pkgRel: "sql", typeName: "Index", isInterface: true,
				definitional: []string{"ID", "Expressions", "IsUnique", "IsSpatial", "IsFullText", "IsVector", "Comment", "PrefixLengths"},
				nonDefinitional: map[string]string{
					"Database":              "provenance",
					"Table":                 "provenance",
					"IndexType":             "only BTREE-like indexes exist; MySQL omits the default USING clause as well",
					"IsGenerated":           "internal indexes are an engine decision, not part of the user's definition",
					"ColumnExpressionTypes": "derived from Expressions and the table schema",
					"CanSupport":            "capability query",
					"CanSupportOrderBy":     "capability query",
					"CoversColumns":         "capability query",
				}},
			{pkgRel: "sql", typeName: "ForeignKeyConstraint",
				definitional: []string{"Name", "Columns", "ParentDatabase", "ParentTable", "ParentColumns", "OnUpdate", "OnDelete"},
				nonDefinitional: map[string]string{
					"Database":     "provenance: the child table's own database",
					"Table":        "provenance: the child table itself",
					"SchemaName":   "schemas are not supported by this engine (ErrDatabaseSchemasNotSupported)",
					"ParentSchema": "schemas are not supported by this engine (ErrDatabaseSchemasNotSupported)",
					"IsResolved":   "resolution state, not definition",
					"IsNotValid":   "creation-time option (skip validation of existing rows), no effect on the created object",
					"MatchType":    "parsed but never consulted by the engine",
				}},
			{pkgRel: "sql", typeName: "CheckConstraint",
				definitional: []string{"Name", "Expr", "Enforced"},
				nonDefinitional: map[string]string{
					"IsNotValid": "creation-time option (skip validation of existing rows)",
				}},
		},
	}
	fx := c22Names{
		rootRel: "testdata/c22/exec", rootFunc: "iter.produce", formatterRel: "testdata/c22/sql", formatterI: "SchemaFormatter", builderRel: "testdata/c22/exec",
		targets: []c22Target{
			{pkgRel: "testdata/c22/sql", typeName: "Column", definitional: []string{"Name", "Type", "Comment", "Invisible"}, nonDefinitional: map[string]string{"Source": "provenance"}},
			{pkgRel: "testdata/c22/sql", typeName: "Index", isInterface: true, definitional: []string{"ID", "IsUnique", "Comment"}, nonDefinitional: map[string]string{}},
		},
	}
	register(&Property{
		ID:       "C22",
		Patterns: []string{"./sql/rowexec", "./sql/analyzer"},
		Technique: "definitional-member coverage: struct fields / interface methods (go/types) versus the selections made on the SHOW CREATE TABLE path (root function, its direct callees, the schema formatter's methods and their direct callees); " +
			"object identity over go/ssa for the planner hand-over: alias closure of a locally created plan node, instruction-level reachability of its uses, interprocedural copy/retain/return summaries of callees " +
			"(interface calls entered with the caller's concrete type, else every implementation), who-writes versus who-reads per field of plan.ShowCreateTable",
		Explanation: "SHOW CREATE TABLE text is produced by showCreateTablesIter.produceCreateTableStatement together with the MySqlSchemaFormatter methods. An attribute of a column, index, foreign key or check " +
			"that this code never reads cannot appear in the printed statement, so re-running the statement cannot recreate it. Decided (F1): every member of the frozen definitional tables of sql.Column (11 fields), " +
			"sql.Index (8 methods), sql.ForeignKeyConstraint (7 fields) and sql.CheckConstraint (3 fields) is read somewhere on that path. Members in the frozen non-definitional table (with a reason each) are exempt; " +
			"a member in neither table is listed as unclassified information (it may be a cache) and does not fail the check. " +
			"Decided for the planner side (the statement is printed from what the planner hands to the executor, and the printed CREATE TABLE is planned by the same package): " +
			"(L1) in sql/planbuilder and sql/analyzer, a field store on a sql/plan struct that the storing function created itself (literal, constructor or With*-style copy, decided from the callee bodies) is observable: " +
			"after the store the object is read, passed on, returned, or it was already shared before; a store made after the node was handed to a copying call (e.g. modifySchemaTarget -> value-receiver WithTargetSchema) " +
			"with no later use of the original is a lost update and is reported with the copying call; " +
			"(L3) the copy returned by a With*-style method (fresh copy of its receiver with fields updated, receiver untouched, copy not registered anywhere — all implementations when the call is dynamic) is used by the caller; " +
			"(L2) every field of plan.ShowCreateTable that sql/rowexec reads (directly, through the node's accessors, or through a promoted member) has at least one live provider in the loaded engine packages: " +
			"a constructor literal, a field store that is not lost by L1, or a method of the node that stores the field and is called (for copying methods: with the result used, L3).",
		NotCovered: "that a member that is read is also printed correctly, that the printed text parses back to an identical object, table options beyond what the root function prints, " +
			"SHOW CREATE VIEW/TRIGGER/PROCEDURE/EVENT (stored and returned as text); " +
			"L1/L3: objects the function does not own (parameters, values loaded from memory, values merged at a join point), nodes captured by closures, values written correctly but wrong, " +
			"copies that are used but are the wrong version (a stale original passed on instead of the copy); L2 is a may-analysis (one live provider anywhere suffices; not that every planner path provides the field, " +
			"not that the provided value is right) and sees only providers inside the loaded packages (quick tier: closure of sql/rowexec and sql/analyzer; thorough tier: the whole engine)",
		Run: func(c *Ctx) {
			runC22(c, real, 29)
			runC22Lost(c, c22RealLostNames(c))
			dumpObsIfAsked(c)
		},
		Fixture: func(c *Ctx, fx2 *Prog) {
			expectFixture(c, fx2, "c22: a definitional field and a definitional index method that the path never reads must be reported",
				[]string{"C22-F1:Column.Invisible", "C22-F1:Index.Comment"},
				func(fc *Ctx) { runC22(fc, fx, 0) })
			expectFixture(c, fx2, "c22-lost: a store on the stale original after the copying call, a dropped With* copy, and executor-read fields without a live provider must be reported; "+
				"stores before the copy, stores on a node that is already shared, and used copies must stay silent",
				[]string{"C22-L1:Builder.buildStale/Show.Order", "C22-L2:Show.Hint", "C22-L2:Show.Order", "C22-L3:Builder.buildDropped/KeyTarget.WithKey"},
				func(fc *Ctx) {
					runC22Lost(fc, c22LostNames{nodeRel: "testdata/c22/lost/plan", scanRels: []string{"testdata/c22/lost/builder"},
						execRel: "testdata/c22/lost/exec", nodeType: "Show"})
				})
		},
		FixturePkgs: []string{"./testdata/c22/exec", "./testdata/c22/sql", "./testdata/c22/lost/plan", "./testdata/c22/lost/builder", "./testdata/c22/lost/exec"},
	})
}

func runC22(c *Ctx, nm c22Names, floor int) {
	if c.fixtureMode {
		floor = 0
	}
	c.Rule("C22-F1", "every member of the definitional tables (fields of Column, ForeignKeyConstraint, CheckConstraint; methods of Index) is selected in "+nm.rootFunc+
		", one of its direct callees, a "+nm.formatterI+" method it calls, or a direct callee of those", floor)
	rootPk, rootFd := c.P.FuncDecl(nm.rootRel, nm.rootFunc)
	if rootFd == nil || rootPk == nil {
		c.Undecided("C22-F1", "root", 0, "root function not found: "+nm.rootFunc)
		return
	}
	fpk := c.P.Pkg(nm.formatterRel)
	var fmtIface *types.Interface
	if fpk != nil {
		if tn, ok := fpk.Types.Scope().Lookup(nm.formatterI).(*types.TypeName); ok {
			fmtIface, _ = tn.Type().Underlying().(*types.Interface)
		}
	}
	if fmtIface == nil {
		c.Undecided("C22-F1", nm.formatterI, 0, "formatter interface not found")
		return
	}
	// implementations of the formatter interface in the loaded module packages
	var impls []*types.Named
	for _, pk := range c.P.Module {
		for _, n := range pk.Types.Scope().Names() {
			tn, ok := pk.Types.Scope().Lookup(n).(*types.TypeName)
			if !ok || tn.IsAlias() {
				continue
			}
			nt, ok := tn.Type().(*types.Named)
			if !ok {
				continue
			}
			if _, isI := nt.Underlying().(*types.Interface); isI {
				continue
			}
			if types.Implements(nt, fmtIface) || types.Implements(types.NewPointer(nt), fmtIface) {
				impls = append(impls, nt)
			}
		}
	}
	if len(impls) == 0 {
		c.Undecided("C22-F1", nm.formatterI, 0, "no implementation of the formatter interface in the loaded packages")
		return
	}
	// path: level 0 root, level 1 direct callees (+ formatter methods), level 2 direct callees of level 1
	level := map[*types.Func]int{}
	var order []*types.Func
	add := func(fn *types.Func, l int) {
		if fn == nil {
			return
		}
		fn = fn.Origin()
		if c.P.Decl(fn) == nil {
			return
		}
		if _, seen := level[fn]; seen {
			return
		}
		level[fn] = l
		order = append(order, fn)
	}
	rootFn := LookupFunc(rootPk, nm.rootFunc)
	add(rootFn, 0)
	for i := 0; i < len(order); i++ {
		fn := order[i]
		if level[fn] >= 2 {
			continue
		}
		fd := c.P.Decl(fn)
		info := c.P.PkgOf(fn).TypesInfo
		ast.Inspect(fd.Body, func(n ast.Node) bool {
			call, ok := n.(*ast.CallExpr)
			if !ok {
				return true
			}
			callee := Callee(info, call)
			if callee == nil {
				return true
			}
			if sig, ok := callee.Type().(*types.Signature); ok && sig.Recv() != nil {
				if _, isI := sig.Recv().Type().Underlying().(*types.Interface); isI {
					// interface call: only the formatter interface is resolved to its implementations
					if types.Identical(sig.Recv().Type().Underlying(), fmtIface) {
						for _, im := range impls {
							obj, _, _ := types.LookupFieldOrMethod(types.NewPointer(im), true, im.Obj().Pkg(), callee.Name())
							if m, ok := obj.(*types.Func); ok {
								add(m, level[fn]+1)
							}
						}
					}
					return true
				}
			}
			add(callee, level[fn]+1)
			return true
		})
	}
	var pathNames []string
	for _, fn := range order {
		pathNames = append(pathNames, fmt.Sprintf("%s@%d", FuncName(fn), level[fn]))
	}
	c.Notef("SHOW CREATE TABLE path (%d functions): %s", len(order), strings.Join(pathNames, ", "))

	// selections made on the path: "pkgpath.Type.Member" -> first position
	reads := map[string]token.Pos{}
	for _, fn := range order {
		fd := c.P.Decl(fn)
		info := c.P.PkgOf(fn).TypesInfo
		lhs := map[ast.Expr]bool{}
		ast.Inspect(fd.Body, func(n ast.Node) bool {
			switch x := n.(type) {
			case *ast.AssignStmt:
				for _, l := range x.Lhs {
					lhs[ast.Unparen(l)] = true
				}
			case *ast.SelectorExpr:
				if lhs[x] {
					return true
				}
				s := info.Selections[x]
				if s == nil {
					return true
				}
				t := s.Recv()
				if p, ok := types.Unalias(t).(*types.Pointer); ok {
					t = p.Elem()
				}
				nt, ok := types.Unalias(t).(*types.Named)
				if !ok || nt.Obj().Pkg() == nil {
					return true
				}
				key := nt.Obj().Pkg().Path() + "." + nt.Obj().Name() + "." + x.Sel.Name
				if _, seen := reads[key]; !seen {
					reads[key] = x.Pos()
				}
			}
			return true
		})
	}

	for _, tg := range nm.targets {
		pk := c.P.Pkg(tg.pkgRel)
		if pk == nil {
			c.Undecided("C22-F1", tg.typeName, 0, "package not loaded: "+tg.pkgRel)
			continue
		}
		tn, _ := pk.Types.Scope().Lookup(tg.typeName).(*types.TypeName)
		if tn == nil {
			c.Undecided("C22-F1", tg.typeName, 0, "type not found")
			continue
		}
		members := map[string]token.Pos{}
		switch u := tn.Type().Underlying().(type) {
		case *types.Struct:
			for i := 0; i < u.NumFields(); i++ {
				members[u.Field(i).Name()] = u.Field(i).Pos()
			}
		case *types.Interface:
			for i := 0; i < u.NumMethods(); i++ {
				members[u.Method(i).Name()] = u.Method(i).Pos()
			}
		}
		prefix := pk.Types.Path() + "." + tg.typeName + "."
		for _, m := range tg.definitional {
			key := tg.typeName + "." + m
			mpos, exists := members[m]
			if !exists {
				c.Undecided("C22-F1", key, tn.Pos(), "definitional member no longer exists on the type: the frozen table is stale")
				continue
			}
			if pos, ok := reads[prefix+m]; ok {
				c.Ok("C22-F1", key, pos, "read at "+c.P.Rel(pos))
			} else {
				c.Bad("C22-F1", key, mpos, fmt.Sprintf("%s.%s is part of the object's definition but is never read by %s, its direct callees or the %s methods: SHOW CREATE TABLE cannot print it, so the printed statement does not recreate the object", tg.typeName, m, nm.rootFunc, nm.formatterI))
			}
		}
		var unclassified []string
		for m := range members {
			if contains(tg.definitional, m) {
				continue
			}
			if _, ok := tg.nonDefinitional[m]; ok {
				continue
			}
			unclassified = append(unclassified, m)
		}
		sort.Strings(unclassified)
		for _, m := range unclassified {
			_, read := reads[prefix+m]
			c.Note("C22-F1", "unclassified/"+tg.typeName+"."+m, members[m], fmt.Sprintf("member is in neither table (read on the path: %v); classify it when it becomes part of a definition", read))
		}
	}
}
