package main

import (
	"go/ast"
	"go/types"

	"golang.org/x/tools/go/packages"
)

// C23-T6 (a trigger is found whatever the spelling of its table): object names are
// case-insensitive, and trigger definitions carry the table name as written. Every comparison in
// the analyzer that decides whether a trigger (or any named object) belongs to a table and has one
// operand visibly lower-cased must have the other operand lower-cased as well (or constant):
// otherwise the decision "this table has a DELETE trigger, do not rewrite to TRUNCATE" / "this
// trigger applies" is false for every table with an upper-case letter in its name, and the
// trigger fires zero times. Engine: eng_fold.go.
var c23FoldExceptions = map[string]string{}

// c23UsesTriggerDefs: the function handles trigger definitions (some expression in it has the
// trigger-definition node type, or a slice of it).
func c23UsesTriggerDefs(planRel, typeName string) func(pk *packages.Package, fd *ast.FuncDecl) bool {
	return func(pk *packages.Package, fd *ast.FuncDecl) bool {
		found := false
		isDef := func(t types.Type) bool {
			for i := 0; i < 3 && t != nil; i++ {
				switch x := types.Unalias(t).(type) {
				case *types.Pointer:
					t = x.Elem()
				case *types.Slice:
					t = x.Elem()
				case *types.Named:
					return x.Obj().Name() == typeName && x.Obj().Pkg() != nil && (x.Obj().Pkg().Path() == modPath+"/"+planRel || x.Obj().Pkg().Path() == "vchk/"+planRel)
				default:
					return false
				}
			}
			return false
		}
		ast.Inspect(fd.Body, func(n ast.Node) bool {
			if e, ok := n.(ast.Expr); ok && !found {
				if tv, ok := pk.TypesInfo.Types[e]; ok && isDef(tv.Type) {
					found = true
				}
			}
			return !found
		})
		return found
	}
}

func runC23Fold(c *Ctx, rels []string, floor int, only func(*packages.Package, *ast.FuncDecl) bool) {
	const rule = "C23-T6"
	c.Rule(rule, "in every analyzer function that handles trigger definitions, every string equality with one visibly lower-cased operand (strings.ToLower call, or a local only assigned from such calls) has its other operand lower-cased too, or constant: name comparisons that select triggers / guard the DELETE->TRUNCATE rewrite are case-insensitive on both sides", floor)
	sites, compared := foldAsymmetricCompares(c.P, rels, only)
	for _, s := range sites {
		if why := c23FoldExceptions[s.key]; why != "" {
			c.Exc(rule, s.key, s.pos, why)
			continue
		}
		c.Bad(rule, s.key, s.pos, "the comparison folds `"+s.folded+"` to lower case but compares it with `"+s.raw+"`, which is never folded in this function: it is false for every name containing an upper-case letter, so the guard or selection it implements does not apply to such objects")
	}
	for i := 0; i < compared-len(sites); i++ {
		c.Ok(rule, "symmetric comparison", 0, "both operands folded, or one is a constant")
	}
}
